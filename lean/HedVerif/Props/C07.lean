/-
C07 — File-level validation equals row-by-row string validation, with true locations.
Theorems about `Tabular.validate` (lean/HedVerif/Model/Tabular.lean) for ALL tables, configurations and
string-level oracles.
-/
import HedVerif.Model.Tabular
import HedVerif.Props.C10
namespace HedVerif.C07
open HedVerif.Tabular

/-! ### lists -/

theorem insertT_perm {β} (x : Int × β) (l : List (Int × β)) : (insertT x l).Perm (x :: l) := by
  induction l with
  | nil => exact List.Perm.refl _
  | cons y ys ih =>
    unfold insertT
    split
    · exact List.Perm.refl _
    · exact (List.Perm.cons y ih).trans (List.Perm.swap x y ys)

theorem sortT_perm {β} (l : List (Int × β)) : (sortT l).Perm l := by
  induction l with
  | nil => exact List.Perm.refl _
  | cons x xs ih => exact (insertT_perm x (sortT xs)).trans (List.Perm.cons x ih)

/-- the sort of the model is the sort of C10's `Temporal.sortRows` -/
theorem sortT_eq_sortRows (l : List Temporal.TRow) :
    sortT (l.map fun r => (r.time, r)) = (Temporal.sortRows l).map fun r => (r.time, r) := by
  have ins : ∀ (x : Temporal.TRow) (m : List Temporal.TRow),
      insertT (x.time, x) (m.map fun r => (r.time, r)) = (Temporal.insertRow x m).map fun r => (r.time, r) := by
    intro x m
    induction m with
    | nil => rfl
    | cons y ys ih =>
      simp only [List.map_cons, insertT, Temporal.insertRow]
      split
      · rfl
      · simp only [List.map_cons, ih]
  induction l with
  | nil => rfl
  | cons x xs ih => simp only [List.map_cons, sortT, Temporal.sortRows, ih, ins]

theorem insertI_perm (x : Issue) (l : List Issue) : (insertI x l).Perm (x :: l) := by
  induction l with
  | nil => exact List.Perm.refl _
  | cons y ys ih =>
    unfold insertI
    split
    · exact List.Perm.refl _
    · exact (List.Perm.cons y ih).trans (List.Perm.swap x y ys)

theorem sortIssues_perm (l : List Issue) : (sortIssues l).Perm l := by
  induction l with
  | nil => exact List.Perm.refl _
  | cons x xs ih => exact (insertI_perm x (sortIssues xs)).trans (List.Perm.cons x ih)

theorem mem_enumF {α} (l : List α) (n k : Nat) (x : α) :
    (k, x) ∈ enumF n l ↔ n ≤ k ∧ l[k - n]? = some x := by
  induction l generalizing n with
  | nil => simp [enumF]
  | cons y ys ih =>
    simp only [enumF, List.mem_cons, Prod.mk.injEq, ih]
    constructor
    · rintro (⟨rfl, rfl⟩ | ⟨h1, h2⟩)
      · simp
      · refine ⟨by omega, ?_⟩
        have : k - n = (k - (n + 1)) + 1 := by omega
        rw [this]; simpa using h2
    · rintro ⟨h1, h2⟩
      by_cases hk : k = n
      · subst hk; simp at h2; exact Or.inl ⟨rfl, h2.symm⟩
      · right
        refine ⟨by omega, ?_⟩
        have : k - n = (k - (n + 1)) + 1 := by omega
        rw [this] at h2; simpa using h2

theorem enumF_length {α} (l : List α) (n : Nat) : (enumF n l).length = l.length := by
  induction l generalizing n with
  | nil => rfl
  | cons y ys ih => simp [enumF, ih]

theorem enumF_getElem? {α} (l : List α) (n p : Nat) :
    (enumF n l)[p]? = (l[p]?).map fun x => (n + p, x) := by
  induction l generalizing n p with
  | nil => simp [enumF]
  | cons y ys ih =>
    cases p with
    | zero => simp [enumF]
    | succ p => simp only [enumF, List.getElem?_cons_succ, ih]; congr 1; funext x; congr 1; omega

/-- position `p` of a labelled frame: its row is at position `p` of the rows, its label at `p` of the labels -/
theorem frame_pos (F : List (Nat × Row)) (p : Nat) (r : Row) (h : (p, r) ∈ enumF 0 (F.map (·.2))) :
    ∃ k, (k, r) ∈ F ∧ (F.map (·.1))[p]?.getD 0 = k := by
  rw [mem_enumF] at h
  simp only [Nat.sub_zero, List.getElem?_map, Option.map_eq_some_iff] at h
  obtain ⟨_, kr, hkr, rfl⟩ := h
  refine ⟨kr.1, List.mem_of_getElem? hkr, ?_⟩
  simp [List.getElem?_map, hkr]

/-! ### the processed frame is a permutation of the file's rows, labels kept -/

theorem numeric_map (F : List (Nat × Row)) :
    (numeric F).map (·.2) = F.filter fun kr => kr.2.onset.isSome := by
  induction F with
  | nil => rfl
  | cons x xs ih =>
    unfold numeric at *
    cases h : x.2.onset <;> simp [h, ih]

theorem sortFrame_perm (F : List (Nat × Row)) : (sortFrame F).Perm F := by
  unfold sortFrame
  have h1 : ((sortT (numeric F)).map (·.2)).Perm (F.filter fun kr => kr.2.onset.isSome) := by
    rw [← numeric_map]; exact (sortT_perm _).map _
  have h2 : nans F = F.filter fun kr => !(kr.2.onset.isSome) := by
    unfold nans; congr 1; funext kr; cases kr.2.onset <;> rfl
  rw [h2]
  exact (List.Perm.append_right _ h1).trans (List.filter_append_perm _ F)

theorem frame_perm (cfg : Cfg) (T : List Row) : (frame cfg T).Perm (enumF 0 T) := by
  unfold frame
  split
  · exact sortFrame_perm _
  · exact List.Perm.refl _

theorem frame_mem (cfg : Cfg) (T : List Row) (k : Nat) (r : Row) :
    (k, r) ∈ frame cfg T ↔ T[k]? = some r := by
  rw [(frame_perm cfg T).mem_iff, mem_enumF]; simp

/-! ### shape of the result -/

theorem validate_ok {cfg : Cfg} {T : List Row} {out : List Issue} (h : validate cfg T = .ok out) :
    ∃ ol, out = assemble cfg T ol ∧
      (cfg.hasOnset = true → cfg.maskByRow = true → ol = fun pr => pr.2.onset.isSome) ∧
      (cfg.hasOnset = false → ol = fun _ => false) := by
  unfold validate at h
  by_cases ho : cfg.hasOnset = true
  · simp only [ho, if_true] at h
    split at h
    · cases h
    · split at h
      · cases h
      · injection h with h
        refine ⟨_, h.symm, ?_, by simp [ho]⟩
        intro _ hm; funext pr; simp [hm, hasTime]
  · simp only [ho] at h
    injection h with h
    exact ⟨_, h.symm, by simp [ho], fun _ => rfl⟩

/-! ### where issues come from -/

theorem liveFrom_mem (n : Nat) (cols cells : List Str) (c : Nat) (name x : Str)
    (h : (c, name, x) ∈ liveFrom n cols cells) :
    n ≤ c ∧ cols[c - n]? = some name ∧ cells[c - n]? = some x ∧ isSkip x = false := by
  induction cols generalizing n cells with
  | nil => simp [liveFrom] at h
  | cons a as ih =>
    cases cells with
    | nil => simp [liveFrom] at h
    | cons y ys =>
      unfold liveFrom at h
      have tl : (c, name, x) ∈ liveFrom (n + 1) as ys →
          n ≤ c ∧ (a :: as)[c - n]? = some name ∧ (y :: ys)[c - n]? = some x ∧ isSkip x = false := by
        intro h'
        obtain ⟨h1, h2, h3, h4⟩ := ih (n + 1) ys h'
        have : c - n = (c - (n + 1)) + 1 := by omega
        rw [this]
        exact ⟨by omega, by simpa using h2, by simpa using h3, h4⟩
      split at h
      · exact tl h
      · rcases List.mem_cons.mp h with h | h
        · injection h with h1 h2; injection h2 with h2 h3
          subst h1 h2 h3
          simp_all
        · exact tl h

theorem mem_cellIssues {cfg : Cfg} {p : Nat} {r : Row} {i : Issue} (h : i ∈ cellIssues cfg p r) :
    ∃ c name x e, (c, name, x) ∈ live cfg r ∧ e ∈ cfg.o.cell x ∧ i = mk e (some p) (some name) x (.cell p c) := by
  unfold cellIssues at h
  simp only [List.mem_flatMap, List.mem_map] at h
  obtain ⟨⟨c, name, x⟩, hc, e, he, rfl⟩ := h
  exact ⟨c, name, x, e, hc, he, rfl⟩

/-- an issue of `_run_checks` for the row at position `p` -/
inductive RowIssue (cfg : Cfg) (p : Nat) (r : Row) (i : Issue) : Prop where
  | cell (c : Nat) (name x : Str) (e : RIssue) (hc : (c, name, x) ∈ live cfg r) (he : e ∈ cfg.o.cell x)
      (hi : i = mk e (some p) (some name) x (.cell p c))
  | row (e : RIssue) (he : e ∈ cfg.o.full (rowText cfg r) ++ cfg.o.banned (rowText cfg r))
      (hi : i = mk e (some p) none (rowText cfg r) (.row p))

theorem mem_checkRow {cfg : Cfg} {b : Bool} {p : Nat} {r : Row} {i : Issue}
    (h : i ∈ (checkRow cfg b p r).issues) : RowIssue cfg p r i := by
  unfold checkRow at h
  have hc : i ∈ cellIssues cfg p r → RowIssue cfg p r i := by
    intro h'
    obtain ⟨c, name, x, e, h1, h2, h3⟩ := mem_cellIssues h'
    exact .cell c name x e h1 h2 h3
  split at h
  · exact hc h
  · split at h
    · exact hc h
    · rcases List.mem_append.mp h with h | h
      · exact hc h
      · obtain ⟨e, he, rfl⟩ := List.mem_map.mp h
        exact .row e he rfl

theorem mergeF_origs (l : List (Int × Str × Nat)) : (mergeF l).map (·.2.2) = l.map (·.2.2) := by
  induction l with
  | nil => rfl
  | cons x xs ih =>
    unfold mergeF
    split
    · rename_i h; rw [h] at ih; cases xs <;> simp_all
    · rename_i y ys h
      rw [h] at ih
      split <;> simp_all

theorem splitFrame_origs (cfg : Cfg) (R : List Row) : ∀ x ∈ splitFrame cfg R, x.2.2 < R.length := by
  intro x hx
  unfold splitFrame ownFrame at hx
  have hb : ∀ pr ∈ enumF 0 R, pr.1 < R.length := by
    rintro ⟨p, r⟩ h
    rw [mem_enumF] at h
    have := h.2
    simp at this
    obtain ⟨hl, _⟩ := List.getElem?_eq_some_iff.mp this
    exact hl
  rcases List.mem_append.mp hx with h | h
  · obtain ⟨pr, hpr, h2⟩ := List.mem_filterMap.mp h
    cases ho : pr.2.onset with
    | none => simp [ho] at h2
    | some t => simp [ho] at h2; subst h2; exact hb pr hpr
  · obtain ⟨pr, hpr, h2⟩ := List.mem_flatMap.mp h
    unfold movedRows at h2
    obtain ⟨it, _, h3⟩ := List.mem_filterMap.mp h2
    split at h3
    · obtain ⟨t, _, rfl⟩ := Option.map_eq_some_iff.mp h3
      exact hb pr hpr
    · cases h3

theorem timeFrame_origs (cfg : Cfg) (R : List Row) : ∀ x ∈ timeFrame cfg R, x.2.2 < R.length := by
  intro x hx
  have h1 : x.2.2 ∈ (timeFrame cfg R).map (·.2.2) := List.mem_map_of_mem hx
  unfold timeFrame at h1
  rw [mergeF_origs] at h1
  obtain ⟨y, hy, hxy⟩ := List.mem_map.mp h1
  rw [← hxy]
  exact splitFrame_origs cfg R y ((sortT_perm _).mem_iff.mp hy)

/-- an issue of `_run_onset_checks`: found on a time point's string, labelled with the time point's head row -/
theorem mem_pointPass {cfg : Cfg} {inv : List Nat} {tf : List (Int × Str × Nat)} {i : Issue}
    (h : i ∈ pointPass cfg inv tf) :
    ∃ x ∈ tf, i.row = some x.2.2 ∧ i.col = none ∧ i.text = x.2.1 ∧
      (i.src = .point x.2.2 ∨ i.src = .temporal x.2.2) := by
  unfold pointPass at h
  have hl : ∀ sp ∈ livePoints inv tf, ∃ x ∈ tf, sp = x.2 := by
    intro sp hsp
    unfold livePoints at hsp
    obtain ⟨x, hx, rfl⟩ := List.mem_map.mp hsp
    exact ⟨x, (List.mem_filter.mp hx).1, rfl⟩
  rcases List.mem_append.mp h with h | h
  · obtain ⟨sp, hsp, h2⟩ := List.mem_flatMap.mp h
    obtain ⟨e, _, rfl⟩ := List.mem_map.mp h2
    obtain ⟨x, hx, rfl⟩ := hl sp hsp
    exact ⟨x, hx, rfl, rfl, rfl, Or.inl rfl⟩
  · obtain ⟨te, _, h2⟩ := List.mem_filterMap.mp h
    obtain ⟨sp, hsp, rfl⟩ := Option.map_eq_some_iff.mp h2
    obtain ⟨x, hx, rfl⟩ := hl sp (List.mem_of_getElem? hsp)
    exact ⟨x, hx, rfl, rfl, rfl, Or.inr rfl⟩

/-- an issue of the core: which position of the processed frame it belongs to -/
theorem mem_core {cfg : Cfg} {ol : Nat × Row → Bool} {R : List Row} {i : Issue} (h : i ∈ core cfg ol R) :
    (∃ p r, (p, r) ∈ enumF 0 R ∧ RowIssue cfg p r i) ∨
    (∃ x ∈ timeFrame cfg R, x.2.2 < R.length ∧ i.row = some x.2.2 ∧ i.col = none ∧ i.text = x.2.1 ∧
      (i.src = .point x.2.2 ∨ i.src = .temporal x.2.2)) := by
  unfold core at h
  rcases List.mem_append.mp h with h | h
  · left
    obtain ⟨res, hres, hi⟩ := List.mem_flatMap.mp h
    unfold rowPhase at hres
    obtain ⟨⟨p, r⟩, hpr, rfl⟩ := List.mem_map.mp hres
    exact ⟨p, r, hpr, mem_checkRow hi⟩
  · right
    split at h
    · obtain ⟨x, hx, h1, h2, h3, h4⟩ := mem_pointPass h
      exact ⟨x, hx, timeFrame_origs cfg R x hx, h1, h2, h3, h4⟩
    · cases h

/-! ### labels -/

theorem mem_keyIssuesFrom {cfg : Cfg} {k c : Nat} {cs : List (Str × List Str)} {vs : List Str} {i : Issue}
    (h : i ∈ keyIssuesFrom cfg k c cs vs) :
    ∃ j name keys v, cs[j]? = some (name, keys) ∧ vs[j]? = some v ∧ v ≠ na ∧ v ∉ keys ∧
      i = mk cfg.kKey (some (k + cfg.rowAdj)) (some name) [] (.key k (c + j)) := by
  induction cs generalizing c vs with
  | nil => simp [keyIssuesFrom] at h
  | cons a as ih =>
    cases vs with
    | nil => simp [keyIssuesFrom] at h
    | cons v vs =>
      obtain ⟨name, keys⟩ := a
      unfold keyIssuesFrom at h
      rcases List.mem_append.mp h with h | h
      · split at h
        · rename_i hcond
          simp at hcond
          simp at h
          exact ⟨0, name, keys, v, rfl, rfl, hcond.1, hcond.2, h⟩
        · cases h
      · obtain ⟨j, n', ks', v', h1, h2, h3, h4, h5⟩ := ih h
        refine ⟨j + 1, n', ks', v', by simpa using h1, by simpa using h2, h3, h4, ?_⟩
        rw [h5]; congr 2; omega

/-- where an issue's label points to and which text it was found in -/
def WellLabelled (cfg : Cfg) (T : List Row) (i : Issue) : Prop :=
  match i.src with
  | .mapping | .ref | .unordered => i.row = none ∧ i.col = none
  | .key k c => ∃ r name keys v, T[k]? = some r ∧ cfg.catCols[c]? = some (name, keys) ∧ r.cats[c]? = some v ∧
      v ≠ na ∧ v ∉ keys ∧ i.row = some (k + cfg.rowAdj) ∧ i.col = some name
  | .cell _ c => ∃ k r name, T[k]? = some r ∧ cfg.columns[c]? = some name ∧ r.cells[c]? = some i.text ∧
      isSkip i.text = false ∧ (⟨i.kind, i.sev⟩ : RIssue) ∈ cfg.o.cell i.text ∧
      i.row = some (k + cfg.rowAdj) ∧ i.col = some name
  | .row _ => ∃ k r, T[k]? = some r ∧ i.text = rowText cfg r ∧ i.row = some (k + cfg.rowAdj) ∧ i.col = none
  | .point _ | .temporal _ => ∃ k, k < T.length ∧ i.row = some (k + cfg.rowAdj) ∧ i.col = none

theorem structIssues_labelled (cfg : Cfg) (T : List Row) : ∀ i ∈ structIssues cfg T, WellLabelled cfg T i := by
  intro i hi
  unfold structIssues at hi
  simp only [List.mem_append] at hi
  rcases hi with (hi | hi) | hi
  · obtain ⟨e, _, rfl⟩ := List.mem_map.mp hi
    simp [WellLabelled, mk]
  · obtain ⟨⟨k, r⟩, hkr, h2⟩ := List.mem_flatMap.mp hi
    obtain ⟨j, name, keys, v, h3, h4, h5, h6, rfl⟩ := mem_keyIssuesFrom h2
    have hT : T[k]? = some r := by simpa using ((mem_enumF T 0 k r).mp hkr).2
    simp only [WellLabelled, mk, Nat.zero_add]
    exact ⟨r, name, keys, v, hT, h3, h4, h5, h6, by simp, by simp⟩
  · obtain ⟨e, _, rfl⟩ := List.mem_map.mp hi
    simp [WellLabelled, mk]

/-- `labels`: every issue's `ec_row` is the 1-based file row (header counted via `rowAdj`) of a row of the file;
an issue found in a single cell carries that cell's column and was found in that cell's text of that row; an
issue of the joined row carries no column and was found in the join of that row's cells; column-structure
issues point at the row holding the unknown key. -/
theorem labels (cfg : Cfg) (T : List Row) (out : List Issue) (h : validate cfg T = .ok out) :
    ∀ i ∈ out, WellLabelled cfg T i := by
  obtain ⟨ol, rfl, -, -⟩ := validate_ok h
  intro i hi
  unfold assemble at hi
  have hi := (sortIssues_perm _).mem_iff.mp hi
  simp only [List.mem_append] at hi
  rcases hi with (hi | hi) | hi
  · exact structIssues_labelled cfg T i hi
  · unfold unorderedIssues at hi
    split at hi
    · simp at hi; subst hi; simp [WellLabelled, mk]
    · cases hi
  · obtain ⟨j, hj, rfl⟩ := List.mem_map.mp hi
    rcases mem_core hj with ⟨p, r, hpr, hri⟩ | ⟨x, -, hp, h1, h2, -, h3⟩
    · obtain ⟨k, hk, hlab⟩ := frame_pos _ p r hpr
      have hT : T[k]? = some r := (frame_mem cfg T k r).mp hk
      cases hri with
      | cell c name x e hc he hi =>
        subst hi
        obtain ⟨_, h2, h3, h4⟩ := liveFrom_mem 0 _ _ c name x hc
        simp only [WellLabelled, relabel, mk, Option.map_some, hlab]
        exact ⟨k, r, name, hT, by simpa using h2, by simpa using h3, h4, he, by simp, by simp⟩
      | row e he hi =>
        subst hi
        simp only [WellLabelled, relabel, mk, Option.map_some, hlab]
        exact ⟨k, r, hT, by simp, by simp, by simp⟩
    · generalize x.2.2 = p at hp h1 h3
      have hp' : p < (frame cfg T).length := by simpa using hp
      have hk : ((frame cfg T)[p].1, (frame cfg T)[p].2) ∈ frame cfg T := List.getElem_mem hp'
      have hT := (frame_mem cfg T _ _).mp hk
      have hlt : (frame cfg T)[p].1 < T.length := (List.getElem?_eq_some_iff.mp hT).1
      have hlab : ((frame cfg T).map (·.1))[p]?.getD 0 = (frame cfg T)[p].1 := by
        simp [List.getElem?_map, List.getElem?_eq_getElem hp']
      rcases h3 with h3 | h3 <;>
      · simp only [WellLabelled, relabel, h3, h1, h2, Option.map_some, hlab]
        exact ⟨_, hlt, by simp, by simp⟩

/-! ### every cell issue is reported -/

theorem cellIssues_sub {cfg : Cfg} {b : Bool} {p : Nat} {r : Row} {i : Issue} (h : i ∈ cellIssues cfg p r) :
    i ∈ (checkRow cfg b p r).issues := by
  unfold checkRow
  split
  · exact h
  · split
    · exact h
    · exact List.mem_append_left _ h

/-- `cell_errors_kept`: every issue (in particular every error) the per-cell check finds in a looked-at cell is
reported, with the file row and the column of the cell. -/
theorem cell_errors_kept (cfg : Cfg) (T : List Row) (out : List Issue) (h : validate cfg T = .ok out)
    (k : Nat) (r : Row) (hk : T[k]? = some r) (c : Nat) (name x : Str) (hc : (c, name, x) ∈ live cfg r)
    (e : RIssue) (he : e ∈ cfg.o.cell x) :
    ∃ i ∈ out, i.kind = e.kind ∧ i.sev = e.sev ∧ i.row = some (k + cfg.rowAdj) ∧ i.col = some name ∧ i.text = x := by
  obtain ⟨ol, rfl, -, -⟩ := validate_ok h
  have hF := (frame_mem cfg T k r).mpr hk
  obtain ⟨p, hp⟩ := List.getElem?_of_mem hF
  have hpr : (p, r) ∈ enumF 0 ((frame cfg T).map (·.2)) := by
    rw [mem_enumF]; simp [List.getElem?_map, hp]
  refine ⟨relabel ((frame cfg T).map (·.1)) cfg.rowAdj (mk e (some p) (some name) x (.cell p c)), ?_, ?_⟩
  · unfold assemble
    rw [(sortIssues_perm _).mem_iff]
    refine List.mem_append_right _ (List.mem_map_of_mem ?_)
    unfold core
    refine List.mem_append_left _ (List.mem_flatMap.mpr ⟨checkRow cfg (ol (p, r)) p r, ?_, cellIssues_sub ?_⟩)
    · unfold rowPhase; exact List.mem_map.mpr ⟨(p, r), hpr, rfl⟩
    · unfold cellIssues
      exact List.mem_flatMap.mpr ⟨(c, name, x), hc, List.mem_map.mpr ⟨e, he, rfl⟩⟩
  · simp [relabel, mk, List.getElem?_map, hp]

/-! ### span remapping of `from_hed_strings` -/

theorem startOf_spec (cells : List Str) (i : Nat) (c : Str) (h : cells[i]? = some c) :
    ∃ pre post, joinWith [','] cells = pre ++ c ++ post ∧ pre.length = startOf cells i := by
  induction cells generalizing i with
  | nil => simp at h
  | cons x xs ih =>
    cases i with
    | zero =>
      simp at h; subst h
      cases xs with
      | nil => exact ⟨[], [], by simp [joinWith], by simp [startOf]⟩
      | cons y r => exact ⟨[], [','] ++ joinWith [','] (y :: r), by simp [joinWith], by simp [startOf]⟩
    | succ i =>
      simp at h
      cases xs with
      | nil => simp at h
      | cons y r =>
        obtain ⟨pre, post, h1, h2⟩ := ih i h
        refine ⟨x ++ [','] ++ pre, post, ?_, ?_⟩
        · simp only [joinWith, h1, List.append_assoc]
        · simp [startOf, h2]; omega

theorem drop_pre {α} (pre rest : List α) (a : Nat) : (pre ++ rest).drop (pre.length + a) = rest.drop a := by
  induction pre with
  | nil => simp
  | cons x xs ih => simpa [Nat.succ_add] using ih

/-- `span_remap`: the remapped span of a tag (span `a..b` inside cell `i`) slices the joined text to the
tag's own text. -/
theorem span_remap (cells : List Str) (i : Nat) (c : Str) (h : cells[i]? = some c) (a b : Nat)
    (hab : a ≤ b) (hb : b ≤ c.length) :
    ((joinWith [','] cells).drop (remapSpan cells i (a, b)).1).take
        ((remapSpan cells i (a, b)).2 - (remapSpan cells i (a, b)).1) = (c.drop a).take (b - a) := by
  obtain ⟨pre, post, h1, h2⟩ := startOf_spec cells i c h
  simp only [remapSpan, h1, ← h2]
  have e1 : a + pre.length = pre.length + a := by omega
  have e2 : b + pre.length - (pre.length + a) = b - a := by omega
  rw [e1, e2, List.append_assoc, drop_pre, List.drop_append_of_le_length (by omega),
    List.take_append_of_le_length (by rw [List.length_drop]; omega)]

/-! ### never raises (with the two proposed repairs); the current code does -/

/-- `total`: with the onset mask taken per assembled row and the Delay split guarded, validation returns a
list of issues for every table, configuration and oracle. -/
theorem total (cfg : Cfg) (T : List Row) (hm : cfg.maskByRow = true) (hg : cfg.guardDelay = true) :
    ∃ out, validate cfg T = .ok out := by
  unfold validate
  by_cases ho : cfg.hasOnset = true
  · simp [ho, delayExc, hg, hm]
  · simp [ho]

def demoOracle : Oracle where
  cell _ := []
  full t := if t = ['R'] then [⟨['X'], 1⟩] else []
  pfull t := if t = ['R'] then [⟨['X'], 1⟩] else []
  banned _ := []
  items t := if t = ['D'] then some [⟨['D'], some .none⟩] else if t = ['E'] then some [⟨['E'], some (.num 8)⟩] else none
  markers t := if t = [',', 'M'] then [⟨.offset, ['A']⟩] else []
  fold := id

def demoCfg (mask guard : Bool) : Cfg :=
  { rowAdj := 2, hasOnset := true, columns := [['H']], catCols := [], mapIssues := [], refs := [], allColumns := [],
    maskByRow := mask, guardDelay := guard, kKey := ⟨['K'], 10⟩, kRef := ⟨['F'], 1⟩, kUnordered := ⟨['U'], 10⟩,
    kTemporal := fun _ => ⟨['T'], 1⟩, o := demoOracle }

def excOf {α} : Except PyExc α → Option PyExc
  | .error e => some e
  | .ok _ => none

/-- `total_counterexample`: the code as it is raises on a Delay group whose value has no usable unit
(`D` ~ `(Delay/1 xyz, (Red))`: TypeError) and on a Delay group in a row without numeric onset (ValueError). -/
theorem total_counterexample :
    excOf (validate (demoCfg false false) [⟨some 8, [['D']], []⟩]) = some .typeError ∧
    excOf (validate (demoCfg false false) [⟨none, [['E']], []⟩]) = some .valueError := by
  decide

example : (validate (demoCfg true true) [⟨some 8, [['D']], []⟩]).toOption = some [] := by decide

/-- `row_reported_twice_counterexample` (DESIGN §8 #18): onsets `1.0, n/a, 3.0`; the error of the last row's
string (`R` ~ `Red, Red`) is reported twice by the code as it is (positional `onset_mask.iloc[label]`), once
with the mask taken per row. -/
theorem row_reported_twice_counterexample :
    ((validate (demoCfg false true) [⟨some 8, [['G']], []⟩, ⟨none, [['B']], []⟩, ⟨some 24, [['R']], []⟩]).toOption.map
      fun o => (o.filter fun i => i.row == some 4).length) = some 2 ∧
    ((validate (demoCfg true true) [⟨some 8, [['G']], []⟩, ⟨none, [['B']], []⟩, ⟨some 24, [['R']], []⟩]).toOption.map
      fun o => (o.filter fun i => i.row == some 4).length) = some 1 := by
  decide

/-! ### time-point issues: which row's text -/

theorem mergeF_id (l : List (Int × Str × Nat)) (h : (l.map (·.1)).Nodup) : mergeF l = l := by
  induction l with
  | nil => rfl
  | cons x xs ih =>
    simp only [List.map_cons, List.nodup_cons] at h
    unfold mergeF
    rw [ih h.2]
    cases xs with
    | nil => rfl
    | cons y ys =>
      have : x.1 ≠ y.1 := fun e => h.1 (by simp [e])
      simp [this]

theorem mem_splitFrame {cfg : Cfg} {R : List Row} {x : Int × Str × Nat} (h : x ∈ splitFrame cfg R) :
    ∃ r, (x.2.2, r) ∈ enumF 0 R ∧
      (x.2.1 = ownText cfg r ∨ ∃ it ∈ rowItems cfg r, it.delay.isSome ∧ x.2.1 = it.text) := by
  unfold splitFrame ownFrame at h
  rcases List.mem_append.mp h with h | h
  · obtain ⟨⟨p, r⟩, hpr, h2⟩ := List.mem_filterMap.mp h
    obtain ⟨t, _, rfl⟩ := Option.map_eq_some_iff.mp h2
    exact ⟨r, hpr, Or.inl rfl⟩
  · obtain ⟨⟨p, r⟩, hpr, h2⟩ := List.mem_flatMap.mp h
    unfold movedRows at h2
    obtain ⟨it, hit, h3⟩ := List.mem_filterMap.mp h2
    split at h3
    · rename_i d hd
      obtain ⟨t, _, rfl⟩ := Option.map_eq_some_iff.mp h3
      exact ⟨r, hpr, Or.inr ⟨it, hit, by simp [hd], rfl⟩⟩
    · cases h3

/-- `labels_point_partial`: if no two time-point contributions (rows and moved Delay groups) share an effective
time, every issue found at a time point is labelled with the file row whose own text (Delay groups removed) or
whose Delay group it was found in. -/
theorem labels_point_partial (cfg : Cfg) (T : List Row) (out : List Issue) (h : validate cfg T = .ok out)
    (hd : ((splitFrame cfg ((frame cfg T).map (·.2))).map (·.1)).Nodup) :
    ∀ i ∈ out, ∀ p, (i.src = .point p ∨ i.src = .temporal p) →
      ∃ k r, T[k]? = some r ∧ i.row = some (k + cfg.rowAdj) ∧
        (i.text = ownText cfg r ∨ ∃ it ∈ rowItems cfg r, it.delay.isSome ∧ i.text = it.text) := by
  obtain ⟨ol, rfl, -, -⟩ := validate_ok h
  intro i hi p hsrc
  unfold assemble at hi
  have hi := (sortIssues_perm _).mem_iff.mp hi
  simp only [List.mem_append] at hi
  rcases hi with (hi | hi) | hi
  · have := structIssues_labelled cfg T i hi
    rcases hsrc with e | e <;> simp [WellLabelled, e] at this <;>
      (unfold structIssues at hi; simp only [List.mem_append] at hi;
       rcases hi with (hi | hi) | hi)
    all_goals first
      | (obtain ⟨e', _, rfl⟩ := List.mem_map.mp hi; simp [mk] at e)
      | (obtain ⟨kr, _, h2⟩ := List.mem_flatMap.mp hi
         obtain ⟨j, name, keys, v, _, _, _, _, rfl⟩ := mem_keyIssuesFrom h2
         simp [mk] at e)
  · unfold unorderedIssues at hi
    split at hi
    · simp at hi; subst hi; rcases hsrc with e | e <;> simp [mk] at e
    · cases hi
  · obtain ⟨j, hj, rfl⟩ := List.mem_map.mp hi
    rcases mem_core hj with ⟨q, r, hpr, hri⟩ | ⟨x, hx, hlen, h1, _, h3, _⟩
    · cases hri with
      | cell c name y e hc he hi => subst hi; rcases hsrc with e | e <;> simp [relabel, mk] at e
      | row e he hi => subst hi; rcases hsrc with e | e <;> simp [relabel, mk] at e
    · unfold timeFrame at hx
      rw [mergeF_id _ (((sortT_perm _).map _).nodup_iff.mpr hd)] at hx
      obtain ⟨r, hr, htext⟩ := mem_splitFrame ((sortT_perm _).mem_iff.mp hx)
      obtain ⟨k, hk, hlab⟩ := frame_pos _ _ r hr
      refine ⟨k, r, (frame_mem cfg T k r).mp hk, ?_, ?_⟩
      · simpa [relabel, h1] using hlab
      · simpa [relabel, h3] using htext

/-- `labels_merged_counterexample` (DESIGN §8 #21): two rows with the same onset, the first one empty, an
Offset marker written in the second: the temporal issue is labelled with the first row (file row 2). -/
theorem labels_merged_counterexample :
    ((validate (demoCfg true true) [⟨some 8, [[]], []⟩, ⟨some 8, [['M']], []⟩]).toOption.map
      fun o => o.map fun i => (i.src, i.row, i.text)) = some [(.temporal 0, some 2, [',', 'M'])] := by
  decide

/-! ### a row with error-free cells reports exactly the errors of its joined string (no onset column) -/

theorem enumF_append {α} (a b : List α) (n : Nat) :
    enumF n (a ++ b) = enumF n a ++ enumF (n + a.length) b := by
  induction a generalizing n with
  | nil => simp [enumF]
  | cons x xs ih =>
    have e : n + 1 + xs.length = n + (xs.length + 1) := by omega
    simp only [List.cons_append, enumF, ih, List.length_cons, e]

theorem enumF_map_snd {α} (l : List α) (n : Nat) : (enumF n l).map (·.2) = l := by
  induction l generalizing n with
  | nil => rfl
  | cons x xs ih => simp [enumF, ih]

theorem enumF_fst_getD {α} (l : List α) (p : Nat) (hp : p < l.length) :
    ((enumF 0 l).map (·.1))[p]?.getD 0 = p := by
  simp [List.getElem?_map, enumF_getElem?, List.getElem?_eq_getElem hp]

theorem enumF_bounds {α} (l : List α) (n : Nat) : ∀ pr ∈ enumF n l, n ≤ pr.1 ∧ pr.1 < n + l.length := by
  rintro ⟨p, x⟩ h
  obtain ⟨h1, h2⟩ := (mem_enumF l n p x).mp h
  have := (List.getElem?_eq_some_iff.mp h2).1
  exact ⟨h1, by omega⟩

/-- the issues attributed to file row `k` that are errors -/
def sel (cfg : Cfg) (k : Nat) (i : Issue) : Bool := i.row == some (k + cfg.rowAdj) && decide (i.sev < 10)

theorem rowIssue_row {cfg : Cfg} {p : Nat} {r : Row} {i : Issue} (h : RowIssue cfg p r i) : i.row = some p := by
  cases h with
  | cell c name x e hc he hi => subst hi; rfl
  | row e he hi => subst hi; rfl

theorem rows_filter_nil (cfg : Cfg) (labs : List Nat) (k : Nat) (l : List (Nat × Row))
    (hl : ∀ pr ∈ l, pr.1 ≠ k ∧ labs[pr.1]?.getD 0 = pr.1) :
    ((l.flatMap fun pr => (checkRow cfg false pr.1 pr.2).issues).map (relabel labs cfg.rowAdj)).filter (sel cfg k) = [] := by
  rw [List.filter_eq_nil_iff]
  intro i hi
  obtain ⟨j, hj, rfl⟩ := List.mem_map.mp hi
  obtain ⟨pr, hpr, hj⟩ := List.mem_flatMap.mp hj
  have hrow := rowIssue_row (mem_checkRow hj)
  obtain ⟨hne, hlab⟩ := hl pr hpr
  simp [sel, relabel, hrow, hlab]
  intro h; exact absurd h hne

theorem row_filter_mid (cfg : Cfg) (labs : List Nat) (k : Nat) (r : Row) (hlab : labs[k]?.getD 0 = k)
    (hclean : ∀ c ∈ live cfg r, anyError (cfg.o.cell c.2.2) = false) (hne : live cfg r ≠ []) :
    ((((checkRow cfg false k r).issues).map (relabel labs cfg.rowAdj)).filter (sel cfg k)).map (·.kind) =
      ((cfg.o.full (rowText cfg r) ++ cfg.o.banned (rowText cfg r)).filter RIssue.isError).map (·.kind) := by
  have h1 : anyError (lastCellIssues cfg r) = false := by
    unfold lastCellIssues
    split
    · rfl
    · rename_i c hc; exact hclean c (List.mem_of_getLast? hc)
  have h2 : (live cfg r).isEmpty = false := by
    cases hl : live cfg r with
    | nil => exact absurd hl hne
    | cons _ _ => rfl
  have hcells : ((cellIssues cfg k r).map (relabel labs cfg.rowAdj)).filter (sel cfg k) = [] := by
    rw [List.filter_eq_nil_iff]
    intro i hi
    obtain ⟨j, hj, rfl⟩ := List.mem_map.mp hi
    obtain ⟨c, name, x, e, hc, he, rfl⟩ := mem_cellIssues hj
    have := hclean (c, name, x) hc
    simp only [anyError, List.any_eq_false] at this
    have he' : ¬ e.sev < 10 := by simpa [RIssue.isError] using this e he
    simp [sel, relabel, mk, he']
  simp only [checkRow, h1, h2, Bool.false_eq_true, if_false, Bool.or_self]
  rw [List.map_append, List.filter_append, hcells, List.nil_append, List.filter_map, List.map_map,
    List.filter_map, List.map_map]
  have hsel : ∀ e, ((sel cfg k ∘ relabel labs cfg.rowAdj) ∘
      fun e => mk e (some k) none (rowText cfg r) (Src.row k)) e = RIssue.isError e := by
    intro e; simp [sel, relabel, mk, hlab, RIssue.isError]
  rw [List.filter_congr (fun e _ => hsel e)]
  apply List.map_congr_left
  intro e _; rfl

/-- `row_equals_string`: in a file without onset column, for a row whose looked-at cells are each free of
errors, the error kinds attributed to that row are exactly those of the full checks (and the rule "temporal
tags need a time") on the `","`-join of its cells. -/
theorem row_equals_string (cfg : Cfg) (T : List Row) (out : List Issue) (h : validate cfg T = .ok out)
    (ho : cfg.hasOnset = false) (hkey : cfg.kKey.isError = false) (k : Nat) (r : Row) (hk : T[k]? = some r)
    (hclean : ∀ c ∈ live cfg r, anyError (cfg.o.cell c.2.2) = false) (hne : live cfg r ≠ []) :
    ((out.filter (sel cfg k)).map (·.kind)).Perm
      (((cfg.o.full (rowText cfg r) ++ cfg.o.banned (rowText cfg r)).filter RIssue.isError).map (·.kind)) := by
  obtain ⟨ol, rfl, -, hol⟩ := validate_ok h
  rw [hol ho]
  have hframe : frame cfg T = enumF 0 T := by simp [frame, needsSorting, ho]
  have hun : unorderedIssues cfg T = [] := by simp [unorderedIssues, needsSorting, ho]
  obtain ⟨hkl, hkr⟩ := List.getElem?_eq_some_iff.mp hk
  have hT : T = T.take k ++ r :: T.drop (k + 1) := by
    rw [← hkr]; simp
  have hstruct : (structIssues cfg T).filter (sel cfg k) = [] := by
    rw [List.filter_eq_nil_iff]
    intro i hi
    unfold structIssues at hi
    simp only [List.mem_append] at hi
    rcases hi with (hi | hi) | hi
    · obtain ⟨e, _, rfl⟩ := List.mem_map.mp hi; simp [sel, mk]
    · obtain ⟨kr, _, h2⟩ := List.mem_flatMap.mp hi
      obtain ⟨j, name, keys, v, _, _, _, _, rfl⟩ := mem_keyIssuesFrom h2
      simp only [RIssue.isError] at hkey
      simp [sel, mk]; intro _; simpa using hkey
    · obtain ⟨e, _, rfl⟩ := List.mem_map.mp hi; simp [sel, mk]
  unfold assemble
  refine (((sortIssues_perm _).filter _).map _).trans ?_
  simp only [hframe, hun, List.append_nil, List.filter_append, hstruct, List.nil_append, core, ho,
    Bool.false_eq_true, if_false, rowPhase, enumF_map_snd, List.flatMap_map]
  have hlabs : ∀ p, p < T.length → ((enumF 0 T).map (·.1))[p]?.getD 0 = p := fun p hp => enumF_fst_getD T p hp
  generalize (enumF 0 T).map (·.1) = labs at hlabs
  have hlen : (T.take k).length = k := by simp; omega
  rw [hT, enumF_append]
  simp only [enumF, hlen, Nat.zero_add, List.flatMap_append, List.flatMap_cons, List.map_append, List.filter_append]
  rw [rows_filter_nil, rows_filter_nil]
  · have := row_filter_mid cfg labs k r (hlabs k hkl) hclean hne
    simp only [List.map_nil, List.nil_append, List.append_nil]
    exact List.Perm.of_eq (by rw [this]; simp)
  · intro pr hpr
    have := enumF_bounds _ _ pr hpr
    simp at this
    exact ⟨by omega, hlabs _ (by omega)⟩
  · intro pr hpr
    have := enumF_bounds _ _ pr hpr
    rw [hlen] at this
    exact ⟨by omega, hlabs _ (by omega)⟩

/-! ### shuffling the rows of a file with distinct onsets -/

/-- the numeric onset used as sort key -/
def key (r : Row) : Int := r.onset.getD 0

def SortedRows (l : List Row) : Prop := l.Pairwise fun a b => key a ≤ key b

theorem nodup_map_inj {α β} {f : α → β} {l : List α} (h : (l.map f).Nodup) {x y : α} (hx : x ∈ l) (hy : y ∈ l)
    (e : f x = f y) : x = y := by
  induction l with
  | nil => cases hx
  | cons z zs ih =>
    simp only [List.map_cons, List.nodup_cons, List.mem_map, not_exists, not_and] at h
    rcases List.mem_cons.mp hx with hx' | hx' <;> rcases List.mem_cons.mp hy with hy' | hy'
    · rw [hx', hy']
    · subst hx'; exact absurd e.symm (h.1 y hy')
    · subst hy'; exact absurd e (h.1 x hx')
    · exact ih h.2 hx' hy'

theorem sorted_perm_eq (l1 l2 : List Row) (hp : l1.Perm l2) (s1 : SortedRows l1) (s2 : SortedRows l2)
    (hsome : ∀ r ∈ l1, r.onset.isSome) (hnd : (l1.map (·.onset)).Nodup) : l1 = l2 := by
  induction l1 generalizing l2 with
  | nil => exact (List.Perm.nil_eq hp)
  | cons a l1' ih =>
    cases l2 with
    | nil => exact absurd hp.symm.nil_eq (by simp)
    | cons b l2' =>
      have hab : a = b := by
        by_cases hab : a = b
        · exact hab
        · have ha : a ∈ l2' := by
            have := hp.mem_iff.mp (List.mem_cons_self)
            rcases List.mem_cons.mp this with h | h
            · exact absurd h hab
            · exact h
          have hb : b ∈ l1' := by
            have := hp.mem_iff.mpr (List.mem_cons_self)
            rcases List.mem_cons.mp this with h | h
            · exact absurd h.symm hab
            · exact h
          have k1 : key a ≤ key b := (List.pairwise_cons.mp s1).1 b hb
          have k2 : key b ≤ key a := (List.pairwise_cons.mp s2).1 a ha
          have hb' : b ∈ a :: l1' := List.mem_cons_of_mem _ hb
          have e : a.onset = b.onset := by
            have h1 := hsome a List.mem_cons_self
            have h2 := hsome b hb'
            unfold key at k1 k2
            cases ha' : a.onset <;> cases hb'' : b.onset <;> simp_all
            omega
          exact nodup_map_inj hnd List.mem_cons_self hb' e
      subst hab
      congr 1
      simp only [List.map_cons, List.nodup_cons] at hnd
      exact ih l2' (List.Perm.cons_inv hp) (List.pairwise_cons.mp s1).2 (List.pairwise_cons.mp s2).2
        (fun r hr => hsome r (List.mem_cons_of_mem _ hr)) hnd.2

theorem insertT_sorted {β} (x : Int × β) (l : List (Int × β)) (h : l.Pairwise fun a b => a.1 ≤ b.1) :
    (insertT x l).Pairwise fun a b => a.1 ≤ b.1 := by
  induction l with
  | nil => simp [insertT]
  | cons y ys ih =>
    obtain ⟨h1, h2⟩ := List.pairwise_cons.mp h
    unfold insertT
    split
    · rename_i hxy
      refine List.pairwise_cons.mpr ⟨?_, h⟩
      intro z hz
      rcases List.mem_cons.mp hz with rfl | hz
      · exact hxy
      · exact Int.le_trans hxy (h1 z hz)
    · rename_i hxy
      refine List.pairwise_cons.mpr ⟨?_, ih h2⟩
      intro z hz
      rcases List.mem_cons.mp ((insertT_perm x ys).mem_iff.mp hz) with rfl | hz
      · omega
      · exact h1 z hz

theorem sortT_sorted {β} (l : List (Int × β)) : (sortT l).Pairwise fun a b => a.1 ≤ b.1 := by
  induction l with
  | nil => simp [sortT]
  | cons x xs ih => exact insertT_sorted x _ ih

theorem monotone_some : ∀ (l : List Row), monotone (l.map (·.onset)) = true → ∀ r ∈ l, r.onset.isSome
  | [], _ => by simp
  | [x], h => by simpa [monotone] using h
  | x :: y :: rest, h => by
    simp only [List.map_cons, monotone, Bool.and_eq_true] at h
    have ih := monotone_some (y :: rest) (by simpa using h.2)
    intro r hr
    rcases List.mem_cons.mp hr with rfl | hr
    · cases hx : r.onset <;> simp_all
    · exact ih r hr

theorem monotone_sorted : ∀ (l : List Row), monotone (l.map (·.onset)) = true → SortedRows l
  | [], _ => List.Pairwise.nil
  | [x], _ => by simp [SortedRows]
  | x :: y :: rest, h => by
    simp only [List.map_cons, monotone, Bool.and_eq_true] at h
    have ih : SortedRows (y :: rest) := monotone_sorted (y :: rest) (by simpa using h.2)
    have hxy : key x ≤ key y := by
      unfold key
      cases hx : x.onset <;> cases hy : y.onset <;> simp_all
    refine List.pairwise_cons.mpr ⟨?_, ih⟩
    intro z hz
    rcases List.mem_cons.mp hz with rfl | hz
    · exact hxy
    · exact Int.le_trans hxy ((List.pairwise_cons.mp ih).1 z hz)

/-- the rows of the processed frame of a file whose onsets are all numeric: sorted, and a permutation -/
theorem frame_rows_sorted (cfg : Cfg) (T : List Row) (ho : cfg.hasOnset = true) (hsome : ∀ r ∈ T, r.onset.isSome) :
    SortedRows ((frame cfg T).map (·.2)) := by
  unfold frame
  split
  · have hn : nans (enumF 0 T) = [] := by
      unfold nans
      rw [List.filter_eq_nil_iff]
      rintro ⟨k, r⟩ hkr
      have hT : T[k]? = some r := by simpa using ((mem_enumF T 0 k r).mp hkr).2
      have := hsome r (List.mem_of_getElem? hT)
      cases hr : r.onset <;> simp_all
    unfold sortFrame
    rw [hn, List.append_nil, List.map_map]
    unfold SortedRows
    rw [List.pairwise_map]
    refine (sortT_sorted _).imp_of_mem ?_
    intro a b ha hb hab
    have hk : ∀ x ∈ sortT (numeric (enumF 0 T)), key x.2.2 = x.1 := by
      intro x hx
      have hx := (sortT_perm _).mem_iff.mp hx
      unfold numeric at hx
      obtain ⟨kr, _, h2⟩ := List.mem_filterMap.mp hx
      obtain ⟨t, ht, rfl⟩ := Option.map_eq_some_iff.mp h2
      simp [key, ht]
    simp only [Function.comp]
    rw [hk a ha, hk b hb]; exact hab
  · rename_i hns
    rw [enumF_map_snd]
    simp only [needsSorting, ho, Bool.true_and, Bool.not_eq_true', Bool.not_eq_false] at hns
    exact monotone_sorted T (by simpa using hns)

theorem frame_rows_perm (cfg : Cfg) (T : List Row) : ((frame cfg T).map (·.2)).Perm T := by
  have := (frame_perm cfg T).map (·.2)
  rwa [enumF_map_snd] at this

def isUnordered (i : Issue) : Bool := i.src == .unordered

/-- what an issue says, with the row it points to identified by that row's onset -/
def ident (cfg : Cfg) (T : List Row) (i : Issue) : Str × Nat × Option Str × Str × Option (Option Int) :=
  (i.kind, i.sev, i.col, i.text, i.row.map fun n => (T[n - cfg.rowAdj]?).bind (·.onset))

theorem ident_relabel (cfg : Cfg) (T : List Row) (i : Issue) (p : Nat) (hrow : i.row = some p) (r : Row)
    (hr : ((frame cfg T).map (·.2))[p]? = some r) :
    ident cfg T (relabel ((frame cfg T).map (·.1)) cfg.rowAdj i) = (i.kind, i.sev, i.col, i.text, some r.onset) := by
  simp only [List.getElem?_map, Option.map_eq_some_iff] at hr
  obtain ⟨kr, hkr, rfl⟩ := hr
  have hT : T[kr.1]? = some kr.2 := (frame_mem cfg T kr.1 kr.2).mp (List.mem_of_getElem? hkr)
  simp [ident, relabel, hrow, List.getElem?_map, hkr, hT]

theorem core_row {cfg : Cfg} {ol : Nat × Row → Bool} {R : List Row} {i : Issue} (h : i ∈ core cfg ol R) :
    (∃ p, i.row = some p ∧ p < R.length) ∧ isUnordered i = false := by
  rcases mem_core h with ⟨p, r, hpr, hri⟩ | ⟨x, _, hlen, h1, _, _, h3⟩
  · have hb := enumF_bounds R 0 (p, r) hpr
    refine ⟨⟨p, rowIssue_row hri, by simpa using hb.2⟩, ?_⟩
    cases hri with
    | cell c name y e hc he hi => subst hi; rfl
    | row e he hi => subst hi; rfl
  · refine ⟨⟨_, h1, hlen⟩, ?_⟩
    rcases h3 with h3 | h3 <;> simp [isUnordered, h3]

theorem struct_src (cfg : Cfg) (T : List Row) : ∀ i ∈ structIssues cfg T, isUnordered i = false := by
  intro i hi
  unfold structIssues at hi
  simp only [List.mem_append] at hi
  rcases hi with (hi | hi) | hi
  · obtain ⟨e, _, rfl⟩ := List.mem_map.mp hi; rfl
  · obtain ⟨kr, _, h2⟩ := List.mem_flatMap.mp hi
    obtain ⟨j, name, keys, v, _, _, _, _, rfl⟩ := mem_keyIssuesFrom h2
    rfl
  · obtain ⟨e, _, rfl⟩ := List.mem_map.mp hi; rfl

theorem keyIssues_ident (cfg : Cfg) (T : List Row) (k : Nat) (r : Row) (hT : T[k]? = some r) (c : Nat)
    (cs : List (Str × List Str)) (vs : List Str) :
    (keyIssuesFrom cfg k c cs vs).map (ident cfg T) =
      (keyIssuesFrom cfg 0 c cs vs).map fun i => (i.kind, i.sev, i.col, i.text, some r.onset) := by
  induction cs generalizing c vs with
  | nil => simp [keyIssuesFrom]
  | cons a as ih =>
    cases vs with
    | nil => simp [keyIssuesFrom]
    | cons v vs =>
      obtain ⟨name, keys⟩ := a
      simp only [keyIssuesFrom, List.map_append, ih]
      congr 1
      split <;> simp [ident, mk, hT]

theorem flatMap_congr' {α β} {l : List α} {f g : α → List β} (h : ∀ a ∈ l, f a = g a) :
    l.flatMap f = l.flatMap g := by
  induction l with
  | nil => rfl
  | cons a as ih =>
    simp only [List.flatMap_cons, h a List.mem_cons_self, ih fun b hb => h b (List.mem_cons_of_mem _ hb)]

theorem filter_true' {α} (l : List α) : l.filter (fun _ => true) = l :=
  List.filter_eq_self.mpr fun _ _ => rfl

/-- column-structure issues, identified: the same multiset for a permutation of the rows -/
theorem struct_ident_perm (cfg : Cfg) (S T : List Row) (hp : T.Perm S) :
    ((structIssues cfg T).map (ident cfg T)).Perm ((structIssues cfg S).map (ident cfg S)) := by
  have hkeys : ∀ (U : List Row), ((enumF 0 U).flatMap fun kr => keyIssuesFrom cfg kr.1 0 cfg.catCols kr.2.cats).map (ident cfg U) =
      U.flatMap fun r => (keyIssuesFrom cfg 0 0 cfg.catCols r.cats).map fun i => (i.kind, i.sev, i.col, i.text, some r.onset) := by
    intro U
    rw [List.map_flatMap]
    conv => rhs; rw [← enumF_map_snd U 0, List.flatMap_map]
    apply flatMap_congr'
    rintro ⟨k, r⟩ hkr
    have hT : U[k]? = some r := by simpa using ((mem_enumF U 0 k r).mp hkr).2
    exact keyIssues_ident cfg U k r hT 0 _ _
  unfold structIssues
  simp only [List.map_append, hkeys, List.map_map]
  refine List.Perm.append (List.Perm.append (List.Perm.of_eq ?_) (List.Perm.flatMap_right _ hp)) (List.Perm.of_eq ?_)
  · apply List.map_congr_left; intro e _; rfl
  · apply List.map_congr_left; intro e _; rfl

theorem assemble_filter (cfg : Cfg) (T : List Row) (ol : Nat × Row → Bool) (P : Issue → Bool) :
    ((assemble cfg T ol).filter P).Perm
      ((structIssues cfg T).filter P ++ (unorderedIssues cfg T).filter P ++
        ((core cfg ol ((frame cfg T).map (·.2))).map (relabel ((frame cfg T).map (·.1)) cfg.rowAdj)).filter P) := by
  unfold assemble
  refine ((sortIssues_perm _).filter P).trans (List.Perm.of_eq ?_)
  simp only [List.filter_append]

/-- `shuffle`: `S` a file with ascending, pairwise distinct numeric onsets, `T` any permutation of its rows.
Validating `T` yields the same multiset of issues as validating `S`, each pointing to the same row (identified by
its onset), plus exactly one ONSETS_UNORDERED warning iff `T` is not in ascending order; `S` gets none. -/
theorem shuffle (cfg : Cfg) (S T : List Row) (hon : cfg.hasOnset = true) (hm : cfg.maskByRow = true)
    (hS : monotone (S.map (·.onset)) = true) (hperm : T.Perm S) (hnd : (S.map (·.onset)).Nodup)
    (oS oT : List Issue) (h1 : validate cfg S = .ok oS) (h2 : validate cfg T = .ok oT) :
    ((oT.filter fun i => !isUnordered i).map (ident cfg T)).Perm (oS.map (ident cfg S)) ∧
    (oT.filter isUnordered).length = (if monotone (T.map (·.onset)) then 0 else 1) ∧
    oS.filter isUnordered = [] := by
  obtain ⟨olS, rfl, hS1, -⟩ := validate_ok h1
  obtain ⟨olT, rfl, hT1, -⟩ := validate_ok h2
  rw [hS1 hon hm]; rw [hT1 hon hm]
  have hsomeS := monotone_some S hS
  have hsomeT : ∀ r ∈ T, r.onset.isSome := fun r hr => hsomeS r (hperm.mem_iff.mp hr)
  have hRS : (frame cfg S).map (·.2) = S := by
    have : needsSorting cfg S = false := by simp [needsSorting, hS]
    simp [frame, this, enumF_map_snd]
  have hRT : (frame cfg T).map (·.2) = S :=
    (sorted_perm_eq S _ ((frame_rows_perm cfg T).trans hperm).symm (monotone_sorted S hS)
      (frame_rows_sorted cfg T hon hsomeT) hsomeS hnd).symm
  have hunS : unorderedIssues cfg S = [] := by simp [unorderedIssues, needsSorting, hS]
  generalize hol : (fun pr : Nat × Row => pr.2.onset.isSome) = ol
  have hcoreP : ∀ (U : List Row) (P : Issue → Bool), (∀ i, isUnordered i = false → P i = true) →
      ((core cfg ol ((frame cfg U).map (·.2))).map (relabel ((frame cfg U).map (·.1)) cfg.rowAdj)).filter P =
        (core cfg ol ((frame cfg U).map (·.2))).map (relabel ((frame cfg U).map (·.1)) cfg.rowAdj) := by
    intro U P hP
    rw [List.filter_eq_self]
    intro i hi
    obtain ⟨j, hj, rfl⟩ := List.mem_map.mp hi
    exact hP _ (core_row hj).2
  have hcoreN : ∀ (U : List Row),
      ((core cfg ol ((frame cfg U).map (·.2))).map (relabel ((frame cfg U).map (·.1)) cfg.rowAdj)).filter isUnordered = [] := by
    intro U
    rw [List.filter_eq_nil_iff]
    intro i hi
    obtain ⟨j, hj, rfl⟩ := List.mem_map.mp hi
    have := (core_row hj).2
    simpa [isUnordered, relabel] using this
  have hstructN : ∀ (U : List Row), (structIssues cfg U).filter isUnordered = [] := by
    intro U
    rw [List.filter_eq_nil_iff]
    intro i hi
    simp [struct_src cfg U i hi]
  refine ⟨?_, ?_, ?_⟩
  · -- identified issues
    have hT := (assemble_filter cfg T ol fun i => !isUnordered i).map (ident cfg T)
    have hSa := (assemble_filter cfg S ol fun _ => true).map (ident cfg S)
    simp only [filter_true'] at hSa
    refine hT.trans (List.Perm.trans ?_ hSa.symm)
    have e1 : ∀ (U : List Row), (structIssues cfg U).filter (fun i => !isUnordered i) = structIssues cfg U := by
      intro U; rw [List.filter_eq_self]; intro i hi; simp [struct_src cfg U i hi]
    have e2 : (unorderedIssues cfg T).filter (fun i => !isUnordered i) = [] := by
      unfold unorderedIssues; split <;> simp [isUnordered, mk]
    rw [e1, e2, hcoreP T _ (by intro i hi; simp [hi]), hunS]
    simp only [List.append_nil, List.map_append, List.filter_nil]
    refine List.Perm.append (struct_ident_perm cfg S T hperm) (List.Perm.of_eq ?_)
    rw [hRT, hRS, List.map_map, List.map_map]
    apply List.map_congr_left
    intro i hi
    obtain ⟨⟨p, hrow, hp⟩, _⟩ := core_row hi
    have hr : S[p]? = some S[p] := List.getElem?_eq_getElem hp
    simp only [Function.comp]
    rw [ident_relabel cfg T i p hrow S[p] (by rw [hRT]; exact hr),
      ident_relabel cfg S i p hrow S[p] (by rw [hRS]; exact hr)]
  · have hT := (assemble_filter cfg T ol isUnordered).length_eq
    rw [hT, hstructN, hcoreN]
    simp only [List.nil_append, List.append_nil, unorderedIssues, needsSorting, hon, Bool.true_and]
    cases monotone (T.map (·.onset)) <;> simp [isUnordered, mk]
  · have hSa := assemble_filter cfg S ol isUnordered
    rw [hstructN, hcoreN, hunS] at hSa
    simpa using hSa

/-! ### the hypotheses are satisfiable -/

example : ∃ (S T : List Row) (oS oT : List Issue), monotone (S.map (·.onset)) = true ∧ T.Perm S ∧
    (S.map (·.onset)).Nodup ∧ monotone (T.map (·.onset)) = false ∧
    validate (demoCfg true true) S = .ok oS ∧ validate (demoCfg true true) T = .ok oT := by
  obtain ⟨oS, hS⟩ := total (demoCfg true true) [⟨some 8, [['G']], []⟩, ⟨some 24, [['R']], []⟩] rfl rfl
  obtain ⟨oT, hT⟩ := total (demoCfg true true) [⟨some 24, [['R']], []⟩, ⟨some 8, [['G']], []⟩] rfl rfl
  exact ⟨_, _, oS, oT, by decide, List.Perm.swap _ _ _, by decide, by decide, hS, hT⟩

/-- the shuffled two-row file: the error of `R` follows its row (file row 2 instead of 3), one warning is added -/
example : ((validate (demoCfg true true) [⟨some 24, [['R']], []⟩, ⟨some 8, [['G']], []⟩]).toOption.map
    fun o => o.map fun i => (i.kind, i.row)) = some [(['U'], none), (['X'], some 2)] := by decide

example : ((validate (demoCfg true true) [⟨some 8, [['G']], []⟩, ⟨some 24, [['R']], []⟩]).toOption.map
    fun o => o.map fun i => (i.kind, i.row)) = some [(['X'], some 3)] := by decide

/-- `row_equals_string`: a file without onset column, a row with one clean cell -/
example : let cfg := { demoCfg true true with hasOnset := false }
    cfg.kKey.isError = false ∧ live cfg ⟨none, [['R']], []⟩ ≠ [] ∧
    (∀ c ∈ live cfg ⟨none, [['R']], []⟩, anyError (cfg.o.cell c.2.2) = false) := by
  refine ⟨by decide, by decide, ?_⟩
  intro c _; rfl

/-- `labels_point_partial`: distinct effective times -/
example : ((splitFrame (demoCfg true true) ((frame (demoCfg true true)
    [⟨some 8, [['E']], []⟩, ⟨some 24, [['R']], []⟩]).map (·.2))).map (·.1)).Nodup := by decide

/-! ### the column label with its type -/

/-- `labels_typed`: the column label of a cell issue is the label OBJECT of the column its text sits in — the integer
`n` for a file read without header (never `""`, never the string `"n"`), the name otherwise; a key-missing issue
carries the categorical column's name; every other issue carries no column at all. -/
theorem labels_typed (cfg : Cfg) (T : List Row) (out : List Issue) (h : validate cfg T = .ok out) :
    ∀ i ∈ out,
      match i.src with
      | .cell _ c => ∃ name, cfg.columns[c]? = some name ∧ i.label cfg = some (labelOf cfg c name)
      | .key _ c => ∃ name keys, cfg.catCols[c]? = some (name, keys) ∧ i.label cfg = some (.name name)
      | _ => i.label cfg = none := by
  intro i hi
  have hl := labels cfg T out h i hi
  unfold WellLabelled at hl
  split at hl
  · simp [Issue.label, hl.2, *]
  · simp [Issue.label, hl.2, *]
  · simp [Issue.label, hl.2, *]
  · rename_i k c hs
    obtain ⟨r, name, keys, v, _, h2, _, _, _, _, h7⟩ := hl
    simp only [hs]
    exact ⟨name, keys, h2, by simp [Issue.label, hs, h7]⟩
  · rename_i p c hs
    obtain ⟨k, r, name, _, h2, _, _, _, _, h7⟩ := hl
    simp only [hs]
    exact ⟨name, h2, by simp [Issue.label, hs, h7]⟩
  · rename_i p hs
    obtain ⟨k, r, _, _, _, h4⟩ := hl
    simp [Issue.label, hs, h4]
  · rename_i p hs
    obtain ⟨k, _, _, h4⟩ := hl
    simp [Issue.label, hs, h4]
  · rename_i p hs
    obtain ⟨k, _, _, h4⟩ := hl
    simp [Issue.label, hs, h4]

/-- `0`, `"0"` and `""` are different labels; a header-less first column is `0` -/
example : labelOf { demoCfg true true with colIdx := [some 0] } 0 ['0'] = .idx 0 ∧
    ColLabel.idx 0 ≠ .name ['0'] ∧ ColLabel.idx 0 ≠ .name [] := by decide

/-! ### which label a merged time point's issue carries (finding C07-merged-row-label, characterised) -/

/-- `","`-joined text of the run of equal times at the head of a (sorted) frame -/
def runText : List (Int × Str × Nat) → Str
  | [] => []
  | [x] => x.2.1
  | x :: y :: r => if x.1 = y.1 then x.2.1 ++ [','] ++ runText (y :: r) else x.2.1

/-- `mergeF`, row by row: a row whose predecessor has the same time is blanked, any other row heads a run and gets
the run's joined text; times and original rows stay -/
def blankOr (prev : Option Int) : List (Int × Str × Nat) → List (Int × Str × Nat)
  | [] => []
  | x :: xs => (x.1, if prev = some x.1 then [] else runText (x :: xs), x.2.2) :: blankOr (some x.1) xs

theorem mergeF_cons (x : Int × Str × Nat) (xs : List (Int × Str × Nat)) :
    mergeF (x :: xs) = (x.1, runText (x :: xs), x.2.2) :: blankOr (some x.1) xs := by
  induction xs generalizing x with
  | nil => simp [mergeF, runText, blankOr]
  | cons y r ih =>
    unfold mergeF
    rw [ih y]
    by_cases h : x.1 = y.1
    · simp [h, runText, blankOr]
    · simp [h, runText, blankOr]

theorem mergeF_eq_blankOr (l : List (Int × Str × Nat)) : mergeF l = blankOr none l := by
  cases l with
  | nil => rfl
  | cons x xs => rw [mergeF_cons]; simp [blankOr]

theorem runText_eq (x : Int × Str × Nat) (xs : List (Int × Str × Nat)) :
    runText (x :: xs) = joinWith [','] (((x :: xs).takeWhile fun z => z.1 == x.1).map (·.2.1)) := by
  induction xs generalizing x with
  | nil => simp [runText, joinWith]
  | cons y r ih =>
    by_cases h : x.1 = y.1
    · rw [show runText (x :: y :: r) = x.2.1 ++ [','] ++ runText (y :: r) by simp [runText, h], ih y]
      simp only [h, List.takeWhile_cons, beq_self_eq_true, if_true, List.map_cons, joinWith]
    · have h' : (y.1 == x.1) = false := by simp; exact fun e => h e.symm
      simp [runText, h, List.takeWhile_cons, h', joinWith]

/-- element `i` of `blankOr`: same time and original row as element `i` of the frame; a non-empty text only at the
head of a run, and then the run's joined text -/
theorem blankOr_get (prev : Option Int) (l : List (Int × Str × Nat)) (i : Nat) (x : Int × Str × Nat)
    (h : (blankOr prev l)[i]? = some x) :
    ∃ y, l[i]? = some y ∧ x.1 = y.1 ∧ x.2.2 = y.2.2 ∧
      (x.2.1 ≠ [] → x.2.1 = runText (l.drop i) ∧
        (match i with
         | 0 => prev ≠ some y.1
         | j + 1 => ∃ z, l[j]? = some z ∧ z.1 ≠ y.1)) := by
  induction l generalizing prev i with
  | nil => simp [blankOr] at h
  | cons a as ih =>
    cases i with
    | zero =>
      simp only [blankOr, List.getElem?_cons_zero, Option.some.injEq] at h
      subst h
      refine ⟨a, rfl, rfl, rfl, ?_⟩
      intro hne
      by_cases hp : prev = some a.1
      · simp [hp] at hne
      · simp [hp]
    | succ j =>
      simp only [blankOr, List.getElem?_cons_succ] at h
      obtain ⟨y, h1, h2, h3, h4⟩ := ih (some a.1) j h
      refine ⟨y, by simpa using h1, h2, h3, ?_⟩
      intro hne
      obtain ⟨h5, h6⟩ := h4 hne
      refine ⟨by simpa using h5, ?_⟩
      cases j with
      | zero =>
        simp only at h6
        exact ⟨a, by simp, fun e => h6 (by rw [e])⟩
      | succ j' =>
        obtain ⟨z, hz, hzy⟩ := h6
        exact ⟨z, by simpa using hz, hzy⟩

theorem mem_pointPass_nonempty {cfg : Cfg} {inv : List Nat} {tf : List (Int × Str × Nat)} {i : Issue}
    (h : i ∈ pointPass cfg inv tf) :
    ∃ x ∈ tf, x.2.1 ≠ [] ∧ i.row = some x.2.2 ∧ i.text = x.2.1 := by
  unfold pointPass at h
  have hl : ∀ sp ∈ livePoints inv tf, ∃ x ∈ tf, x.2.1 ≠ [] ∧ sp = x.2 := by
    intro sp hsp
    unfold livePoints at hsp
    obtain ⟨x, hx, rfl⟩ := List.mem_map.mp hsp
    obtain ⟨hx1, hx2⟩ := List.mem_filter.mp hx
    refine ⟨x, hx1, ?_, rfl⟩
    intro e; simp [e] at hx2
  rcases List.mem_append.mp h with h | h
  · obtain ⟨sp, hsp, h2⟩ := List.mem_flatMap.mp h
    obtain ⟨e, _, rfl⟩ := List.mem_map.mp h2
    obtain ⟨x, hx, hne, rfl⟩ := hl sp hsp
    exact ⟨x, hx, hne, rfl, rfl⟩
  · obtain ⟨te, _, h2⟩ := List.mem_filterMap.mp h
    obtain ⟨sp, hsp, rfl⟩ := Option.map_eq_some_iff.mp h2
    obtain ⟨x, hx, hne, rfl⟩ := hl sp (List.mem_of_getElem? hsp)
    exact ⟨x, hx, hne, rfl, rfl⟩

/-- `labels_merged`: the label of an issue found at a time point, for ALL files.  Let `L` be the time-point
contributions (rows without their Delay groups, then the moved Delay groups) sorted by effective time (`sortT`,
so all contributions with one effective time are consecutive).  The issue was found on the `","`-join of a maximal
run of equal times of `L` starting at some index `n` (its predecessor, if any, has another time), and it is
labelled with the file row of the FIRST contribution of that run, `L[n]` — whichever row of the run the offending
tag is written in.  This is the proved form of finding C07-merged-row-label; `labels_point_partial` is the case of
runs of length 1. -/
theorem labels_merged (cfg : Cfg) (T : List Row) (out : List Issue) (h : validate cfg T = .ok out) :
    ∀ i ∈ out, ∀ p, (i.src = .point p ∨ i.src = .temporal p) →
      ∃ n y k r, (sortT (splitFrame cfg ((frame cfg T).map (·.2))))[n]? = some y ∧
        (match n with
         | 0 => True
         | m + 1 => ∃ z, (sortT (splitFrame cfg ((frame cfg T).map (·.2))))[m]? = some z ∧ z.1 ≠ y.1) ∧
        i.text ≠ [] ∧
        i.text = joinWith [','] ((((sortT (splitFrame cfg ((frame cfg T).map (·.2)))).drop n).takeWhile
          fun z => z.1 == y.1).map (·.2.1)) ∧
        ((frame cfg T).map (·.2))[y.2.2]? = some r ∧ T[k]? = some r ∧ i.row = some (k + cfg.rowAdj) := by
  obtain ⟨ol, rfl, -, -⟩ := validate_ok h
  intro i hi p hsrc
  unfold assemble at hi
  have hi := (sortIssues_perm _).mem_iff.mp hi
  simp only [List.mem_append] at hi
  rcases hi with (hi | hi) | hi
  · exfalso
    unfold structIssues at hi
    simp only [List.mem_append] at hi
    rcases hi with (hi | hi) | hi
    · obtain ⟨e', _, rfl⟩ := List.mem_map.mp hi; rcases hsrc with e | e <;> simp [mk] at e
    · obtain ⟨kr, _, h2⟩ := List.mem_flatMap.mp hi
      obtain ⟨j, name, keys, v, _, _, _, _, rfl⟩ := mem_keyIssuesFrom h2
      rcases hsrc with e | e <;> simp [mk] at e
    · obtain ⟨e', _, rfl⟩ := List.mem_map.mp hi; rcases hsrc with e | e <;> simp [mk] at e
  · exfalso
    unfold unorderedIssues at hi
    split at hi
    · simp at hi; subst hi; rcases hsrc with e | e <;> simp [mk] at e
    · cases hi
  · obtain ⟨j, hj, rfl⟩ := List.mem_map.mp hi
    unfold core at hj
    rcases List.mem_append.mp hj with hj | hj
    · exfalso
      obtain ⟨res, hres, hi'⟩ := List.mem_flatMap.mp hj
      unfold rowPhase at hres
      obtain ⟨⟨q, r⟩, _, rfl⟩ := List.mem_map.mp hres
      cases mem_checkRow hi' with
      | cell c name y e hc he hi'' => subst hi''; rcases hsrc with e | e <;> simp [relabel, mk] at e
      | row e he hi'' => subst hi''; rcases hsrc with e | e <;> simp [relabel, mk] at e
    · split at hj
      · obtain ⟨x, hx, hne, hrow, htext⟩ := mem_pointPass_nonempty hj
        obtain ⟨n, hn⟩ := List.getElem?_of_mem hx
        unfold timeFrame at hn
        rw [mergeF_eq_blankOr] at hn
        obtain ⟨y, hy, h1, h2, h3⟩ := blankOr_get none _ n x hn
        obtain ⟨h4, h5⟩ := h3 hne
        have hlen := splitFrame_origs cfg _ y ((sortT_perm _).mem_iff.mp (List.mem_of_getElem? hy))
        have hr : ((frame cfg T).map (·.2))[y.2.2]? = some ((frame cfg T).map (·.2))[y.2.2] :=
          List.getElem?_eq_getElem hlen
        have hpr : (y.2.2, ((frame cfg T).map (·.2))[y.2.2]) ∈ enumF 0 ((frame cfg T).map (·.2)) := by
          rw [mem_enumF]; simpa using hr
        obtain ⟨k, hk, hlab⟩ := frame_pos _ _ _ hpr
        refine ⟨n, y, k, _, hy, ?_, ?_, ?_, hr, (frame_mem cfg T k _).mp hk, ?_⟩
        · cases n with
          | zero => trivial
          | succ m => exact h5
        · simpa [relabel, htext] using hne
        · have hd : (sortT (splitFrame cfg ((frame cfg T).map (·.2)))).drop n =
              y :: (sortT (splitFrame cfg ((frame cfg T).map (·.2)))).drop (n + 1) := by
            obtain ⟨hlt, hget⟩ := List.getElem?_eq_some_iff.mp hy
            rw [← hget]; exact (List.drop_eq_getElem_cons hlt)
          simp only [relabel, htext, h4]
          rw [hd, runText_eq]
        · rw [← h2] at hlab
          simpa [relabel, hrow] using hlab
      · cases hj

/-! ### `from_hed_strings`: the cells' trees side by side vs. the tree of the joined text

The general statement (for cells with balanced parentheses `concatTrees cells = joinedTree cells`) is NOT proved
here (the tokenizer merges delimiter runs across the cell boundary); it is evaluated by the driver on every
generated row (`c07.concat`).  Proved: an instance, and that it fails for unbalanced cells — the reason why a row
that gets row-level checks although a cell is malformed is outside the closed fragment. -/

/-- `(A,B)` and `C`: the same tree either way -/
theorem concat_join_example : sameTree [['(', 'A', ',', 'B', ')'], ['C']] = true ∧
    sameTree [['A'], ['(', 'B', ',', '(', 'C', ')', ')'], ['D', ',', 'E']] = true := by decide

/-- `concat_join_counterexample`: cells `(A` and `B)`: each cell alone is unbalanced and has no children, so the row
string has NO children, while the joined text `(A,B)` parses to one group. -/
theorem concat_join_counterexample :
    (concatTrees [['(', 'A'], ['B', ')']]).length = 0 ∧ (joinedTree [['(', 'A'], ['B', ')']]).length = 1 ∧
    sameTree [['(', 'A'], ['B', ')']] = false := by decide

/-! ### every row gets its assembled-row checks exactly once: `hasTime` is the single source for both passes -/

/-- the row-level part of `_run_checks` for the row at position `p` -/
def rowPart (cfg : Cfg) (p : Nat) (r : Row) : List Issue :=
  (cfg.o.full (rowText cfg r) ++ cfg.o.banned (rowText cfg r)).map fun e => mk e (some p) none (rowText cfg r) (.row p)

/-- how often the row at position `p` gets its assembled-row checks in `_run_checks` -/
def rowPass (cfg : Cfg) (ol : Nat × Row → Bool) (p : Nat) (r : Row) : Nat :=
  if reaches cfg r && !ol (p, r) then 1 else 0

/-- how often the row's own text enters the time points the onset pass checks -/
def onsetPass (cfg : Cfg) (R : List Row) (p : Nat) : Nat := ((ownFrame cfg R).filter fun x => x.2.2 == p).length

theorem checkRow_issues (cfg : Cfg) (ol : Nat × Row → Bool) (p : Nat) (r : Row) :
    (checkRow cfg (ol (p, r)) p r).issues =
      cellIssues cfg p r ++ (if rowPass cfg ol p r = 1 then rowPart cfg p r else []) := by
  unfold checkRow rowPass reaches rowPart
  cases h1 : anyError (lastCellIssues cfg r) <;> cases h2 : (live cfg r).isEmpty <;> cases h3 : ol (p, r) <;> simp

theorem own_count_aux (cfg : Cfg) (l1 l2 : List Row) (r : Row) (n : Nat) :
    ((((enumF n (l1 ++ r :: l2)).filterMap fun pr => pr.2.onset.map fun t => (t, ownText cfg pr.2, pr.1)).filter
      fun x => x.2.2 == n + l1.length).length) = if hasTime r then 1 else 0 := by
  rw [enumF_append]
  simp only [enumF, List.filterMap_append, List.filterMap_cons, List.filter_append]
  have e1 : ((enumF n l1).filterMap fun pr => pr.2.onset.map fun t => (t, ownText cfg pr.2, pr.1)).filter
      (fun x => x.2.2 == n + l1.length) = [] := by
    rw [List.filter_eq_nil_iff]
    intro x hx
    obtain ⟨pr, hpr, h2⟩ := List.mem_filterMap.mp hx
    obtain ⟨t, _, rfl⟩ := Option.map_eq_some_iff.mp h2
    have := enumF_bounds l1 n pr hpr
    simp; omega
  have e3 : ((enumF (n + l1.length + 1) l2).filterMap fun pr => pr.2.onset.map fun t => (t, ownText cfg pr.2, pr.1)).filter
      (fun x => x.2.2 == n + l1.length) = [] := by
    rw [List.filter_eq_nil_iff]
    intro x hx
    obtain ⟨pr, hpr, h2⟩ := List.mem_filterMap.mp hx
    obtain ⟨t, _, rfl⟩ := Option.map_eq_some_iff.mp h2
    have := enumF_bounds l2 _ pr hpr
    simp; omega
  rw [e1]
  cases h : r.onset with
  | none => simpa [hasTime, h] using e3
  | some t => simp only [hasTime, h, Option.map_some, Option.isSome_some, if_true, List.filter_cons, beq_self_eq_true, e3]; simp

theorem onsetPass_eq (cfg : Cfg) (R : List Row) (p : Nat) (r : Row) (hpr : R[p]? = some r) :
    onsetPass cfg R p = if hasTime r then 1 else 0 := by
  obtain ⟨hlt, hget⟩ := List.getElem?_eq_some_iff.mp hpr
  have hR : R = R.take p ++ r :: R.drop (p + 1) := by rw [← hget]; simp
  have hlen : (R.take p).length = p := by simp; omega
  unfold onsetPass ownFrame
  have := own_count_aux cfg (R.take p) (R.drop (p + 1)) r 0
  rw [← hR, hlen, Nat.zero_add] at this
  exact this

/-- `every_row_checked_once`: with the onset mask taken per row, i.e. with `hasTime` as the single "row has a time"
predicate of both passes, a row that is eligible for assembled-row checks (`reaches`: it has looked-at cells and its last
one has no error) gets them exactly once: in `_run_checks` iff it has no time, through the onset pass (its text enters
exactly one time-point contribution) iff it has one.  No row is skipped by both passes, none is checked by both; a row
that is not eligible gets no row-level check in `_run_checks`. -/
theorem every_row_checked_once (cfg : Cfg) (R : List Row) (p : Nat) (r : Row) (hpr : R[p]? = some r) :
    (checkRow cfg (hasTime r) p r).issues =
      cellIssues cfg p r ++ (if rowPass cfg (fun pr => hasTime pr.2) p r = 1 then rowPart cfg p r else []) ∧
    onsetPass cfg R p = (if hasTime r then 1 else 0) ∧
    (reaches cfg r = true → rowPass cfg (fun pr => hasTime pr.2) p r + onsetPass cfg R p = 1) ∧
    (reaches cfg r = true → (rowPass cfg (fun pr => hasTime pr.2) p r = 1 ↔ hasTime r = false)) ∧
    (reaches cfg r = false → rowPass cfg (fun pr => hasTime pr.2) p r = 0) := by
  refine ⟨checkRow_issues cfg (fun pr => hasTime pr.2) p r, onsetPass_eq cfg R p r hpr, ?_, ?_, ?_⟩
  · intro hr
    rw [onsetPass_eq cfg R p r hpr]
    unfold rowPass
    cases h : hasTime r <;> simp [hr, h]
  · intro hr
    unfold rowPass
    cases h : hasTime r <;> simp [hr, h]
  · intro hr
    unfold rowPass
    simp [hr]

/-- the witness of the old double report again, read with `every_row_checked_once`: under the positional mask the row with
onset 3.0 is checked by BOTH passes (`rowPass` = `onsetPass` = 1) -/
example : rowPass (demoCfg false true) (fun pr => decide (pr.1 < 2)) 2 ⟨some 24, [['R']], []⟩ = 1 ∧
    onsetPass (demoCfg false true) [⟨some 8, [['G']], []⟩, ⟨some 24, [['R']], []⟩, ⟨none, [['B']], []⟩] 1 = 1 := by decide

end HedVerif.C07
