/-
C12 over the composed models: the string validator (`Validate`, C01), the file layer with the string validator
inside (`Tabular.validateClosed`) and the sidecar layer (`SidecarV.validateClosed`).
  * errors-only output = the error-severity subset of the warnings-on output, at the three levels, with the
    control-flow gates that look at issue lists made explicit (`Model/IssueFlow.lean`);
  * character offsets of the issues of `Validate.validate` lie inside the tag's span and the text and select the
    quoted fragment; the registered finding C12-def-value-char-index is the excluded case.
-/
import HedVerif.Model.IssueFlow
import HedVerif.Props.C01
import HedVerif.Props.C12

namespace HedVerif.Flow
open HedVerif HedVerif.Validate

/-! ### string level -/

theorem hasError_errors (l : List Validate.Issue) : hasError (errors l) = hasError l := by
  induction l with
  | nil => rfl
  | cons x xs ih =>
    simp only [hasError, errors, List.filter_cons] at ih ⊢
    by_cases hx : x.isError = true
    · simp [hx]
    · have : x.isError = false := by simpa using hx
      simp [this, ih]

theorem errors_idem (l : List Validate.Issue) : errors (errors l) = errors l := by simp [errors]

theorem errors_app (a b : List Validate.Issue) : errors (a ++ b) = errors a ++ errors b := by simp [errors]

end HedVerif.Flow

namespace HedVerif.C12
open HedVerif HedVerif.Validate HedVerif.Flow

/-- with warnings kept the C12-layer function is the C01 model of `HedValidator.validate` -/
theorem validateW_true (env : Env) (ph : Bool) (text : Str) : validateW true env ph text = validate env ph text := rfl

/-- **All gates look at errors only.** Every control-flow decision on an issue list in the three entry points is
`check_for_any_errors` (`hasError` / `anyError`), and its value is the same on a list and on its error subset. -/
theorem gates_see_errors_only :
    (∀ l : List Validate.Issue, hasError (errors l) = hasError l) ∧
    (∀ l : List Tabular.RIssue, Tabular.anyError (l.filter Tabular.RIssue.isError) = Tabular.anyError l) ∧
    (∀ l : List SidecarV.Issue, SidecarV.anyError (l.filter SidecarV.Issue.isError) = SidecarV.anyError l) := by
  refine ⟨hasError_errors, ?_, ?_⟩
  · intro l
    induction l with
    | nil => rfl
    | cons x xs ih =>
      simp only [Tabular.anyError, List.filter_cons] at ih ⊢
      by_cases hx : x.isError = true
      · simp [hx]
      · have : x.isError = false := by simpa using hx
        simp [this, ih]
  · intro l
    induction l with
    | nil => rfl
    | cons x xs ih =>
      simp only [SidecarV.anyError, List.filter_cons] at ih ⊢
      by_cases hx : x.isError = true
      · simp [hx]
      · have : x.isError = false := by simpa using hx
        simp [this, ih]

/-- **Errors only = the error subset (string level).** For every schema vocabulary, definition dictionary,
placeholder mode and string: `HedValidator.validate` under `ErrorHandler(check_for_warnings=False)` returns exactly
the error-severity issues, in order, of the run with warnings on.  (G1, G2 act on unfiltered lists inside
`run_basic_checks`; G3 acts on the filtered list.) -/
theorem validate_filter (env : Env) (ph : Bool) (text : Str) :
    validateW false env ph text = errors (validateW true env ph text) := by
  simp only [validateW, validateWP, keepV, Bool.false_eq_true, ↓reduceIte, hasError_errors]
  split
  · rfl
  · rw [errors_app, errors_idem, errors_app]

/-! ### character offsets -/

/-- **Offsets of the composed validator.** For every vocabulary, definitions, placeholder mode and text: an issue
of `validate` that names a tag (span `(s, e)`) and carries an index pair `(a, b)` gets
`char_index = s + a`, `char_index_end = s + b` with `s ≤ char_index ≤ char_index_end ≤ e ≤ |text|`, and the
fragment quoted in its message, `tag[a:b]` with `tag = text[s:e]`, is `text[char_index : char_index_end]`.
Hypotheses as in `C01.issue_indices_in_tag`; `hd` is exactly the registered finding C12-def-value-char-index:
without definitions, or with the value of a Def tag located in the Def tag itself (`offsets_def_value_counterexample`
otherwise). -/
theorem offsets_closed (env : Env) (ph : Bool) (text : Str) (hst : C01.LookupStable env text)
    (hd : env.var.defCharRelocate = true ∨ env.defs = []) (i : Validate.Issue) (hi : i ∈ validate env ph text)
    (s e a b : Nat) (hspan : i.span = some (s, e)) (hsub : i.sub = some (a, b)) :
    (Issue.updateCharPos true (toIssue i)).charIdx = some (s + a, s + b) ∧
    s ≤ s + a ∧ s + a ≤ s + b ∧ s + b ≤ e ∧ e ≤ text.length ∧
    Tree.slice (Tree.slice text s e) a b = Tree.slice text (s + a) (s + b) := by
  obtain ⟨hab, hbe, hse, hen⟩ := C01.issue_indices_in_tag env ph text hst hd i hi s e a b hspan hsub
  refine ⟨?_, by omega, by omega, by omega, hen, fragment_is_text_slice text s e a b hbe⟩
  simp [Issue.updateCharPos, toIssue, hspan, hsub]

/-- an issue naming a tag or group without an index pair points at the whole span.
PARTIAL: `s ≤ e ≤ |text|` for such issues is a premise here (C01 proves it for the issues with an index pair only;
missing: well-formedness of every rule's `source_tag` span, which follows from C02's tiling but is not lifted). -/
theorem offsets_closed_span_partial (text : Str) (i : Validate.Issue) (s e : Nat) (hspan : i.span = some (s, e))
    (hsub : i.sub = none) (hse : s ≤ e) (hen : e ≤ text.length) :
    (Issue.updateCharPos true (toIssue i)).charIdx = some (s, e) ∧ s ≤ e ∧ e ≤ text.length := by
  refine ⟨?_, hse, hen⟩
  simp [Issue.updateCharPos, toIssue, hspan, hsub]

def outOfSpan (j : Issue.Issue) : Bool :=
  match j.span, j.charIdx with
  | some (_, e), some (_, b) => decide (e < b)
  | _, _ => false

/-- **The excluded case is real** (finding C12-def-value-char-index, unchanged code): with the definition
`P/#` ↦ `(Label/aaaa#)`, the character error of `Def/P/x$` gets a `char_index_end` beyond the end of the tag it
names; with `_relocate_errors` (fixes/C01_def_value_char_index.diff) it does not. -/
theorem offsets_def_value_counterexample :
    (located true C01.Tiny.envD false ['D','e','f','/','P','/','x','$']).any outOfSpan = true ∧
    (located true C01.Tiny.envDfixed false ['D','e','f','/','P','/','x','$']).any outOfSpan = false := by
  decide +kernel

/-- non-vacuity of `offsets_closed`: an issue with span and index pair on a text satisfying the hypotheses -/
example : (validate C01.Tiny.env false ['I','t','e','m','/','X','y','$']).any
    (fun i => i.span.isSome && i.sub.isSome) = true := by decide +kernel
example : C01.LookupStable C01.Tiny.env ['I','t','e','m','/','X','y','$'] := by unfold C01.LookupStable; decide +kernel

/-- non-vacuity of `validate_filter`: a string with a warning and an error (the two sides differ from the input) -/
example : (validateW true C01.Tiny.env false ['I','t','e','m','/','X','y',',','R','e','d',',','R','e','d']).length = 2 ∧
    (validateW false C01.Tiny.env false ['I','t','e','m','/','X','y',',','R','e','d',',','R','e','d']).length = 1 := by
  decide +kernel

end HedVerif.C12

/-! ## file level -/
namespace HedVerif.Flow.Tab
open HedVerif.Tabular

theorem strLe_total : ∀ a b : Str, strLe a b = true ∨ strLe b a = true
  | [], _ => Or.inl (by simp [strLe])
  | _ :: _, [] => Or.inr (by simp [strLe])
  | a :: as, b :: bs => by
    simp only [strLe]
    by_cases h1 : a.toNat < b.toNat
    · left; simp [h1]
    · by_cases h2 : b.toNat < a.toNat
      · right; simp [h2]
      · simp only [h1, h2, ↓reduceIte]
        exact strLe_total as bs

theorem strLe_trans : ∀ a b c : Str, strLe a b = true → strLe b c = true → strLe a c = true
  | [], _, _ => by intros; simp [strLe]
  | _ :: _, [], _ => by intro h; simp [strLe] at h
  | _ :: _, _ :: _, [] => by intro _ h; simp [strLe] at h
  | a :: as, b :: bs, c :: cs => by
    simp only [strLe]
    intro h1 h2
    by_cases hab : a.toNat < b.toNat
    · by_cases hbc : b.toNat < c.toNat
      · have : a.toNat < c.toNat := by omega
        simp [this]
      · by_cases hcb : c.toNat < b.toNat
        · simp [hbc, hcb] at h2
        · have : a.toNat < c.toNat := by omega
          simp [this]
    · by_cases hba : b.toNat < a.toNat
      · simp [hab, hba] at h1
      · simp only [hab, hba, ↓reduceIte] at h1
        by_cases hbc : b.toNat < c.toNat
        · have : a.toNat < c.toNat := by omega
          simp [this]
        · by_cases hcb : c.toNat < b.toNat
          · simp [hbc, hcb] at h2
          · simp only [hbc, hcb, ↓reduceIte] at h2
            have h3 : ¬ a.toNat < c.toNat := by omega
            have h4 : ¬ c.toNat < a.toNat := by omega
            simp only [h3, h4, ↓reduceIte]
            exact strLe_trans as bs cs h1 h2

theorem issueLe_total (a b : Tabular.Issue) : issueLe a b = true ∨ issueLe b a = true := by
  simp only [issueLe]
  by_cases h1 : (a.row.map (· + 1)).getD 0 < (b.row.map (· + 1)).getD 0
  · left; simp [h1]
  · by_cases h2 : (b.row.map (· + 1)).getD 0 < (a.row.map (· + 1)).getD 0
    · right; simp [h2]
    · simp only [h1, h2, ↓reduceIte]
      exact strLe_total _ _

theorem issueLe_trans (a b c : Tabular.Issue) (h1 : issueLe a b = true) (h2 : issueLe b c = true) :
    issueLe a c = true := by
  simp only [issueLe] at h1 h2 ⊢
  generalize (a.row.map (· + 1)).getD 0 = ra at *
  generalize (b.row.map (· + 1)).getD 0 = rb at *
  generalize (c.row.map (· + 1)).getD 0 = rc at *
  by_cases hab : ra < rb
  · by_cases hbc : rb < rc
    · have : ra < rc := by omega
      simp [this]
    · by_cases hcb : rc < rb
      · simp [hbc, hcb] at h2
      · have : ra < rc := by omega
        simp [this]
  · by_cases hba : rb < ra
    · simp [hab, hba] at h1
    · simp only [hab, hba, ↓reduceIte] at h1
      by_cases hbc : rb < rc
      · have : ra < rc := by omega
        simp [this]
      · by_cases hcb : rc < rb
        · simp [hbc, hcb] at h2
        · simp only [hbc, hcb, ↓reduceIte] at h2
          have h3 : ¬ ra < rc := by omega
          have h4 : ¬ rc < ra := by omega
          simp only [h3, h4, ↓reduceIte]
          exact strLe_trans _ _ _ h1 h2

abbrev SortedI (l : List Tabular.Issue) : Prop := l.Pairwise fun a b => issueLe a b = true

theorem mem_insertI (x z : Tabular.Issue) : ∀ l : List Tabular.Issue, z ∈ insertI x l ↔ z = x ∨ z ∈ l
  | [] => by simp [insertI]
  | y :: ys => by
    simp only [insertI]
    split
    · simp
    · simp only [List.mem_cons, mem_insertI x z ys]
      constructor
      · rintro (h | h | h)
        · exact Or.inr (Or.inl h)
        · exact Or.inl h
        · exact Or.inr (Or.inr h)
      · rintro (h | h | h)
        · exact Or.inr (Or.inl h)
        · exact Or.inl h
        · exact Or.inr (Or.inr h)

theorem insertI_sorted (x : Tabular.Issue) : ∀ l : List Tabular.Issue, SortedI l → SortedI (insertI x l)
  | [], _ => by simp [insertI, SortedI]
  | y :: ys, h => by
    have hy := List.pairwise_cons.mp h
    simp only [insertI]
    split
    · rename_i hxy
      refine List.pairwise_cons.mpr ⟨?_, h⟩
      intro z hz
      rcases List.mem_cons.mp hz with rfl | hz
      · exact hxy
      · exact issueLe_trans _ _ _ hxy (hy.1 z hz)
    · rename_i hxy
      have hyx : issueLe y x = true := by
        rcases issueLe_total x y with h' | h'
        · exact absurd h' hxy
        · exact h'
      refine List.pairwise_cons.mpr ⟨?_, insertI_sorted x ys hy.2⟩
      intro z hz
      rcases (mem_insertI x z ys).mp hz with rfl | hz
      · exact hyx
      · exact hy.1 z hz

theorem sortIssues_sorted : ∀ l : List Tabular.Issue, SortedI (sortIssues l)
  | [] => by simp [sortIssues, SortedI]
  | x :: xs => insertI_sorted x _ (sortIssues_sorted xs)

theorem insertI_front (x : Tabular.Issue) (l : List Tabular.Issue) (h : ∀ z ∈ l, issueLe x z = true) :
    insertI x l = x :: l := by
  cases l with
  | nil => rfl
  | cons y ys => simp [insertI, h y (by simp)]

theorem filter_insertI (p : Tabular.Issue → Bool) (x : Tabular.Issue) : ∀ l : List Tabular.Issue, SortedI l →
    (insertI x l).filter p = if p x then insertI x (l.filter p) else l.filter p
  | [], _ => by simp [insertI, List.filter_cons]
  | y :: ys, h => by
    have hy := List.pairwise_cons.mp h
    simp only [insertI]
    split
    · rename_i hxy
      by_cases hp : p x = true
      · rw [List.filter_cons, if_pos hp, if_pos hp, insertI_front]
        intro z hz
        have hz' := (List.mem_filter.mp hz).1
        rcases List.mem_cons.mp hz' with rfl | hz'
        · exact hxy
        · exact issueLe_trans _ _ _ hxy (hy.1 z hz')
      · rw [List.filter_cons, if_neg hp, if_neg hp]
    · rename_i hxy
      rw [List.filter_cons, filter_insertI p x ys hy.2]
      by_cases hp : p x = true
      · by_cases hq : p y = true
        · simp [hp, hq, List.filter_cons, insertI, hxy]
        · simp [hp, hq, List.filter_cons]
      · by_cases hq : p y = true
        · simp [hp, hq, List.filter_cons]
        · simp [hp, hq, List.filter_cons]

/-- `sort_issues` commutes with any filter (it is a stable sort by a total preorder) -/
theorem sortIssues_filter (p : Tabular.Issue → Bool) : ∀ l : List Tabular.Issue,
    sortIssues (l.filter p) = (sortIssues l).filter p
  | [] => rfl
  | x :: xs => by
    simp only [sortIssues]
    rw [filter_insertI p x _ (sortIssues_sorted xs), List.filter_cons]
    by_cases hp : p x = true
    · simp only [hp, ↓reduceIte, sortIssues]
      rw [sortIssues_filter p xs]
    · simp only [hp, Bool.false_eq_true, ↓reduceIte]
      exact sortIssues_filter p xs

theorem isErr_relabel (labs : List Nat) (adj : Nat) (i : Tabular.Issue) : isErr (relabel labs adj i) = isErr i := rfl

theorem enumF_map {α β} (f : α → β) : ∀ (n : Nat) (l : List α),
    enumF n (l.map f) = (enumF n l).map fun pr => (pr.1, f pr.2)
  | _, [] => rfl
  | n, x :: xs => by simp [enumF, enumF_map f (n + 1) xs]

/-- what turning warnings off does to one row's result -/
def dropW (r : RowRes) : RowRes := ⟨r.issues.filter isErr, r.invalid⟩

theorem checkRowW_false (gate : List RIssue → Bool) (hg : ∀ l, gate (l.filter RIssue.isError) = gate l)
    (cfg : Cfg) (ol : Bool) (p : Nat) (r : Row) :
    checkRowW gate false cfg ol p r = dropW (checkRowW gate true cfg ol p r) := by
  simp only [checkRowW, keepR, keepI, Bool.false_eq_true, ↓reduceIte, hg, dropW]
  split
  · rfl
  · split
    · rfl
    · simp [List.filter_append]

theorem invalidRows_dropW (rr : List RowRes) : invalidRows (rr.map dropW) = invalidRows rr := by
  simp only [invalidRows, enumF_map, List.filterMap_map]
  rfl

theorem rowPhaseW_false (gate : List RIssue → Bool) (hg : ∀ l, gate (l.filter RIssue.isError) = gate l)
    (cfg : Cfg) (ol : Nat × Row → Bool) (R : List Row) :
    rowPhaseW gate false cfg ol R = (rowPhaseW gate true cfg ol R).map dropW := by
  simp only [rowPhaseW, List.map_map]
  congr 1
  funext pr
  exact checkRowW_false gate hg cfg _ _ _

theorem coreW_false (gate : List RIssue → Bool) (hg : ∀ l, gate (l.filter RIssue.isError) = gate l)
    (cfg : Cfg) (ol : Nat × Row → Bool) (R : List Row) :
    coreW gate false cfg ol R = (coreW gate true cfg ol R).filter isErr := by
  simp only [coreW, rowPhaseW_false gate hg, invalidRows_dropW, keepI, Bool.false_eq_true, ↓reduceIte,
    List.filter_append, List.filter_flatMap, List.flatMap_map]
  congr 1
  split <;> rfl

theorem assembleW_false (gate : List RIssue → Bool) (hg : ∀ l, gate (l.filter RIssue.isError) = gate l)
    (cfg : Cfg) (T : List Row) (ol : Nat × Row → Bool) :
    assembleW gate false cfg T ol = (assembleW gate true cfg T ol).filter isErr := by
  simp only [assembleW, coreW_false gate hg, keepI, Bool.false_eq_true, ↓reduceIte]
  rw [← sortIssues_filter]
  congr 1
  simp only [List.filter_append, List.filter_map]
  rfl

theorem reachesW_false (gate : List RIssue → Bool) (hg : ∀ l, gate (l.filter RIssue.isError) = gate l)
    (cfg : Cfg) (r : Row) : reachesW gate false cfg r = reachesW gate true cfg r := by
  simp [reachesW, keepR, hg]

end HedVerif.Flow.Tab

namespace HedVerif.C12
open HedVerif HedVerif.Flow HedVerif.Flow.Tab HedVerif.Tabular

/-- with warnings kept and the code's gate the C12-layer function is the C07 model of `SpreadsheetValidator.validate` -/
theorem file_validateW_true (cfg : Cfg) (T : List Row) : Tab.validateW anyError true cfg T = Tabular.validate cfg T := rfl

/-- **Errors only = the error subset (file level)**, for every gate on `new_column_issues` that does not look at
warnings: same exception, or exactly the error-severity issues (in `sort_issues` order) of the warnings-on run —
the rows skipped, the rows marked invalid for the time-point pass and the `IndexError` of `onset_mask` are the same
in both runs. -/
theorem file_filter (gate : List RIssue → Bool) (hg : ∀ l, gate (l.filter RIssue.isError) = gate l)
    (cfg : Cfg) (T : List Row) :
    Tab.validateW gate false cfg T = (Tab.validateW gate true cfg T).map (·.filter isErr) := by
  simp only [Tab.validateW, reachesW_false gate hg, assembleW_false gate hg]
  split
  · split
    · rfl
    · split <;> rfl
  · rfl

/-- … in particular for the code's gate `check_for_any_errors`, with the string validator inside: for every schema
vocabulary, definitions, file configuration and table. -/
theorem file_filter_closed (env : Validate.Env) (kB : RIssue) (cfg : Cfg) (T : List Row) :
    validateClosedW false env kB cfg T = (validateClosedW true env kB cfg T).map (·.filter isErr) ∧
    validateClosedW true env kB cfg T = Tabular.validateClosed env kB cfg T :=
  ⟨file_filter anyError gates_see_errors_only.2.1 _ T, rfl⟩

private def wCfg : Cfg :=
  { rowAdj := 1, hasOnset := false, columns := [['H']], catCols := [], mapIssues := [], refs := [], allColumns := [],
    maskByRow := true, guardDelay := true, kKey := ⟨[], 1⟩, kRef := ⟨[], 1⟩, kUnordered := ⟨[], 1⟩,
    kTemporal := fun _ => ⟨[], 1⟩,
    o := { cell := fun _ => [⟨['W'], 10⟩], full := fun _ => [⟨['E'], 1⟩], pfull := fun _ => [], banned := fun _ => [],
           items := fun _ => none, markers := fun _ => [], fold := id } }

private def kinds (r : Except PyExc (List Tabular.Issue)) : Option (List Str) := r.toOption.map (·.map (·.kind))

/-- **The gate matters** (seeded change `if new_column_issues:`): a row whose only cell issue is a warning and whose
row-level check finds an error.  With the non-empty gate the warnings-on run skips the row (no error reported) while
the warnings-off run reports the error: errors-only is NOT the error subset.  With `check_for_any_errors` it is. -/
theorem file_gate_counterexample :
    kinds (Tab.validateW gateNonEmpty true wCfg [⟨none, [['x']], []⟩]) = some [['W']] ∧
    kinds (Tab.validateW gateNonEmpty false wCfg [⟨none, [['x']], []⟩]) = some [['E']] ∧
    kinds (Tab.validateW anyError true wCfg [⟨none, [['x']], []⟩]) = some [['E'], ['W']] ∧
    kinds (Tab.validateW anyError false wCfg [⟨none, [['x']], []⟩]) = some [['E']] := by decide

end HedVerif.C12

/-! ## sidecar level -/
namespace HedVerif.C12
open HedVerif HedVerif.Flow HedVerif.Flow.Sc HedVerif.SidecarV

theorem sidecar_validateW_true (g : Guards) (O : Oracle) (doc : Json) : Sc.validateW true g O doc = SidecarV.validate g O doc := rfl

/-- **Errors only = the error subset (sidecar level)**, provided the definition issues — the one list that
`SidecarValidator.validate` appends without passing it through the handler — hold no warning. -/
theorem sidecar_filter_partial (g : Guards) (O : Oracle) (doc : Json) (hd : ∀ i ∈ O.defIssues, i.isError = true) :
    Sc.validateW false g O doc = (Sc.validateW true g O doc).map (·.filter SidecarV.Issue.isError) := by
  have hdf : O.defIssues.filter SidecarV.Issue.isError = O.defIssues := List.filter_eq_self.mpr hd
  simp only [Sc.validateW, keepS, Bool.false_eq_true, ↓reduceIte, gates_see_errors_only.2.2]
  split
  · rfl
  · split
    · rfl
    · split
      · rfl
      · split
        · rfl
        · split
          · simp [Except.map]
          · split
            · rfl
            · split
              · rfl
              · split
                · rfl
                · simp [Except.map, List.filter_append, hdf]

/-- with the string validator inside (sidecars that declare no definitions: `defIssues = []`) the statement is
unconditional -/
theorem sidecar_filter (env : Validate.Env) (g : Guards) (doc : Json) :
    Sc.validateClosedW false env g doc = (Sc.validateClosedW true env g doc).map (·.filter SidecarV.Issue.isError) ∧
    Sc.validateClosedW true env g doc = SidecarV.validateClosed env g doc :=
  ⟨sidecar_filter_partial g _ doc (by intro i hi; simp [Closed.sidecarOracle] at hi), rfl⟩

end HedVerif.C12

/-! ## folding: the hypothesis under which the offsets of lookup errors are right -/
namespace HedVerif.C12
open HedVerif HedVerif.Schema

/-- **The model's fold preserves length** (ASCII lower-casing, character by character).  This is the exact hypothesis
under which `offsets_closed` / `fragment_is_text_slice` speak about the real code: `_find_tag_entry` measures the
offsets of its lookup errors (NO_VALID_TAG_FOUND, INVALID_PARENT_NODE) on `clean_tag.casefold()`, which has the
positions of `clean_tag` iff every character `c` before the reported end has `len(c.casefold()) = 1`.  On texts with a
character such as `ß`, `ﬁ`, `İ` the real code is outside the model (finding C12-casefold-length-offsets; the harness
classifies exactly that family). -/
theorem fold_preserves_length (s : Str) : (Validate.fold s).length = s.length := by simp [Validate.fold]

/-- a fold that lengthens one character, as `casefold` does for `ß`: `ß ↦ ss`, ASCII letters lower-cased -/
def foldSS (s : Str) : Str := s.flatMap fun c => if c == 'ß' then ['s', 's'] else [c.toLower]

private def tinyNames : List Name := [[['E','v','e','n','t']], [['R','e','d']]]
private def evText : Str := ['E','v','e','n','t','/','ß','ß','/','R','e','d']

def lookupSpan : FindResult → Option (Nat × Nat)
  | .invalidParent a b _ => some (a, b)
  | .noValidTag b => some (0, b)
  | .found _ _ => none

/-- **With a length-changing fold the offsets leave the tag** (the real `'Event/ßß/Red'`: TAG_EXTENSION_INVALID with
offsets 11..14 in a 12-character tag, `Red` sits at 9..12): the lookup walk measures the extension terms on the folded
text.  With the length-preserving fold the same walk reports 9..12. -/
theorem offsets_length_changing_fold_counterexample :
    lookupSpan (find (Vocab.build foldSS tinyNames) foldSS evText) = some (11, 14) ∧ evText.length = 12 ∧
    lookupSpan (find (Vocab.build Validate.fold tinyNames) Validate.fold evText) = some (9, 12) ∧
    Tree.slice evText 9 12 = ['R','e','d'] := by decide

end HedVerif.C12
