/-
C11 — Units are accepted and converted exactly as the schema defines them.
-/
import HedVerif.Model.Units

namespace HedVerif.Units

theorem getKey_mem (tbl : List Derived) (k : Str) (d : Derived) (h : getKey tbl k = some d) :
    d ∈ tbl ∧ d.key = k := by
  unfold getKey at h
  have h1 := List.mem_of_find?_eq_some h
  have h2 := List.find?_some h
  exact ⟨h1, by simpa using h2⟩

/-- one entry per key -/
def Functional (tbl : List Derived) : Prop := ∀ a ∈ tbl, ∀ b ∈ tbl, a.key = b.key → a = b

theorem getKey_of_mem (tbl : List Derived) (hf : Functional tbl) (d : Derived) (hd : d ∈ tbl) :
    getKey tbl d.key = some d := by
  unfold getKey
  cases h : tbl.find? (fun x => x.key == d.key) with
  | none =>
    have := List.find?_eq_none.mp h d hd
    simp at this
  | some x =>
    have hx := List.mem_of_find?_eq_some h
    have hk := List.find?_some h
    exact congrArg some (hf x hx d hd (by simpa using hk))

theorem go_mono (mods : List Modifier) (us : List UnitDef) (i : Nat) (acc : List Derived) :
    ∀ d ∈ acc, d ∈ deriveClass.go mods i us acc := by
  induction us generalizing i acc with
  | nil => intro d hd; exact hd
  | cons u us ih =>
    intro d hd
    simp only [deriveClass.go]
    exact ih (i + 1) _ d (List.mem_append_right _ hd)

theorem go_complete (mods : List Modifier) (us : List UnitDef) (i0 : Nat) (acc : List Derived)
    (p : Nat) (u : UnitDef) (hp : us[p]? = some u) :
    ∀ d ∈ deriveUnit mods (i0 + p) u, d ∈ deriveClass.go mods i0 us acc := by
  induction us generalizing i0 acc p with
  | nil => simp at hp
  | cons v vs ih =>
    intro d hd
    simp only [deriveClass.go]
    cases p with
    | zero =>
      simp only [List.getElem?_cons_zero, Option.some.injEq] at hp
      subst hp
      apply go_mono
      apply List.mem_append_left
      simpa using hd
    | succ p' =>
      simp only [List.getElem?_cons_succ] at hp
      have : i0 + (p' + 1) = (i0 + 1) + p' := by omega
      rw [this] at hd
      exact ih (i0 + 1) _ p' hp d hd

theorem deriveUnit_base (mods : List Modifier) (i : Nat) (u : UnitDef) (s : Str)
    (hs : s ∈ baseSpellings u) : (⟨s, i, none⟩ : Derived) ∈ deriveUnit mods i u := by
  unfold deriveUnit
  simp only [List.mem_flatMap]
  exact ⟨s, hs, List.mem_cons_self⟩

theorem deriveUnit_prefixed (mods : List Modifier) (i : Nat) (u : UnitDef) (s : Str) (m : Modifier)
    (hs : s ∈ baseSpellings u) (hm : m ∈ modifiersFor mods u) :
    (⟨m.name ++ s, i, some m.factor⟩ : Derived) ∈ deriveUnit mods i u := by
  unfold deriveUnit
  simp only [List.mem_flatMap]
  refine ⟨s, hs, List.mem_cons_of_mem _ ?_⟩
  simp only [List.mem_map]
  exact ⟨m, hm, rfl⟩

theorem mul_scale (k : Int) (n f : Dec) : (Dec.scale k n).mul f = Dec.scale k (n.mul f) := by
  simp [Dec.mul, Dec.scale, Int.mul_assoc]

end HedVerif.Units

namespace HedVerif.C11
open HedVerif.Units

/-- **Derived table is complete.** In a class whose dictionary has one entry per key, every base
spelling of every unit (lower-cased name, its plural, or the symbol as declared), bare or preceded
by any modifier the unit permits, is a key bound to that unit with that modifier's factor. -/
theorem derived_complete (mods : List Modifier) (c : UnitClass) (i : Nat) (u : UnitDef)
    (hu : c.units[i]? = some u) (hf : Functional (deriveClass mods c)) (s : Str)
    (hs : s ∈ baseSpellings u) :
    getKey (deriveClass mods c) s = some ⟨s, i, none⟩ ∧
    ∀ m ∈ modifiersFor mods u,
      getKey (deriveClass mods c) (m.name ++ s) = some ⟨m.name ++ s, i, some m.factor⟩ := by
  have hc : ∀ d ∈ deriveUnit mods i u, d ∈ deriveClass mods c := by
    intro d hd
    have := go_complete mods c.units 0 [] i u hu d (by simpa using hd)
    simpa [deriveClass] using this
  constructor
  · exact getKey_of_mem _ hf ⟨s, i, none⟩ (hc _ (deriveUnit_base mods i u s hs))
  · intro m hm
    exact getKey_of_mem _ hf ⟨m.name ++ s, i, some m.factor⟩ (hc _ (deriveUnit_prefixed mods i u s m hs hm))

/-- Only SI units take prefixes, and symbol units take symbol prefixes only. -/
theorem prefix_rule (mods : List Modifier) (u : UnitDef) (m : Modifier) (hm : m ∈ modifiersFor mods u) :
    u.isSI = true ∧ (if u.isSymbol then m.forSymbol = true else m.forName = true) := by
  unfold modifiersFor at hm
  by_cases hsi : u.isSI = true
  · simp only [hsi, Bool.not_true, Bool.false_eq_true, ↓reduceIte] at hm
    by_cases hsy : u.isSymbol = true
    · simp only [hsy, ↓reduceIte, List.mem_filter] at hm ⊢
      exact ⟨hsi, hm.2⟩
    · have : u.isSymbol = false := by simpa using hsy
      simp only [this, Bool.false_eq_true, ↓reduceIte, List.mem_filter] at hm ⊢
      exact ⟨hsi, hm.2⟩
  · have : u.isSI = false := by simpa using hsi
    simp [this] at hm

/-- **Name units are case-insensitive, symbols are exact.** If the folded unit text is a key of a
non-symbol unit and the text as typed is not a symbol's key, the lookup returns that entry; a text
whose exact and folded lookups only reach symbols through folding is rejected. -/
theorem lookup_name_any_case (mods : List Modifier) (c : UnitClass) (fold : Str → Str) (σ : Str)
    (d : Derived) (hd : getKey (deriveClass mods c) (fold σ) = some d)
    (hns : (c.units[d.unit]?.map (·.isSymbol)).getD false = false)
    (hex : ∀ x, getKey (deriveClass mods c) σ = some x →
      (c.units[x.unit]?.map (·.isSymbol)).getD false = false) :
    lookupClass mods c fold σ = some d := by
  unfold lookupClass
  simp only [hd]
  cases h : getKey (deriveClass mods c) σ with
  | none => simp [hns]
  | some x => have := hex x h; simp [this, hns]

theorem lookup_symbol_exact (mods : List Modifier) (c : UnitClass) (fold : Str → Str) (σ : Str)
    (d : Derived) (hd : getKey (deriveClass mods c) σ = some d)
    (hs : (c.units[d.unit]?.map (·.isSymbol)).getD false = true) :
    lookupClass mods c fold σ = some d := by
  unfold lookupClass
  simp [hd, hs]

theorem lookup_symbol_wrong_case (mods : List Modifier) (c : UnitClass) (fold : Str → Str) (σ : Str)
    (d : Derived) (h1 : getKey (deriveClass mods c) σ = none)
    (hd : getKey (deriveClass mods c) (fold σ) = some d)
    (hs : (c.units[d.unit]?.map (·.isSymbol)).getD false = true) :
    lookupClass mods c fold σ = none := by
  unfold lookupClass
  simp [h1, hd, hs]

/-- with nothing before the blank, any match of `_get_tag_units_portion` has an empty value part
(no unit is spelled by the empty text) -/
theorem go_value_empty (mods : List Modifier) (fold : Str → Str) (units : Str) (cs : List UnitClass)
    (hempty : ∀ c ∈ cs, lookupClass mods c fold [] = none) (ci : Nat) (m : Match)
    (h : unitsPortion.go mods fold [] units ci cs = some m) : m.value = [] := by
  induction cs generalizing ci with
  | nil => simp [unitsPortion.go] at h
  | cons c cs ih =>
    have he := hempty c (by simp)
    have ih' := fun ci h => ih (fun c hc => hempty c (by simp [hc])) ci h
    simp only [unitsPortion.go, he] at h
    cases hl : lookupClass mods c fold units with
    | none => simp only [hl] at h; exact ih' _ h
    | some d =>
      simp only [hl] at h
      split at h
      · simp only [Option.some.injEq] at h; subst h; rfl
      · exact ih' _ h

/-- **A bare number draws only the missing-unit warning.** -/
theorem bare_number (mods : List Modifier) (classes : List UnitClass) (fold : Str → Str)
    (numeric : Bool) (ext : Str) (hc : classes ≠ []) (hb : ' ' ∉ ext) (hn : isNumeric ext = true)
    (hempty : ∀ c ∈ classes, lookupClass mods c fold [] = none) :
    check mods classes fold numeric ext = [.unitsMissing] := by
  have hrp : rpartitionBlank ext = ([], ext) := by
    unfold rpartitionBlank
    have : ext.reverse.idxOf? ' ' = none := by
      simp only [List.idxOf?, List.findIdx?_eq_none_iff]
      intro x hx
      simp only [List.mem_reverse] at hx
      have : x ≠ ' ' := fun e => hb (e ▸ hx)
      simpa using this
    simp [this]
  have hst : stripped mods classes fold ext = (ext, none) := by
    unfold stripped
    cases hu : unitsPortion mods classes fold ext with
    | none => rfl
    | some m =>
      have hv : m.value = [] := by
        unfold unitsPortion at hu
        simp only [hrp] at hu
        split at hu
        · cases hu
        · exact go_value_empty mods fold ext classes hempty 0 m hu
      simp [hv]
  have hne : classes.isEmpty = false := by
    cases classes with
    | nil => exact absurd rfl hc
    | cons a b => rfl
  have hcont : ext.contains ' ' = false := by simpa using hb
  unfold check
  simp [hne, hst, hb, hn]

/-- **Unrecognised unit: invalid-unit error, and the converted value is absent, not an exception.** -/
theorem unrecognised_unit (mods : List Modifier) (classes : List UnitClass) (fold : Str → Str)
    (numeric : Bool) (ext : Str) (hc : classes ≠ []) (hb : ' ' ∈ ext)
    (hno : unitsPortion mods classes fold ext = none) (hv : (rpartitionBlank ext).1 ≠ []) :
    Issue.unitsInvalid ∈ check mods classes fold numeric ext ∧
    valueAsDefault mods classes fold ext = .absent := by
  have hne : classes.isEmpty = false := by
    cases classes with
    | nil => exact absurd rfl hc
    | cons a b => rfl
  constructor
  · unfold check stripped
    have hcont : ext.contains ' ' = true := by simpa using hb
    simp [hne, hno, hb]
  · unfold valueAsDefault
    have : (rpartitionBlank ext).1.isEmpty = false := by
      cases h : (rpartitionBlank ext).1 with
      | nil => exact absurd h hv
      | cons a b => rfl
    simp [this, hno]

/-- **Accepted spelling with a declared factor: the value is defined and equals
number × unit factor × prefix factor** (and validation reports no unit issue for it). -/
theorem accepted_value (mods : List Modifier) (classes : List UnitClass) (fold : Str → Str)
    (numeric : Bool) (ext : Str) (m : Match) (u : UnitDef) (c : UnitClass) (f n : Dec)
    (hm : unitsPortion mods classes fold ext = some m) (hv : m.value ≠ [])
    (hv1 : (rpartitionBlank ext).1 ≠ [])
    (hcls : classes[m.cls]? = some c) (hu : c.units[m.d.unit]? = some u) (hf : u.factor = some f)
    (hn : parseNumber m.value = some n) (hsp : ' ' ∉ m.value) (mf : Option Dec)
    (hown : ownFactor mods m.d.unit u fold m.unitText = some mf) :
    valueAsDefault mods classes fold ext = .value (n.mul (f.mul (mf.getD Dec.one))) ∧
    check mods classes fold numeric ext = [] := by
  have hne : classes.isEmpty = false := by
    cases classes with
    | nil => simp at hcls
    | cons a b => rfl
  have e1 : (rpartitionBlank ext).1.isEmpty = false := by
    cases h : (rpartitionBlank ext).1 with
    | nil => exact absurd h hv1
    | cons a b => rfl
  have e2 : m.value.isEmpty = false := by
    cases h : m.value with
    | nil => exact absurd h hv
    | cons a b => rfl
  constructor
  · unfold valueAsDefault
    simp [e1, hm, e2, hcls, hu, hf, hn, hown]
  · unfold check stripped
    have hcont : m.value.contains ' ' = false := by simpa using hsp
    have hnum : isNumeric m.value = true := by simp [isNumeric, hn]
    simp [hne, hm, e2, hsp, hnum]

/-- The unit's own table finds the prefix factor of every spelling it derives, typed in any case
whose folded form is the derived key (one entry per key within the unit). -/
theorem own_factor_of_key (mods : List Modifier) (i : Nat) (u : UnitDef) (fold : Str → Str) (σ : Str)
    (d : Derived) (hf : Functional (deriveUnit mods i u).reverse)
    (hd : d ∈ deriveUnit mods i u) (hk : fold σ = d.key)
    (hex : ∀ x, getKey (deriveUnit mods i u).reverse σ = some x → x.modFactor = d.modFactor) :
    ownFactor mods i u fold σ = some d.modFactor := by
  unfold ownFactor
  cases h : getKey (deriveUnit mods i u).reverse σ with
  | some x => simp only [h, hex x h]
  | none =>
    have := getKey_of_mem _ hf d (by simpa using hd)
    simp only [h, hk, this, Option.map_some]

/-- **Linear in the number.** Scaling the number by an integer scales the converted value. -/
theorem value_linear (k : Int) (n f : Dec) (mf : Option Dec) :
    (Dec.scale k n).mul (f.mul (mf.getD Dec.one)) = Dec.scale k (n.mul (f.mul (mf.getD Dec.one))) :=
  mul_scale k n _

/-- numeric literals: accepted and rejected spellings of the numericClass pattern -/
example : (["3", "-3", "+3", "3.5", ".5", "3.", "1e3", "1E-3", "007", "0"].map
    fun s => (parseNumber s.toList).isSome) = List.replicate 10 true := by decide
example : (["", ".", "e3", "3e", "3 ", "1.2.3", "--3", "3ms", "1e+", "abc"].map
    fun s => (parseNumber s.toList).isSome) = List.replicate 10 false := by decide
example : parseNumber "-12.50e-1".toList = some ⟨-1250, -3⟩ := by decide

/-- non-vacuity: a time class with an SI symbol unit, a name unit, and a milli prefix -/
def exMods : List Modifier := [⟨"m".toList, true, false, ⟨1, -3⟩⟩, ⟨"milli".toList, false, true, ⟨1, -3⟩⟩]
def exClass : UnitClass :=
  ⟨"timeUnits".toList, [⟨"second".toList, false, true, false, some ⟨1, 0⟩, "seconds".toList⟩,
                        ⟨"s".toList, true, true, false, some ⟨1, 0⟩, [] ⟩], some "s".toList⟩
example : valueAsDefault exMods [exClass] lower "3 Milliseconds".toList = .value ⟨3, -3⟩ := by decide
example : valueAsDefault exMods [exClass] lower "3 ms".toList = .value ⟨3, -3⟩ := by decide
example : valueAsDefault exMods [exClass] lower "3 MS".toList = .absent := by decide
example : check exMods [exClass] lower true "3 MS".toList = [.unitsInvalid] := by decide
example : check exMods [exClass] lower true "3".toList = [.unitsMissing] := by decide


/-! ## growth: the vocabulary condition `UnitsDistinct`, closed accept/reject theorems, rational semantics -/

/-- the well-formedness condition as a proposition -/
structure UnitsDistinct (mods : List Modifier) (c : UnitClass) (fold : Str → Str) : Prop where
  functional : Functional (deriveClass mods c)
  nonempty : ∀ d ∈ deriveClass mods c, d.key ≠ [] ∧ d.key ≠ fold []
  nameFixed : ∀ d ∈ deriveClass mods c, isSymD c d = false → fold d.key = d.key
  symApart : ∀ a ∈ deriveClass mods c, ∀ b ∈ deriveClass mods c,
    isSymD c a = true → isSymD c b = false → fold a.key ≠ b.key

theorem unitsDistinct_iff (mods : List Modifier) (c : UnitClass) (fold : Str → Str) :
    unitsDistinct mods c fold = true ↔ UnitsDistinct mods c fold := by
  simp only [unitsDistinct, Bool.and_eq_true, List.all_eq_true, Bool.or_eq_true, bne_iff_ne, ne_eq,
    beq_iff_eq, Bool.not_eq_eq_eq_not, Bool.not_true]
  constructor
  · rintro ⟨⟨⟨h1, h2⟩, h3⟩, h4⟩
    refine ⟨?_, h2, ?_, ?_⟩
    · intro a ha b hb hk
      rcases h1 a ha b hb with h | ⟨hu, hm⟩
      · exact absurd hk h
      · cases a; cases b; simp_all
    · intro d hd hs
      rcases h3 d hd with h | h
      · rw [hs] at h; cases h
      · exact h
    · intro a ha b hb hsa hsb
      rcases h4 a ha with h | h
      · rw [hsa] at h; cases h
      · rcases h b hb with h' | h'
        · rw [hsb] at h'; cases h'
        · exact h'
  · intro h
    refine ⟨⟨⟨?_, h.nonempty⟩, ?_⟩, ?_⟩
    · intro a ha b hb
      by_cases hk : a.key = b.key
      · right; have := h.functional a ha b hb hk; subst this; exact ⟨rfl, rfl⟩
      · left; exact hk
    · intro d hd
      cases hs : isSymD c d with
      | true => left; rfl
      | false => right; exact h.nameFixed d hd hs
    · intro a ha
      cases hsa : isSymD c a with
      | false => left; rfl
      | true =>
        right
        intro b hb
        cases hsb : isSymD c b with
        | true => left; rfl
        | false => right; exact h.symApart a ha b hb hsa hsb

instance (mods : List Modifier) (c : UnitClass) (fold : Str → Str) : Decidable (UnitsDistinct mods c fold) :=
  decidable_of_iff _ (unitsDistinct_iff mods c fold)

/-- the unit text is a spelling of the class: a symbol unit's spelling exactly as derived, or a name
unit's spelling after case folding -/
def Accepts (mods : List Modifier) (c : UnitClass) (fold : Str → Str) (σ : Str) : Prop :=
  (∃ d ∈ deriveClass mods c, isSymD c d = true ∧ d.key = σ) ∨
  (∃ d ∈ deriveClass mods c, isSymD c d = false ∧ d.key = fold σ)

/-- a text that is no spelling of the class is not found (no condition on the class) -/
theorem lookup_none_of_not_accepts (mods : List Modifier) (c : UnitClass) (fold : Str → Str) (σ : Str)
    (h : ¬ Accepts mods c fold σ) : lookupClass mods c fold σ = none := by
  have hfold : ∀ d2, getKey (deriveClass mods c) (fold σ) = some d2 → isSymD c d2 = true := by
    intro d2 h2
    obtain ⟨m2, k2⟩ := getKey_mem _ _ _ h2
    cases hs : isSymD c d2 with
    | true => rfl
    | false => exact absurd (Or.inr ⟨d2, m2, hs, k2⟩) h
  have hex : ∀ d, getKey (deriveClass mods c) σ = some d → isSymD c d = false := by
    intro d h1
    obtain ⟨m1, k1⟩ := getKey_mem _ _ _ h1
    cases hs : isSymD c d with
    | false => rfl
    | true => exact absurd (Or.inl ⟨d, m1, hs, k1⟩) h
  simp only [lookupClass]
  cases h1 : getKey (deriveClass mods c) σ with
  | none =>
    cases h2 : getKey (deriveClass mods c) (fold σ) with
    | none => rfl
    | some d2 => have := hfold d2 h2; simp only [isSymD] at this; simp [this]
  | some d =>
    have h1' := hex d h1
    simp only [isSymD] at h1'
    cases h2 : getKey (deriveClass mods c) (fold σ) with
    | none => simp [h1']
    | some d2 => have := hfold d2 h2; simp only [isSymD] at this; simp [h1', this]

theorem lookup_name (mods : List Modifier) (c : UnitClass) (fold : Str → Str)
    (hD : UnitsDistinct mods c fold) (d : Derived) (hd : d ∈ deriveClass mods c)
    (hs : isSymD c d = false) (σ : Str) (hσ : fold σ = d.key) : lookupClass mods c fold σ = some d := by
  apply lookup_name_any_case mods c fold σ d
  · rw [hσ]; exact getKey_of_mem _ hD.functional d hd
  · exact hs
  · intro x hx
    obtain ⟨mx, kx⟩ := getKey_mem _ _ _ hx
    cases hsx : isSymD c x with
    | false => exact hsx
    | true => exact absurd (by rw [kx, hσ]) (hD.symApart x mx d hd hsx hs)

theorem lookup_sym (mods : List Modifier) (c : UnitClass) (fold : Str → Str)
    (hD : UnitsDistinct mods c fold) (d : Derived) (hd : d ∈ deriveClass mods c)
    (hs : isSymD c d = true) : lookupClass mods c fold d.key = some d :=
  lookup_symbol_exact mods c fold d.key d (getKey_of_mem _ hD.functional d hd) hs

/-- **Validation lookup = the property's acceptance rule.** In a well-formed class a unit text is found
exactly when it is a symbol spelling as derived or folds to a name spelling. -/
theorem lookup_iff_accepts (mods : List Modifier) (c : UnitClass) (fold : Str → Str)
    (hD : UnitsDistinct mods c fold) (σ : Str) :
    (lookupClass mods c fold σ).isSome = true ↔ Accepts mods c fold σ := by
  constructor
  · intro h
    apply Classical.byContradiction
    intro hn
    rw [lookup_none_of_not_accepts mods c fold σ hn] at h
    cases h
  · rintro (⟨d, hd, hs, rfl⟩ | ⟨d, hd, hs, hk⟩)
    · rw [lookup_sym mods c fold hD d hd hs]; rfl
    · rw [lookup_name mods c fold hD d hd hs σ hk.symm]; rfl

/-- side hypothesis of `bare_number`: nothing is spelled by the empty text -/
theorem distinct_no_empty_spelling (mods : List Modifier) (c : UnitClass) (fold : Str → Str)
    (hD : UnitsDistinct mods c fold) : lookupClass mods c fold [] = none := by
  apply lookup_none_of_not_accepts
  rintro (⟨d, hd, _, hk⟩ | ⟨d, hd, _, hk⟩)
  · exact (hD.nonempty d hd).1 hk
  · exact (hD.nonempty d hd).2 hk

/-- **A bare number draws only the missing-unit warning** (closed: classes satisfying the condition). -/
theorem bare_number_closed (mods : List Modifier) (classes : List UnitClass) (fold : Str → Str)
    (numeric : Bool) (ext : Str) (hc : classes ≠ []) (hb : ' ' ∉ ext) (hn : isNumeric ext = true)
    (hD : ∀ c ∈ classes, UnitsDistinct mods c fold) :
    check mods classes fold numeric ext = [.unitsMissing] :=
  bare_number mods classes fold numeric ext hc hb hn
    (fun c hcm => distinct_no_empty_spelling mods c fold (hD c hcm))

/-! ### splitting at the last blank -/

theorem idxOf?_blank (b r : Str) (hb : ' ' ∉ b) : (b ++ ' ' :: r).idxOf? ' ' = some b.length := by
  induction b with
  | nil => simp [List.idxOf?, List.findIdx?_cons]
  | cons x xs ih =>
    have hx : x ≠ ' ' := fun e => hb (by simp [e])
    have hxs : ' ' ∉ xs := fun h => hb (by simp [h])
    have ih' := ih hxs
    simp only [List.idxOf?] at ih' ⊢
    simp [List.findIdx?_cons, hx, ih']

theorem rpartition_append (a b : Str) (hb : ' ' ∉ b) : rpartitionBlank (a ++ ' ' :: b) = (a, b) := by
  unfold rpartitionBlank
  have hr : (a ++ ' ' :: b).reverse = b.reverse ++ ' ' :: a.reverse := by simp
  have hb' : ' ' ∉ b.reverse := by simpa using hb
  simp only [hr, idxOf?_blank _ _ hb']
  have h1 : List.drop (b.reverse.length + 1) (b.reverse ++ ' ' :: a.reverse) = a.reverse := by
    rw [List.drop_append]; simp
  have h2 : List.take b.reverse.length (b.reverse ++ ' ' :: a.reverse) = b.reverse := by
    rw [List.take_append]; simp [List.take_of_length_le]
  rw [h1, h2]
  simp

/-! ### the class loop of `_get_tag_units_portion` -/

theorem go_skip (mods : List Modifier) (fold : Str → Str) (value units : Str)
    (pre rest : List UnitClass) (ci : Nat)
    (h : ∀ c' ∈ pre, lookupClass mods c' fold units = none ∧ lookupClass mods c' fold value = none) :
    unitsPortion.go mods fold value units ci (pre ++ rest) =
      unitsPortion.go mods fold value units (ci + pre.length) rest := by
  induction pre generalizing ci with
  | nil => rfl
  | cons p ps ih =>
    obtain ⟨h1, h2⟩ := h p (by simp)
    simp only [List.cons_append, unitsPortion.go, h1, h2]
    rw [ih (ci + 1) (fun c' hc' => h c' (by simp [hc']))]
    congr 1
    simp only [List.length_cons]; omega

theorem go_none (mods : List Modifier) (fold : Str → Str) (value units : Str) (cs : List UnitClass) (ci : Nat)
    (h : ∀ c' ∈ cs, lookupClass mods c' fold units = none ∧ lookupClass mods c' fold value = none) :
    unitsPortion.go mods fold value units ci cs = none := by
  have := go_skip mods fold value units cs [] ci h
  simpa [unitsPortion.go] using this

theorem deriveUnit_unit (mods : List Modifier) (i : Nat) (u : UnitDef) (x : Derived)
    (hx : x ∈ deriveUnit mods i u) : x.unit = i := by
  simp only [deriveUnit, List.mem_flatMap, List.mem_cons, List.mem_map] at hx
  obtain ⟨s, _, (rfl | ⟨m, _, rfl⟩)⟩ := hx <;> rfl

theorem deriveUnit_sub (mods : List Modifier) (c : UnitClass) (i : Nat) (u : UnitDef)
    (hu : c.units[i]? = some u) : ∀ d ∈ deriveUnit mods i u, d ∈ deriveClass mods c := by
  intro d hd
  have := go_complete mods c.units 0 [] i u hu d (by simpa using hd)
  simpa [deriveClass] using this

/-- spelling of an optional prefix -/
def pfx (mo : Option Modifier) : Str := (mo.map (·.name)).getD []

/-- the derived entry of base spelling `s` of unit `i` with optional permitted prefix `mo` -/
def entry (i : Nat) (s : Str) (mo : Option Modifier) : Derived := ⟨pfx mo ++ s, i, mo.map (·.factor)⟩

theorem entry_mem (mods : List Modifier) (i : Nat) (u : UnitDef) (s : Str) (hs : s ∈ baseSpellings u)
    (mo : Option Modifier) (hmo : ∀ m, mo = some m → m ∈ modifiersFor mods u) :
    entry i s mo ∈ deriveUnit mods i u := by
  cases mo with
  | none => simpa [entry, pfx] using deriveUnit_base mods i u s hs
  | some m => simpa [entry, pfx] using deriveUnit_prefixed mods i u s m hs (hmo m rfl)

/-- the unit's own table yields the prefix factor of an accepted spelling -/
theorem own_factor_closed (mods : List Modifier) (c : UnitClass) (fold : Str → Str)
    (hD : UnitsDistinct mods c fold) (i : Nat) (u : UnitDef) (hu : c.units[i]? = some u)
    (d : Derived) (hd : d ∈ deriveUnit mods i u) (σ : Str)
    (hσ : if u.isSymbol then σ = d.key else fold σ = d.key) :
    ownFactor mods i u fold σ = some d.modFactor := by
  have hsub := deriveUnit_sub mods c i u hu
  have hfun : Functional (deriveUnit mods i u).reverse := by
    intro a ha b hb hk
    exact hD.functional a (hsub a (by simpa using ha)) b (hsub b (by simpa using hb)) hk
  by_cases hsy : u.isSymbol = true
  · simp only [hsy, ↓reduceIte] at hσ
    subst hσ
    unfold ownFactor
    simp only [getKey_of_mem _ hfun d (by simpa using hd)]
  · have hsy' : u.isSymbol = false := by simpa using hsy
    simp only [hsy', Bool.false_eq_true, ↓reduceIte] at hσ
    apply own_factor_of_key mods i u fold σ d hfun hd hσ
    intro x hx
    obtain ⟨mx, kx⟩ := getKey_mem _ _ _ hx
    have mx' : x ∈ deriveUnit mods i u := by simpa using mx
    have hxs : isSymD c x = false := by
      simp [isSymD, deriveUnit_unit mods i u x mx', hu, hsy']
    have hfix := hD.nameFixed x (hsub x mx') hxs
    have : x.key = d.key := by rw [← hσ, ← kx, hfix]
    rw [hD.functional x (hsub x mx') d (hsub d hd) this]

/-- validation of an accepted text: no issue (no conversion factor needed) -/
theorem accepted_check (mods : List Modifier) (classes : List UnitClass) (fold : Str → Str)
    (numeric : Bool) (ext : Str) (m : Match) (hc : classes ≠ [])
    (hm : unitsPortion mods classes fold ext = some m)
    (hn : isNumeric m.value = true) (hsp : ' ' ∉ m.value) (hv : m.value ≠ []) :
    check mods classes fold numeric ext = [] := by
  have hne : classes.isEmpty = false := by
    cases classes with
    | nil => exact absurd rfl hc
    | cons a b => rfl
  have e2 : m.value.isEmpty = false := by
    cases h : m.value with
    | nil => exact absurd h hv
    | cons a b => rfl
  unfold check stripped
  simp [hne, hm, e2, hsp, hn]

theorem parse_nonempty (n : Str) (num : Dec) (hn : parseNumber n = some num) : n ≠ [] := by
  rintro rfl
  have : parseNumber [] = none := by decide
  rw [this] at hn
  cases hn

/-- **Accepted, closed form (units written after the number).** In a class satisfying `UnitsDistinct`
(and earlier classes of the tag not spelling the text): unit `u`, permitted prefix `mo` (or none), base
spelling `s`, any case variant `σ` of prefix ++ `s` for a name unit, exactly that string for a symbol,
numeric literal `n`. Remaining hypotheses: neither `σ` nor `n` contains a blank. -/
theorem accept_closed (mods : List Modifier) (pre post : List UnitClass) (c : UnitClass)
    (fold : Str → Str) (numeric : Bool) (hD : UnitsDistinct mods c fold)
    (i : Nat) (u : UnitDef) (hu : c.units[i]? = some u) (hnp : u.isPrefix = false)
    (s : Str) (hs : s ∈ baseSpellings u)
    (mo : Option Modifier) (hmo : ∀ m, mo = some m → m ∈ modifiersFor mods u)
    (σ : Str) (hσ : if u.isSymbol then σ = pfx mo ++ s else fold σ = pfx mo ++ s) (hσb : ' ' ∉ σ)
    (n : Str) (num : Dec) (hn : parseNumber n = some num) (hnb : ' ' ∉ n)
    (hpre : ∀ c' ∈ pre, lookupClass mods c' fold σ = none ∧ lookupClass mods c' fold n = none) :
    unitsPortion mods (pre ++ c :: post) fold (n ++ ' ' :: σ) = some ⟨n, σ, pre.length, entry i s mo⟩ ∧
    check mods (pre ++ c :: post) fold numeric (n ++ ' ' :: σ) = [] ∧
    ∀ f, u.factor = some f →
      valueAsDefault mods (pre ++ c :: post) fold (n ++ ' ' :: σ) =
        .value (num.mul (f.mul ((mo.map (·.factor)).getD Dec.one))) := by
  have hdU := entry_mem mods i u s hs mo hmo
  have hdC := deriveUnit_sub mods c i u hu _ hdU
  have hsym : isSymD c (entry i s mo) = u.isSymbol := by simp [isSymD, entry, hu]
  have hlook : lookupClass mods c fold σ = some (entry i s mo) := by
    by_cases hsy : u.isSymbol = true
    · simp only [hsy, ↓reduceIte] at hσ
      have := lookup_sym mods c fold hD _ hdC (by rw [hsym, hsy])
      rw [hσ]; exact this
    · have hsy' : u.isSymbol = false := by simpa using hsy
      simp only [hsy', Bool.false_eq_true, ↓reduceIte] at hσ
      exact lookup_name mods c fold hD _ hdC (by rw [hsym, hsy']) σ hσ
  have hσne : σ ≠ [] := by
    rintro rfl
    rw [distinct_no_empty_spelling mods c fold hD] at hlook
    cases hlook
  have hnne := parse_nonempty n num hn
  have hrp := rpartition_append n σ hσb
  have hm : unitsPortion mods (pre ++ c :: post) fold (n ++ ' ' :: σ) =
      some ⟨n, σ, pre.length, entry i s mo⟩ := by
    unfold unitsPortion
    simp only [hrp]
    have : σ.isEmpty = false := by cases σ with | nil => exact absurd rfl hσne | cons _ _ => rfl
    simp only [this, Bool.false_eq_true, ↓reduceIte]
    rw [go_skip mods fold n σ pre (c :: post) 0 hpre]
    simp [unitsPortion.go, hlook, entry, hu, hnp]
  refine ⟨hm, ?_, ?_⟩
  · exact accepted_check mods _ fold numeric _ _ (by simp) hm (by simp [isNumeric, hn]) hnb hnne
  · intro f hf
    have hown := own_factor_closed mods c fold hD i u hu _ hdU σ (by simpa [entry] using hσ)
    exact (accepted_value mods _ fold numeric _ ⟨n, σ, pre.length, entry i s mo⟩ u c f num hm hnne
      (by rw [hrp]; exact hnne) (by simp) (by simpa [entry] using hu) hf hn hnb _
      (by simpa [entry] using hown)).1

/-- **Accepted, closed form (prefix-type units: the unit text stands before the number).** Extra
hypothesis: the number is not itself a unit spelling of the class. -/
theorem accept_closed_prefix_unit (mods : List Modifier) (pre post : List UnitClass) (c : UnitClass)
    (fold : Str → Str) (numeric : Bool) (hD : UnitsDistinct mods c fold)
    (i : Nat) (u : UnitDef) (hu : c.units[i]? = some u) (hp : u.isPrefix = true)
    (s : Str) (hs : s ∈ baseSpellings u)
    (mo : Option Modifier) (hmo : ∀ m, mo = some m → m ∈ modifiersFor mods u)
    (σ : Str) (hσ : if u.isSymbol then σ = pfx mo ++ s else fold σ = pfx mo ++ s) (hσb : ' ' ∉ σ)
    (n : Str) (num : Dec) (hn : parseNumber n = some num) (hnb : ' ' ∉ n)
    (hnc : lookupClass mods c fold n = none)
    (hpre : ∀ c' ∈ pre, lookupClass mods c' fold σ = none ∧ lookupClass mods c' fold n = none) :
    unitsPortion mods (pre ++ c :: post) fold (σ ++ ' ' :: n) = some ⟨n, σ, pre.length, entry i s mo⟩ ∧
    check mods (pre ++ c :: post) fold numeric (σ ++ ' ' :: n) = [] ∧
    ∀ f, u.factor = some f →
      valueAsDefault mods (pre ++ c :: post) fold (σ ++ ' ' :: n) =
        .value (num.mul (f.mul ((mo.map (·.factor)).getD Dec.one))) := by
  have hdU := entry_mem mods i u s hs mo hmo
  have hdC := deriveUnit_sub mods c i u hu _ hdU
  have hsym : isSymD c (entry i s mo) = u.isSymbol := by simp [isSymD, entry, hu]
  have hlook : lookupClass mods c fold σ = some (entry i s mo) := by
    by_cases hsy : u.isSymbol = true
    · simp only [hsy, ↓reduceIte] at hσ
      have := lookup_sym mods c fold hD _ hdC (by rw [hsym, hsy])
      rw [hσ]; exact this
    · have hsy' : u.isSymbol = false := by simpa using hsy
      simp only [hsy', Bool.false_eq_true, ↓reduceIte] at hσ
      exact lookup_name mods c fold hD _ hdC (by rw [hsym, hsy']) σ hσ
  have hσne : σ ≠ [] := by
    rintro rfl
    rw [distinct_no_empty_spelling mods c fold hD] at hlook
    cases hlook
  have hnne := parse_nonempty n num hn
  have hrp := rpartition_append σ n hnb
  have hm : unitsPortion mods (pre ++ c :: post) fold (σ ++ ' ' :: n) =
      some ⟨n, σ, pre.length, entry i s mo⟩ := by
    unfold unitsPortion
    simp only [hrp]
    have : n.isEmpty = false := by cases n with | nil => exact absurd rfl hnne | cons _ _ => rfl
    simp only [this, Bool.false_eq_true, ↓reduceIte]
    rw [go_skip mods fold σ n pre (c :: post) 0 (fun c' hc' => (hpre c' hc').symm)]
    simp [unitsPortion.go, hlook, hnc, entry, hu, hp]
  refine ⟨hm, ?_, ?_⟩
  · exact accepted_check mods _ fold numeric _ _ (by simp) hm (by simp [isNumeric, hn]) hnb hnne
  · intro f hf
    have hown := own_factor_closed mods c fold hD i u hu _ hdU σ (by simpa [entry] using hσ)
    exact (accepted_value mods _ fold numeric _ ⟨n, σ, pre.length, entry i s mo⟩ u c f num hm hnne
      (by rw [hrp]; exact hσne) (by simp) (by simpa [entry] using hu) hf hn hnb _
      (by simpa [entry] using hown)).1

/-- **Rejected, closed form.** If the unit text is a spelling of none of the tag's classes (not a symbol
spelling as derived, and not folding to a name spelling) — and the number part is not one either (it
could be a prefix-type unit) — validation reports UNITS_INVALID and the converted value is absent. -/
theorem reject_closed (mods : List Modifier) (classes : List UnitClass) (fold : Str → Str)
    (numeric : Bool) (n σ : Str) (hc : classes ≠ []) (hσb : ' ' ∉ σ) (hnne : n ≠ [])
    (hno : ∀ c ∈ classes, ¬ Accepts mods c fold σ) (hnn : ∀ c ∈ classes, ¬ Accepts mods c fold n) :
    Issue.unitsInvalid ∈ check mods classes fold numeric (n ++ ' ' :: σ) ∧
    valueAsDefault mods classes fold (n ++ ' ' :: σ) = .absent := by
  have hrp := rpartition_append n σ hσb
  apply unrecognised_unit mods classes fold numeric _ hc (by simp)
  · unfold unitsPortion
    simp only [hrp]
    split
    · rfl
    · exact go_none mods fold n σ classes 0 (fun c hcm =>
        ⟨lookup_none_of_not_accepts mods c fold σ (hno c hcm),
         lookup_none_of_not_accepts mods c fold n (hnn c hcm)⟩)
  · rw [hrp]; exact hnne

/-! ### rational semantics -/

/-- the rational number an exact decimal denotes: `m · 10^e` -/
def Dec.toRat (a : Dec) : Rat := (a.m : Rat) * (10 : Rat) ^ a.e

theorem ten_ne_zero : (10 : Rat) ≠ 0 := by decide

theorem toRat_mul (a b : Dec) : Dec.toRat (a.mul b) = Dec.toRat a * Dec.toRat b := by
  simp only [Dec.toRat, Dec.mul, Rat.intCast_mul, Rat.zpow_add ten_ne_zero]
  grind

theorem toRat_one : Dec.toRat Dec.one = 1 := by
  simp [Dec.toRat, Dec.one]

theorem toRat_scale (k : Int) (a : Dec) : Dec.toRat (Dec.scale k a) = (k : Rat) * Dec.toRat a := by
  simp only [Dec.toRat, Dec.scale, Rat.intCast_mul, Rat.mul_assoc]

example : Dec.toRat ⟨-1250, -3⟩ = -5 / 4 := by decide +kernel
example : Dec.toRat ⟨3, 2⟩ = 300 := by decide +kernel

/-- **The converted value is number × unit factor × prefix factor, in ℚ.** -/
theorem value_rat (n f : Dec) (mf : Option Dec) :
    Dec.toRat (n.mul (f.mul (mf.getD Dec.one))) =
      Dec.toRat n * Dec.toRat f * (mf.map Dec.toRat).getD 1 := by
  cases mf with
  | none => simp [toRat_mul, toRat_one]
  | some g => simp [toRat_mul, Rat.mul_assoc]

/-- **Linear in the number, in ℚ:** `value (k·n) = k · value n`. -/
theorem value_linear_rat (k : Int) (n g : Dec) :
    Dec.toRat ((Dec.scale k n).mul g) = (k : Rat) * Dec.toRat (n.mul g) := by
  rw [mul_scale, toRat_scale]

/-- `accept_closed` read in ℚ: the value is defined and equals number × unit factor × prefix factor -/
theorem accept_value_rat (mods : List Modifier) (pre post : List UnitClass) (c : UnitClass)
    (fold : Str → Str) (hD : UnitsDistinct mods c fold)
    (i : Nat) (u : UnitDef) (hu : c.units[i]? = some u) (hnp : u.isPrefix = false)
    (s : Str) (hs : s ∈ baseSpellings u)
    (mo : Option Modifier) (hmo : ∀ m, mo = some m → m ∈ modifiersFor mods u)
    (σ : Str) (hσ : if u.isSymbol then σ = pfx mo ++ s else fold σ = pfx mo ++ s) (hσb : ' ' ∉ σ)
    (n : Str) (num : Dec) (hn : parseNumber n = some num) (hnb : ' ' ∉ n)
    (hpre : ∀ c' ∈ pre, lookupClass mods c' fold σ = none ∧ lookupClass mods c' fold n = none)
    (f : Dec) (hf : u.factor = some f) :
    ∃ v, valueAsDefault mods (pre ++ c :: post) fold (n ++ ' ' :: σ) = .value v ∧
      Dec.toRat v = Dec.toRat num * Dec.toRat f * (mo.map fun m => Dec.toRat m.factor).getD 1 := by
  refine ⟨_, (accept_closed mods pre post c fold true hD i u hu hnp s hs mo hmo σ hσ hσb n num hn hnb hpre).2.2 f hf, ?_⟩
  rw [value_rat]
  cases mo <;> rfl

/-! ### non-vacuity of the closed theorems -/

example : UnitsDistinct exMods exClass lower := by
  rw [← unitsDistinct_iff]; decide
/-- a class where the condition fails: a symbol `S` next to a name unit `s` -/
example : ¬ UnitsDistinct [] ⟨[], [⟨['S'], true, false, false, none, []⟩, ⟨['s'], false, false, false, none, ['s', 's']⟩], none⟩ lower := by
  rw [← unitsDistinct_iff]; decide
example : (unitsPortion exMods [exClass] lower "3 MilliSeconds".toList).map (·.d.key) =
    some "milliseconds".toList := by decide
example : (unitsPortion exMods [exClass] lower "3 MilliSeconds".toList).map (·.d.modFactor) =
    some (some ⟨1, -3⟩) := by decide
example : Accepts exMods exClass lower "ms".toList := by
  rw [← lookup_iff_accepts exMods exClass lower (by rw [← unitsDistinct_iff]; decide)]; decide
example : ¬ Accepts exMods exClass lower "MS".toList := by
  rw [← lookup_iff_accepts exMods exClass lower (by rw [← unitsDistinct_iff]; decide)]; decide
/-- the hypotheses of `accept_closed` are jointly satisfiable -/
example : check exMods [exClass] lower true "3 MilliSeconds".toList = [] :=
  (accept_closed exMods [] [] exClass lower true (by rw [← unitsDistinct_iff]; decide) 0
    ⟨"second".toList, false, true, false, some ⟨1, 0⟩, "seconds".toList⟩ rfl rfl
    "seconds".toList (by simp [baseSpellings]) (some ⟨"milli".toList, false, true, ⟨1, -3⟩⟩)
    (by intro m h; cases h; simp [modifiersFor, exMods])
    "MilliSeconds".toList (by decide) (by decide) "3".toList ⟨3, 0⟩ (by decide) (by decide) (by simp)).2.1
example : Dec.toRat (Dec.mul ⟨35, -1⟩ (Dec.mul ⟨1, 0⟩ ⟨1, -3⟩)) = 7 / 2000 := by decide +kernel


/-! ### the unit written before the number: only prefix-type units -/

/-- is the derived entry one of a `unitPrefix` unit of the class (the guard of the second match
attempt of `_get_tag_units_portion`) -/
def isPreD (c : UnitClass) (d : Derived) : Bool := (c.units[d.unit]?.map (·.isPrefix)).getD false

theorem go_unit_first (mods : List Modifier) (fold : Str → Str) (value units : Str)
    (cs : List UnitClass) (ci : Nat) (hnu : ∀ c ∈ cs, lookupClass mods c fold units = none) :
    (unitsPortion.go mods fold value units ci cs).isSome = true ↔
      ∃ c ∈ cs, ∃ d, lookupClass mods c fold value = some d ∧ isPreD c d = true := by
  induction cs generalizing ci with
  | nil => simp [unitsPortion.go]
  | cons c cs ih =>
    have ih' := ih (ci + 1) (fun c' hc' => hnu c' (by simp [hc']))
    simp only [unitsPortion.go, hnu c (by simp)]
    cases hl : lookupClass mods c fold value with
    | none =>
      simp only [ih', List.mem_cons, exists_eq_or_imp, hl]
      simp
    | some d2 =>
      cases hp : isPreD c d2 with
      | true =>
        have hp' := hp
        simp only [isPreD] at hp'
        simp only [hp', ↓reduceIte, Option.isSome_some, true_iff]
        exact ⟨c, by simp, d2, hl, hp⟩
      | false =>
        have hp' := hp
        simp only [isPreD] at hp'
        simp only [hp', Bool.false_eq_true, ↓reduceIte, ih', List.mem_cons, exists_eq_or_imp, hl,
          Option.some.injEq, exists_eq_left', hp, false_or]

/-- **Unit first: accepted iff it is a prefix-type unit.** A text `σ n` (unit text before the number;
the number is not itself a unit spelling) is split into value and unit exactly when `σ` is a spelling
of a unit of one of the tag's classes that carries `unitPrefix`; any other unit written first —
also a unit that would be accepted after the number — is reported as UNITS_INVALID and has no
converted value. -/
theorem unit_first_only_prefix_units (mods : List Modifier) (classes : List UnitClass)
    (fold : Str → Str) (numeric : Bool) (σ n : Str) (hc : classes ≠ []) (hnb : ' ' ∉ n)
    (hnne : n ≠ []) (hσne : σ ≠ [])
    (hnu : ∀ c ∈ classes, lookupClass mods c fold n = none) :
    ((unitsPortion mods classes fold (σ ++ ' ' :: n)).isSome = true ↔
      ∃ c ∈ classes, ∃ d, lookupClass mods c fold σ = some d ∧ isPreD c d = true) ∧
    ((¬ ∃ c ∈ classes, ∃ d, lookupClass mods c fold σ = some d ∧ isPreD c d = true) →
      Issue.unitsInvalid ∈ check mods classes fold numeric (σ ++ ' ' :: n) ∧
      valueAsDefault mods classes fold (σ ++ ' ' :: n) = .absent) := by
  have hrp := rpartition_append σ n hnb
  have hne : n.isEmpty = false := by cases n with | nil => exact absurd rfl hnne | cons _ _ => rfl
  have hiff : (unitsPortion mods classes fold (σ ++ ' ' :: n)).isSome = true ↔
      ∃ c ∈ classes, ∃ d, lookupClass mods c fold σ = some d ∧ isPreD c d = true := by
    unfold unitsPortion
    simp only [hrp, hne, Bool.false_eq_true, ↓reduceIte]
    exact go_unit_first mods fold σ n classes 0 hnu
  refine ⟨hiff, ?_⟩
  intro hno
  apply unrecognised_unit mods classes fold numeric _ hc (by simp)
  · cases h : unitsPortion mods classes fold (σ ++ ' ' :: n) with
    | none => rfl
    | some m => exact absurd (hiff.mp (by rw [h]; rfl)) hno
  · rw [hrp]; exact hσne

/-- non-vacuity: `$ 100` (prefix-type unit) is accepted and converted; `ms 3` is rejected although
`3 ms` is accepted; `$` after the number is not accepted -/
def exCurrency : UnitClass :=
  ⟨"currencyUnits".toList, [⟨"dollar".toList, false, false, false, some ⟨1, 0⟩, "dollars".toList⟩,
                            ⟨"$".toList, true, false, true, some ⟨1, 0⟩, []⟩], some "$".toList⟩
example : check [] [exCurrency] lower true "$ 100".toList = [] := by decide
example : valueAsDefault [] [exCurrency] lower "$ 100".toList = .value ⟨100, 0⟩ := by decide
example : check [] [exCurrency] lower true "100 $".toList = [.unitsInvalid] := by decide
example : Issue.unitsInvalid ∈ check [] [exCurrency] lower true "dollars 100".toList := by decide
example : Issue.unitsInvalid ∈ check exMods [exClass] lower true "ms 3".toList := by decide
example : valueAsDefault exMods [exClass] lower "ms 3".toList = .absent := by decide
example : check exMods [exClass] lower true "3 ms".toList = [] := by decide
example : (unitsPortion [] [exCurrency] lower "$ 100".toList).isSome = true := by decide
example : (unitsPortion exMods [exClass] lower "ms 3".toList).isSome = false := by decide
end HedVerif.C11

namespace HedVerif.Units

/-! ### numeric literals: the semantics of the grammar `[+-]?(\d+(\.\d*)?|\.\d+)([eE][+-]?\d+)?` (place value),
for every digit string — the correspondence samples literals, these theorems cover all of them -/

def AllDigits (s : Str) : Prop := ∀ c ∈ s, isDigit c = true

/-- the head of `r` (if any) is not a digit -/
def StopsDigits (r : Str) : Prop := ∀ c, r.head? = some c → isDigit c = false

theorem foldl_digits (b : Str) (n : Nat) :
    b.foldl (fun acc c => acc * 10 + (c.toNat - '0'.toNat)) n = n * 10 ^ b.length + digitsVal b := by
  induction b generalizing n with
  | nil => simp [digitsVal]
  | cons c b ih =>
    simp only [List.foldl_cons, List.length_cons, digitsVal]
    rw [ih, ih (0 * 10 + _)]
    simp [Nat.pow_succ]; grind

/-- **Place value:** the value of a digit string is positional. -/
theorem digitsVal_append (a b : Str) : digitsVal (a ++ b) = digitsVal a * 10 ^ b.length + digitsVal b := by
  unfold digitsVal
  rw [List.foldl_append, foldl_digits]; rfl

theorem takeDigits_append (ds r : Str) (hd : AllDigits ds) (hr : StopsDigits r) :
    takeDigits (ds ++ r) = (ds, r) := by
  induction ds with
  | nil =>
    cases r with
    | nil => rfl
    | cons c r => have := hr c rfl; simp [takeDigits, this]
  | cons d ds ih =>
    have hd' : isDigit d = true := hd d (by simp)
    have := ih (fun c hc => hd c (by simp [hc]))
    simp only [takeDigits, Prod.mk.injEq] at this
    simp [takeDigits, hd', this.1, this.2]

theorem stops_nil : StopsDigits [] := by intro c h; simp at h
theorem stops_dot (r : Str) : StopsDigits ('.' :: r) := by intro c h; simp at h; subst h; decide

theorem digit_not_sign (d : Char) (h : isDigit d = true) : d ≠ '+' ∧ d ≠ '-' := by
  refine ⟨?_, ?_⟩ <;> (intro e; subst e; revert h; decide)

theorem splitSign_plain (d : Char) (ds : Str) (h1 : d ≠ '+') (h2 : d ≠ '-') :
    splitSign (d :: ds) = (false, d :: ds) := by
  unfold splitSign
  split
  · rename_i heq; simp at heq; exact absurd heq.1 h1
  · rename_i heq; simp at heq; exact absurd heq.1 h2
  · rfl

/-- **An unsigned integer literal denotes its place value.** -/
theorem parse_integer (d : Char) (ds : Str) (hd : AllDigits (d :: ds)) :
    parseNumber (d :: ds) = some ⟨digitsVal (d :: ds), 0⟩ := by
  obtain ⟨h1, h2⟩ := digit_not_sign d (hd d (by simp))
  have ht := takeDigits_append (d :: ds) [] hd stops_nil
  simp only [List.append_nil] at ht
  simp [parseNumber, mantOf, finishNumber, expOf, splitSign_plain d ds h1 h2, ht]

/-- **A decimal literal `ip.fp` denotes `digits(ip fp) · 10^(-|fp|)`.** -/
theorem parse_decimal (d : Char) (ds fp : Str) (hd : AllDigits (d :: ds)) (hf : AllDigits fp) :
    parseNumber (d :: ds ++ '.' :: fp) = some ⟨digitsVal (d :: ds ++ fp), -(fp.length : Int)⟩ := by
  obtain ⟨h1, h2⟩ := digit_not_sign d (hd d (by simp))
  have ht := takeDigits_append (d :: ds) ('.' :: fp) hd (stops_dot fp)
  have ht2 := takeDigits_append fp [] hf stops_nil
  simp only [List.append_nil] at ht2
  simp only [List.cons_append] at ht ⊢
  simp [parseNumber, mantOf, finishNumber, expOf, splitSign_plain d _ h1 h2, ht, ht2]

/-- **A bare fraction `.fp` denotes `digits(fp) · 10^(-|fp|)`; a lone `.` is not a number.** -/
theorem parse_fraction (f : Char) (fp : Str) (hf : AllDigits (f :: fp)) :
    parseNumber ('.' :: f :: fp) = some ⟨digitsVal (f :: fp), -((f :: fp).length : Int)⟩ ∧
    parseNumber ['.'] = none := by
  have ht2 := takeDigits_append (f :: fp) [] hf stops_nil
  simp only [List.append_nil] at ht2
  have h0 : takeDigits ('.' :: f :: fp) = ([], '.' :: f :: fp) := by
    simpa using takeDigits_append [] ('.' :: f :: fp) (by intro c hc; simp at hc) (stops_dot _)
  have hs : splitSign ('.' :: f :: fp) = (false, '.' :: f :: fp) := splitSign_plain _ _ (by decide) (by decide)
  refine ⟨?_, by decide⟩
  simp [parseNumber, mantOf, finishNumber, expOf, hs, h0, ht2]

/-- the exponent `e±ed` adds `±value(ed)` to the decimal exponent -/
theorem expOf_digits (c : Char) (hc : c = 'e' ∨ c = 'E') (g : Char) (gs : Str) (hg : AllDigits (g :: gs)) :
    expOf (c :: g :: gs) = some (digitsVal (g :: gs) : Int) ∧
    expOf (c :: '+' :: g :: gs) = some (digitsVal (g :: gs) : Int) ∧
    expOf (c :: '-' :: g :: gs) = some (-(digitsVal (g :: gs) : Int)) := by
  obtain ⟨h1, h2⟩ := digit_not_sign g (hg g (by simp))
  have ht := takeDigits_append (g :: gs) [] hg stops_nil
  simp only [List.append_nil] at ht
  have hp : splitSign ('+' :: g :: gs) = (false, g :: gs) := rfl
  have hm : splitSign ('-' :: g :: gs) = (true, g :: gs) := rfl
  rcases hc with rfl | rfl <;> simp [expOf, splitSign_plain g gs h1 h2, hp, hm, ht]

/-- **Scientific notation:** `ip.fp e±ed` denotes `digits(ip fp) · 10^(−|fp| ± value(ed))`. -/
theorem parse_scientific (d : Char) (ds fp : Str) (hd : AllDigits (d :: ds)) (hf : AllDigits fp)
    (c : Char) (hc : c = 'e' ∨ c = 'E') (rest : Str) (ev : Int) (he : expOf (c :: rest) = some ev) :
    parseNumber (d :: ds ++ '.' :: fp ++ c :: rest) =
      some ⟨digitsVal (d :: ds ++ fp), -(fp.length : Int) + ev⟩ := by
  obtain ⟨h1, h2⟩ := digit_not_sign d (hd d (by simp))
  have hcs : StopsDigits (c :: rest) := by
    intro x hx; simp at hx; subst hx; rcases hc with rfl | rfl <;> decide
  have ht := takeDigits_append (d :: ds) ('.' :: fp ++ c :: rest) hd (stops_dot _)
  have ht2 := takeDigits_append fp (c :: rest) hf hcs
  simp only [List.cons_append, List.append_assoc] at ht ⊢
  simp [parseNumber, mantOf, finishNumber, splitSign_plain d _ h1 h2, ht, ht2, he]

theorem finish_neg (mant : Option (Str × Str × Str)) :
    finishNumber true mant = (finishNumber false mant).map (fun x => ⟨-x.m, x.e⟩) := by
  cases mant with
  | none => rfl
  | some t =>
    obtain ⟨ip, fp, rest⟩ := t
    simp only [finishNumber]
    cases expOf rest <;> simp

/-- **A leading `-` negates the mantissa and nothing else; a leading `+` changes nothing.** -/
theorem parse_sign (d : Char) (s : Str) (h1 : d ≠ '+') (h2 : d ≠ '-') :
    parseNumber ('-' :: d :: s) = (parseNumber (d :: s)).map (fun x => ⟨-x.m, x.e⟩) ∧
    parseNumber ('+' :: d :: s) = parseNumber (d :: s) := by
  have hm : splitSign ('-' :: d :: s) = (true, d :: s) := rfl
  have hp : splitSign ('+' :: d :: s) = (false, d :: s) := rfl
  simp only [parseNumber, hm, hp, splitSign_plain d s h1 h2, finish_neg, and_self]

/-- a doubled sign is never a number -/
theorem parse_double_sign (a b : Char) (ha : a = '+' ∨ a = '-') (hb : b = '+' ∨ b = '-') (s : Str) :
    parseNumber (a :: b :: s) = none := by
  have hb' : isDigit b = false := by rcases hb with rfl | rfl <;> decide
  have hbd : b ≠ '.' := by rcases hb with rfl | rfl <;> decide
  have ht : takeDigits (b :: s) = ([], b :: s) := by simp [takeDigits, hb']
  have hs : ∃ n, splitSign (a :: b :: s) = (n, b :: s) := by
    rcases ha with rfl | rfl
    · exact ⟨false, rfl⟩
    · exact ⟨true, rfl⟩
  obtain ⟨n, hn⟩ := hs
  simp only [parseNumber, hn, mantOf, ht]
  simp only [List.isEmpty_nil, Bool.not_true, Bool.false_eq_true, ↓reduceIte]
  split
  · rename_i heq; simp at heq; exact absurd heq.1 hbd
  · rfl

example : parseNumber "12.50".toList = some ⟨1250, -2⟩ := by decide
example : parseNumber "-12.50e-1".toList = some ⟨-1250, -3⟩ := by decide
example : AllDigits ['1','2'] ∧ AllDigits ['5','0'] := by
  constructor <;> (intro c hc; simp at hc; rcases hc with rfl | rfl <;> decide)
end HedVerif.Units

namespace HedVerif.C11
open HedVerif.Units
/-- in ℚ: `ip.fp` denotes `(val ip · 10^|fp| + val fp) / 10^|fp|`, i.e. `val ip + val fp / 10^|fp|` -/
theorem parse_decimal_rat (d : Char) (ds fp : Str) (hd : AllDigits (d :: ds)) (hf : AllDigits fp) :
    (parseNumber (d :: ds ++ '.' :: fp)).map Dec.toRat =
      some ((digitsVal (d :: ds) : Rat) + (digitsVal fp : Rat) / (10 : Rat) ^ fp.length) := by
  rw [parse_decimal d ds fp hd hf]
  simp only [Option.map_some, Option.some.injEq, Dec.toRat]
  rw [show (d :: ds ++ fp) = (d :: ds) ++ fp from rfl, digitsVal_append]
  have h10 : ((10 : Rat) ^ fp.length) ≠ 0 := Rat.ne_of_gt (Rat.pow_pos (by decide))
  rw [Rat.zpow_neg, Rat.zpow_natCast]
  simp only [Int.natCast_add, Int.natCast_mul, Int.natCast_pow, Rat.intCast_add, Rat.intCast_mul, Rat.intCast_pow, Rat.intCast_natCast]
  have hc : ((10 : Nat) : Rat) = 10 := by simp
  rw [hc, Rat.div_def, Rat.add_mul, Rat.mul_assoc, Rat.mul_inv_cancel _ h10]
  simp
end HedVerif.C11

namespace HedVerif.C11
open HedVerif.Units
example : (parseNumber "12.50".toList).map Dec.toRat = some (25 / 2) := by decide +kernel
end HedVerif.C11
