/-
C11 — Units are accepted and converted exactly as the schema defines them.
-/
import HedVerif.Model.Units

namespace HedVerif.Units

theorem getKey_mem (tbl : List Derived) (k : Str) (d : Derived) (h : getKey tbl k = some d) :
    d ∈ tbl ∧ d.key = k := by
  unfold getKey at h
  have h1 := List.mem_of_find?_eq_some h
  have h2 := List.find?_some h
  exact ⟨h1, by simpa using h2⟩

/-- one entry per key -/
def Functional (tbl : List Derived) : Prop := ∀ a ∈ tbl, ∀ b ∈ tbl, a.key = b.key → a = b

theorem getKey_of_mem (tbl : List Derived) (hf : Functional tbl) (d : Derived) (hd : d ∈ tbl) :
    getKey tbl d.key = some d := by
  unfold getKey
  cases h : tbl.find? (fun x => x.key == d.key) with
  | none =>
    have := List.find?_eq_none.mp h d hd
    simp at this
  | some x =>
    have hx := List.mem_of_find?_eq_some h
    have hk := List.find?_some h
    exact congrArg some (hf x hx d hd (by simpa using hk))

theorem go_mono (mods : List Modifier) (us : List UnitDef) (i : Nat) (acc : List Derived) :
    ∀ d ∈ acc, d ∈ deriveClass.go mods i us acc := by
  induction us generalizing i acc with
  | nil => intro d hd; exact hd
  | cons u us ih =>
    intro d hd
    simp only [deriveClass.go]
    exact ih (i + 1) _ d (List.mem_append_right _ hd)

theorem go_complete (mods : List Modifier) (us : List UnitDef) (i0 : Nat) (acc : List Derived)
    (p : Nat) (u : UnitDef) (hp : us[p]? = some u) :
    ∀ d ∈ deriveUnit mods (i0 + p) u, d ∈ deriveClass.go mods i0 us acc := by
  induction us generalizing i0 acc p with
  | nil => simp at hp
  | cons v vs ih =>
    intro d hd
    simp only [deriveClass.go]
    cases p with
    | zero =>
      simp only [List.getElem?_cons_zero, Option.some.injEq] at hp
      subst hp
      apply go_mono
      apply List.mem_append_left
      simpa using hd
    | succ p' =>
      simp only [List.getElem?_cons_succ] at hp
      have : i0 + (p' + 1) = (i0 + 1) + p' := by omega
      rw [this] at hd
      exact ih (i0 + 1) _ p' hp d hd

theorem deriveUnit_base (mods : List Modifier) (i : Nat) (u : UnitDef) (s : Str)
    (hs : s ∈ baseSpellings u) : (⟨s, i, none⟩ : Derived) ∈ deriveUnit mods i u := by
  unfold deriveUnit
  simp only [List.mem_flatMap]
  exact ⟨s, hs, List.mem_cons_self⟩

theorem deriveUnit_prefixed (mods : List Modifier) (i : Nat) (u : UnitDef) (s : Str) (m : Modifier)
    (hs : s ∈ baseSpellings u) (hm : m ∈ modifiersFor mods u) :
    (⟨m.name ++ s, i, some m.factor⟩ : Derived) ∈ deriveUnit mods i u := by
  unfold deriveUnit
  simp only [List.mem_flatMap]
  refine ⟨s, hs, List.mem_cons_of_mem _ ?_⟩
  simp only [List.mem_map]
  exact ⟨m, hm, rfl⟩

theorem mul_scale (k : Int) (n f : Dec) : (Dec.scale k n).mul f = Dec.scale k (n.mul f) := by
  simp [Dec.mul, Dec.scale, Int.mul_assoc]

end HedVerif.Units

namespace HedVerif.C11
open HedVerif.Units

/-- **Derived table is complete.** In a class whose dictionary has one entry per key, every base
spelling of every unit (lower-cased name, its plural, or the symbol as declared), bare or preceded
by any modifier the unit permits, is a key bound to that unit with that modifier's factor. -/
theorem derived_complete (mods : List Modifier) (c : UnitClass) (i : Nat) (u : UnitDef)
    (hu : c.units[i]? = some u) (hf : Functional (deriveClass mods c)) (s : Str)
    (hs : s ∈ baseSpellings u) :
    getKey (deriveClass mods c) s = some ⟨s, i, none⟩ ∧
    ∀ m ∈ modifiersFor mods u,
      getKey (deriveClass mods c) (m.name ++ s) = some ⟨m.name ++ s, i, some m.factor⟩ := by
  have hc : ∀ d ∈ deriveUnit mods i u, d ∈ deriveClass mods c := by
    intro d hd
    have := go_complete mods c.units 0 [] i u hu d (by simpa using hd)
    simpa [deriveClass] using this
  constructor
  · exact getKey_of_mem _ hf ⟨s, i, none⟩ (hc _ (deriveUnit_base mods i u s hs))
  · intro m hm
    exact getKey_of_mem _ hf ⟨m.name ++ s, i, some m.factor⟩ (hc _ (deriveUnit_prefixed mods i u s m hs hm))

/-- Only SI units take prefixes, and symbol units take symbol prefixes only. -/
theorem prefix_rule (mods : List Modifier) (u : UnitDef) (m : Modifier) (hm : m ∈ modifiersFor mods u) :
    u.isSI = true ∧ (if u.isSymbol then m.forSymbol = true else m.forName = true) := by
  unfold modifiersFor at hm
  by_cases hsi : u.isSI = true
  · simp only [hsi, Bool.not_true, Bool.false_eq_true, ↓reduceIte] at hm
    by_cases hsy : u.isSymbol = true
    · simp only [hsy, ↓reduceIte, List.mem_filter] at hm ⊢
      exact ⟨hsi, hm.2⟩
    · have : u.isSymbol = false := by simpa using hsy
      simp only [this, Bool.false_eq_true, ↓reduceIte, List.mem_filter] at hm ⊢
      exact ⟨hsi, hm.2⟩
  · have : u.isSI = false := by simpa using hsi
    simp [this] at hm

/-- **Name units are case-insensitive, symbols are exact.** If the folded unit text is a key of a
non-symbol unit and the text as typed is not a symbol's key, the lookup returns that entry; a text
whose exact and folded lookups only reach symbols through folding is rejected. -/
theorem lookup_name_any_case (mods : List Modifier) (c : UnitClass) (fold : Str → Str) (σ : Str)
    (d : Derived) (hd : getKey (deriveClass mods c) (fold σ) = some d)
    (hns : (c.units[d.unit]?.map (·.isSymbol)).getD false = false)
    (hex : ∀ x, getKey (deriveClass mods c) σ = some x →
      (c.units[x.unit]?.map (·.isSymbol)).getD false = false) :
    lookupClass mods c fold σ = some d := by
  unfold lookupClass
  simp only [hd]
  cases h : getKey (deriveClass mods c) σ with
  | none => simp [hns]
  | some x => have := hex x h; simp [this, hns]

theorem lookup_symbol_exact (mods : List Modifier) (c : UnitClass) (fold : Str → Str) (σ : Str)
    (d : Derived) (hd : getKey (deriveClass mods c) σ = some d)
    (hs : (c.units[d.unit]?.map (·.isSymbol)).getD false = true) :
    lookupClass mods c fold σ = some d := by
  unfold lookupClass
  simp [hd, hs]

theorem lookup_symbol_wrong_case (mods : List Modifier) (c : UnitClass) (fold : Str → Str) (σ : Str)
    (d : Derived) (h1 : getKey (deriveClass mods c) σ = none)
    (hd : getKey (deriveClass mods c) (fold σ) = some d)
    (hs : (c.units[d.unit]?.map (·.isSymbol)).getD false = true) :
    lookupClass mods c fold σ = none := by
  unfold lookupClass
  simp [h1, hd, hs]

/-- with nothing before the blank, any match of `_get_tag_units_portion` has an empty value part
(no unit is spelled by the empty text) -/
theorem go_value_empty (mods : List Modifier) (fold : Str → Str) (units : Str) (cs : List UnitClass)
    (hempty : ∀ c ∈ cs, lookupClass mods c fold [] = none) (ci : Nat) (m : Match)
    (h : unitsPortion.go mods fold [] units ci cs = some m) : m.value = [] := by
  induction cs generalizing ci with
  | nil => simp [unitsPortion.go] at h
  | cons c cs ih =>
    have he := hempty c (by simp)
    have ih' := fun ci h => ih (fun c hc => hempty c (by simp [hc])) ci h
    simp only [unitsPortion.go, he] at h
    cases hl : lookupClass mods c fold units with
    | none => simp only [hl] at h; exact ih' _ h
    | some d =>
      simp only [hl] at h
      split at h
      · simp only [Option.some.injEq] at h; subst h; rfl
      · exact ih' _ h

/-- **A bare number draws only the missing-unit warning.** -/
theorem bare_number (mods : List Modifier) (classes : List UnitClass) (fold : Str → Str)
    (numeric : Bool) (ext : Str) (hc : classes ≠ []) (hb : ' ' ∉ ext) (hn : isNumeric ext = true)
    (hempty : ∀ c ∈ classes, lookupClass mods c fold [] = none) :
    check mods classes fold numeric ext = [.unitsMissing] := by
  have hrp : rpartitionBlank ext = ([], ext) := by
    unfold rpartitionBlank
    have : ext.reverse.idxOf? ' ' = none := by
      simp only [List.idxOf?, List.findIdx?_eq_none_iff]
      intro x hx
      simp only [List.mem_reverse] at hx
      have : x ≠ ' ' := fun e => hb (e ▸ hx)
      simpa using this
    simp [this]
  have hst : stripped mods classes fold ext = (ext, none) := by
    unfold stripped
    cases hu : unitsPortion mods classes fold ext with
    | none => rfl
    | some m =>
      have hv : m.value = [] := by
        unfold unitsPortion at hu
        simp only [hrp] at hu
        split at hu
        · cases hu
        · exact go_value_empty mods fold ext classes hempty 0 m hu
      simp [hv]
  have hne : classes.isEmpty = false := by
    cases classes with
    | nil => exact absurd rfl hc
    | cons a b => rfl
  have hcont : ext.contains ' ' = false := by simpa using hb
  unfold check
  simp [hne, hst, hb, hn]

/-- **Unrecognised unit: invalid-unit error, and the converted value is absent, not an exception.** -/
theorem unrecognised_unit (mods : List Modifier) (classes : List UnitClass) (fold : Str → Str)
    (numeric : Bool) (ext : Str) (hc : classes ≠ []) (hb : ' ' ∈ ext)
    (hno : unitsPortion mods classes fold ext = none) (hv : (rpartitionBlank ext).1 ≠ []) :
    Issue.unitsInvalid ∈ check mods classes fold numeric ext ∧
    valueAsDefault mods classes fold ext = .absent := by
  have hne : classes.isEmpty = false := by
    cases classes with
    | nil => exact absurd rfl hc
    | cons a b => rfl
  constructor
  · unfold check stripped
    have hcont : ext.contains ' ' = true := by simpa using hb
    simp [hne, hno, hb]
  · unfold valueAsDefault
    have : (rpartitionBlank ext).1.isEmpty = false := by
      cases h : (rpartitionBlank ext).1 with
      | nil => exact absurd h hv
      | cons a b => rfl
    simp [this, hno]

/-- **Accepted spelling with a declared factor: the value is defined and equals
number × unit factor × prefix factor** (and validation reports no unit issue for it). -/
theorem accepted_value (mods : List Modifier) (classes : List UnitClass) (fold : Str → Str)
    (numeric : Bool) (ext : Str) (m : Match) (u : UnitDef) (c : UnitClass) (f n : Dec)
    (hm : unitsPortion mods classes fold ext = some m) (hv : m.value ≠ [])
    (hv1 : (rpartitionBlank ext).1 ≠ [])
    (hcls : classes[m.cls]? = some c) (hu : c.units[m.d.unit]? = some u) (hf : u.factor = some f)
    (hn : parseNumber m.value = some n) (hsp : ' ' ∉ m.value) (mf : Option Dec)
    (hown : ownFactor mods m.d.unit u fold m.unitText = some mf) :
    valueAsDefault mods classes fold ext = .value (n.mul (f.mul (mf.getD Dec.one))) ∧
    check mods classes fold numeric ext = [] := by
  have hne : classes.isEmpty = false := by
    cases classes with
    | nil => simp at hcls
    | cons a b => rfl
  have e1 : (rpartitionBlank ext).1.isEmpty = false := by
    cases h : (rpartitionBlank ext).1 with
    | nil => exact absurd h hv1
    | cons a b => rfl
  have e2 : m.value.isEmpty = false := by
    cases h : m.value with
    | nil => exact absurd h hv
    | cons a b => rfl
  constructor
  · unfold valueAsDefault
    simp [e1, hm, e2, hcls, hu, hf, hn, hown]
  · unfold check stripped
    have hcont : m.value.contains ' ' = false := by simpa using hsp
    have hnum : isNumeric m.value = true := by simp [isNumeric, hn]
    simp [hne, hm, e2, hsp, hnum]

/-- The unit's own table finds the prefix factor of every spelling it derives, typed in any case
whose folded form is the derived key (one entry per key within the unit). -/
theorem own_factor_of_key (mods : List Modifier) (i : Nat) (u : UnitDef) (fold : Str → Str) (σ : Str)
    (d : Derived) (hf : Functional (deriveUnit mods i u).reverse)
    (hd : d ∈ deriveUnit mods i u) (hk : fold σ = d.key)
    (hex : ∀ x, getKey (deriveUnit mods i u).reverse σ = some x → x.modFactor = d.modFactor) :
    ownFactor mods i u fold σ = some d.modFactor := by
  unfold ownFactor
  cases h : getKey (deriveUnit mods i u).reverse σ with
  | some x => simp only [h, hex x h]
  | none =>
    have := getKey_of_mem _ hf d (by simpa using hd)
    simp only [h, hk, this, Option.map_some]

/-- **Linear in the number.** Scaling the number by an integer scales the converted value. -/
theorem value_linear (k : Int) (n f : Dec) (mf : Option Dec) :
    (Dec.scale k n).mul (f.mul (mf.getD Dec.one)) = Dec.scale k (n.mul (f.mul (mf.getD Dec.one))) :=
  mul_scale k n _

/-- numeric literals: accepted and rejected spellings of the numericClass pattern -/
example : (["3", "-3", "+3", "3.5", ".5", "3.", "1e3", "1E-3", "007", "0"].map
    fun s => (parseNumber s.toList).isSome) = List.replicate 10 true := by decide
example : (["", ".", "e3", "3e", "3 ", "1.2.3", "--3", "3ms", "1e+", "abc"].map
    fun s => (parseNumber s.toList).isSome) = List.replicate 10 false := by decide
example : parseNumber "-12.50e-1".toList = some ⟨-1250, -3⟩ := by decide

/-- non-vacuity: a time class with an SI symbol unit, a name unit, and a milli prefix -/
def exMods : List Modifier := [⟨"m".toList, true, false, ⟨1, -3⟩⟩, ⟨"milli".toList, false, true, ⟨1, -3⟩⟩]
def exClass : UnitClass :=
  ⟨"timeUnits".toList, [⟨"second".toList, false, true, false, some ⟨1, 0⟩, "seconds".toList⟩,
                        ⟨"s".toList, true, true, false, some ⟨1, 0⟩, [] ⟩], some "s".toList⟩
example : valueAsDefault exMods [exClass] lower "3 Milliseconds".toList = .value ⟨3, -3⟩ := by decide
example : valueAsDefault exMods [exClass] lower "3 ms".toList = .value ⟨3, -3⟩ := by decide
example : valueAsDefault exMods [exClass] lower "3 MS".toList = .absent := by decide
example : check exMods [exClass] lower true "3 MS".toList = [.unitsInvalid] := by decide
example : check exMods [exClass] lower true "3".toList = [.unitsMissing] := by decide

end HedVerif.C11
