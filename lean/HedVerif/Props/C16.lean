/-
C16 — Each dataset file is validated with its inherited, merged sidecar.

Theorems about `HedVerif.Bids` (Model/Bids.lean), for all trees / groups, no bounds.
`mergeImpl` is the code with `fixes/C16_merge_own_chain.diff`; `mergeImplOld` is the unchanged code for
data files, refuted by `mergeImplOld_counterexample`.
-/
import HedVerif.Model.Bids
import HedVerif.Model.BidsV

namespace HedVerif.Bids

/-! ## helper lemmas: column dictionaries -/

theorem getCol_cons (k k' : Str) (v : α) (r : Columns α) :
    getCol k ((k', v) :: r) = (getCol k r).or (if k' = k then some v else none) := by
  simp only [getCol]
  cases getCol k r <;> simp

theorem getCol_append_single (k k' : Str) (v : α) (m : Columns α) :
    getCol k (m ++ [(k', v)]) = if k' = k then some v else getCol k m := by
  induction m with
  | nil => simp [getCol_cons, getCol]
  | cons p r ih =>
    obtain ⟨a, b⟩ := p
    simp only [List.cons_append, getCol_cons, ih]
    by_cases h : k' = k <;> simp [h]

theorem getCol_setAll_same (k : Str) (v : α) (m : Columns α) :
    getCol k (setAll k v m) = if hasKey k m then some v else none := by
  induction m with
  | nil => simp [setAll, hasKey, getCol]
  | cons p r ih =>
    obtain ⟨a, b⟩ := p
    by_cases h : a = k <;> cases hr : hasKey k r <;> simp [setAll, hasKey, getCol_cons, ih, h, hr]

theorem getCol_setAll_other (k k' : Str) (v : α) (m : Columns α) (h : k' ≠ k) :
    getCol k (setAll k' v m) = getCol k m := by
  induction m with
  | nil => simp [setAll]
  | cons p r ih =>
    obtain ⟨a, b⟩ := p
    by_cases ha : a = k' <;> simp [setAll, getCol_cons, ih, ha, h]

theorem getCol_upd1 (k : Str) (m : Columns α) (kv : Str × α) :
    getCol k (upd1 m kv) = if kv.1 = k then some kv.2 else getCol k m := by
  obtain ⟨k', v⟩ := kv
  unfold upd1
  by_cases hk : hasKey k' m = true
  · simp only [hk, if_true]
    by_cases h : k' = k
    · subst h; simp [getCol_setAll_same, hk]
    · simp [getCol_setAll_other _ _ _ _ h, h]
  · simp only [hk]
    exact getCol_append_single k k' v m

/-- `m.update(n)`: keys of `n` win, other keys keep their value -/
theorem getCol_update (k : Str) (m n : Columns α) :
    getCol k (update m n) = (getCol k n).or (getCol k m) := by
  unfold update
  induction n generalizing m with
  | nil => simp [getCol]
  | cons p r ih =>
    obtain ⟨a, b⟩ := p
    simp only [List.foldl_cons, ih, getCol_upd1, getCol_cons]
    cases getCol k r <;> by_cases h : a = k <;> simp [h]

theorem getCol_foldl_update_none (k : Str) (acc : Columns α) (post : List (Columns α))
    (h : ∀ t ∈ post, getCol k t = none) : getCol k (post.foldl update acc) = getCol k acc := by
  induction post generalizing acc with
  | nil => rfl
  | cons t r ih =>
    simp only [List.foldl_cons]
    rw [ih _ (fun t' ht' => h t' (List.mem_cons_of_mem _ ht')), getCol_update, h t (List.mem_cons_self ..)]
    simp

/-- in a merged list the last dictionary that has the key decides -/
theorem getCol_mergeCols (k : Str) (pre post : List (Columns α)) (s : Columns α) (v : α)
    (hs : getCol k s = some v) (hpost : ∀ t ∈ post, getCol k t = none) :
    getCol k (mergeCols (pre ++ s :: post)) = some v := by
  unfold mergeCols
  rw [List.foldl_append, List.foldl_cons, getCol_foldl_update_none k _ post hpost, getCol_update, hs]
  simp

theorem getCol_mergeCols_none (k : Str) (l : List (Columns α)) (h : ∀ t ∈ l, getCol k t = none) :
    getCol k (mergeCols l) = none := by
  unfold mergeCols
  rw [getCol_foldl_update_none k [] l h]; rfl

/-! ## helper lemmas: paths -/

theorem mem_inits_prefix {β : Type} (l d : List β) (h : d ∈ inits l) : d <+: l := by
  induction l generalizing d with
  | nil => simp [inits] at h; subst h; exact List.prefix_refl _
  | cons x xs ih =>
    simp only [inits, List.mem_cons, List.mem_map] at h
    rcases h with h | ⟨d', hd', rfl⟩
    · subst h; exact List.nil_prefix
    · exact List.cons_prefix_cons.mpr ⟨rfl, ih d' hd'⟩

theorem inits_sorted {β : Type} (l : List β) :
    (inits l).Pairwise (fun a b => a.length ≤ b.length) := by
  induction l with
  | nil => simp [inits]
  | cons x xs ih =>
    simp only [inits, List.pairwise_cons, List.pairwise_map]
    refine ⟨fun _ _ => by simp, ih.imp ?_⟩
    intro a b hab; simpa using hab

/-- `commonpath([o, d/n]) = d` iff `d` is a prefix of `o` and `d/n` is not -/
theorem commonPrefix_eq_dir (d : Path) (n : Str) (o : Path) :
    commonPrefix o (d ++ [n]) = d ↔ d <+: o ∧ ¬ (d ++ [n]) <+: o := by
  induction d generalizing o with
  | nil =>
    cases o with
    | nil => simp [commonPrefix]
    | cons a as =>
      by_cases h : a = n
      · subst h; simp [commonPrefix]
      · simp only [List.nil_append, commonPrefix, h, if_false, List.nil_prefix, true_and, true_iff]
        intro hp; exact h (List.cons_prefix_cons.mp hp).1.symm
  | cons x d' ih =>
    cases o with
    | nil => simp [commonPrefix]
    | cons a as =>
      by_cases h : a = x
      · subst h
        simp only [List.cons_append, commonPrefix, if_true, List.cons.injEq, true_and, ih,
          List.cons_prefix_cons]
      · simp only [List.cons_append, commonPrefix, h, if_false, List.cons_prefix_cons]
        constructor
        · intro hh; cases hh
        · intro hh; exact absurd hh.1.1.symm h

theorem path_split (p : Path) (hp : p ≠ []) : p.dropLast ++ [p.getLast hp] = p :=
  List.dropLast_concat_getLast hp

/-! ## helper lemmas: entity dictionaries -/

theorem lookup_some_of_mem (l : List (Str × Str)) (k v : Str) (h : (k, v) ∈ l) :
    ∃ w, l.lookup k = some w := by
  induction l with
  | nil => cases h
  | cons p r ih =>
    obtain ⟨a, b⟩ := p
    by_cases hk : k = a
    · subst hk; exact ⟨b, by simp [List.lookup]⟩
    · have hne : (k == a) = false := by simpa using hk
      rcases List.mem_cons.mp h with h | h
      · cases h; exact absurd rfl hk
      · obtain ⟨w, hw⟩ := ih h
        exact ⟨w, by simp [List.lookup, hne, hw]⟩

theorem mem_of_lookup_some (l : List (Str × Str)) (k v : Str) (h : l.lookup k = some v) :
    (k, v) ∈ l := by
  induction l with
  | nil => simp [List.lookup] at h
  | cons p r ih =>
    obtain ⟨a, b⟩ := p
    by_cases hk : k = a
    · subst hk; simp [List.lookup] at h; subst h; exact List.mem_cons_self ..
    · have hne : (k == a) = false := by simpa using hk
      simp only [List.lookup, hne] at h
      exact List.mem_cons_of_mem _ (ih h)

/-- the code's entity loop is the subset test on dictionaries -/
theorem entSubset_iff (s o : List (Str × Str)) :
    entSubset s o = true ↔ ∀ k v, s.lookup k = some v → o.lookup k = some v := by
  unfold entSubset
  rw [List.all_eq_true]
  constructor
  · intro h k v hkv
    have := h (k, v) (mem_of_lookup_some s k v hkv)
    simp only [beq_iff_eq] at this
    rw [this, hkv]
  · intro h kv hkv
    obtain ⟨w, hw⟩ := lookup_some_of_mem s kv.1 kv.2 hkv
    simp only [beq_iff_eq]
    rw [hw, h _ _ hw]

theorem entSubset_refl (s : List (Str × Str)) : entSubset s s = true := by
  rw [entSubset_iff]; intro k v h; exact h

/-! ## helper lemmas: lists -/

theorem find?_toList_of_filter_le_one {β : Type} (p : β → Bool) (l : List β)
    (h : (l.filter p).length ≤ 1) : (l.find? p).toList = l.filter p := by
  induction l with
  | nil => rfl
  | cons a r ih =>
    by_cases ha : p a = true
    · simp only [List.filter_cons, ha, if_true, List.length_cons] at h
      have : r.filter p = [] := List.eq_nil_of_length_eq_zero (by omega)
      simp [ha, this]
    · have ha' : p a = false := by simpa using ha
      simp only [List.filter_cons, ha', Bool.false_eq_true, if_false] at h
      simp [ha', ih h]

theorem filterMap_cons_toList {β γ : Type} (f : β → Option γ) (a : β) (r : List β) :
    (a :: r).filterMap f = (f a).toList ++ r.filterMap f := by
  cases h : f a <;> simp [h]

theorem flatMap_congr' {β : Type _} {γ : Type _} (l : List β) (f g : β → List γ) (h : ∀ a ∈ l, f a = g a) :
    l.flatMap f = l.flatMap g := by
  induction l with
  | nil => rfl
  | cons a r ih =>
    simp only [List.flatMap_cons]
    rw [h a (List.mem_cons_self ..), ih (fun b hb => h b (List.mem_cons_of_mem _ hb))]

theorem find?_congr' {β : Type _} (l : List β) (p q : β → Bool) (h : ∀ a ∈ l, p a = q a) :
    l.find? p = l.find? q := by
  induction l with
  | nil => rfl
  | cons a r ih =>
    simp only [List.find?_cons, h a (List.mem_cons_self ..),
      ih (fun b hb => h b (List.mem_cons_of_mem _ hb))]

theorem pairwise_of_forall' {β : Type _} (R : β → β → Prop) (l : List β) (h : ∀ a b, R a b) :
    l.Pairwise R := by
  induction l with
  | nil => exact List.Pairwise.nil
  | cons a r ih => exact List.pairwise_cons.mpr ⟨fun b _ => h a b, ih⟩

end HedVerif.Bids

/-! ## the property theorems -/
namespace HedVerif.C16
open HedVerif HedVerif.Bids

/-- **applies_subset.**  For a sidecar `s` (with a file name) and a different object `o`:
`is_sidecar_for` holds iff the suffixes are equal, the sidecar's directory is an ancestor-or-same of
the object (its directory is a prefix of the object's path while the sidecar itself is not — a file is
not a directory), and every entity of the sidecar occurs in the object with the same value. -/
theorem applies_subset (s o : PFile α) (hs : s.path ≠ []) (hne : o.path ≠ s.path) :
    applies s o = true ↔
      o.suffix = s.suffix ∧ (s.dir <+: o.path ∧ ¬ s.path <+: o.path) ∧
      (∀ k v, s.ents.lookup k = some v → o.ents.lookup k = some v) := by
  have hsplit := path_split s.path hs
  have hcp := commonPrefix_eq_dir s.path.dropLast (s.path.getLast hs) o.path
  rw [hsplit] at hcp
  unfold applies
  simp only [hne, if_false, PFile.dir]
  by_cases h1 : o.suffix = s.suffix
  · by_cases h2 : commonPrefix o.path s.path = s.path.dropLast
    · have h2' := hcp.mp h2
      simp [h1, h2, entSubset_iff, h2'.1, h2'.2]
    · have : ¬ (s.path.dropLast <+: o.path ∧ ¬ s.path <+: o.path) := fun hh => h2 (hcp.mpr hh)
      have h2' : ¬ s.path.dropLast = commonPrefix o.path s.path := fun hh => h2 hh.symm
      simp [h1, h2', this]
  · simp [h1]

/-- a sidecar applies to itself (first branch of `is_sidecar_for`) -/
theorem applies_self (s : PFile α) : applies s s = true := by simp [applies]

/-- On the directories that `get_sidecars_from_path` visits, the code's test and the property's test
agree, provided no sidecar *file* path is a proper prefix of the object's path. -/
theorem applies_eq_specApplies (s o : PFile α) (hs : s.path ≠ []) (hd : s.dir <+: o.dir)
    (hfile : s.path <+: o.path → s = o) : applies s o = specApplies s o := by
  have hpre : s.dir.isPrefixOf o.dir = true := List.isPrefixOf_iff_prefix.mpr hd
  by_cases hp : o.path = s.path
  · have : s = o := hfile (hp ▸ List.prefix_refl _)
    subst this
    simp [applies, specApplies, entSubset_refl, hpre]
  · have hd' : s.dir <+: o.path := hd.trans (List.dropLast_prefix _)
    have hnot : ¬ s.path <+: o.path := fun h => hp (by rw [hfile h])
    cases hb : applies s o with
    | true =>
      have := (applies_subset s o hs hp).mp hb
      simp [specApplies, this.1, hpre, (entSubset_iff _ _).mpr this.2.2]
    | false =>
      have hn : ¬ (o.suffix = s.suffix ∧ (s.dir <+: o.path ∧ ¬ s.path <+: o.path) ∧
          (∀ k v, s.ents.lookup k = some v → o.ents.lookup k = some v)) := by
        intro hh; rw [(applies_subset s o hs hp).mpr hh] at hb; cases hb
      cases hsp : specApplies s o with
      | false => rfl
      | true =>
        exfalso; apply hn
        simp only [specApplies, Bool.and_eq_true, beq_iff_eq] at hsp
        exact ⟨hsp.1.1, ⟨hd', hnot⟩, (entSubset_iff _ _).mp hsp.2⟩

/-- file-system facts about the sidecars relative to an object: every sidecar has a file name and no
sidecar *file* is a directory on the object's path.  They hold for every object of a group loaded from
a file-system listing (`load_files`). -/
structure Files (g : Group α) (o : PFile α) : Prop where
  named : ∀ s ∈ g.sidecars, s.path ≠ []
  files : ∀ s ∈ g.sidecars, s.path <+: o.path → s = o

/-- the hypotheses of `merge_spec`: `Files` and BIDS' "at most one applicable sidecar per directory" -/
structure WellFormed (g : Group α) (o : PFile α) : Prop where
  named : ∀ s ∈ g.sidecars, s.path ≠ []
  files : ∀ s ∈ g.sidecars, s.path <+: o.path → s = o
  unique : ∀ d ∈ inits o.dir, (g.sidecars.filter (fun s => s.dir == d && specApplies s o)).length ≤ 1

theorem WellFormed.toFiles {g : Group α} {o : PFile α} (h : WellFormed g o) : Files g o := ⟨h.named, h.files⟩

theorem mem_dirSidecars {g : Group α} {d : Path} {s : PFile α} (h : s ∈ dirSidecars g d) :
    s ∈ g.sidecars ∧ s.dir = d := by
  simp only [dirSidecars, List.mem_filter, beq_iff_eq] at h; exact h

/-- in a directory on the object's path the code's per-directory choice is the first listed sidecar
that is applicable in the property's sense -/
theorem chainAt_eq (g : Group α) (o : PFile α) (h : Files g o) (d : Path) (hd : d ∈ inits o.dir) :
    chainAt g o d = (dirSidecars g d).find? (fun s => specApplies s o) := by
  unfold chainAt
  apply find?_congr'
  intro s hs
  obtain ⟨hs1, hs2⟩ := mem_dirSidecars hs
  exact applies_eq_specApplies s o (h.named s hs1) (hs2 ▸ mem_inits_prefix _ _ hd) (h.files s hs1)

theorem filterMap_congr' {β γ : Type} (l : List β) (f g : β → Option γ) (h : ∀ a ∈ l, f a = g a) :
    l.filterMap f = l.filterMap g := by
  induction l with
  | nil => rfl
  | cons a r ih =>
    rw [filterMap_cons_toList, filterMap_cons_toList, h a (List.mem_cons_self ..),
      ih (fun b hb => h b (List.mem_cons_of_mem _ hb))]

/-- **chain for all trees.**  Without any uniqueness assumption the code's chain is the chosen chain:
per directory from the root down, the first listed applicable sidecar. -/
theorem chain_eq_chosenChain (g : Group α) (o : PFile α) (h : Files g o) :
    chain g o = chosenChain g o := by
  unfold chain chosenChain
  exact filterMap_congr' _ _ _ (fun d hd => chainAt_eq g o h d hd)

/-- **merge_chosen** (`merge_spec` for all trees): the code's merged sidecar is the top-down merge of
the chosen chain, whatever the tree looks like. -/
theorem merge_chosen (g : Group α) (o : PFile α) (h : Files g o) :
    mergeImpl g o = mergeCols ((chosenChain g o).map (·.cols)) := by
  simp [mergeImpl, chain_eq_chosenChain g o h]

/-- **first_listed_wins.**  If the sidecars of a directory on the object's path are listed as
`pre ++ s :: post`, `s` is applicable and nothing in `pre` is, then `s` is the code's choice for that
directory, it is in the chain, and it is the only member of the chain from that directory — later
listed applicable sidecars (`post`) are silently ignored. -/
theorem first_listed_wins (g : Group α) (o : PFile α) (h : Files g o) (d : Path) (hd : d ∈ inits o.dir)
    (pre post : List (PFile α)) (s : PFile α) (hl : dirSidecars g d = pre ++ s :: post)
    (hs : specApplies s o = true) (hpre : ∀ p ∈ pre, specApplies p o = false) :
    chainAt g o d = some s ∧ s ∈ chain g o ∧ ∀ t ∈ chain g o, t.dir = d → t = s := by
  have hc : chainAt g o d = some s := by
    rw [chainAt_eq g o h d hd, hl, List.find?_append]
    have : pre.find? (fun s => specApplies s o) = none := by
      rw [List.find?_eq_none]; intro p hp; simp [hpre p hp]
    simp [this, hs]
  refine ⟨hc, ?_, ?_⟩
  · unfold chain; exact List.mem_filterMap.mpr ⟨d, hd, hc⟩
  · intro t ht htd
    unfold chain at ht
    obtain ⟨d', _, hd'⟩ := List.mem_filterMap.mp ht
    have hm : t ∈ dirSidecars g d' := by unfold chainAt at hd'; exact List.mem_of_find?_eq_some hd'
    have : d' = d := by rw [← (mem_dirSidecars hm).2, htd]
    subst this
    rw [hc] at hd'; exact (Option.some.inj hd').symm

/-- with at most one applicable sidecar per directory the chosen chain is the property's chain -/
theorem chosenChain_eq_specChain (g : Group α) (o : PFile α)
    (hu : ∀ d ∈ inits o.dir, (g.sidecars.filter (fun s => s.dir == d && specApplies s o)).length ≤ 1) :
    chosenChain g o = specChain g o := by
  unfold chosenChain specChain
  have key : ∀ ds : List Path, (∀ d ∈ ds, d ∈ inits o.dir) →
      ds.filterMap (fun d => (dirSidecars g d).find? (fun s => specApplies s o)) =
      ds.flatMap (fun d => g.sidecars.filter (fun s => s.dir == d && specApplies s o)) := by
    intro ds
    induction ds with
    | nil => intro _; rfl
    | cons d r ih =>
      intro hds
      rw [filterMap_cons_toList, List.flatMap_cons, ih (fun d' hd' => hds d' (List.mem_cons_of_mem _ hd'))]
      congr 1
      rw [← find?_toList_of_filter_le_one _ _ (hu d (hds d (List.mem_cons_self ..)))]
      congr 1
      unfold dirSidecars
      rw [List.find?_filter]
      apply find?_congr'
      intro s _
      cases s.dir == d <;> cases specApplies s o <;> rfl
  exact key _ (fun d hd => hd)

theorem chain_eq_specChain (g : Group α) (o : PFile α) (h : WellFormed g o) :
    chain g o = specChain g o := by
  rw [chain_eq_chosenChain g o h.toFiles, chosenChain_eq_specChain g o h.unique]

/-- **merge_spec.**  For every tree in which each directory holds at most one applicable sidecar, the
(fixed) code gives every object — data file or sidecar — exactly the property's merge. -/
theorem merge_spec (g : Group α) (o : PFile α) (h : WellFormed g o) :
    mergeImpl g o = mergeSpec g o := by
  simp [mergeImpl, mergeSpec, chain_eq_specChain g o h]

/-- the property's chain lists shallower directories first -/
theorem specChain_depth_sorted (g : Group α) (o : PFile α) :
    (specChain g o).Pairwise (fun s t => s.dir.length ≤ t.dir.length) := by
  unfold specChain
  rw [List.pairwise_flatMap]
  refine ⟨?_, (inits_sorted o.dir).imp ?_⟩
  · intro d _
    rw [List.pairwise_filter]
    apply pairwise_of_forall'
    intro s t
    intro hs ht
    simp only [Bool.and_eq_true, beq_iff_eq] at hs ht
    rw [hs.1, ht.1]; exact Nat.le_refl _
  · intro a b hab s hs t ht
    simp only [List.mem_filter, Bool.and_eq_true, beq_iff_eq] at hs ht
    rw [hs.2.1, ht.2.1]; exact hab

/-- **override.**  For each column key, the deepest applicable sidecar that has the key wins: if the
property's chain is `pre ++ s :: post` (sorted by depth, `specChain_depth_sorted`), `s` has the key
and no later (deeper) sidecar has it, the merged value is `s`'s. -/
theorem override (g : Group α) (o : PFile α) (pre post : List (PFile α)) (s : PFile α) (k : Str) (v : α)
    (hc : specChain g o = pre ++ s :: post) (hs : getCol k s.cols = some v)
    (hpost : ∀ t ∈ post, getCol k t.cols = none) : getCol k (mergeSpec g o) = some v := by
  unfold mergeSpec
  rw [hc, List.map_append, List.map_cons]
  apply getCol_mergeCols k _ _ _ v hs
  intro t ht
  obtain ⟨t', ht', rfl⟩ := List.mem_map.mp ht
  exact hpost t' ht'

/-- a key that no applicable sidecar has is absent from the merge -/
theorem override_absent (g : Group α) (o : PFile α) (k : Str)
    (h : ∀ t ∈ specChain g o, getCol k t.cols = none) : getCol k (mergeSpec g o) = none := by
  unfold mergeSpec
  apply getCol_mergeCols_none
  intro t ht
  obtain ⟨t', ht', rfl⟩ := List.mem_map.mp ht
  exact h t' ht'

/-- the same for the code's merge (through `merge_spec`) -/
theorem override_impl (g : Group α) (o : PFile α) (h : WellFormed g o) (pre post : List (PFile α))
    (s : PFile α) (k : Str) (v : α)
    (hc : specChain g o = pre ++ s :: post) (hs : getCol k s.cols = some v)
    (hpost : ∀ t ∈ post, getCol k t.cols = none) : getCol k (mergeImpl g o) = some v := by
  rw [merge_spec g o h]; exact override g o pre post s k v hc hs hpost

/-- a path is pruned iff one of its directory components is an excluded name -/
theorem visible_false_iff (excl : List Str) (p : Path) :
    visible excl p = false ↔ ∃ c ∈ p.dropLast, c ∈ excl := by
  unfold visible
  rw [List.all_eq_false]
  constructor
  · rintro ⟨c, hc, h⟩; exact ⟨c, hc, by simpa using h⟩
  · rintro ⟨c, hc, h⟩; exact ⟨c, hc, by simpa using h⟩

/-- **excluded.**  Files under an excluded directory *name* (at any depth) contribute nothing: the
loaded group — hence every chain, merge and issue — is the same with or without them. -/
theorem excluded (a x b : Tree α) (excl : List Str) (suffix : Str)
    (hx : ∀ f ∈ x, ∃ c ∈ f.1.dropLast, c ∈ excl) :
    load (a ++ x ++ b) excl suffix = load (a ++ b) excl suffix := by
  have hnil : ∀ ext, discover x excl suffix ext = [] := by
    intro ext
    unfold discover
    rw [List.filter_eq_nil_iff]
    intro f hf
    have := (visible_false_iff excl f.1).mpr (hx f hf)
    simp [this]
  have hd : ∀ ext, discover (a ++ x ++ b) excl suffix ext = discover (a ++ b) excl suffix ext := by
    intro ext
    have h := hnil ext
    unfold discover at h ⊢
    simp only [List.filter_append, h, List.append_nil]
  unfold load
  rw [hd, hd]

/-- only visible files are ever parsed -/
theorem discover_visible (t : Tree α) (excl : List Str) (suffix ext : Str) :
    ∀ f ∈ discover t excl suffix ext, visible excl f.1 = true := by
  intro f hf
  simp only [discover, List.mem_filter, Bool.and_eq_true] at hf
  exact hf.2.1

/-- constructing the file objects raises iff some listed name is malformed -/
theorem parseAll_error_iff (t : Tree α) :
    (∃ e, parseAll t = .error e) ↔ ∃ f ∈ t, ∃ e, parseName (f.1.getLastD []) = .error e := by
  induction t with
  | nil => simp [parseAll]
  | cons f r ih =>
    obtain ⟨p, c⟩ := f
    cases hp : parseName (p.getLastD []) with
    | error e =>
      simp only [parseAll, hp]
      exact ⟨fun _ => ⟨(p, c), List.mem_cons_self .., e, hp⟩, fun _ => ⟨e, rfl⟩⟩
    | ok v =>
      cases hr : parseAll r with
      | error e =>
        have := ih.mp ⟨e, hr⟩
        simp only [parseAll, hp, hr, List.mem_cons]
        constructor
        · intro _; obtain ⟨f, hf, e', he'⟩ := this; exact ⟨f, Or.inr hf, e', he'⟩
        · intro _; exact ⟨e, rfl⟩
      | ok fs =>
        have hno : ¬ ∃ f ∈ r, ∃ e, parseName (f.1.getLastD []) = .error e := by
          intro h; obtain ⟨e, he⟩ := ih.mpr h; rw [hr] at he; cases he
        simp only [parseAll, hp, hr, List.mem_cons]
        constructor
        · rintro ⟨e, he⟩; cases he
        · rintro ⟨f, hf | hf, e, he⟩
          · subst hf; rw [hp] at he; cases he
          · exact absurd ⟨f, hf, e, he⟩ hno

/-- **load_error_iff.**  `BidsFileGroup(...)` raises a `HedFileError` iff some *visible* file that
passes the suffix/extension filter (`.json` or `.tsv`) has a malformed name; files under excluded
directory names never make it raise. -/
theorem load_error_iff (t : Tree α) (excl : List Str) (suffix : Str) :
    (∃ e, load t excl suffix = .error e) ↔
      ∃ f ∈ t, visible excl f.1 = true ∧
        (checkName (f.1.getLastD []) suffix jsonExt = true ∨ checkName (f.1.getLastD []) suffix tsvExt = true) ∧
        ∃ e, parseName (f.1.getLastD []) = .error e := by
  have hj := parseAll_error_iff (discover t excl suffix jsonExt)
  have ht := parseAll_error_iff ((discover t excl suffix tsvExt).map fun f => (f.1, (some [] : Option (Columns α))))
  unfold load
  cases h1 : parseAll (discover t excl suffix jsonExt) with
  | error e =>
    obtain ⟨f, hf, e', he'⟩ := hj.mp ⟨e, h1⟩
    simp only [discover, List.mem_filter, Bool.and_eq_true] at hf
    exact ⟨fun _ => ⟨f, hf.1, hf.2.1, Or.inl hf.2.2, e', he'⟩, fun _ => ⟨e, rfl⟩⟩
  | ok ss =>
    have hnj : ¬ ∃ f ∈ discover t excl suffix jsonExt, ∃ e, parseName (f.1.getLastD []) = .error e := by
      intro h; obtain ⟨e, he⟩ := hj.mpr h; rw [h1] at he; cases he
    cases h2 : parseAll ((discover t excl suffix tsvExt).map fun f => (f.1, (some [] : Option (Columns α)))) with
    | error e =>
      obtain ⟨f, hf, e', he'⟩ := ht.mp ⟨e, h2⟩
      obtain ⟨f0, hf0, rfl⟩ := List.mem_map.mp hf
      simp only [discover, List.mem_filter, Bool.and_eq_true] at hf0
      exact ⟨fun _ => ⟨f0, hf0.1, hf0.2.1, Or.inr hf0.2.2, e', he'⟩, fun _ => ⟨e, rfl⟩⟩
    | ok ds =>
      have hnt : ¬ ∃ f ∈ (discover t excl suffix tsvExt).map (fun f => (f.1, (some [] : Option (Columns α)))),
          ∃ e, parseName (f.1.getLastD []) = .error e := by
        intro h; obtain ⟨e, he⟩ := ht.mpr h; rw [h2] at he; cases he
      constructor
      · rintro ⟨e, he⟩; cases he
      · rintro ⟨f, hf, hv, hc | hc, e, he⟩
        · have hm : f ∈ discover t excl suffix jsonExt := by
            unfold discover; exact List.mem_filter.mpr ⟨hf, by rw [hv, hc]; rfl⟩
          exact absurd ⟨f, hm, e, he⟩ hnj
        · have hm : f ∈ discover t excl suffix tsvExt := by
            unfold discover; exact List.mem_filter.mpr ⟨hf, by rw [hv, hc]; rfl⟩
          exact absurd ⟨(f.1, some []), List.mem_map.mpr ⟨f, hm, rfl⟩, e, he⟩ hnt

/-- **exit_iff.** -/
theorem exit_iff (l : List ι) : exitCode l = 1 ↔ l ≠ [] := by
  cases l <;> simp [exitCode]

theorem exit_zero_iff (l : List ι) : exitCode l = 0 ↔ l = [] := by
  cases l <;> simp [exitCode]

/-- **validate_composition.**  In a well-formed group the dataset's issue list is the concatenation of
the issues of every sidecar with the property's merge and of every data file with the property's
merge (or no sidecar when no sidecar applies). -/
theorem validate_composition (vS : PFile α → Columns α → List ι)
    (vT : PFile α → Option (Columns α) → List ι) (g : Group α)
    (hS : ∀ s ∈ g.sidecars, WellFormed g s) (hD : ∀ d ∈ g.datafiles, WellFormed g d) :
    issues vS vT g = issuesSpec vS vT g := by
  unfold issues issuesSpec
  congr 1
  · apply flatMap_congr'
    intro s hs; rw [merge_spec g s (hS s hs)]
  · apply flatMap_congr'
    intro d hd
    rw [merge_spec g d (hD d hd)]
    simp only [hasSidecar, chain_eq_specChain g d (hD d hd)]
    cases (specChain g d).isEmpty <;> rfl

/-! ## every file-system listing is covered (`load_files`) -/

/-- a listing of the files of a file system: every entry has a name, and no entry's path is a prefix
of another entry's path (a file is not a directory; paths are distinct) -/
def IsListing (t : Tree α) : Prop :=
  (∀ f ∈ t, f.1 ≠ []) ∧ (∀ f ∈ t, ∀ f' ∈ t, f.1 <+: f'.1 → f = f')

theorem eq_of_filter_length_le_one {β : Type _} (p : β → Bool) (l : List β) (h : (l.filter p).length ≤ 1)
    (a b : β) (ha : a ∈ l) (hb : b ∈ l) (hpa : p a = true) (hpb : p b = true) : a = b := by
  have ha' : a ∈ l.filter p := List.mem_filter.mpr ⟨ha, hpa⟩
  have hb' : b ∈ l.filter p := List.mem_filter.mpr ⟨hb, hpb⟩
  match hf : l.filter p, h with
  | [], _ => rw [hf] at ha'; cases ha'
  | [x], _ =>
    rw [hf] at ha' hb'
    rw [List.mem_singleton.mp ha', List.mem_singleton.mp hb']
  | _ :: _ :: _, h => simp at h

/-- the executable listing check (run by the driver on every generated tree) implies `IsListing` -/
theorem isListingB_sound (t : Tree α) (h : isListingB t = true) : IsListing t := by
  unfold isListingB at h
  rw [List.all_eq_true] at h
  constructor
  · intro f hf
    have := h f hf
    simp only [Bool.and_eq_true, Bool.not_eq_true', List.isEmpty_eq_false_iff] at this
    exact this.1
  · intro f hf f' hf' hpre
    have := h f hf
    simp only [Bool.and_eq_true, beq_iff_eq] at this
    exact eq_of_filter_length_le_one _ t (Nat.le_of_eq this.2) f f' hf hf'
      (List.isPrefixOf_iff_prefix.mpr (List.prefix_refl _)) (List.isPrefixOf_iff_prefix.mpr hpre)

theorem parseAll_mem (t : Tree α) (fs : List (PFile α)) (h : parseAll t = .ok fs) :
    ∀ s ∈ fs, ∃ f ∈ t, s.path = f.1 ∧ s.cols = f.2.getD [] ∧ s.obj = f.2.isSome ∧
      parseName (f.1.getLastD []) = .ok (s.suffix, s.ents) := by
  induction t generalizing fs with
  | nil =>
    simp only [parseAll] at h; cases h; intro s hs; cases hs
  | cons f r ih =>
    obtain ⟨p, c⟩ := f
    cases hp : parseName (p.getLastD []) with
    | error e => simp only [parseAll, hp] at h; cases h
    | ok v =>
      obtain ⟨sfx, es⟩ := v
      cases hr : parseAll r with
      | error e => simp only [parseAll, hp, hr] at h; cases h
      | ok fs' =>
        simp only [parseAll, hp, hr] at h
        cases h
        intro s hs
        rcases List.mem_cons.mp hs with rfl | hs
        · exact ⟨(p, c), List.mem_cons_self .., rfl, rfl, rfl, hp⟩
        · obtain ⟨f, hf, h'⟩ := ih fs' hr s hs
          exact ⟨f, List.mem_cons_of_mem _ hf, h'⟩

theorem not_json_and_tsv (x : Str) (h1 : endsWith x jsonExt = true) (h2 : endsWith x tsvExt = true) : False := by
  unfold endsWith at h1 h2
  generalize x.reverse = r at h1 h2
  cases r with
  | nil => simp [jsonExt, List.isPrefixOf] at h1
  | cons c cs =>
    simp only [jsonExt, tsvExt, List.reverse_cons, List.reverse_nil, List.nil_append, List.cons_append,
      List.isPrefixOf, Bool.and_eq_true, beq_iff_eq] at h1 h2
    have := h1.1.trans h2.1.symm
    exact absurd this (by decide)

theorem checkName_endsWith (n sfx ext : Str) (h : checkName n sfx ext = true) :
    endsWith (lower (lower n)) (lower ext) = true := by
  by_cases he : endsWith (lower (lower n)) (lower ext) = true
  · exact he
  · simp [checkName, checkFilename, getAllowed, he] at h

theorem lower_jsonExt : lower jsonExt = jsonExt := by decide
theorem lower_tsvExt : lower tsvExt = tsvExt := by decide

/-- **load_files.**  For a group loaded from any file-system listing, `Files` holds for every object
(sidecar or data file), so `merge_chosen`, `first_listed_wins`, `chain_eq_chosenChain` apply to every
tree, well-formed or not. -/
theorem load_files (t : Tree α) (excl : List Str) (suffix : Str) (g : Group α) (ht : IsListing t)
    (hl : load t excl suffix = .ok g) : ∀ o ∈ g.sidecars ++ g.datafiles, Files g o := by
  unfold load at hl
  cases h1 : parseAll (discover t excl suffix jsonExt) with
  | error e => rw [h1] at hl; cases hl
  | ok ss =>
    cases h2 : parseAll ((discover t excl suffix tsvExt).map fun f => (f.1, (some [] : Option (Columns α)))) with
    | error e => rw [h1, h2] at hl; cases hl
    | ok ds =>
      rw [h1, h2] at hl
      cases hl
      have hS := parseAll_mem _ ss h1
      have hD := parseAll_mem _ ds h2
      have hdisc : ∀ ext, ∀ f ∈ discover t excl suffix ext,
          f ∈ t ∧ checkName (f.1.getLastD []) suffix ext = true := by
        intro ext f hf
        simp only [discover, List.mem_filter, Bool.and_eq_true] at hf
        exact ⟨hf.1, hf.2.2⟩
      intro o ho
      refine ⟨?_, ?_⟩
      · intro s hs
        obtain ⟨f, hf, hp, _⟩ := hS s hs
        rw [hp]; exact ht.1 f (hdisc _ f hf).1
      · intro s hs hpre
        obtain ⟨f, hf, hp, hc, hob, hn⟩ := hS s hs
        obtain ⟨hft, hfc⟩ := hdisc _ f hf
        rcases List.mem_append.mp ho with ho | ho
        · obtain ⟨f', hf', hp', hc', hob', hn'⟩ := hS o ho
          have : f = f' := ht.2 f hft f' (hdisc _ f' hf').1 (by rw [← hp, ← hp']; exact hpre)
          subst this
          rw [hn] at hn'
          cases s; cases o
          simp only [Except.ok.injEq, Prod.mk.injEq] at hn'
          simp_all
        · obtain ⟨f', hf', hp', _, _, _⟩ := hD o ho
          obtain ⟨f0, hf0, rfl⟩ := List.mem_map.mp hf'
          obtain ⟨hf0t, hf0c⟩ := hdisc _ f0 hf0
          have : f = f0 := ht.2 f hft f0 hf0t (by rw [← hp]; simpa [hp'] using hpre)
          subst this
          exfalso
          have e1 := checkName_endsWith _ _ _ hfc
          have e2 := checkName_endsWith _ _ _ hf0c
          rw [lower_jsonExt] at e1; rw [lower_tsvExt] at e2
          exact not_json_and_tsv _ e1 e2

/-! ## discovery: the walk with pruning is a filter of the full listing (`discover_spec`) -/

/-- no excluded name among the directory components after the first `n` -/
def visFrom (n : Nat) (excl : List Str) (p : Path) : Bool := ((p.drop n).dropLast).all fun c => !excl.contains c

theorem visFrom_zero (excl : List Str) (p : Path) : visFrom 0 excl p = visible excl p := by
  simp [visFrom, visible]

theorem visFrom_single (here : Path) (a : Str) (excl : List Str) :
    visFrom here.length excl (here ++ [a]) = true := by
  simp [visFrom]

theorem visFrom_cons (here : Path) (n : Str) (rest : Path) (excl : List Str) (hr : rest ≠ []) :
    visFrom here.length excl (here ++ n :: rest) =
      (!excl.contains n && visFrom (here ++ [n]).length excl ((here ++ [n]) ++ rest)) := by
  cases rest with
  | nil => exact absurd rfl hr
  | cons a as => simp [visFrom, List.dropLast]

mutual
theorem Dir.files_prefix (excl : List Str) (keep : Str → Bool) :
    (D : Dir α) → ∀ here, ∀ f ∈ D.files excl keep here, ∃ rest, rest ≠ [] ∧ f.1 = here ++ rest
  | .mk fs subs => by
    intro here f hf
    simp only [Dir.files, List.mem_append, List.mem_map, List.mem_filter] at hf
    rcases hf with ⟨x, _, rfl⟩ | hf
    · exact ⟨[x.1], by simp, rfl⟩
    · exact DirList.files_prefix excl keep subs here f hf
theorem DirList.files_prefix (excl : List Str) (keep : Str → Bool) :
    (L : DirList α) → ∀ here, ∀ f ∈ L.files excl keep here, ∃ rest, rest ≠ [] ∧ f.1 = here ++ rest
  | .nil => by intro here f hf; simp [DirList.files] at hf
  | .cons n d rest => by
    intro here f hf
    simp only [DirList.files, List.mem_append] at hf
    rcases hf with hf | hf
    · by_cases hc : fileListPrunes excl here n = true
      · rw [if_pos hc] at hf; cases hf
      · rw [if_neg hc] at hf
        obtain ⟨r, _, he⟩ := Dir.files_prefix excl keep d (here ++ [n]) f hf
        exact ⟨n :: r, by simp, by rw [he]; simp⟩
    · exact DirList.files_prefix excl keep rest here f hf
end

theorem fileListPrunes_nil (here : Path) (n : Str) : fileListPrunes [] here n = false := rfl

theorem getLastD_concat' (l : Path) (a : Str) : (l ++ [a]).getLastD [] = a := by simp

mutual
theorem Dir.files_eq_filter (excl : List Str) (keep : Str → Bool) :
    (D : Dir α) → ∀ here, D.files excl keep here =
      (D.files [] (fun _ => true) here).filter
        (fun f => visFrom here.length excl f.1 && keep (f.1.getLastD []))
  | .mk fs subs => by
    intro here
    simp only [Dir.files, List.filter_append, List.filter_map]
    rw [← DirList.files_eq_filter excl keep subs here]
    congr 1
    congr 1
    rw [List.filter_filter]
    apply List.filter_congr
    intro x _
    simp [Function.comp, visFrom_single]
theorem DirList.files_eq_filter (excl : List Str) (keep : Str → Bool) :
    (L : DirList α) → ∀ here, L.files excl keep here =
      (L.files [] (fun _ => true) here).filter
        (fun f => visFrom here.length excl f.1 && keep (f.1.getLastD []))
  | .nil => by intro here; simp [DirList.files]
  | .cons n d rest => by
    intro here
    simp only [DirList.files, fileListPrunes_nil, List.filter_append, Bool.false_eq_true, if_false]
    rw [← DirList.files_eq_filter excl keep rest here]
    congr 1
    have hpre := Dir.files_prefix ([] : List Str) (fun _ => true) d (here ++ [n])
    by_cases hc : fileListPrunes excl here n = true
    · simp only [hc, if_true]
      symm
      rw [List.filter_eq_nil_iff]
      intro f hf
      obtain ⟨r, hr, he⟩ := hpre f hf
      have hm : n ∈ excl := by simpa [fileListPrunes] using hc
      rw [he, List.append_assoc, List.singleton_append, visFrom_cons here n r excl hr]
      simp [hm]
    · simp only [hc, if_false]
      rw [Dir.files_eq_filter excl keep d (here ++ [n])]
      apply List.filter_congr
      intro f hf
      obtain ⟨r, hr, he⟩ := hpre f hf
      have hm : ¬ n ∈ excl := by simpa [fileListPrunes] using hc
      rw [he]
      conv => rhs; rw [List.append_assoc, List.singleton_append, visFrom_cons here n r excl hr]
      simp [hm]
end

/-- **discover_spec.**  `get_file_list` (walk with pruning of excluded directory names, filter on
prefix / suffix / extensions) returns exactly the files of the full listing whose path has no excluded
directory-name component and whose name passes `check_filename`, in listing order. -/
theorem discover_spec (D : Dir α) (f : NameFilter) (excl : List Str) :
    getFileList D f excl =
      D.listing.filter (fun e => visible excl e.1 && checkFilename f (e.1.getLastD [])) := by
  unfold getFileList Dir.listing
  rw [Dir.files_eq_filter excl (checkFilename f) D []]
  apply List.filter_congr
  intro e _
  rw [List.length_nil, visFrom_zero]

/-- membership form: independent of the order in which directories and files are traversed -/
theorem discover_mem (D : Dir α) (f : NameFilter) (excl : List Str) (e : Path × Option (Columns α)) :
    e ∈ getFileList D f excl ↔
      e ∈ D.listing ∧ (∀ c ∈ e.1.dropLast, c ∉ excl) ∧ checkFilename f (e.1.getLastD []) = true := by
  rw [discover_spec, List.mem_filter, Bool.and_eq_true]
  have : visible excl e.1 = true ↔ ∀ c ∈ e.1.dropLast, c ∉ excl := by
    simp [visible]
  rw [this]

/-- two directory trees with the same files (listings equal up to order, e.g. another `scandir`
order) give the same discovered files up to order -/
theorem discover_order_independent (D D' : Dir α) (f : NameFilter) (excl : List Str)
    (h : D.listing.Perm D'.listing) : (getFileList D f excl).Perm (getFileList D' f excl) := by
  rw [discover_spec, discover_spec]; exact h.filter _

/-- the flat `discover` that `load` uses is `get_file_list(root, name_suffix=suffix, extensions=[ext])` -/
theorem discover_eq_getFileList (D : Dir α) (excl : List Str) (suffix ext : Str) :
    discover D.listing excl suffix ext = getFileList D ⟨[], [suffix], [ext]⟩ excl := by
  rw [discover_spec]; rfl

/-! ## both walkers exclude the same directories; who takes part -/

/-- **walkers_agree_on_exclusion.**  `get_file_list` (which builds the sidecar and data-file lists) and
`get_dir_dictionary` (which builds the per-directory sidecar index) prune exactly the same directories:
both test the bare directory name, in every directory. -/
theorem walkers_agree_on_exclusion (excl : List Str) (here : Path) (n : Str) :
    fileListPrunes excl here n = dirDictPrunes excl here n := rfl

/-- pruning is by *name*: it does not depend on where the directory is, and holds iff the name is listed -/
theorem prunes_by_name (excl : List Str) (here here' : Path) (n : Str) :
    fileListPrunes excl here n = fileListPrunes excl here' n ∧
    (fileListPrunes excl here n = true ↔ n ∈ excl) ∧ (dirDictPrunes excl here n = true ↔ n ∈ excl) := by
  simp [fileListPrunes, dirDictPrunes]

mutual
theorem Dir.dict_files (excl : List Str) (keep : Str → Bool) (skip : Bool) :
    (D : Dir α) → ∀ here, (D.dict excl keep skip here).flatMap (·.2) = (D.files excl keep here).map (·.1)
  | .mk fs subs => by
    intro here
    simp only [Dir.dict, Dir.files, List.flatMap_append, List.map_append, List.map_map]
    rw [DirList.dict_files excl keep skip subs here]
    congr 1
    by_cases h : (skip && ((fs.filter fun f => keep f.1).map fun f => here ++ [f.1]).isEmpty) = true
    · rw [if_pos h]
      simp only [Bool.and_eq_true, List.isEmpty_iff, List.map_eq_nil_iff] at h
      simp [h.2]
    · rw [if_neg h]; simp [Function.comp_def]
theorem DirList.dict_files (excl : List Str) (keep : Str → Bool) (skip : Bool) :
    (L : DirList α) → ∀ here, (L.dict excl keep skip here).flatMap (·.2) = (L.files excl keep here).map (·.1)
  | .nil => by intro here; simp [DirList.dict, DirList.files]
  | .cons n d rest => by
    intro here
    simp only [DirList.dict, DirList.files, List.flatMap_append, List.map_append]
    rw [DirList.dict_files excl keep skip rest here, ← walkers_agree_on_exclusion]
    congr 1
    by_cases hc : fileListPrunes excl here n = true
    · simp [hc]
    · simp only [hc, if_false]; exact Dir.dict_files excl keep skip d (here ++ [n])
end

/-- **walkers_agree.**  For the same filter and excluded names, the files in the directory dictionary
are, in the same order, the files of the file list: no sidecar is indexed without being listed and none is
listed without being indexed (with `skip_empty` or without). -/
theorem walkers_agree (D : Dir α) (f : NameFilter) (excl : List Str) (skip : Bool) :
    (getDirDictionary D f excl skip).flatMap (·.2) = (getFileList D f excl).map (·.1) :=
  Dir.dict_files excl (checkFilename f) skip D []

theorem parseAll_mem_conv (t : Tree α) (fs : List (PFile α)) (h : parseAll t = .ok fs) :
    ∀ f ∈ t, ∃ s ∈ fs, s.path = f.1 := by
  induction t generalizing fs with
  | nil => intro f hf; cases hf
  | cons f r ih =>
    obtain ⟨p, c⟩ := f
    cases hp : parseName (p.getLastD []) with
    | error e => simp only [parseAll, hp] at h; cases h
    | ok v =>
      obtain ⟨sfx, es⟩ := v
      cases hr : parseAll r with
      | error e => simp only [parseAll, hp, hr] at h; cases h
      | ok fs' =>
        simp only [parseAll, hp, hr] at h
        cases h
        intro f hf
        rcases List.mem_cons.mp hf with rfl | hf
        · exact ⟨_, List.mem_cons_self .., rfl⟩
        · obtain ⟨s, hs, hps⟩ := ih fs' hr f hf
          exact ⟨s, List.mem_cons_of_mem _ hs, hps⟩

/-- **participation_spec.**  For every directory tree whose group loads: the paths of the group's
sidecars (data files) are exactly the paths of the files of the tree that have the suffix and the
`.json` (`.tsv`) extension and of whose directory components none is an excluded name — at any depth. -/
theorem participation_spec (D : Dir α) (excl : List Str) (suffix : Str) (g : Group α)
    (h : load D.listing excl suffix = .ok g) (p : Path) :
    ((∃ s ∈ g.sidecars, s.path = p) ↔
      (∃ e ∈ D.listing, e.1 = p) ∧ participates excl p ∧ checkName (p.getLastD []) suffix jsonExt = true) ∧
    ((∃ d ∈ g.datafiles, d.path = p) ↔
      (∃ e ∈ D.listing, e.1 = p) ∧ participates excl p ∧ checkName (p.getLastD []) suffix tsvExt = true) := by
  unfold load at h
  cases h1 : parseAll (discover D.listing excl suffix jsonExt) with
  | error e => rw [h1] at h; cases h
  | ok ss =>
    cases h2 : parseAll ((discover D.listing excl suffix tsvExt).map fun f => (f.1, (some [] : Option (Columns α)))) with
    | error e => rw [h1, h2] at h; cases h
    | ok ds =>
      rw [h1, h2] at h
      cases h
      have hvis : ∀ q, visible excl q = true ↔ participates excl q := by
        intro q; simp [visible, participates]
      have hdisc : ∀ ext (e : Path × Option (Columns α)), e ∈ discover D.listing excl suffix ext ↔
          e ∈ D.listing ∧ participates excl e.1 ∧ checkName (e.1.getLastD []) suffix ext = true := by
        intro ext e
        simp only [discover, List.mem_filter, Bool.and_eq_true, hvis]
      constructor
      · constructor
        · rintro ⟨s, hs, rfl⟩
          obtain ⟨f, hf, hp, _⟩ := parseAll_mem _ ss h1 s hs
          obtain ⟨h1', h2', h3'⟩ := (hdisc _ f).mp hf
          rw [hp]; exact ⟨⟨f, h1', rfl⟩, h2', h3'⟩
        · rintro ⟨⟨e, he, rfl⟩, hpart, hck⟩
          exact parseAll_mem_conv _ ss h1 e ((hdisc _ e).mpr ⟨he, hpart, hck⟩)
      · constructor
        · rintro ⟨s, hs, rfl⟩
          obtain ⟨f, hf, hp, _⟩ := parseAll_mem _ ds h2 s hs
          obtain ⟨f0, hf0, rfl⟩ := List.mem_map.mp hf
          obtain ⟨h1', h2', h3'⟩ := (hdisc _ f0).mp hf0
          rw [hp]; exact ⟨⟨f0, h1', rfl⟩, h2', h3'⟩
        · rintro ⟨⟨e, he, rfl⟩, hpart, hck⟩
          exact parseAll_mem_conv _ ds h2 (e.1, some [])
            (List.mem_map.mpr ⟨e, (hdisc _ e).mpr ⟨he, hpart, hck⟩, rfl⟩)

/-! ## dataset validation through the C08 / C07 models, command line -/

/-- `SidecarV.validate` of an object document is `validateLoaded` without load issues -/
theorem validate_obj (g : SidecarV.Guards) (O : SidecarV.Oracle) (kvs : List (Str × SJson)) :
    SidecarV.validate g O (.obj kvs) = validateLoaded g O [] kvs := rfl

theorem tagE_congr {β γ ε ε' : Type} (f : β → γ) (h : ε → ε') (a b : Except ε (List β)) (hab : a = b) :
    tagE f h a = tagE f h b := by rw [hab]

theorem map_congr' {β γ : Type _} (l : List β) (f g : β → γ) (h : ∀ a ∈ l, f a = g a) : l.map f = l.map g :=
  List.map_congr_left h

/-- **dataset_validate_eq.**  For a group in which `Files` holds for every object (every file-system
listing, `load_files`) and every chain member is a JSON object, the issues of one file group are the
concatenation, sidecars first, of `SidecarV.validate` (C08 model) on each sidecar's merged document
and of `Tabular.validate` (C07 model) on each data file assembled with its merged sidecar, where the
merge is the merge of the chosen chain; the first call that raises ends the run. -/
theorem dataset_validate_eq (W : Oracles) (g : Group SJson)
    (hF : ∀ o ∈ g.sidecars ++ g.datafiles, Files g o)
    (hobj : ∀ s ∈ g.sidecars, s.obj = true) :
    groupValidate W g =
      seqE ((g.sidecars.map fun s =>
              tagE (DIssue.sidecar s.path) (DExn.sidecar s.path)
                (SidecarV.validate .fixed (W.sidecar (mergeCols ((chosenChain g s).map (·.cols))))
                  (.obj (mergeCols ((chosenChain g s).map (·.cols)))))) ++
            (g.datafiles.map fun d =>
              let sc := if (chosenChain g d).isEmpty then none else some (mergeCols ((chosenChain g d).map (·.cols)))
              tagE (DIssue.table d.path) (DExn.table d.path) (Tabular.validate (W.table d sc).1 (W.table d sc).2))) := by
  unfold groupValidate
  congr 2
  · apply map_congr'
    intro s hs
    have hf := hF s (List.mem_append_left _ hs)
    have hz : loadIssueCount g s = 0 := by
      unfold loadIssueCount
      rw [List.length_eq_zero_iff, List.filter_eq_nil_iff]
      intro t ht
      have : t ∈ g.sidecars := by
        unfold chain at ht
        obtain ⟨d, _, hd⟩ := List.mem_filterMap.mp ht
        unfold chainAt at hd
        exact (mem_dirSidecars (List.mem_of_find?_eq_some hd)).1
      simp [hobj t this]
    unfold sidecarIssues
    rw [hz, merge_chosen g s hf, validate_obj]
    rfl
  · apply map_congr'
    intro d hd
    have hf := hF d (List.mem_append_right _ hd)
    unfold tableIssues hasSidecar
    rw [merge_chosen g d hf, chain_eq_chosenChain g d hf]
    cases (chosenChain g d).isEmpty <;> rfl

/-- with BIDS' uniqueness the merges in `dataset_validate_eq` are the property's merges -/
theorem mergeChosen_eq_mergeSpec (g : Group α) (o : PFile α)
    (hu : ∀ d ∈ inits o.dir, (g.sidecars.filter (fun s => s.dir == d && specApplies s o)).length ≤ 1) :
    mergeCols ((chosenChain g o).map (·.cols)) = mergeSpec g o := by
  rw [chosenChain_eq_specChain g o hu]; rfl

/-- a non-object chain member contributes no column -/
theorem update_nil (m : Columns α) : update m [] = m := rfl

/-- the CLI's options are exactly these; it passes no keyword to `BidsDataset` (no option for excluded
directories, suffixes or schema: the defaults of `BidsDataset.__init__` apply).  Regenerated from the
source on every run: a new option breaks this theorem. -/
theorem cli_options :
    Generated.C16.cliOptions.map (·.length) = [1, 2, 2, 1] ∧ Generated.C16.cliDatasetKeywords = [] ∧ Generated.C16.cliFormats.length = 3 ∧
    Generated.C16.datasetTabularTypes.length = 1 := by decide

/-- **cli_spec.**  For every format, output destination and `--check-for-warnings` setting: if the
validator returns, its exit status is 1 iff the (filtered) issue list of
`BidsDataset(path).validate(check_for_warnings=flag)` is non-empty and 0 otherwise; the status does not
depend on `--format` / `--output-file`; the report goes to the `-o` file iff one is given. -/
theorem cli_spec (W : Oracles) (t : Tree SJson) (a : CliArgs) (r : CliResult) (h : cliMain W t a = .ok r) :
    datasetValidate W t Generated.C16.datasetExcludeDirs Generated.C16.datasetTabularTypes a.checkForWarnings = .ok r.issues ∧
    (r.exit = 1 ↔ r.issues ≠ []) ∧ (r.exit = 0 ↔ r.issues = []) ∧
    (r.dest = .stdout ↔ (a.outputFile = none ∨ a.outputFile = some [])) := by
  unfold cliMain at h
  cases hd : datasetValidate W t Generated.C16.datasetExcludeDirs Generated.C16.datasetTabularTypes a.checkForWarnings with
  | error e => rw [hd] at h; cases h
  | ok l =>
    rw [hd] at h
    cases h
    refine ⟨rfl, exit_iff l, exit_zero_iff l, ?_⟩
    cases ho : a.outputFile with
    | none => simp
    | some f => cases f <;> simp

theorem cli_exit_independent (W : Oracles) (t : Tree SJson) (a a' : CliArgs)
    (h : a.checkForWarnings = a'.checkForWarnings) :
    (cliMain W t a).toOption.map (·.exit) = (cliMain W t a').toOption.map (·.exit) := by
  unfold cliMain
  rw [h]
  generalize datasetValidate W t Generated.C16.datasetExcludeDirs Generated.C16.datasetTabularTypes
    a'.checkForWarnings = r
  cases r <;> rfl

/-- the CLI raises exactly when building or validating the dataset raises -/
theorem cli_raises_iff (W : Oracles) (t : Tree SJson) (a : CliArgs) (e : RunExn) :
    cliMain W t a = .error e ↔
      datasetValidate W t Generated.C16.datasetExcludeDirs Generated.C16.datasetTabularTypes a.checkForWarnings = .error e := by
  unfold cliMain
  generalize datasetValidate W t Generated.C16.datasetExcludeDirs Generated.C16.datasetTabularTypes
    a.checkForWarnings = r
  cases r <;> simp

/-- without `--check-for-warnings` only errors are reported -/
theorem filterSev_false (l : List DIssue) : ∀ i ∈ filterSev false l, i.isError = true := by
  intro i hi; simp only [filterSev, Bool.false_eq_true, if_false, List.mem_filter] at hi; exact hi.2

/-! ## the unchanged code is refuted; non-vacuity -/

section Example
private def errOf {ε β : Type} : Except ε β → Option ε
  | .error e => some e
  | .ok _ => none
private def evJson : Str := ['_','e','v','e','n','t','s','.','j','s','o','n']
private def sub01 : Str := ['s','u','b','-','0','1']
private def taskA : Str := ['t','a','s','k','-','A']
private def colA : Str := ['A']
private def colB : Str := ['B']
private def events : Str := ['e','v','e','n','t','s']

/-- root `task-A_events.json` {A:1, B:2}; `sub-01/sub-01_events.json` {B:3};
    data file `sub-01/sub-01_task-A_events.tsv` -/
def exTree : Tree Nat :=
  [ ([taskA ++ evJson], some [(colA, 1), (colB, 2)]),
    ([sub01, sub01 ++ evJson], some [(colB, 3)]),
    ([sub01, sub01 ++ '_' :: taskA ++ ['_','e','v','e','n','t','s','.','t','s','v']], none) ]

/-- what each algorithm gives the data file of `exTree`: (unchanged code, property, fixed code) -/
def exMerges : Option (List (List (Columns Nat))) :=
  (load exTree [] events).toOption.map fun g =>
    g.datafiles.map fun d => [mergeImplOld g d, mergeSpec g d, mergeImpl g d]

/-- **counter-example.**  The unchanged code drops column `A` of the root sidecar (which applies to the
data file but not to the deeper sidecar); the property and the fixed code keep it. -/
theorem mergeImplOld_counterexample :
    exMerges = some [[[(colB, 3)], [(colA, 1), (colB, 3)], [(colA, 1), (colB, 3)]]] := by
  decide

/-- the example tree satisfies the uniqueness hypothesis (one applicable sidecar per directory) -/
theorem exTree_unique :
    ((load exTree [] events).toOption.map fun g =>
      g.datafiles.all fun d => (inits d.dir).all fun dir =>
        (g.sidecars.filter (fun s => s.dir == dir && specApplies s d)).length ≤ 1) = some true := by
  decide

/-- the parsed group of `exTree`, written out (checked against `load` below) -/
def exGroup : Group Nat :=
  ⟨[⟨[taskA ++ evJson], some events, [(['t','a','s','k'], ['A'])], [(colA, 1), (colB, 2)], true⟩,
    ⟨[sub01, sub01 ++ evJson], some events, [(['s','u','b'], ['0','1'])], [(colB, 3)], true⟩],
   [⟨[sub01, sub01 ++ '_' :: taskA ++ ['_','e','v','e','n','t','s','.','t','s','v']], some events,
     [(['s','u','b'], ['0','1']), (['t','a','s','k'], ['A'])], [], true⟩]⟩

theorem exGroup_is_load :
    (load exTree [] events).toOption.map (fun g => (g.sidecars, g.datafiles)) =
      some (exGroup.sidecars, exGroup.datafiles) := by decide

/-- non-vacuity: the hypotheses of `merge_spec` hold for the data file (and the sidecars) of the
counter-example tree, so `merge_spec` applies to it while the unchanged algorithm fails on it -/
theorem exGroup_wellFormed : ∀ o ∈ exGroup.datafiles ++ exGroup.sidecars, WellFormed exGroup o := by
  intro o ho
  refine ⟨?_, ?_, ?_⟩ <;> revert o <;> decide

/-- the example tree is a file-system listing, so `load_files` applies to it -/
theorem exTree_isListing : IsListing exTree := by unfold IsListing; decide

private def eventsJson : Str := ['e','v','e','n','t','s','.','j','s','o','n']
private def dataA : Path := [sub01, sub01 ++ '_' :: taskA ++ ['_','e','v','e','n','t','s','.','t','s','v']]

/-- two applicable sidecars in the root directory, in the two possible listing orders -/
def exTwo (swap : Bool) : Tree Nat :=
  (if swap then [([taskA ++ evJson], some [(colA, 2)]), ([eventsJson], some [(colA, 1)])]
   else [([eventsJson], some [(colA, 1)]), ([taskA ++ evJson], some [(colA, 2)])]) ++ [(dataA, none)]

/-- **first listed wins, concretely.**  With `events.json` {A:1} and `task-A_events.json` {A:2} both in
the root, the data file gets the columns of whichever is listed first (code: [chain length, A]);
the property's merge of *all* applicable files would give the other value. -/
theorem first_listed_example :
    ((load (exTwo false) [] events).toOption.map fun g =>
        g.datafiles.map fun d => ((chain g d).length, getCol colA (mergeImpl g d), getCol colA (mergeSpec g d))) =
      some [(1, some 1, some 2)] ∧
    ((load (exTwo true) [] events).toOption.map fun g =>
        g.datafiles.map fun d => ((chain g d).length, getCol colA (mergeImpl g d), getCol colA (mergeSpec g d))) =
      some [(1, some 2, some 1)] := by decide

/-- file-name parsing on examples: entities, missing suffix, the three error codes -/
example : (parseName (sub01 ++ '_' :: taskA ++ evJson)).toOption =
    some (some events, [(['s','u','b'], ['0','1']), (['t','a','s','k'], ['A'])]) := by decide
example : (parseName (['x','-','e','v','e','n','t','s','.','j','s','o','n'])).toOption =
    some (none, [(['x'], ['e','v','e','n','t','s'])]) := by decide
example : errOf (parseName (['a','_','e','v','e','n','t','s','.','t','s','v'])) = some .badKeyValue := by decide
example : errOf (parseName (['a','-','b','-','c','.','t','s','v'])) = some .badSuffixPiece := by decide
example : errOf (parseName ([' ','.','t','s','v'])) = some .blankFileName := by decide
example : checkName (['x','_','m','y','E','v','e','n','t','s','.','J','S','O','N']) events jsonExt = true := by
  decide
end Example

end HedVerif.C16
