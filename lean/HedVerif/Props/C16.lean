/-
C16 — Each dataset file is validated with its inherited, merged sidecar.

Theorems about `HedVerif.Bids` (Model/Bids.lean), for all trees / groups, no bounds.
`mergeImpl` is the code with `fixes/C16_merge_own_chain.diff`; `mergeImplOld` is the unchanged code for
data files, refuted by `mergeImplOld_counterexample`.
-/
import HedVerif.Model.Bids

namespace HedVerif.Bids

/-! ## helper lemmas: column dictionaries -/

theorem getCol_cons (k k' : Str) (v : α) (r : Columns α) :
    getCol k ((k', v) :: r) = (getCol k r).or (if k' = k then some v else none) := by
  simp only [getCol]
  cases getCol k r <;> simp

theorem getCol_append_single (k k' : Str) (v : α) (m : Columns α) :
    getCol k (m ++ [(k', v)]) = if k' = k then some v else getCol k m := by
  induction m with
  | nil => simp [getCol_cons, getCol]
  | cons p r ih =>
    obtain ⟨a, b⟩ := p
    simp only [List.cons_append, getCol_cons, ih]
    by_cases h : k' = k <;> simp [h]

theorem getCol_setAll_same (k : Str) (v : α) (m : Columns α) :
    getCol k (setAll k v m) = if hasKey k m then some v else none := by
  induction m with
  | nil => simp [setAll, hasKey, getCol]
  | cons p r ih =>
    obtain ⟨a, b⟩ := p
    by_cases h : a = k <;> cases hr : hasKey k r <;> simp [setAll, hasKey, getCol_cons, ih, h, hr]

theorem getCol_setAll_other (k k' : Str) (v : α) (m : Columns α) (h : k' ≠ k) :
    getCol k (setAll k' v m) = getCol k m := by
  induction m with
  | nil => simp [setAll]
  | cons p r ih =>
    obtain ⟨a, b⟩ := p
    by_cases ha : a = k' <;> simp [setAll, getCol_cons, ih, ha, h]

theorem getCol_upd1 (k : Str) (m : Columns α) (kv : Str × α) :
    getCol k (upd1 m kv) = if kv.1 = k then some kv.2 else getCol k m := by
  obtain ⟨k', v⟩ := kv
  unfold upd1
  by_cases hk : hasKey k' m = true
  · simp only [hk, if_true]
    by_cases h : k' = k
    · subst h; simp [getCol_setAll_same, hk]
    · simp [getCol_setAll_other _ _ _ _ h, h]
  · simp only [hk]
    exact getCol_append_single k k' v m

/-- `m.update(n)`: keys of `n` win, other keys keep their value -/
theorem getCol_update (k : Str) (m n : Columns α) :
    getCol k (update m n) = (getCol k n).or (getCol k m) := by
  unfold update
  induction n generalizing m with
  | nil => simp [getCol]
  | cons p r ih =>
    obtain ⟨a, b⟩ := p
    simp only [List.foldl_cons, ih, getCol_upd1, getCol_cons]
    cases getCol k r <;> by_cases h : a = k <;> simp [h]

theorem getCol_foldl_update_none (k : Str) (acc : Columns α) (post : List (Columns α))
    (h : ∀ t ∈ post, getCol k t = none) : getCol k (post.foldl update acc) = getCol k acc := by
  induction post generalizing acc with
  | nil => rfl
  | cons t r ih =>
    simp only [List.foldl_cons]
    rw [ih _ (fun t' ht' => h t' (List.mem_cons_of_mem _ ht')), getCol_update, h t (List.mem_cons_self ..)]
    simp

/-- in a merged list the last dictionary that has the key decides -/
theorem getCol_mergeCols (k : Str) (pre post : List (Columns α)) (s : Columns α) (v : α)
    (hs : getCol k s = some v) (hpost : ∀ t ∈ post, getCol k t = none) :
    getCol k (mergeCols (pre ++ s :: post)) = some v := by
  unfold mergeCols
  rw [List.foldl_append, List.foldl_cons, getCol_foldl_update_none k _ post hpost, getCol_update, hs]
  simp

theorem getCol_mergeCols_none (k : Str) (l : List (Columns α)) (h : ∀ t ∈ l, getCol k t = none) :
    getCol k (mergeCols l) = none := by
  unfold mergeCols
  rw [getCol_foldl_update_none k [] l h]; rfl

/-! ## helper lemmas: paths -/

theorem mem_inits_prefix {β : Type} (l d : List β) (h : d ∈ inits l) : d <+: l := by
  induction l generalizing d with
  | nil => simp [inits] at h; subst h; exact List.prefix_refl _
  | cons x xs ih =>
    simp only [inits, List.mem_cons, List.mem_map] at h
    rcases h with h | ⟨d', hd', rfl⟩
    · subst h; exact List.nil_prefix
    · exact List.cons_prefix_cons.mpr ⟨rfl, ih d' hd'⟩

theorem inits_sorted {β : Type} (l : List β) :
    (inits l).Pairwise (fun a b => a.length ≤ b.length) := by
  induction l with
  | nil => simp [inits]
  | cons x xs ih =>
    simp only [inits, List.pairwise_cons, List.pairwise_map]
    refine ⟨fun _ _ => by simp, ih.imp ?_⟩
    intro a b hab; simpa using hab

/-- `commonpath([o, d/n]) = d` iff `d` is a prefix of `o` and `d/n` is not -/
theorem commonPrefix_eq_dir (d : Path) (n : Str) (o : Path) :
    commonPrefix o (d ++ [n]) = d ↔ d <+: o ∧ ¬ (d ++ [n]) <+: o := by
  induction d generalizing o with
  | nil =>
    cases o with
    | nil => simp [commonPrefix]
    | cons a as =>
      by_cases h : a = n
      · subst h; simp [commonPrefix]
      · simp only [List.nil_append, commonPrefix, h, if_false, List.nil_prefix, true_and, true_iff]
        intro hp; exact h (List.cons_prefix_cons.mp hp).1.symm
  | cons x d' ih =>
    cases o with
    | nil => simp [commonPrefix]
    | cons a as =>
      by_cases h : a = x
      · subst h
        simp only [List.cons_append, commonPrefix, if_true, List.cons.injEq, true_and, ih,
          List.cons_prefix_cons]
      · simp only [List.cons_append, commonPrefix, h, if_false, List.cons_prefix_cons]
        constructor
        · intro hh; cases hh
        · intro hh; exact absurd hh.1.1.symm h

theorem path_split (p : Path) (hp : p ≠ []) : p.dropLast ++ [p.getLast hp] = p :=
  List.dropLast_concat_getLast hp

/-! ## helper lemmas: entity dictionaries -/

theorem lookup_some_of_mem (l : List (Str × Str)) (k v : Str) (h : (k, v) ∈ l) :
    ∃ w, l.lookup k = some w := by
  induction l with
  | nil => cases h
  | cons p r ih =>
    obtain ⟨a, b⟩ := p
    by_cases hk : k = a
    · subst hk; exact ⟨b, by simp [List.lookup]⟩
    · have hne : (k == a) = false := by simpa using hk
      rcases List.mem_cons.mp h with h | h
      · cases h; exact absurd rfl hk
      · obtain ⟨w, hw⟩ := ih h
        exact ⟨w, by simp [List.lookup, hne, hw]⟩

theorem mem_of_lookup_some (l : List (Str × Str)) (k v : Str) (h : l.lookup k = some v) :
    (k, v) ∈ l := by
  induction l with
  | nil => simp [List.lookup] at h
  | cons p r ih =>
    obtain ⟨a, b⟩ := p
    by_cases hk : k = a
    · subst hk; simp [List.lookup] at h; subst h; exact List.mem_cons_self ..
    · have hne : (k == a) = false := by simpa using hk
      simp only [List.lookup, hne] at h
      exact List.mem_cons_of_mem _ (ih h)

/-- the code's entity loop is the subset test on dictionaries -/
theorem entSubset_iff (s o : List (Str × Str)) :
    entSubset s o = true ↔ ∀ k v, s.lookup k = some v → o.lookup k = some v := by
  unfold entSubset
  rw [List.all_eq_true]
  constructor
  · intro h k v hkv
    have := h (k, v) (mem_of_lookup_some s k v hkv)
    simp only [beq_iff_eq] at this
    rw [this, hkv]
  · intro h kv hkv
    obtain ⟨w, hw⟩ := lookup_some_of_mem s kv.1 kv.2 hkv
    simp only [beq_iff_eq]
    rw [hw, h _ _ hw]

theorem entSubset_refl (s : List (Str × Str)) : entSubset s s = true := by
  rw [entSubset_iff]; intro k v h; exact h

/-! ## helper lemmas: lists -/

theorem find?_toList_of_filter_le_one {β : Type} (p : β → Bool) (l : List β)
    (h : (l.filter p).length ≤ 1) : (l.find? p).toList = l.filter p := by
  induction l with
  | nil => rfl
  | cons a r ih =>
    by_cases ha : p a = true
    · simp only [List.filter_cons, ha, if_true, List.length_cons] at h
      have : r.filter p = [] := List.eq_nil_of_length_eq_zero (by omega)
      simp [ha, this]
    · have ha' : p a = false := by simpa using ha
      simp only [List.filter_cons, ha', Bool.false_eq_true, if_false] at h
      simp [ha', ih h]

theorem filterMap_cons_toList {β γ : Type} (f : β → Option γ) (a : β) (r : List β) :
    (a :: r).filterMap f = (f a).toList ++ r.filterMap f := by
  cases h : f a <;> simp [h]

theorem flatMap_congr' {β : Type _} {γ : Type _} (l : List β) (f g : β → List γ) (h : ∀ a ∈ l, f a = g a) :
    l.flatMap f = l.flatMap g := by
  induction l with
  | nil => rfl
  | cons a r ih =>
    simp only [List.flatMap_cons]
    rw [h a (List.mem_cons_self ..), ih (fun b hb => h b (List.mem_cons_of_mem _ hb))]

theorem find?_congr' {β : Type _} (l : List β) (p q : β → Bool) (h : ∀ a ∈ l, p a = q a) :
    l.find? p = l.find? q := by
  induction l with
  | nil => rfl
  | cons a r ih =>
    simp only [List.find?_cons, h a (List.mem_cons_self ..),
      ih (fun b hb => h b (List.mem_cons_of_mem _ hb))]

theorem pairwise_of_forall' {β : Type _} (R : β → β → Prop) (l : List β) (h : ∀ a b, R a b) :
    l.Pairwise R := by
  induction l with
  | nil => exact List.Pairwise.nil
  | cons a r ih => exact List.pairwise_cons.mpr ⟨fun b _ => h a b, ih⟩

end HedVerif.Bids

/-! ## the property theorems -/
namespace HedVerif.C16
open HedVerif HedVerif.Bids

/-- **applies_subset.**  For a sidecar `s` (with a file name) and a different object `o`:
`is_sidecar_for` holds iff the suffixes are equal, the sidecar's directory is an ancestor-or-same of
the object (its directory is a prefix of the object's path while the sidecar itself is not — a file is
not a directory), and every entity of the sidecar occurs in the object with the same value. -/
theorem applies_subset (s o : PFile α) (hs : s.path ≠ []) (hne : o.path ≠ s.path) :
    applies s o = true ↔
      o.suffix = s.suffix ∧ (s.dir <+: o.path ∧ ¬ s.path <+: o.path) ∧
      (∀ k v, s.ents.lookup k = some v → o.ents.lookup k = some v) := by
  have hsplit := path_split s.path hs
  have hcp := commonPrefix_eq_dir s.path.dropLast (s.path.getLast hs) o.path
  rw [hsplit] at hcp
  unfold applies
  simp only [hne, if_false, PFile.dir]
  by_cases h1 : o.suffix = s.suffix
  · by_cases h2 : commonPrefix o.path s.path = s.path.dropLast
    · have h2' := hcp.mp h2
      simp [h1, h2, entSubset_iff, h2'.1, h2'.2]
    · have : ¬ (s.path.dropLast <+: o.path ∧ ¬ s.path <+: o.path) := fun hh => h2 (hcp.mpr hh)
      have h2' : ¬ s.path.dropLast = commonPrefix o.path s.path := fun hh => h2 hh.symm
      simp [h1, h2', this]
  · simp [h1]

/-- a sidecar applies to itself (first branch of `is_sidecar_for`) -/
theorem applies_self (s : PFile α) : applies s s = true := by simp [applies]

/-- On the directories that `get_sidecars_from_path` visits, the code's test and the property's test
agree, provided no sidecar *file* path is a proper prefix of the object's path. -/
theorem applies_eq_specApplies (s o : PFile α) (hs : s.path ≠ []) (hd : s.dir <+: o.dir)
    (hfile : s.path <+: o.path → s = o) : applies s o = specApplies s o := by
  have hpre : s.dir.isPrefixOf o.dir = true := List.isPrefixOf_iff_prefix.mpr hd
  by_cases hp : o.path = s.path
  · have : s = o := hfile (hp ▸ List.prefix_refl _)
    subst this
    simp [applies, specApplies, entSubset_refl, hpre]
  · have hd' : s.dir <+: o.path := hd.trans (List.dropLast_prefix _)
    have hnot : ¬ s.path <+: o.path := fun h => hp (by rw [hfile h])
    cases hb : applies s o with
    | true =>
      have := (applies_subset s o hs hp).mp hb
      simp [specApplies, this.1, hpre, (entSubset_iff _ _).mpr this.2.2]
    | false =>
      have hn : ¬ (o.suffix = s.suffix ∧ (s.dir <+: o.path ∧ ¬ s.path <+: o.path) ∧
          (∀ k v, s.ents.lookup k = some v → o.ents.lookup k = some v)) := by
        intro hh; rw [(applies_subset s o hs hp).mpr hh] at hb; cases hb
      cases hsp : specApplies s o with
      | false => rfl
      | true =>
        exfalso; apply hn
        simp only [specApplies, Bool.and_eq_true, beq_iff_eq] at hsp
        exact ⟨hsp.1.1, ⟨hd', hnot⟩, (entSubset_iff _ _).mp hsp.2⟩

/-- the hypotheses of `merge_spec`: sidecars are files with a name, none of them is a directory on the
object's path, and BIDS' "at most one applicable sidecar per directory" -/
structure WellFormed (g : Group α) (o : PFile α) : Prop where
  named : ∀ s ∈ g.sidecars, s.path ≠ []
  files : ∀ s ∈ g.sidecars, s.path <+: o.path → s = o
  unique : ∀ d ∈ inits o.dir, (g.sidecars.filter (fun s => s.dir == d && specApplies s o)).length ≤ 1

theorem chain_eq_specChain (g : Group α) (o : PFile α) (h : WellFormed g o) :
    chain g o = specChain g o := by
  unfold chain specChain
  have key : ∀ ds : List Path, (∀ d ∈ ds, d ∈ inits o.dir) →
      ds.filterMap (fun d => (dirSidecars g d).find? (fun s => applies s o)) =
      ds.flatMap (fun d => g.sidecars.filter (fun s => s.dir == d && specApplies s o)) := by
    intro ds
    induction ds with
    | nil => intro _; rfl
    | cons d r ih =>
      intro hds
      rw [filterMap_cons_toList, List.flatMap_cons, ih (fun d' hd' => hds d' (List.mem_cons_of_mem _ hd'))]
      congr 1
      have hdm : d ∈ inits o.dir := hds d (List.mem_cons_self ..)
      have hd : d <+: o.dir := mem_inits_prefix _ _ hdm
      rw [← find?_toList_of_filter_le_one _ _ (h.unique d hdm)]
      congr 1
      unfold dirSidecars
      rw [List.find?_filter]
      apply find?_congr'
      intro s hs
      by_cases hsd : s.dir = d
      · have : applies s o = specApplies s o :=
          applies_eq_specApplies s o (h.named s hs) (hsd ▸ hd) (h.files s hs)
        simp [hsd, this]
      · simp [hsd]
  exact key _ (fun d hd => hd)

/-- **merge_spec.**  For every tree in which each directory holds at most one applicable sidecar, the
(fixed) code gives every object — data file or sidecar — exactly the property's merge. -/
theorem merge_spec (g : Group α) (o : PFile α) (h : WellFormed g o) :
    mergeImpl g o = mergeSpec g o := by
  simp [mergeImpl, mergeSpec, chain_eq_specChain g o h]

/-- the property's chain lists shallower directories first -/
theorem specChain_depth_sorted (g : Group α) (o : PFile α) :
    (specChain g o).Pairwise (fun s t => s.dir.length ≤ t.dir.length) := by
  unfold specChain
  rw [List.pairwise_flatMap]
  refine ⟨?_, (inits_sorted o.dir).imp ?_⟩
  · intro d _
    rw [List.pairwise_filter]
    apply pairwise_of_forall'
    intro s t
    intro hs ht
    simp only [Bool.and_eq_true, beq_iff_eq] at hs ht
    rw [hs.1, ht.1]; exact Nat.le_refl _
  · intro a b hab s hs t ht
    simp only [List.mem_filter, Bool.and_eq_true, beq_iff_eq] at hs ht
    rw [hs.2.1, ht.2.1]; exact hab

/-- **override.**  For each column key, the deepest applicable sidecar that has the key wins: if the
property's chain is `pre ++ s :: post` (sorted by depth, `specChain_depth_sorted`), `s` has the key
and no later (deeper) sidecar has it, the merged value is `s`'s. -/
theorem override (g : Group α) (o : PFile α) (pre post : List (PFile α)) (s : PFile α) (k : Str) (v : α)
    (hc : specChain g o = pre ++ s :: post) (hs : getCol k s.cols = some v)
    (hpost : ∀ t ∈ post, getCol k t.cols = none) : getCol k (mergeSpec g o) = some v := by
  unfold mergeSpec
  rw [hc, List.map_append, List.map_cons]
  apply getCol_mergeCols k _ _ _ v hs
  intro t ht
  obtain ⟨t', ht', rfl⟩ := List.mem_map.mp ht
  exact hpost t' ht'

/-- a key that no applicable sidecar has is absent from the merge -/
theorem override_absent (g : Group α) (o : PFile α) (k : Str)
    (h : ∀ t ∈ specChain g o, getCol k t.cols = none) : getCol k (mergeSpec g o) = none := by
  unfold mergeSpec
  apply getCol_mergeCols_none
  intro t ht
  obtain ⟨t', ht', rfl⟩ := List.mem_map.mp ht
  exact h t' ht'

/-- the same for the code's merge (through `merge_spec`) -/
theorem override_impl (g : Group α) (o : PFile α) (h : WellFormed g o) (pre post : List (PFile α))
    (s : PFile α) (k : Str) (v : α)
    (hc : specChain g o = pre ++ s :: post) (hs : getCol k s.cols = some v)
    (hpost : ∀ t ∈ post, getCol k t.cols = none) : getCol k (mergeImpl g o) = some v := by
  rw [merge_spec g o h]; exact override g o pre post s k v hc hs hpost

/-- a path is pruned iff one of its directory components is an excluded name -/
theorem visible_false_iff (excl : List Str) (p : Path) :
    visible excl p = false ↔ ∃ c ∈ p.dropLast, c ∈ excl := by
  unfold visible
  rw [List.all_eq_false]
  constructor
  · rintro ⟨c, hc, h⟩; exact ⟨c, hc, by simpa using h⟩
  · rintro ⟨c, hc, h⟩; exact ⟨c, hc, by simpa using h⟩

/-- **excluded.**  Files under an excluded directory *name* (at any depth) contribute nothing: the
loaded group — hence every chain, merge and issue — is the same with or without them. -/
theorem excluded (a x b : Tree α) (excl : List Str) (suffix : Str)
    (hx : ∀ f ∈ x, ∃ c ∈ f.1.dropLast, c ∈ excl) :
    load (a ++ x ++ b) excl suffix = load (a ++ b) excl suffix := by
  have hnil : ∀ ext, discover x excl suffix ext = [] := by
    intro ext
    unfold discover
    rw [List.filter_eq_nil_iff]
    intro f hf
    have := (visible_false_iff excl f.1).mpr (hx f hf)
    simp [this]
  have hd : ∀ ext, discover (a ++ x ++ b) excl suffix ext = discover (a ++ b) excl suffix ext := by
    intro ext
    have h := hnil ext
    unfold discover at h ⊢
    simp only [List.filter_append, h, List.append_nil]
  unfold load
  rw [hd, hd]

/-- only visible files are ever parsed -/
theorem discover_visible (t : Tree α) (excl : List Str) (suffix ext : Str) :
    ∀ f ∈ discover t excl suffix ext, visible excl f.1 = true := by
  intro f hf
  simp only [discover, List.mem_filter, Bool.and_eq_true] at hf
  exact hf.2.1

/-- constructing the file objects raises iff some listed name is malformed -/
theorem parseAll_error_iff (t : Tree α) :
    (∃ e, parseAll t = .error e) ↔ ∃ f ∈ t, ∃ e, parseName (f.1.getLastD []) = .error e := by
  induction t with
  | nil => simp [parseAll]
  | cons f r ih =>
    obtain ⟨p, c⟩ := f
    cases hp : parseName (p.getLastD []) with
    | error e =>
      simp only [parseAll, hp]
      exact ⟨fun _ => ⟨(p, c), List.mem_cons_self .., e, hp⟩, fun _ => ⟨e, rfl⟩⟩
    | ok v =>
      cases hr : parseAll r with
      | error e =>
        have := ih.mp ⟨e, hr⟩
        simp only [parseAll, hp, hr, List.mem_cons]
        constructor
        · intro _; obtain ⟨f, hf, e', he'⟩ := this; exact ⟨f, Or.inr hf, e', he'⟩
        · intro _; exact ⟨e, rfl⟩
      | ok fs =>
        have hno : ¬ ∃ f ∈ r, ∃ e, parseName (f.1.getLastD []) = .error e := by
          intro h; obtain ⟨e, he⟩ := ih.mpr h; rw [hr] at he; cases he
        simp only [parseAll, hp, hr, List.mem_cons]
        constructor
        · rintro ⟨e, he⟩; cases he
        · rintro ⟨f, hf | hf, e, he⟩
          · subst hf; rw [hp] at he; cases he
          · exact absurd ⟨f, hf, e, he⟩ hno

/-- **load_error_iff.**  `BidsFileGroup(...)` raises a `HedFileError` iff some *visible* file that
passes the suffix/extension filter (`.json` or `.tsv`) has a malformed name; files under excluded
directory names never make it raise. -/
theorem load_error_iff (t : Tree α) (excl : List Str) (suffix : Str) :
    (∃ e, load t excl suffix = .error e) ↔
      ∃ f ∈ t, visible excl f.1 = true ∧
        (checkName (f.1.getLastD []) suffix jsonExt = true ∨ checkName (f.1.getLastD []) suffix tsvExt = true) ∧
        ∃ e, parseName (f.1.getLastD []) = .error e := by
  have hj := parseAll_error_iff (discover t excl suffix jsonExt)
  have ht := parseAll_error_iff ((discover t excl suffix tsvExt).map fun f => (f.1, ([] : Columns α)))
  unfold load
  cases h1 : parseAll (discover t excl suffix jsonExt) with
  | error e =>
    obtain ⟨f, hf, e', he'⟩ := hj.mp ⟨e, h1⟩
    simp only [discover, List.mem_filter, Bool.and_eq_true] at hf
    exact ⟨fun _ => ⟨f, hf.1, hf.2.1, Or.inl hf.2.2, e', he'⟩, fun _ => ⟨e, rfl⟩⟩
  | ok ss =>
    have hnj : ¬ ∃ f ∈ discover t excl suffix jsonExt, ∃ e, parseName (f.1.getLastD []) = .error e := by
      intro h; obtain ⟨e, he⟩ := hj.mpr h; rw [h1] at he; cases he
    cases h2 : parseAll ((discover t excl suffix tsvExt).map fun f => (f.1, ([] : Columns α))) with
    | error e =>
      obtain ⟨f, hf, e', he'⟩ := ht.mp ⟨e, h2⟩
      obtain ⟨f0, hf0, rfl⟩ := List.mem_map.mp hf
      simp only [discover, List.mem_filter, Bool.and_eq_true] at hf0
      exact ⟨fun _ => ⟨f0, hf0.1, hf0.2.1, Or.inr hf0.2.2, e', he'⟩, fun _ => ⟨e, rfl⟩⟩
    | ok ds =>
      have hnt : ¬ ∃ f ∈ (discover t excl suffix tsvExt).map (fun f => (f.1, ([] : Columns α))),
          ∃ e, parseName (f.1.getLastD []) = .error e := by
        intro h; obtain ⟨e, he⟩ := ht.mpr h; rw [h2] at he; cases he
      constructor
      · rintro ⟨e, he⟩; cases he
      · rintro ⟨f, hf, hv, hc | hc, e, he⟩
        · have hm : f ∈ discover t excl suffix jsonExt := by
            unfold discover; exact List.mem_filter.mpr ⟨hf, by rw [hv, hc]; rfl⟩
          exact absurd ⟨f, hm, e, he⟩ hnj
        · have hm : f ∈ discover t excl suffix tsvExt := by
            unfold discover; exact List.mem_filter.mpr ⟨hf, by rw [hv, hc]; rfl⟩
          exact absurd ⟨(f.1, []), List.mem_map.mpr ⟨f, hm, rfl⟩, e, he⟩ hnt

/-- **exit_iff.** -/
theorem exit_iff (l : List ι) : exitCode l = 1 ↔ l ≠ [] := by
  cases l <;> simp [exitCode]

theorem exit_zero_iff (l : List ι) : exitCode l = 0 ↔ l = [] := by
  cases l <;> simp [exitCode]

/-- **validate_composition.**  In a well-formed group the dataset's issue list is the concatenation of
the issues of every sidecar with the property's merge and of every data file with the property's
merge (or no sidecar when no sidecar applies). -/
theorem validate_composition (vS : PFile α → Columns α → List ι)
    (vT : PFile α → Option (Columns α) → List ι) (g : Group α)
    (hS : ∀ s ∈ g.sidecars, WellFormed g s) (hD : ∀ d ∈ g.datafiles, WellFormed g d) :
    issues vS vT g = issuesSpec vS vT g := by
  unfold issues issuesSpec
  congr 1
  · apply flatMap_congr'
    intro s hs; rw [merge_spec g s (hS s hs)]
  · apply flatMap_congr'
    intro d hd
    rw [merge_spec g d (hD d hd)]
    simp only [hasSidecar, chain_eq_specChain g d (hD d hd)]
    cases (specChain g d).isEmpty <;> rfl

/-! ## the unchanged code is refuted; non-vacuity -/

section Example
private def errOf {ε β : Type} : Except ε β → Option ε
  | .error e => some e
  | .ok _ => none
private def evJson : Str := ['_','e','v','e','n','t','s','.','j','s','o','n']
private def sub01 : Str := ['s','u','b','-','0','1']
private def taskA : Str := ['t','a','s','k','-','A']
private def colA : Str := ['A']
private def colB : Str := ['B']
private def events : Str := ['e','v','e','n','t','s']

/-- root `task-A_events.json` {A:1, B:2}; `sub-01/sub-01_events.json` {B:3};
    data file `sub-01/sub-01_task-A_events.tsv` -/
def exTree : Tree Nat :=
  [ ([taskA ++ evJson], [(colA, 1), (colB, 2)]),
    ([sub01, sub01 ++ evJson], [(colB, 3)]),
    ([sub01, sub01 ++ '_' :: taskA ++ ['_','e','v','e','n','t','s','.','t','s','v']], []) ]

/-- what each algorithm gives the data file of `exTree`: (unchanged code, property, fixed code) -/
def exMerges : Option (List (List (Columns Nat))) :=
  (load exTree [] events).toOption.map fun g =>
    g.datafiles.map fun d => [mergeImplOld g d, mergeSpec g d, mergeImpl g d]

/-- **counter-example.**  The unchanged code drops column `A` of the root sidecar (which applies to the
data file but not to the deeper sidecar); the property and the fixed code keep it. -/
theorem mergeImplOld_counterexample :
    exMerges = some [[[(colB, 3)], [(colA, 1), (colB, 3)], [(colA, 1), (colB, 3)]]] := by
  decide

/-- the example tree satisfies the uniqueness hypothesis (one applicable sidecar per directory) -/
theorem exTree_unique :
    ((load exTree [] events).toOption.map fun g =>
      g.datafiles.all fun d => (inits d.dir).all fun dir =>
        (g.sidecars.filter (fun s => s.dir == dir && specApplies s d)).length ≤ 1) = some true := by
  decide

/-- the parsed group of `exTree`, written out (checked against `load` below) -/
def exGroup : Group Nat :=
  ⟨[⟨[taskA ++ evJson], some events, [(['t','a','s','k'], ['A'])], [(colA, 1), (colB, 2)]⟩,
    ⟨[sub01, sub01 ++ evJson], some events, [(['s','u','b'], ['0','1'])], [(colB, 3)]⟩],
   [⟨[sub01, sub01 ++ '_' :: taskA ++ ['_','e','v','e','n','t','s','.','t','s','v']], some events,
     [(['s','u','b'], ['0','1']), (['t','a','s','k'], ['A'])], []⟩]⟩

theorem exGroup_is_load :
    (load exTree [] events).toOption.map (fun g => (g.sidecars, g.datafiles)) =
      some (exGroup.sidecars, exGroup.datafiles) := by decide

/-- non-vacuity: the hypotheses of `merge_spec` hold for the data file (and the sidecars) of the
counter-example tree, so `merge_spec` applies to it while the unchanged algorithm fails on it -/
theorem exGroup_wellFormed : ∀ o ∈ exGroup.datafiles ++ exGroup.sidecars, WellFormed exGroup o := by
  intro o ho
  refine ⟨?_, ?_, ?_⟩ <;> revert o <;> decide

/-- file-name parsing on examples: entities, missing suffix, the three error codes -/
example : (parseName (sub01 ++ '_' :: taskA ++ evJson)).toOption =
    some (some events, [(['s','u','b'], ['0','1']), (['t','a','s','k'], ['A'])]) := by decide
example : (parseName (['x','-','e','v','e','n','t','s','.','j','s','o','n'])).toOption =
    some (none, [(['x'], ['e','v','e','n','t','s'])]) := by decide
example : errOf (parseName (['a','_','e','v','e','n','t','s','.','t','s','v'])) = some .badKeyValue := by decide
example : errOf (parseName (['a','-','b','-','c','.','t','s','v'])) = some .badSuffixPiece := by decide
example : errOf (parseName ([' ','.','t','s','v'])) = some .blankFileName := by decide
example : checkName (['x','_','m','y','E','v','e','n','t','s','.','J','S','O','N']) events jsonExt = true := by
  decide
end Example

end HedVerif.C16
