/-
C12 — the context stack of `ErrorHandler` and the printable grouping of issues.
-/
import HedVerif.Model.Issue

namespace HedVerif.Issue

/-! ### ordered dictionary -/

theorem getKey_map_same (d : List (Str × Val)) (k : Str) (v : Val) :
    getKey (d.map fun kv => if kv.1 == k then (k, v) else kv) k = if d.any (·.1 == k) then some v else none := by
  induction d with
  | nil => rfl
  | cons x xs ih =>
    simp only [getKey] at ih
    by_cases hx : (x.1 == k) = true
    · simp only [getKey, List.map_cons, hx, ↓reduceIte, List.find?_cons, List.any_cons, Bool.true_or]
      simp
    · have hx' : (x.1 == k) = false := by simpa using hx
      simp only [getKey, List.map_cons, hx', Bool.false_eq_true, ↓reduceIte, List.find?_cons, List.any_cons,
        Bool.false_or]
      exact ih

theorem getKey_map_other (d : List (Str × Val)) (k k' : Str) (v : Val) (hne : (k' == k) = false) :
    getKey (d.map fun kv => if kv.1 == k then (k, v) else kv) k' = getKey d k' := by
  have hkk : (k == k') = false := by
    have : k' ≠ k := by simpa using hne
    simpa using fun e => this e.symm
  induction d with
  | nil => rfl
  | cons x xs ih =>
    simp only [getKey] at ih
    by_cases hx : (x.1 == k) = true
    · have hxk : x.1 = k := by simpa using hx
      have hx2 : (x.1 == k') = false := by rw [hxk]; exact hkk
      simp only [getKey, List.map_cons, hx, ↓reduceIte, List.find?_cons, hkk, hx2]
      exact ih
    · have hx' : (x.1 == k) = false := by simpa using hx
      simp only [getKey, List.map_cons, hx', Bool.false_eq_true, ↓reduceIte, List.find?_cons]
      split
      · rfl
      · exact ih

/-- `d[k] = v; d.get(k')` -/
theorem getKey_setKey (d : List (Str × Val)) (k k' : Str) (v : Val) :
    getKey (setKey d k v) k' = if k' == k then some v else getKey d k' := by
  by_cases hk : (k' == k) = true
  · have e : k' = k := by simpa using hk
    subst e
    simp only [setKey, beq_self_eq_true, ↓reduceIte]
    split
    · rename_i h; rw [getKey_map_same, h]; rfl
    · rename_i h
      have hnone : List.find? (fun x => x.1 == k') d = none := by
        rw [List.find?_eq_none]
        intro x hx hxe
        exact h (List.any_eq_true.mpr ⟨x, hx, hxe⟩)
      simp [getKey, List.find?_append, hnone]
  · have hk' : (k' == k) = false := by simpa using hk
    have hkk : (k == k') = false := by
      have : k' ≠ k := by simpa using hk'
      simpa using fun e => this e.symm
    simp only [setKey, hk', Bool.false_eq_true, ↓reduceIte]
    split
    · exact getKey_map_other d k k' v hk'
    · simp [getKey, List.find?_append, hkk]

/-- the innermost value the stack holds for a context type -/
def lastVal (st : Stack) (k : Str) : Option Val := getKey st.reverse k

theorem getKey_foldl (st : Stack) (d : List (Str × Val)) (k : Str) :
    getKey (st.foldl (fun acc kv => setKey acc kv.1 kv.2) d) k = (lastVal st k).or (getKey d k) := by
  induction st generalizing d with
  | nil => simp [lastVal, getKey]
  | cons x xs ih =>
    rw [List.foldl_cons, ih, getKey_setKey]
    simp only [lastVal, getKey, List.reverse_cons, List.find?_append]
    cases h : List.find? (fun y => y.1 == k) xs.reverse with
    | some y => simp
    | none =>
      by_cases hk : (k == x.1) = true
      · have e : k = x.1 := by simpa using hk
        subst e
        simp
      · have hk' : (k == x.1) = false := by simpa using hk
        have hxk : (x.1 == k) = false := by
          have : k ≠ x.1 := by simpa using hk'
          simpa using fun e => this e.symm
        simp [hk', hxk]

theorem updateCharPos_ctx (hs : Bool) (i : Issue) : (updateCharPos hs i).ctx = i.ctx := by
  unfold updateCharPos
  split
  · rfl
  · split <;> rfl

theorem updateCharPos_code' (hs : Bool) (i : Issue) : (updateCharPos hs i).code = i.code := by
  unfold updateCharPos
  split
  · rfl
  · split <;> rfl

theorem updateCharPos_severity' (hs : Bool) (i : Issue) : (updateCharPos hs i).severity = i.severity := by
  unfold updateCharPos
  split
  · rfl
  · split <;> rfl

/-! ### histories -/

theorem step_out (ik : List Str) (w : Bool) (s s' : HState) (o : Op) (h : step ik w s o = some s') :
    ∃ extra, s'.out = s.out ++ extra := by
  cases o with
  | push k v => simp only [step, Option.some.injEq] at h; subst h; exact ⟨[], by simp⟩
  | pop =>
    simp only [step, Option.map_eq_some_iff] at h
    obtain ⟨st, _, rfl⟩ := h
    exact ⟨[], by simp⟩
  | reset => simp only [step, Option.some.injEq] at h; subst h; exact ⟨[], by simp⟩
  | format i => simp only [step, Option.some.injEq] at h; subst h; exact ⟨_, rfl⟩

theorem run_out (ik : List Str) (w : Bool) (h : List Op) : ∀ (s s' : HState), run ik w s h = some s' →
    ∃ extra, s'.out = s.out ++ extra := by
  induction h with
  | nil => intro s s' hr; simp only [run, Option.some.injEq] at hr; subst hr; exact ⟨[], by simp⟩
  | cons o os ih =>
    intro s s' hr
    simp only [run] at hr
    split at hr
    · cases hr
    · rename_i s1 hs1
      obtain ⟨e1, h1⟩ := step_out ik w s s1 o hs1
      obtain ⟨e2, h2⟩ := ih s1 s' hr
      exact ⟨e1 ++ e2, by rw [h2, h1, List.append_assoc]⟩

theorem run_append (ik : List Str) (w : Bool) (h1 h2 : List Op) : ∀ s : HState,
    run ik w s (h1 ++ h2) = (run ik w s h1).bind fun s1 => run ik w s1 h2 := by
  induction h1 with
  | nil => intro s; rfl
  | cons o os ih =>
    intro s
    simp only [List.cons_append, run]
    split
    · rfl
    · exact ih _

/-! ### printing -/

theorem chain_flat (i : Issue) : ∀ p : List CKey, (chain p i).flat = [i]
  | [] => by simp [chain, PTree.flat, flatSubs]
  | k :: ks => by simp [chain, PTree.flat, flatSubs, chain_flat i ks]

mutual
theorem flat_insert (i : Issue) : ∀ (p : List CKey) (t : PTree),
    ∃ a b, t.flat = a ++ b ∧ (t.insert i p).flat = a ++ i :: b
  | [], .node ch subs => ⟨ch, flatSubs subs, by simp [PTree.flat], by simp [PTree.insert, PTree.flat]⟩
  | k :: ks, .node ch subs => by
    obtain ⟨a, b, h1, h2⟩ := flatSubs_insert i k ks subs
    exact ⟨ch ++ a, b, by simp [PTree.flat, h1], by simp [PTree.insert, PTree.flat, h2]⟩
theorem flatSubs_insert (i : Issue) (k : CKey) (ks : List CKey) : ∀ (subs : List (CKey × PTree)),
    ∃ a b, flatSubs subs = a ++ b ∧ flatSubs (insertSubs i k ks subs) = a ++ i :: b
  | [] => ⟨[], [], by simp [flatSubs], by simp [insertSubs, flatSubs, chain_flat]⟩
  | (k', t) :: rest => by
    by_cases hk : (k' == k) = true
    · obtain ⟨a, b, h1, h2⟩ := flat_insert i ks t
      exact ⟨a, b ++ flatSubs rest, by simp [flatSubs, h1], by simp [insertSubs, hk, flatSubs, h2]⟩
    · have hk' : (k' == k) = false := by simpa using hk
      obtain ⟨a, b, h1, h2⟩ := flatSubs_insert i k ks rest
      exact ⟨t.flat ++ a, b, by simp [flatSubs, h1], by simp [insertSubs, hk', flatSubs, h2]⟩
end

mutual
theorem lines_flat : ∀ (n : Nat) (t : PTree), (t.lines n).filterMap Line.issue? = t.flat
  | n, .node ch subs => by
    simp only [PTree.lines, PTree.flat, List.filterMap_append, linesSubs_flat n subs]
    congr 1
    induction ch with
    | nil => rfl
    | cons c cs ih => simp [Line.issue?, ih]
theorem linesSubs_flat : ∀ (n : Nat) (subs : List (CKey × PTree)), (linesSubs n subs).filterMap Line.issue? = flatSubs subs
  | _, [] => by simp [linesSubs, flatSubs]
  | n, (k, t) :: rest => by
    rw [linesSubs, flatSubs, List.filterMap_cons]
    simp only [Line.issue?]
    rw [List.filterMap_append, lines_flat (n + 1) t, linesSubs_flat n rest]
end

/-- a chain of levels holding the list `l` at its end -/
def chainL : List CKey → List Issue → PTree
  | [], l => .node l []
  | k :: ks, l => .node [] [(k, chainL ks l)]

theorem chainL_insert (j : Issue) : ∀ (p : List CKey) (l : List Issue), (chainL p l).insert j p = chainL p (l ++ [j])
  | [], l => by simp [chainL, PTree.insert]
  | k :: ks, l => by simp [chainL, PTree.insert, insertSubs, chainL_insert j ks l]

theorem chainL_flat : ∀ (p : List CKey) (l : List Issue), (chainL p l).flat = l
  | [], l => by simp [chainL, PTree.flat, flatSubs]
  | k :: ks, l => by simp [chainL, PTree.flat, flatSubs, chainL_flat ks l]

theorem chain_eq_chainL (i : Issue) : ∀ p : List CKey, chain p i = chainL p [i]
  | [] => rfl
  | k :: ks => by simp [chain, chainL, chain_eq_chainL i ks]

theorem empty_insert (i : Issue) : ∀ p : List CKey, (PTree.node [] []).insert i p = chain p i
  | [] => by simp [PTree.insert, chain]
  | k :: ks => by simp [PTree.insert, insertSubs, chain]

/-! #### level-annotated printing (proof device for the grouping theorem) -/

mutual
/-- the printed issues, each with the context path of the level it is printed at -/
def PTree.flatP (pre : List CKey) : PTree → List (List CKey × Issue)
  | .node ch subs => ch.map (fun i => (pre, i)) ++ flatSubsP pre subs
def flatSubsP (pre : List CKey) : List (CKey × PTree) → List (List CKey × Issue)
  | [] => []
  | (k, t) :: rest => t.flatP (pre ++ [k]) ++ flatSubsP pre rest
end

mutual
theorem flatP_flat : ∀ (pre : List CKey) (t : PTree), (t.flatP pre).map (·.2) = t.flat
  | pre, .node ch subs => by
    simp [PTree.flatP, PTree.flat, flatSubsP_flat pre subs, Function.comp_def]
theorem flatSubsP_flat : ∀ (pre : List CKey) (subs : List (CKey × PTree)), (flatSubsP pre subs).map (·.2) = flatSubs subs
  | _, [] => by simp [flatSubsP, flatSubs]
  | pre, (k, t) :: rest => by simp [flatSubsP, flatSubs, flatP_flat (pre ++ [k]) t, flatSubsP_flat pre rest]
end

mutual
theorem flatP_prefix : ∀ (pre : List CKey) (t : PTree), ∀ e ∈ t.flatP pre, ∃ r, e.1 = pre ++ r
  | pre, .node ch subs => by
    intro e he
    simp only [PTree.flatP, List.mem_append, List.mem_map] at he
    rcases he with ⟨i, _, rfl⟩ | he
    · exact ⟨[], by simp⟩
    · obtain ⟨k, r, _, h⟩ := flatSubsP_prefix pre subs e he
      exact ⟨k :: r, h⟩
theorem flatSubsP_prefix : ∀ (pre : List CKey) (subs : List (CKey × PTree)), ∀ e ∈ flatSubsP pre subs,
    ∃ k r, k ∈ subs.map (·.1) ∧ e.1 = pre ++ k :: r
  | _, [] => by intro e he; simp [flatSubsP] at he
  | pre, (k, t) :: rest => by
    intro e he
    simp only [flatSubsP, List.mem_append] at he
    rcases he with he | he
    · obtain ⟨r, h⟩ := flatP_prefix (pre ++ [k]) t e he
      exact ⟨k, r, by simp, by simp [h]⟩
    · obtain ⟨k', r, hk, h⟩ := flatSubsP_prefix pre rest e he
      exact ⟨k', r, by simp [hk], h⟩
end

mutual
def PTree.wf : PTree → Bool
  | .node _ subs => wfSubs subs
def wfSubs : List (CKey × PTree) → Bool
  | [] => true
  | (k, t) :: rest => t.wf && !(rest.map (·.1)).contains k && wfSubs rest
end

theorem chain_flatP (i : Issue) : ∀ (p pre : List CKey), (chain p i).flatP pre = [(pre ++ p, i)]
  | [], pre => by simp [chain, PTree.flatP, flatSubsP]
  | k :: ks, pre => by simp [chain, PTree.flatP, flatSubsP, chain_flatP i ks (pre ++ [k])]

theorem chain_wf (i : Issue) : ∀ p : List CKey, (chain p i).wf = true
  | [] => by simp [chain, PTree.wf, wfSubs]
  | k :: ks => by simp [chain, PTree.wf, wfSubs, chain_wf i ks]

theorem insertSubs_keys (i : Issue) (k : CKey) (ks : List CKey) : ∀ subs : List (CKey × PTree),
    ∀ x ∈ (insertSubs i k ks subs).map (·.1), x = k ∨ x ∈ subs.map (·.1)
  | [] => by intro x hx; simp [insertSubs] at hx; exact Or.inl hx
  | (k', t) :: rest => by
    intro x hx
    simp only [insertSubs] at hx
    split at hx
    · simp at hx ⊢; exact Or.inr hx
    · simp only [List.map_cons, List.mem_cons] at hx ⊢
      rcases hx with h | h
      · exact Or.inr (Or.inl h)
      · rcases insertSubs_keys i k ks rest x h with h | h
        · exact Or.inl h
        · exact Or.inr (Or.inr h)

mutual
theorem flatP_insert (i : Issue) : ∀ (p pre : List CKey) (t : PTree), t.wf = true →
    (t.insert i p).wf = true ∧
    ∃ a b, t.flatP pre = a ++ b ∧ (t.insert i p).flatP pre = a ++ (pre ++ p, i) :: b ∧ ∀ e ∈ b, e.1 ≠ pre ++ p
  | [], pre, .node ch subs, hw => by
    refine ⟨by simpa [PTree.insert, PTree.wf] using hw, ch.map (fun i => (pre, i)), flatSubsP pre subs,
      by simp [PTree.flatP], by simp [PTree.insert, PTree.flatP], ?_⟩
    intro e he heq
    obtain ⟨k, r, _, h⟩ := flatSubsP_prefix pre subs e he
    rw [h] at heq
    simp at heq
  | k :: ks, pre, .node ch subs, hw => by
    obtain ⟨hw', a, b, h1, h2, h3⟩ := flatSubsP_insert i k ks pre subs (by simpa [PTree.wf] using hw)
    exact ⟨by simpa [PTree.insert, PTree.wf] using hw', ch.map (fun i => (pre, i)) ++ a, b, by simp [PTree.flatP, h1],
      by simp [PTree.insert, PTree.flatP, h2], h3⟩
theorem flatSubsP_insert (i : Issue) (k : CKey) (ks pre : List CKey) : ∀ (subs : List (CKey × PTree)), wfSubs subs = true →
    wfSubs (insertSubs i k ks subs) = true ∧
    ∃ a b, flatSubsP pre subs = a ++ b ∧ flatSubsP pre (insertSubs i k ks subs) = a ++ (pre ++ k :: ks, i) :: b ∧
      ∀ e ∈ b, e.1 ≠ pre ++ k :: ks
  | [], _ => by
    refine ⟨by simp [insertSubs, wfSubs, chain_wf], [], [], by simp [flatSubsP], ?_, by simp⟩
    simp [insertSubs, flatSubsP, chain_flatP]
  | (k', t) :: rest, hw => by
    simp only [wfSubs, Bool.and_eq_true, Bool.not_eq_true', List.contains_eq_mem, decide_eq_false_iff_not] at hw
    obtain ⟨⟨hwt, hnot⟩, hwr⟩ := hw
    by_cases hk : (k' == k) = true
    · have e : k' = k := by simpa using hk
      subst e
      obtain ⟨hw', a, b, h1, h2, h3⟩ := flatP_insert i ks (pre ++ [k']) t hwt
      refine ⟨by simp [insertSubs, wfSubs, hw', hnot, hwr], a, b ++ flatSubsP pre rest, by simp [flatSubsP, h1],
        by simp [insertSubs, flatSubsP, h2], ?_⟩
      intro e he
      rcases List.mem_append.mp he with he | he
      · simpa using h3 e he
      · intro heq
        obtain ⟨k2, r, hk2, h⟩ := flatSubsP_prefix pre rest e he
        rw [h] at heq
        simp only [List.append_cancel_left_eq, List.cons.injEq] at heq
        exact hnot (heq.1 ▸ hk2)
    · have hk' : (k' == k) = false := by simpa using hk
      have hne : k' ≠ k := by simpa using hk'
      obtain ⟨hw', a, b, h1, h2, h3⟩ := flatSubsP_insert i k ks pre rest hwr
      refine ⟨?_, t.flatP (pre ++ [k']) ++ a, b, by simp [flatSubsP, h1], by simp [insertSubs, hk', flatSubsP, h2], h3⟩
      simp only [insertSubs, hk', Bool.false_eq_true, ↓reduceIte, wfSubs, hwt, hw', Bool.and_true, Bool.true_and,
        Bool.not_eq_true', List.contains_eq_mem, decide_eq_false_iff_not]
      intro hin
      rcases insertSubs_keys i k ks rest k' hin with h | h
      · exact hne h
      · exact hnot h
end

end HedVerif.Issue

namespace HedVerif.C12
open HedVerif.Issue

/-! ## the context stack -/

/-- **push ; pop is the identity** on the stack (whatever is pushed, `None` included). -/
theorem push_pop (ik : List Str) (st : Stack) (k : Str) (v : Option Val) : pop (push ik st k v) = some st := by
  simp [pop, push]

/-- **Pushed values are stored type-exactly**: anything but `None` — the integer 0 and the empty string included — is
the value the stack holds (the seeded `if not context` turns the column label `0` into `''`). -/
theorem push_keeps_value (ik : List Str) (st : Stack) (k : Str) (v : Val) :
    (push ik st k (some v)).getLast? = some (k, v) ∧ lastVal (push ik st k (some v)) k = some v := by
  simp [push, lastVal, getKey]

/-- `None` becomes `0` for the int-sorted context types (the row) and `""` for every other type. -/
theorem push_none_default (ik : List Str) (st : Stack) (k : Str) :
    lastVal (push ik st k none) k = some (if ik.contains k then .num 0 else .str []) := by
  simp [push, lastVal, getKey, defaultFor]

/-- **A formatted issue carries exactly the stack's contexts**: for every key, the value in the formatted issue is
the INNERMOST value the stack holds for it (a context type pushed twice: the later push wins), and a key the stack
does not hold keeps what the error object had.  Code and severity are those of the error object.
Hypothesis: the issue is not dropped (warnings on, or an error). -/
theorem format_carries_stack (w : Bool) (st : Stack) (i : Issue) (hw : w = true ∨ i.severity < 10) :
    ∃ j, formatCtx w st i = [j] ∧ (∀ k, getKey j.ctx k = (lastVal st k).or (getKey i.ctx k)) ∧
      j.code = i.code ∧ j.severity = i.severity := by
  have hc : (!w && decide (10 ≤ i.severity)) = false := by
    rcases hw with h | h
    · simp [h]
    · have : ¬ 10 ≤ i.severity := by omega
      simp [this]
  refine ⟨_, by simp only [formatCtx, hc]; rfl, ?_, ?_, ?_⟩
  · intro k
    rw [updateCharPos_ctx]
    exact getKey_foldl st i.ctx k
  · rw [updateCharPos_code']; rfl
  · rw [updateCharPos_severity']; rfl

/-- with warnings off a warning is dropped, whatever the stack -/
theorem format_drops_warning (st : Stack) (i : Issue) (h : 10 ≤ i.severity) : formatCtx false st i = [] := by
  simp [formatCtx, h]

/-- **Later calls never touch an issue already formatted**: running a history `h1 ++ h2` produces the issues of `h1`
first, unchanged, whatever `h2` pushes, pops or resets. -/
theorem formatted_issues_fixed (ik : List Str) (w : Bool) (s s2 : HState) (h1 h2 : List Op)
    (hr : run ik w s (h1 ++ h2) = some s2) :
    ∃ s1 extra, run ik w s h1 = some s1 ∧ run ik w s1 h2 = some s2 ∧ s2.out = s1.out ++ extra := by
  rw [run_append] at hr
  cases h : run ik w s h1 with
  | none => rw [h] at hr; cases hr
  | some s1 =>
    rw [h] at hr
    obtain ⟨extra, he⟩ := run_out ik w h2 s1 s2 hr
    exact ⟨s1, extra, rfl, hr, he⟩

/-- **An issue sees the stack of the moment it is formatted**: the issue appended by a `format` call at the end of
history `h` is `formatCtx` of the stack `h` leaves — so (with `format_carries_stack`) it holds no entry pushed later
and none popped before. -/
theorem format_in_history (ik : List Str) (w : Bool) (s s2 : HState) (h : List Op) (i : Issue)
    (hr : run ik w s (h ++ [.format i]) = some s2) :
    ∃ s1, run ik w s h = some s1 ∧ s2.stack = s1.stack ∧ s2.out = s1.out ++ formatCtx w s1.stack i := by
  rw [run_append] at hr
  cases h1 : run ik w s h with
  | none => rw [h1] at hr; cases hr
  | some s1 =>
    rw [h1] at hr
    simp only [Option.bind_some, run, step, Option.some.injEq] at hr
    subst hr
    exact ⟨s1, rfl, rfl, rfl⟩

/-! ## printable output -/

/-- inserting an issue into the context tree leaves every issue already there in place and order -/
theorem print_insert (t : PTree) (i : Issue) (p : List CKey) :
    ∃ a b, t.flat = a ++ b ∧ (t.insert i p).flat = a ++ i :: b := flat_insert i p t

theorem buildTree_perm_aux (skip : Bool) (l : List Issue) : ∀ t : PTree,
    (l.foldl (fun t i => t.insert i (contextPath skip i)) t).flat.Perm (t.flat ++ l) := by
  induction l with
  | nil => intro t; simp
  | cons x xs ih =>
    intro t
    rw [List.foldl_cons]
    refine (ih _).trans ?_
    obtain ⟨a, b, h1, h2⟩ := flat_insert x (contextPath skip x) t
    rw [h2, h1]
    have : (a ++ x :: b).Perm ((a ++ b) ++ [x]) :=
      (List.perm_middle).trans (List.perm_append_singleton x (a ++ b)).symm
    have := this.append_right xs
    simpa using this

/-- **Every issue is printed exactly once**: the issues of the printed structure are a permutation of the list. -/
theorem print_perm (skip : Bool) (l : List Issue) : (buildTree skip l).flat.Perm l := by
  have := buildTree_perm_aux skip l (.node [] [])
  simpa [buildTree, PTree.flat, flatSubs] using this

/-- the printed lines hold exactly those issues, in that order -/
theorem print_lines_issues (skip : Bool) (l : List Issue) :
    (printLines skip none l).filterMap Line.issue? = (buildTree skip l).flat := by
  simp [printLines, lines_flat]

/-- **Issues under the same contexts are printed in list (= sort) order.** -/
theorem print_same_path (skip : Bool) (p : List CKey) (l : List Issue) (h : ∀ i ∈ l, contextPath skip i = p) :
    (buildTree skip l).flat = l := by
  cases l with
  | nil => simp [buildTree, PTree.flat, flatSubs]
  | cons x xs =>
    have hx : contextPath skip x = p := h x (by simp)
    have key : ∀ (ys : List Issue) (acc : List Issue), (∀ i ∈ ys, contextPath skip i = p) →
        (ys.foldl (fun t i => t.insert i (contextPath skip i)) (chainL p acc)) = chainL p (acc ++ ys) := by
      intro ys
      induction ys with
      | nil => intro acc _; simp
      | cons y ys ih =>
        intro acc hy
        rw [List.foldl_cons, hy y (by simp), chainL_insert, ih _ (fun i hi => hy i (by simp [hi]))]
        simp
    simp only [buildTree, List.foldl_cons, hx, empty_insert, chain_eq_chainL]
    rw [key xs [x] (fun i hi => h i (by simp [hi])), chainL_flat]
    simp

/-- the issues printed at the level whose context headers are `q`, in printed order -/
def printedAt (q : List CKey) (t : PTree) : List Issue := ((t.flatP []).filter (fun e => e.1 == q)).map (·.2)

theorem printedAt_foldl (skip : Bool) (q : List CKey) (l : List Issue) : ∀ t : PTree, t.wf = true →
    printedAt q (l.foldl (fun t i => t.insert i (contextPath skip i)) t) =
      printedAt q t ++ l.filter (fun i => contextPath skip i == q) := by
  induction l with
  | nil => intro t _; simp
  | cons x xs ih =>
    intro t hw
    obtain ⟨hw', a, b, h1, h2, h3⟩ := flatP_insert x (contextPath skip x) [] t hw
    rw [List.foldl_cons, ih _ hw']
    simp only [printedAt, h1, h2, List.nil_append, List.filter_append, List.filter_cons, List.map_append]
    by_cases hq : (contextPath skip x == q) = true
    · have e : contextPath skip x = q := by simpa using hq
      have hb : b.filter (fun e => e.1 == q) = [] := by
        rw [List.filter_eq_nil_iff]
        intro y hy
        have := h3 y hy
        simp only [List.nil_append] at this
        simpa [e] using this
      simp [hq, hb]
    · have hq' : (contextPath skip x == q) = false := by simpa using hq
      simp [hq']

/-- **Stable grouping (full strength).** For every context path `q`: the issues printed under the headers `q` are
exactly the issues of the list whose own contexts are `q`, in list (= sort) order — whatever other groups the list
holds and however they interleave. -/
theorem print_groups_stable (skip : Bool) (q : List CKey) (l : List Issue) :
    printedAt q (buildTree skip l) = l.filter (fun i => contextPath skip i == q) := by
  have := printedAt_foldl skip q l (.node [] []) (by simp [PTree.wf, wfSubs])
  simpa [buildTree, printedAt, PTree.flatP, flatSubsP] using this

/-- the level-annotated issues are the printed issues -/
theorem printed_annotated (skip : Bool) (l : List Issue) :
    ((buildTree skip l).flatP []).map (·.2) = (buildTree skip l).flat := flatP_flat [] _

/-! ### non-vacuity -/

private def rowK : Str := ['e','c','_','r','o','w']
private def colK : Str := ['e','c','_','c','o','l','u','m','n']

/-- the integer column label 0 stays the integer 0 (not `''`), an explicit `""` row stays `""` (not `0`), and `None`
defaults by type -/
example :
    (match lastVal (push [rowK] [] colK (some (.num 0))) colK with | some (.num 0) => true | _ => false) = true ∧
    (match lastVal (push [rowK] [] rowK (some (.str []))) rowK with | some (.str []) => true | _ => false) = true ∧
    (match lastVal (push [rowK] [] colK none) colK with | some (.str []) => true | _ => false) = true ∧
    (match lastVal (push [rowK] [] rowK none) rowK with | some (.num 0) => true | _ => false) = true := by decide

/-- a history: row 3, column 0, format, pop, pop, format — the first issue holds both contexts, the second none -/
example :
    let i : Issue := { code := ['X'], severity := 1, span := none }
    ((run [rowK] true {} [.push rowK (some (.num 3)), .push colK (some (.num 0)), .format i, .pop, .pop, .format i]).map
      fun s => s.out.map fun j => j.ctx.map fun kv => (kv.1, match kv.2 with | .num n => n | _ => -1)) =
      some [[(rowK, 3), (colK, 0)], []] := by decide

/-- pop on an empty stack raises -/
example : (run [] true {} [.pop]).isNone = true := by decide

/-- two groups: the second row-1 issue is printed before the row-2 issue that precedes it in the list -/
example :
    let a : Issue := { code := ['A'], severity := 1, span := none, ctx := [(rowK, .str ['1'])] }
    let b : Issue := { code := ['B'], severity := 1, span := none, ctx := [(rowK, .str ['2'])] }
    let c : Issue := { code := ['C'], severity := 1, span := none, ctx := [(rowK, .str ['1'])] }
    (buildTree true [a, b, c]).flat.map (·.code) = [['A'], ['C'], ['B']] := by decide

/-- `print_groups_stable` on that list: under `row 1` exactly A then C are printed, under `row 2` exactly B -/
example :
    let a : Issue := { code := ['A'], severity := 1, span := none, ctx := [(rowK, .str ['1'])] }
    let b : Issue := { code := ['B'], severity := 1, span := none, ctx := [(rowK, .str ['2'])] }
    let c : Issue := { code := ['C'], severity := 1, span := none, ctx := [(rowK, .str ['1'])] }
    (printedAt [(rowK, ['1'])] (buildTree true [a, b, c])).map (·.code) = [['A'], ['C']] ∧
    (printedAt [(rowK, ['2'])] (buildTree true [a, b, c])).map (·.code) = [['B']] := by decide

end HedVerif.C12
