/-
C01 — String validation verdict agrees with the HED rules.

Theorems about `Validate.validate` (the composed pipeline with its three short-circuits), for ALL schemas
(vocabulary + attribute data), placeholder modes and texts:
  * the generated code map agrees with the specification's rule -> code table;
  * the short-circuit structure (`phase_structure`, `reported_iff_earlier_phases_silent`);
  * one `injected_k` per modelled violation kind: defect present (a predicate on the text / parsed tree) and
    every earlier phase silent  ==>  the specification's code of `k` is among the reported error codes;
  * `valid_no_error_partial`: every rule predicate false ==> no error.
Not covered here (implementation-side oracle only): definition dictionaries (declared Def / Def-expand
contents, wrongly valued Def, altered Def-expand), several schemas at once.
-/
import HedVerif.Model.Validate

namespace HedVerif.C01
open HedVerif HedVerif.Schema HedVerif.Validate
open HedVerif.Generated.CodeMap

/-! ### the specification's table -/

/-- rule violations named by the property statement -/
inductive Rule where
  | unknownTag | forbiddenExtension | missingRequiredChild | badUnit | badValue | repeatedTag | repeatedGroup
  | misplacedTagGroup | misplacedTopLevel | unbalanced | emptyDelimiter | emptyGroup | forbiddenCharacter
  | strayPlaceholder | undeclaredDef | wrongDefValue | alteredDefExpand | duplicatedUnique
deriving DecidableEq, Repr

/-- HED-specification error code of each rule (hand-written from the property statement) -/
def Spec.codeOf : Rule → Str
  | .unknownTag => ['T','A','G','_','I','N','V','A','L','I','D']
  | .forbiddenExtension => ['T','A','G','_','E','X','T','E','N','S','I','O','N','_','I','N','V','A','L','I','D']
  | .missingRequiredChild => ['T','A','G','_','R','E','Q','U','I','R','E','S','_','C','H','I','L','D']
  | .badUnit => ['U','N','I','T','S','_','I','N','V','A','L','I','D']
  | .badValue => ['V','A','L','U','E','_','I','N','V','A','L','I','D']
  | .repeatedTag => ['T','A','G','_','E','X','P','R','E','S','S','I','O','N','_','R','E','P','E','A','T','E','D']
  | .repeatedGroup => ['T','A','G','_','E','X','P','R','E','S','S','I','O','N','_','R','E','P','E','A','T','E','D']
  | .misplacedTagGroup => ['T','A','G','_','G','R','O','U','P','_','E','R','R','O','R']
  | .misplacedTopLevel => ['T','A','G','_','G','R','O','U','P','_','E','R','R','O','R']
  | .unbalanced => ['P','A','R','E','N','T','H','E','S','E','S','_','M','I','S','M','A','T','C','H']
  | .emptyDelimiter => ['T','A','G','_','E','M','P','T','Y']
  | .emptyGroup => ['T','A','G','_','E','M','P','T','Y']
  | .forbiddenCharacter => ['C','H','A','R','A','C','T','E','R','_','I','N','V','A','L','I','D']
  | .strayPlaceholder => ['P','L','A','C','E','H','O','L','D','E','R','_','I','N','V','A','L','I','D']
  | .undeclaredDef => ['D','E','F','_','I','N','V','A','L','I','D']
  | .wrongDefValue => ['D','E','F','_','I','N','V','A','L','I','D']
  | .alteredDefExpand => ['D','E','F','_','E','X','P','A','N','D','_','I','N','V','A','L','I','D']
  | .duplicatedUnique => ['T','A','G','_','N','O','T','_','U','N','I','Q','U','E']

/-- what the source publishes for the internal kinds that implement each rule: (published code, severity) -/
def Rule.published : Rule → List (Str × Nat)
  | .unknownTag => [(code_NO_VALID_TAG_FOUND, sev_NO_VALID_TAG_FOUND)]
  | .forbiddenExtension => [(code_TAG_EXTENSION_INVALID, sev_TAG_EXTENSION_INVALID),
                            (code_INVALID_PARENT_NODE, sev_INVALID_PARENT_NODE)]
  | .missingRequiredChild => [(code_TAG_REQUIRES_CHILD, sev_TAG_REQUIRES_CHILD)]
  | .badUnit => [(code_UNITS_INVALID, sev_UNITS_INVALID)]
  | .badValue => [(code_INVALID_VALUE_CLASS_VALUE, sev_INVALID_VALUE_CLASS_VALUE), (code_VALUE_INVALID, sev_VALUE_INVALID)]
  | .repeatedTag => [(code_HED_TAG_REPEATED, sev_HED_TAG_REPEATED)]
  | .repeatedGroup => [(code_HED_TAG_REPEATED_GROUP, sev_HED_TAG_REPEATED_GROUP)]
  | .misplacedTagGroup => [(code_HED_TAG_GROUP_TAG, sev_HED_TAG_GROUP_TAG)]
  | .misplacedTopLevel => [(code_HED_TOP_LEVEL_TAG, sev_HED_TOP_LEVEL_TAG), (code_HED_MULTIPLE_TOP_TAGS, sev_HED_MULTIPLE_TOP_TAGS)]
  | .unbalanced => [(code_PARENTHESES_MISMATCH, sev_PARENTHESES_MISMATCH)]
  | .emptyDelimiter => [(code_TAG_EMPTY, sev_TAG_EMPTY)]
  | .emptyGroup => [(code_HED_GROUP_EMPTY, sev_HED_GROUP_EMPTY)]
  | .forbiddenCharacter => [(code_CHARACTER_INVALID, sev_CHARACTER_INVALID), (code_INVALID_TAG_CHARACTER, sev_INVALID_TAG_CHARACTER),
                            (code_INVALID_VALUE_CLASS_CHARACTER, sev_INVALID_VALUE_CLASS_CHARACTER)]
  | .strayPlaceholder => [(val_PLACEHOLDER_INVALID, sev_INVALID_TAG_CHARACTER), (val_PLACEHOLDER_INVALID, sev_TAG_EXTENSION_INVALID)]
  | .undeclaredDef => [(code_HED_DEF_UNMATCHED, sev_HED_DEF_UNMATCHED)]
  | .wrongDefValue => [(code_HED_DEF_VALUE_MISSING, sev_HED_DEF_VALUE_MISSING), (code_HED_DEF_VALUE_EXTRA, sev_HED_DEF_VALUE_EXTRA)]
  | .alteredDefExpand => [(code_HED_DEF_EXPAND_INVALID, sev_HED_DEF_EXPAND_INVALID),
                          (code_HED_DEF_EXPAND_UNMATCHED, sev_HED_DEF_EXPAND_UNMATCHED),
                          (code_HED_DEF_EXPAND_VALUE_MISSING, sev_HED_DEF_EXPAND_VALUE_MISSING),
                          (code_HED_DEF_EXPAND_VALUE_EXTRA, sev_HED_DEF_EXPAND_VALUE_EXTRA)]
  | .duplicatedUnique => [(code_TAG_NOT_UNIQUE, sev_TAG_NOT_UNIQUE)]

/-- The code map extracted from `error_messages.py` agrees with the specification's table: every internal kind
that implements a rule is published under the rule's code, with error severity. -/
theorem codeMap_agrees_with_spec (r : Rule) :
    (r.published.all fun e => e.1 == Spec.codeOf r && decide (e.2 < sevWarning)) = true := by
  cases r <;> decide

/-- the kinds for which the model fills `sub` (index_in_tag, index_in_tag_end) are exactly the `has_sub_tag` ones
(PARENTHESES_MISMATCH carries its two counts there) -/
def modelUsesSub : Kind → Bool
  | .nodeNameEmpty | .invalidTagCharacter | .noValidTag | .invalidParent | .tagExtended
  | .valueClassValue | .valueClassChar | .curlyBrace => true
  | _ => false

theorem sub_consistent (k : Kind) : k.hasSub = modelUsesSub k := by
  cases k <;> decide

/-! ### helpers -/

theorem hasError_append (a b : List Issue) : hasError (a ++ b) = (hasError a || hasError b) := by
  simp [hasError]

theorem errors_append (a b : List Issue) : errors (a ++ b) = errors a ++ errors b := by
  simp [errors]

theorem errors_nil_of_hasError_false {l : List Issue} (h : hasError l = false) : errors l = [] := by
  simp only [hasError, List.any_eq_false] at h
  simp only [errors, List.filter_eq_nil_iff]
  intro a ha
  exact h a ha

theorem hasError_false_of_errors_nil {l : List Issue} (h : errors l = []) : hasError l = false := by
  simp only [errors, List.filter_eq_nil_iff] at h
  simp only [hasError, List.any_eq_false]
  exact h

theorem errors_flatMap_nil {α} (l : List α) (f : α → List Issue) (h : ∀ x ∈ l, errors (f x) = []) :
    errors (l.flatMap f) = [] := by
  induction l with
  | nil => simp [errors]
  | cons x xs ih =>
    simp only [List.flatMap_cons, errors_append]
    rw [h x (by simp), ih (fun y hy => h y (by simp [hy]))]
    rfl

theorem code_mem {l : List Issue} {i : Issue} (hi : i ∈ l) (he : i.isError = true) :
    i.code ∈ codes (errors l) := by
  simp only [codes, errors, List.mem_map, List.mem_filter]
  exact ⟨i, ⟨hi, he⟩, rfl⟩

theorem conclude {l : List Issue} {i : Issue} {c : Str} (hi : i ∈ l) (hs : i.sev = 1) (hc : i.code = c) :
    c ∈ codes (errors l) := by
  subst hc
  exact code_mem hi (by simp [Issue.isError, hs]; decide)

/-- the four phases of `validate` on a text -/
abbrev S (env : Env) (ph : Bool) (text : Str) : List Issue := stringIssues env ph text (parse env text)
abbrev T (env : Env) (ph : Bool) (text : Str) : List Issue := tagIssues env ph (parse env text)
abbrev M (env : Env) (ph : Bool) (text : Str) : List Issue := semIssues env ph text.length (parse env text)
abbrev F (env : Env) (text : Str) : List Issue := fullIssues env text.length (parse env text)
abbrev NA (env : Env) (text : Str) : Bool := isNA env (parse env text).root0

/-! ### the short-circuit structure, once -/

/-- `validate` = string checks; stop on error; ("n/a": straight to the full checks); tag characters and lookup;
stop on error; individual tags and Def tags; stop on error; full-string checks. -/
theorem phase_structure (env : Env) (ph : Bool) (text : Str) :
    validate env ph text =
      if hasError (S env ph text) then S env ph text
      else if NA env text then S env ph text ++ F env text
      else if hasError (S env ph text ++ T env ph text) then S env ph text ++ T env ph text
      else if hasError (S env ph text ++ T env ph text ++ M env ph text) then
        S env ph text ++ T env ph text ++ M env ph text
      else S env ph text ++ T env ph text ++ M env ph text ++ F env text := by
  simp only [validate, validateP, basicP, S, T, M, F, NA]
  by_cases h1 : hasError (stringIssues env ph text (parse env text)) = true
  · simp [h1]
  · by_cases h2 : isNA env (parse env text).root0 = true
    · simp [h1, h2]
    · by_cases h3 : hasError (stringIssues env ph text (parse env text) ++ tagIssues env ph (parse env text)) = true
      · simp [h1, h2, h3]
      · simp [h1, h2, h3]

/-- An issue of a phase is reported iff every earlier phase produced no error (and, for the phases after the
string checks, the text is not "n/a"; "n/a" goes to the full checks directly). -/
theorem reported_iff_earlier_phases_silent (env : Env) (ph : Bool) (text : Str) (i : Issue) :
    i ∈ validate env ph text ↔
      i ∈ S env ph text
      ∨ (hasError (S env ph text) = false ∧ NA env text = false ∧ i ∈ T env ph text)
      ∨ (hasError (S env ph text) = false ∧ NA env text = false ∧
          hasError (S env ph text ++ T env ph text) = false ∧ i ∈ M env ph text)
      ∨ (hasError (S env ph text) = false ∧
          (NA env text = true ∨ (hasError (S env ph text ++ T env ph text) = false ∧
            hasError (S env ph text ++ T env ph text ++ M env ph text) = false)) ∧ i ∈ F env text) := by
  rw [phase_structure]
  by_cases h1 : hasError (S env ph text) = true
  · simp [h1]
  · by_cases h2 : NA env text = true
    · simp [h1, h2]
    · by_cases h3 : hasError (S env ph text ++ T env ph text) = true
      · simp [h1, h2, h3]
      · by_cases h4 : hasError (S env ph text ++ T env ph text ++ M env ph text) = true
        · simp only [Bool.not_eq_true] at h1 h2 h3
          have h4' := h4
          rw [List.append_assoc] at h4'
          simp [h1, h2, h3, h4, h4']
        · simp only [Bool.not_eq_true] at h1 h2 h3 h4
          have h4' := h4
          rw [List.append_assoc] at h4'
          simp [h1, h2, h3, h4, h4']

theorem reach_string {env : Env} {ph : Bool} {text : Str} {i : Issue} (h : i ∈ S env ph text) :
    i ∈ validate env ph text :=
  (reported_iff_earlier_phases_silent env ph text i).2 (Or.inl h)

theorem reach_tag {env : Env} {ph : Bool} {text : Str} {i : Issue} (hS : hasError (S env ph text) = false)
    (hNA : NA env text = false) (h : i ∈ T env ph text) : i ∈ validate env ph text :=
  (reported_iff_earlier_phases_silent env ph text i).2 (Or.inr (Or.inl ⟨hS, hNA, h⟩))

theorem reach_sem {env : Env} {ph : Bool} {text : Str} {i : Issue} (hS : hasError (S env ph text) = false)
    (hNA : NA env text = false) (hT : hasError (S env ph text ++ T env ph text) = false)
    (h : i ∈ M env ph text) : i ∈ validate env ph text :=
  (reported_iff_earlier_phases_silent env ph text i).2 (Or.inr (Or.inr (Or.inl ⟨hS, hNA, hT, h⟩)))

/-- the full checks run exactly when the basic checks reported no error -/
theorem reach_full {env : Env} {ph : Bool} {text : Str} {i : Issue} (hB : hasError (basic env ph text) = false)
    (h : i ∈ F env text) : i ∈ validate env ph text := by
  simp only [validate, validateP]
  simp only [basic] at hB
  simp [hB, h]

/-! ### membership lemmas of the single rules -/

theorem charIssuesFrom_mem (env : Env) (ph : Bool) (c : Char) :
    ∀ (s : Str) (n : Nat), c ∈ s → badChar env ph c = true → ∃ k, charIssue k c ∈ charIssuesFrom env ph n s := by
  intro s
  induction s with
  | nil => intro n h; simp at h
  | cons d ds ih =>
    intro n h hb
    simp only [List.mem_cons] at h
    cases h with
    | inl h => subst h; exact ⟨n, by simp [charIssuesFrom, hb]⟩
    | inr h =>
      obtain ⟨k, hk⟩ := ih (n + 1) h hb
      exact ⟨k, by simp only [charIssuesFrom, List.mem_append]; exact Or.inr hk⟩

theorem charIssuesFrom_nil (env : Env) (ph : Bool) :
    ∀ (s : Str) (n : Nat), (∀ c ∈ s, badChar env ph c = false) → charIssuesFrom env ph n s = [] := by
  intro s
  induction s with
  | nil => intro n _; rfl
  | cons d ds ih =>
    intro n h
    simp only [charIssuesFrom, h d (by simp), ih (n + 1) (fun c hc => h c (by simp [hc]))]
    rfl

theorem placeholderFrom_mem (t : RTag) (start : Nat) :
    ∀ (s : Str) (n : Nat), '#' ∈ s → ∃ k, ({ subIssue .invalidTagCharacter t (start + k) (start + k + 1) with
        code := val_PLACEHOLDER_INVALID } : Issue) ∈ placeholderFrom t start n s := by
  intro s
  induction s with
  | nil => intro n h; simp at h
  | cons d ds ih =>
    intro n h
    simp only [List.mem_cons] at h
    cases h with
    | inl h => subst h; exact ⟨n, by simp [placeholderFrom]⟩
    | inr h =>
      obtain ⟨k, hk⟩ := ih (n + 1) h
      exact ⟨k, by simp only [placeholderFrom, List.mem_append]; exact Or.inr hk⟩

mutual
theorem recanonNode_mem (env : Env) :
    ∀ (n : RNode) (t : RTag) (i : Issue), t ∈ tagsNode n → i ∈ (canon env t).2 → i ∈ (recanonNode env n).2
  | .tag t0, t, i, ht, hi => by
    simp only [tagsNode, List.mem_singleton] at ht
    subst ht
    simpa [recanonNode] using hi
  | .group s kids, t, i, ht, hi => by
    simp only [tagsNode] at ht
    simp only [recanonNode]
    exact recanonList_mem env kids t i ht hi
theorem recanonList_mem (env : Env) :
    ∀ (l : List RNode) (t : RTag) (i : Issue), t ∈ tagsList l → i ∈ (canon env t).2 → i ∈ (recanonList env l).2
  | [], t, i, ht, _ => by simp [tagsList] at ht
  | n :: ns, t, i, ht, hi => by
    simp only [tagsList, List.mem_append] at ht
    simp only [recanonList, List.mem_append]
    cases ht with
    | inl h => exact Or.inl (recanonNode_mem env n t i h hi)
    | inr h => exact Or.inr (recanonList_mem env ns t i h hi)
end

theorem defIssuesOf_mem (env : Env) (t : RTag) (h : shortBase env t = defKey) :
    ∀ (l : List RNode), RNode.tag t ∈ l → tagIssue .defUnmatched t ∈ defIssuesOf env l := by
  intro l
  induction l with
  | nil => intro hm; simp at hm
  | cons n ns ih =>
    intro hm
    simp only [List.mem_cons] at hm
    cases n with
    | tag t0 =>
      simp only [defIssuesOf, List.mem_append]
      cases hm with
      | inl e => cases e; exact Or.inl (by simp [h])
      | inr e => exact Or.inr (ih e)
    | group s ks =>
      simp only [defIssuesOf, List.mem_append]
      cases hm with
      | inl e => cases e
      | inr e => exact Or.inr (ih e)

theorem mem_individualPhase {env : Env} {ph : Bool} {len : Nat} {root : List RNode} {g : GV} {t : RTag} {i : Issue}
    (hg : g ∈ allGroups len root) (ht : t ∈ directTags g.kids)
    (hi : ∀ isDef, i ∈ tagSemIssues env ph isDef t) : i ∈ individualPhase env ph len root := by
  simp only [individualPhase, List.mem_flatMap]
  exact ⟨g, hg, t, ht, hi _⟩

theorem mem_sem_of_individual {env : Env} {ph isDef : Bool} {t : RTag} {i : Issue}
    (h : i ∈ individualIssues env ph isDef t) : i ∈ tagSemIssues env ph isDef t := by
  simp only [tagSemIssues, List.mem_append]
  exact Or.inl (Or.inr h)

/-- a tag that is not Def / Def-expand / Definition and (with placeholders allowed) has no `#` has its value
checked by `validate_units` -/
theorem mem_sem_of_units {env : Env} {ph isDef : Bool} {t : RTag} {i : Issue}
    (h1 : (shortBase env t == defKey) = false) (h2 : (shortBase env t == defExpandKey) = false)
    (h3 : (shortBase env t == definitionKey) = false) (h4 : (ph && (extension t).contains '#') = false)
    (h : i ∈ validateUnits env t (extension t)) : i ∈ tagSemIssues env ph isDef t := by
  simp only [tagSemIssues, List.mem_append]
  refine Or.inr ?_
  simp [h1, h2, h3, h]
  cases ph <;> simp_all

/-! ### one theorem per injected violation kind -/

/-- forbidden character: some character of the text is `[]{}~`-forbidden (`[]~` with placeholders) or fails the
schema generation's character test; reported whatever else is wrong. -/
theorem injected_forbidden_character (env : Env) (ph : Bool) (text : Str) (c : Char)
    (hc : c ∈ text) (hbad : badChar env ph c = true) (hne : (c == '~') = false) :
    Spec.codeOf .forbiddenCharacter ∈ codes (errors (validate env ph text)) := by
  obtain ⟨k, hk⟩ := charIssuesFrom_mem env ph c text 0 hc hbad
  have hS : charIssue k c ∈ S env ph text := by
    simp only [S, stringIssues, stringPhase, charIssues, List.mem_append]
    exact Or.inl (Or.inl (Or.inl hk))
  have he : charIssue k c = { Issue.plain .characterInvalid with chr := some k } := by simp [charIssue, hne]
  rw [he] at hS
  exact conclude (reach_string hS) rfl rfl

/-- unbalanced parentheses: the counts differ or a closing one comes first -/
theorem injected_unbalanced (env : Env) (ph : Bool) (text : Str) (h : Paren.mismatch text = true) :
    Spec.codeOf .unbalanced ∈ codes (errors (validate env ph text)) := by
  have hS : ({ Issue.plain .parentheses with sub := some (text.count '(', text.count ')') } : Issue) ∈ S env ph text := by
    simp only [S, stringIssues, stringPhase, parenIssues, h, List.mem_append]
    exact Or.inl (Or.inl (Or.inr (by simp)))
  exact conclude (reach_string hS) rfl rfl

/-- empty tag between delimiters: the delimiter scan meets an empty tag at position `n` -/
theorem injected_empty_delimiter (env : Env) (ph : Bool) (text : Str) (n : Nat)
    (h : emptyAt n ∈ delimIssues env.cd text) :
    Spec.codeOf .emptyDelimiter ∈ codes (errors (validate env ph text)) := by
  have hS : emptyAt n ∈ S env ph text := by
    simp only [S, stringIssues, stringPhase, List.mem_append]
    exact Or.inl (Or.inr h)
  exact conclude (reach_string hS) rfl rfl

/-- empty group: some group of the parsed tree has no children; basic checks silent -/
theorem injected_empty_group (env : Env) (ph : Bool) (text : Str) (g : GV)
    (hB : hasError (basic env ph text) = false)
    (hg : g ∈ allGroups text.length ((parse env text).final env)) (hk : g.kids = []) (hgr : g.isGroup = true) :
    Spec.codeOf .emptyGroup ∈ codes (errors (validate env ph text)) := by
  have hF : ({ Issue.plain .groupEmpty with span := some g.span } : Issue) ∈ F env text := by
    simp only [F, fullIssues, fullPhase, List.mem_append, List.mem_flatMap]
    refine Or.inl (Or.inl (Or.inl (Or.inr ⟨g, hg, ?_⟩)))
    simp [groupIssues, hk, hgr]
  exact conclude (reach_full hB hF) rfl rfl

/-- unknown tag: some tag resolves to "no valid tag"; string checks silent, not "n/a" -/
theorem injected_unknown_tag (env : Env) (ph : Bool) (text : Str) (t : RTag) (stop : Nat)
    (hS : hasError (S env ph text) = false) (hNA : NA env text = false)
    (ht : t ∈ tagsList (parse env text).root0) (hns : (t.ns != env.ns) = false)
    (hf : find env.vocab fold ((strOf env t).drop t.ns.length) = .noValidTag stop) :
    Spec.codeOf .unknownTag ∈ codes (errors (validate env ph text)) := by
  have hc : subIssue .noValidTag t t.ns.length (t.ns.length + stop) ∈ (canon env t).2 := by
    simp [canon, hns, hf]
  have hT : subIssue .noValidTag t t.ns.length (t.ns.length + stop) ∈ T env ph text := by
    simp only [T, tagIssues, parse, List.mem_append]
    exact Or.inr (recanonList_mem env _ t _ ht hc)
  exact conclude (reach_tag hS hNA hT) rfl rfl

/-- forbidden extension (a term of the extension is itself a schema tag) -/
theorem injected_forbidden_extension_term (env : Env) (ph : Bool) (text : Str) (t : RTag) (a b x : Nat)
    (hS : hasError (S env ph text) = false) (hNA : NA env text = false)
    (ht : t ∈ tagsList (parse env text).root0) (hns : (t.ns != env.ns) = false)
    (hf : find env.vocab fold ((strOf env t).drop t.ns.length) = .invalidParent a b x) :
    Spec.codeOf .forbiddenExtension ∈ codes (errors (validate env ph text)) := by
  have hc : subIssue .invalidParent t (t.ns.length + a) (t.ns.length + b) ∈ (canon env t).2 := by
    simp [canon, hns, hf]
  have hT : subIssue .invalidParent t (t.ns.length + a) (t.ns.length + b) ∈ T env ph text := by
    simp only [T, tagIssues, parse, List.mem_append]
    exact Or.inr (recanonList_mem env _ t _ ht hc)
  exact conclude (reach_tag hS hNA hT) rfl rfl

/-- forbidden extension: a resolved tag carries an extension, does not take a value and does not allow extension -/
theorem injected_forbidden_extension (env : Env) (ph : Bool) (text : Str) (g : GV) (t : RTag) (e : Nat)
    (hS : hasError (S env ph text) = false) (hNA : NA env text = false)
    (hT : hasError (S env ph text ++ T env ph text) = false)
    (hg : g ∈ allGroups text.length (parse env text).root1) (ht : t ∈ directTags g.kids)
    (he : t.entry = some e) (hx : (extension t).isEmpty = false) (hph : (extension t).contains '#' = false)
    (htv : (env.attr e).takesValue = false) (hea : (env.attr e).extensionAllowed = false) :
    Spec.codeOf .forbiddenExtension ∈ codes (errors (validate env ph text)) := by
  have hi : ∀ isDef, tagIssue .extensionInvalid t ∈ tagSemIssues env ph isDef t := by
    intro isDef
    apply mem_sem_of_individual
    simp only [individualIssues, List.mem_append]
    refine Or.inl (Or.inl (Or.inl (Or.inl ?_)))
    have hph' : ¬ '#' ∈ extension t := by simpa using hph
    simp [existsIssues, entryAttr, he, hx, htv, hea, tagIssue, Issue.plain]
    intro h
    exact absurd h hph'
  have hM : tagIssue .extensionInvalid t ∈ M env ph text := by
    simp only [M, semIssues, List.mem_append]
    exact Or.inl (mem_individualPhase hg ht hi)
  exact conclude (reach_sem hS hNA hT hM) rfl rfl

/-- missing required child: a tag resolves to an entry with `requireChild` -/
theorem injected_missing_required_child (env : Env) (ph : Bool) (text : Str) (g : GV) (t : RTag) (e : Nat)
    (hS : hasError (S env ph text) = false) (hNA : NA env text = false)
    (hT : hasError (S env ph text ++ T env ph text) = false)
    (hg : g ∈ allGroups text.length (parse env text).root1) (ht : t ∈ directTags g.kids)
    (he : t.entry = some e) (hrc : (env.attr e).requireChild = true) :
    Spec.codeOf .missingRequiredChild ∈ codes (errors (validate env ph text)) := by
  have hi : ∀ isDef, tagIssue .requiresChild t ∈ tagSemIssues env ph isDef t := by
    intro isDef
    apply mem_sem_of_individual
    simp only [individualIssues, List.mem_append]
    refine Or.inl (Or.inl (Or.inr ?_))
    simp [entryAttr, he, hrc]
  have hM : tagIssue .requiresChild t ∈ M env ph text := by
    simp only [M, semIssues, List.mem_append]
    exact Or.inl (mem_individualPhase hg ht hi)
  exact conclude (reach_sem hS hNA hT hM) rfl rfl

/-- stray placeholder: placeholders not allowed, a tag outside a definition has `#` in its extension -/
theorem injected_stray_placeholder (env : Env) (text : Str) (g : GV) (t : RTag)
    (hS : hasError (S env false text) = false) (hNA : NA env text = false)
    (hT : hasError (S env false text ++ T env false text) = false)
    (hg : g ∈ allGroups text.length (parse env text).root1) (ht : t ∈ directTags g.kids)
    (hdef : (g.isGroup && (definitionGroups env (parse env text).root1).any (fun d => listEq env g.kids d)) = false)
    (hp : '#' ∈ extension t) :
    Spec.codeOf .strayPlaceholder ∈ codes (errors (validate env false text)) := by
  obtain ⟨k, hk⟩ := placeholderFrom_mem t ((orgBase t).length + 1) (extension t) 0 hp
  have hM : ({ subIssue .invalidTagCharacter t ((orgBase t).length + 1 + k) ((orgBase t).length + 1 + k + 1) with
      code := val_PLACEHOLDER_INVALID } : Issue) ∈ M env false text := by
    simp only [M, semIssues, List.mem_append]
    refine Or.inl ?_
    simp only [individualPhase, List.mem_flatMap]
    refine ⟨g, hg, t, ht, ?_⟩
    rw [hdef]
    apply mem_sem_of_individual
    simp only [individualIssues, List.mem_append]
    refine Or.inl (Or.inl (Or.inl (Or.inr ?_)))
    simpa [placeholderIssues] using hk
  exact conclude (reach_sem hS hNA hT hM) rfl rfl

/-- bad unit: a unit-class tag whose extension keeps a blank and ends in no unit of its classes -/
theorem injected_bad_unit (env : Env) (ph : Bool) (text : Str) (g : GV) (t : RTag)
    (hS : hasError (S env ph text) = false) (hNA : NA env text = false)
    (hT : hasError (S env ph text ++ T env ph text) = false)
    (hg : g ∈ allGroups text.length (parse env text).root1) (ht : t ∈ directTags g.kids)
    (h1 : (shortBase env t == defKey) = false) (h2 : (shortBase env t == defExpandKey) = false)
    (h3 : (shortBase env t == definitionKey) = false) (h4 : (ph && (extension t).contains '#') = false)
    (h5 : (extension t == ['#']) = false) (hu : (tagUnitClasses env t).isEmpty = false)
    (hnf : unitFound env t (extension t) = false) (hbl : (strippedText env t (extension t)).contains ' ' = true) :
    Spec.codeOf .badUnit ∈ codes (errors (validate env ph text)) := by
  have hi : ∀ isDef, tagIssue .unitsInvalid t ∈ tagSemIssues env ph isDef t := by
    intro isDef
    apply mem_sem_of_units h1 h2 h3 h4
    have hbl' : ' ' ∈ strippedText env t (extension t) := by simpa using hbl
    simp [validateUnits, h5, hu, unitIssues, hnf]
    exact Or.inr (by simp [hbl'])
  have hM : tagIssue .unitsInvalid t ∈ M env ph text := by
    simp only [M, semIssues, List.mem_append]
    exact Or.inl (mem_individualPhase hg ht hi)
  exact conclude (reach_sem hS hNA hT hM) rfl rfl

/-- bad value: a unit-class tag whose value text matches the word pattern of none of its value classes
(and no class accepts it) -/
theorem injected_bad_value (env : Env) (ph : Bool) (text : Str) (g : GV) (t : RTag) (c : Str)
    (hS : hasError (S env ph text) = false) (hNA : NA env text = false)
    (hT : hasError (S env ph text ++ T env ph text) = false)
    (hg : g ∈ allGroups text.length (parse env text).root1) (ht : t ∈ directTags g.kids)
    (h1 : (shortBase env t == defKey) = false) (h2 : (shortBase env t == defExpandKey) = false)
    (h3 : (shortBase env t == definitionKey) = false) (h4 : (ph && (extension t).contains '#') = false)
    (h5 : (extension t == ['#']) = false) (hu : (tagUnitClasses env t).isEmpty = false)
    (htv : (entryAttr env t).takesValue = true) (hc : c ∈ (entryAttr env t).valueClasses)
    (hw : wordValid c (valueText env t (extension t)) = false)
    (hnone : ((entryAttr env t).valueClasses.any fun c =>
      wordValid c (valueText env t (extension t)) && (problemChars c (valueText env t (extension t))).isEmpty) = false) :
    Spec.codeOf .badValue ∈ codes (errors (validate env ph text)) := by
  have hne : (entryAttr env t).valueClasses.isEmpty = false := by
    cases hv : (entryAttr env t).valueClasses with
    | nil => rw [hv] at hc; simp at hc
    | cons _ _ => rfl
  have hi : ∀ isDef, ({ subIssue .valueClassValue t 0 t.org.length with txt := some c } : Issue)
      ∈ tagSemIssues env ph isDef t := by
    intro isDef
    apply mem_sem_of_units h1 h2 h3 h4
    have hv : ({ subIssue .valueClassValue t 0 t.org.length with txt := some c } : Issue)
        ∈ valueClassIssues env t (valueText env t (extension t)) := by
      rw [valueClassIssues]
      simp only [htv, hne, hnone, Bool.not_true, Bool.false_eq_true, ↓reduceIte, List.mem_flatMap]
      exact ⟨c, hc, by simp [hw]⟩
    simp [validateUnits, h5, hu, unitIssues, hv]
  have hM : ({ subIssue .valueClassValue t 0 t.org.length with txt := some c } : Issue) ∈ M env ph text := by
    simp only [M, semIssues, List.mem_append]
    exact Or.inl (mem_individualPhase hg ht hi)
  exact conclude (reach_sem hS hNA hT hM) rfl rfl

/-- undeclared Def (no definitions are declared): a `Def` tag anywhere -/
theorem injected_undeclared_def (env : Env) (ph : Bool) (text : Str) (g : GV) (t : RTag)
    (hS : hasError (S env ph text) = false) (hNA : NA env text = false)
    (hT : hasError (S env ph text ++ T env ph text) = false)
    (hg : g ∈ allGroups text.length (parse env text).root1) (ht : RNode.tag t ∈ g.kids)
    (hd : shortBase env t = defKey) :
    Spec.codeOf .undeclaredDef ∈ codes (errors (validate env ph text)) := by
  have hM : tagIssue .defUnmatched t ∈ M env ph text := by
    simp only [M, semIssues, defPhase, List.mem_append, List.mem_flatMap]
    exact Or.inr ⟨g, hg, defIssuesOf_mem env t hd g.kids ht⟩
  exact conclude (reach_sem hS hNA hT hM) rfl rfl

/-- misplaced tag-group tag: a tag whose base entry has `tagGroup` sits directly in the string (no parentheses) -/
theorem injected_misplaced_tag_group (env : Env) (ph : Bool) (text : Str) (g : GV) (t : RTag)
    (hB : hasError (basic env ph text) = false)
    (hg : g ∈ allGroups text.length ((parse env text).final env)) (ht : t ∈ directTags g.kids)
    (ha : (baseAttr env t).tagGroup = true) (hgr : g.isGroup = false) :
    Spec.codeOf .misplacedTagGroup ∈ codes (errors (validate env ph text)) := by
  have hF : tagIssue .tagGroupTag t ∈ F env text := by
    simp only [F, fullIssues, fullPhase, List.mem_append, List.mem_flatMap]
    refine Or.inl (Or.inl (Or.inl (Or.inr ⟨g, hg, ?_⟩)))
    simp only [groupIssues, levelIssues, List.mem_append, List.mem_flatMap, List.mem_filter]
    exact Or.inr (Or.inl (Or.inl ⟨t, ⟨ht, ha⟩, by simp [hgr]⟩))
  exact conclude (reach_full hB hF) rfl rfl

/-- misplaced top-level tag: a tag whose base entry has `topLevelTagGroup` is not in a top-level group -/
theorem injected_misplaced_top_level (env : Env) (ph : Bool) (text : Str) (g : GV) (t : RTag)
    (hB : hasError (basic env ph text) = false)
    (hg : g ∈ allGroups text.length ((parse env text).final env)) (ht : t ∈ directTags g.kids)
    (ha : (baseAttr env t).topLevelTagGroup = true) (htop : g.isTop = false) :
    Spec.codeOf .misplacedTopLevel ∈ codes (errors (validate env ph text)) := by
  have hF : tagIssue .topLevelTag t ∈ F env text := by
    simp only [F, fullIssues, fullPhase, List.mem_append, List.mem_flatMap]
    refine Or.inl (Or.inl (Or.inl (Or.inr ⟨g, hg, ?_⟩)))
    simp only [groupIssues, levelIssues, List.mem_append, List.mem_flatMap, List.mem_filter]
    refine Or.inr (Or.inl (Or.inr ⟨t, ⟨ht, ha⟩, ?_⟩))
    simp [htop]
  exact conclude (reach_full hB hF) rfl rfl

/-- duplicated unique tag: two tags fall under the same `unique` entry -/
theorem injected_duplicated_unique (env : Env) (ph : Bool) (text : Str) (p : Str)
    (hB : hasError (basic env ph text) = false)
    (hp : p ∈ namesWith env (·.unique))
    (hc : countPrefix env (tagsList ((parse env text).final env)) p > 1) :
    Spec.codeOf .duplicatedUnique ∈ codes (errors (validate env ph text)) := by
  have hF : ({ Issue.plain .notUnique with txt := some p } : Issue) ∈ F env text := by
    simp only [F, fullIssues, fullPhase, List.mem_append]
    refine Or.inl (Or.inl (Or.inl (Or.inl (Or.inr ?_))))
    simp only [uniqueIssues, List.mem_flatMap]
    exact ⟨p, hp, by simp [hc]⟩
  exact conclude (reach_full hB hF) rfl rfl

/-! #### repeated tag or group -/

theorem dupList_adjacent (env : Env) (a b : RNode) (post : List RNode) (heq : nodeEq env b a = true) :
    ∀ (pre : List RNode) (prev : Option RNode), repeatIssue b ∈ dupList env prev (pre ++ a :: b :: post) := by
  intro pre
  induction pre with
  | nil =>
    intro prev
    simp only [List.nil_append, dupList, List.mem_append]
    exact Or.inr (Or.inl (Or.inl (by simp [eqPrev, heq])))
  | cons x xs ih =>
    intro prev
    simp only [List.cons_append, dupList, List.mem_append]
    exact Or.inr (ih (some x))

theorem dupList_sub (env : Env) (s : Nat × Nat) (ks : List RNode) (i : Issue) (hi : i ∈ dupList env none ks) :
    ∀ (w : List RNode) (prev : Option RNode), RNode.group s ks ∈ w → i ∈ dupList env prev w := by
  intro w
  induction w with
  | nil => intro _ h; simp at h
  | cons x xs ih =>
    intro prev h
    simp only [List.mem_cons] at h
    simp only [dupList, List.mem_append]
    cases h with
    | inl e => subst e; exact Or.inl (Or.inr (by simpa [dupNode] using hi))
    | inr e => exact Or.inr (ih (some x) e)

/-- the child lists visited by the recursive duplicate walk -/
inductive Reach (top : List RNode) : List RNode → Prop
  | root : Reach top top
  | sub {w : List RNode} {s : Nat × Nat} {ks : List RNode} : Reach top w → RNode.group s ks ∈ w → Reach top ks

theorem dupList_reach (env : Env) (top : List RNode) {w : List RNode} (h : Reach top w) :
    ∀ i, i ∈ dupList env none w → i ∈ dupList env none top := by
  induction h with
  | root => intro i hi; exact hi
  | sub _ hm ih => intro i hi; exact ih i (dupList_sub env _ _ i hi _ none hm)

theorem repeatIssue_code (b : RNode) :
    (repeatIssue b).code = Spec.codeOf .repeatedTag ∧ (repeatIssue b).sev = 1 := by
  cases b <;> exact ⟨rfl, rfl⟩

/-- repeated tag or group: at some level of the sorted view two neighbours are `==`; basic checks silent.
(When the real validator raises instead — `raises` — there is no issue list at all.) -/
theorem injected_repeated (env : Env) (ph : Bool) (text : Str) (w pre post : List RNode) (a b : RNode)
    (hB : hasError (basic env ph text) = false)
    (hR : Reach (sortedView env ((parse env text).final env)) w)
    (hw : w = pre ++ a :: b :: post) (heq : nodeEq env b a = true) :
    Spec.codeOf .repeatedTag ∈ codes (errors (validate env ph text)) ∧
    Spec.codeOf .repeatedGroup ∈ codes (errors (validate env ph text)) := by
  have h1 : repeatIssue b ∈ dupList env none w := by rw [hw]; exact dupList_adjacent env a b post heq pre none
  have hF : repeatIssue b ∈ F env text := by
    simp only [F, fullIssues, fullPhase, dupIssues, List.mem_append]
    exact Or.inl (Or.inl (Or.inr (dupList_reach env _ hR _ h1)))
  have := conclude (reach_full hB hF) (repeatIssue_code b).2 (repeatIssue_code b).1
  exact ⟨this, this⟩

/-! ### conforming annotations -/

/-- Every rule predicate is false of the text.  For the character, parenthesis and slash rules the predicate is
spelled out; for the others it is "the rule function reports no error on this tag / group / string".
EXCLUDED (not in the model): declared definitions (Def / Def-expand contents and values, Onset/Offset/Inset
with their Def), several schemas. -/
structure Clean (env : Env) (ph : Bool) (text : Str) : Prop where
  chars : ∀ c ∈ text, badChar env ph c = false
  parens : Paren.mismatch text = false
  delim : delimIssues env.cd text = []
  slashes : ∀ t ∈ tagsList (parse env text).root0, slashMatches 0 0 t.org = []
  tagChars : ∀ t ∈ tagsList (parse env text).root0, errors (tagCharIssues env ph t) = []
  lookup : errors (parse env text).lookup = []
  tags : ∀ g ∈ allGroups text.length (parse env text).root1, ∀ t ∈ directTags g.kids,
    errors (tagSemIssues env ph false t) = [] ∧ errors (tagSemIssues env ph true t) = []
  noDef : ∀ g ∈ allGroups text.length (parse env text).root1, errors (defIssuesOf env g.kids) = []
  required : errors (requiredIssues env (tagsList ((parse env text).final env))) = []
  unique : errors (uniqueIssues env (tagsList ((parse env text).final env))) = []
  groups : ∀ g ∈ allGroups text.length ((parse env text).final env), errors (groupIssues env g) = []
  noRepeat : errors (dupIssues env ((parse env text).final env)) = []
  duration : errors (durationIssues env ((parse env text).final env)) = []
  temporal : errors (onsetIssues env ((parse env text).final env)) = []

theorem clean_S {env : Env} {ph : Bool} {text : Str} (h : Clean env ph text) : errors (S env ph text) = [] := by
  simp only [S, stringIssues, stringPhase, errors_append, charIssues, parenIssues]
  rw [charIssuesFrom_nil env ph text 0 h.chars, h.parens, h.delim]
  rw [errors_flatMap_nil _ _ (fun t ht => by simp [slashIssues, h.slashes t ht, errors])]
  simp [errors]

theorem clean_T {env : Env} {ph : Bool} {text : Str} (h : Clean env ph text) : errors (T env ph text) = [] := by
  simp only [T, tagIssues, errors_append]
  rw [errors_flatMap_nil _ _ h.tagChars, h.lookup]
  rfl

theorem clean_M {env : Env} {ph : Bool} {text : Str} (h : Clean env ph text) : errors (M env ph text) = [] := by
  simp only [M, semIssues, errors_append, individualPhase, defPhase]
  rw [errors_flatMap_nil _ _ h.noDef]
  rw [errors_flatMap_nil _ _ (fun g hg => errors_flatMap_nil _ _ (fun t ht => by
    cases hb : (g.isGroup && (definitionGroups env (parse env text).root1).any fun d => listEq env g.kids d) with
    | false => exact (h.tags g hg t ht).1
    | true => exact (h.tags g hg t ht).2))]
  rfl

theorem clean_F {env : Env} {ph : Bool} {text : Str} (h : Clean env ph text) : errors (F env text) = [] := by
  simp only [F, fullIssues, fullPhase, errors_append]
  rw [h.required, h.unique, errors_flatMap_nil _ _ h.groups, h.noRepeat, h.duration, h.temporal]
  rfl

/-- Conforming annotation (every modelled rule predicate false) ⇒ no error-severity issue.
Partial: definition dictionaries are outside the model (see `Clean`). -/
theorem valid_no_error_partial (env : Env) (ph : Bool) (text : Str) (h : Clean env ph text) :
    errors (validate env ph text) = [] := by
  rw [phase_structure]
  have hS := clean_S h
  have hT := clean_T h
  have hM := clean_M h
  have hF := clean_F (ph := ph) h
  split
  · exact hS
  · split
    · simp [errors_append, hS, hF]
    · split
      · simp [errors_append, hS, hT]
      · split
        · simp [errors_append, hS, hT, hM]
        · simp [errors_append, hS, hT, hM, hF]

end HedVerif.C01

/-! ### non-vacuity: a small vocabulary -/
namespace HedVerif.C01.Tiny
open HedVerif HedVerif.Schema HedVerif.Validate HedVerif.C01

def names : List Str :=
  [['R','e','d'], ['I','t','e','m'], ['I','t','e','m','/','O','b','j','e','c','t'], ['L','a','b','e','l'],
   ['L','a','b','e','l','/','#'], ['E','v','e','n','t','-','c','o','n','t','e','x','t'], ['D','e','f'], ['D','e','f','/','#']]

/-- Red; Item (extension allowed) > Object; Label (requireChild) > # (takesValue, nameClass);
Event-context (topLevelTagGroup, unique); Def (requireChild) > # -/
def env : Env :=
  { vocab := Vocab.build fold (names.map splitSlash), ns := [],
    attrs := #[{}, { extensionAllowed := true }, { extensionAllowed := true, parent := some 1 }, { requireChild := true },
               { takesValue := true, valueClasses := [['n','a','m','e','C','l','a','s','s']], parent := some 3 },
               { topLevelTagGroup := true, unique := true }, { requireChild := true },
               { takesValue := true, parent := some 6 }],
    mods := [], unitClasses := #[], modern := true, cd := {} }

def red : Str := ['R','e','d']
def conf : Str := ['R','e','d',',',' ','(','I','t','e','m','/','X','y',',',' ','L','a','b','e','l','/','a','b',')']

/-- a conforming annotation exists: nested, with an extension and a value, and no error is reported -/
example : errors (validate env false conf) = [] := by decide +kernel
/-- … and it satisfies the spelled-out part of `Clean` -/
example : (∀ c ∈ conf, badChar env false c = false) ∧ Paren.mismatch conf = false ∧ delimIssues env.cd conf = [] := by
  decide +kernel
example : Clean env false red := by
  constructor <;> decide +kernel

/-- each injection kind fires on a concrete text (the hypotheses of the `injected_k` theorems are satisfiable) -/
example : Spec.codeOf .unknownTag ∈ codes (errors (validate env false ['R','e','d',',','Z','z'])) := by decide +kernel
example : Spec.codeOf .forbiddenExtension ∈ codes (errors (validate env false ['R','e','d','/','Z','z'])) := by decide +kernel
example : Spec.codeOf .forbiddenExtension ∈ codes (errors (validate env false ['I','t','e','m','/','Z','/','R','e','d'])) := by
  decide +kernel
example : Spec.codeOf .missingRequiredChild ∈ codes (errors (validate env false ['L','a','b','e','l'])) := by decide +kernel
example : Spec.codeOf .strayPlaceholder ∈ codes (errors (validate env false ['L','a','b','e','l','/','#'])) := by decide +kernel
example : errors (validate env true ['L','a','b','e','l','/','#']) = [] := by decide +kernel
example : Spec.codeOf .unbalanced ∈ codes (errors (validate env false ['(','R','e','d'])) := by decide +kernel
example : Spec.codeOf .emptyDelimiter ∈ codes (errors (validate env false ['R','e','d',',',','])) := by decide +kernel
example : Spec.codeOf .emptyGroup ∈ codes (errors (validate env false ['R','e','d',',','(',')'])) := by decide +kernel
example : Spec.codeOf .forbiddenCharacter ∈ codes (errors (validate env false ['R','e','d','['])) := by decide +kernel
example : Spec.codeOf .repeatedTag ∈ codes (errors (validate env false ['R','e','d',',','r','e','d'])) := by decide +kernel
example : Spec.codeOf .repeatedGroup ∈ codes (errors (validate env false ['(','R','e','d',')',',','(','R','e','d',')'])) := by
  decide +kernel
example : Spec.codeOf .misplacedTopLevel ∈ codes (errors (validate env false
    ['E','v','e','n','t','-','c','o','n','t','e','x','t'])) := by decide +kernel
example : Spec.codeOf .duplicatedUnique ∈ codes (errors (validate env false
    ['(','E','v','e','n','t','-','c','o','n','t','e','x','t',',','R','e','d',')',',',
     '(','E','v','e','n','t','-','c','o','n','t','e','x','t',',','I','t','e','m',')'])) := by decide +kernel
example : Spec.codeOf .undeclaredDef ∈ codes (errors (validate env false ['D','e','f','/','A'])) := by decide +kernel
example : (¬ Spec.codeOf .badValue ∈ codes (errors (validate env false ['L','a','b','e','l','/','a','$']))) ∧
    Spec.codeOf .forbiddenCharacter ∈ codes (errors (validate env false ['L','a','b','e','l','/','a','$'])) := by
  decide +kernel
/-- the empty-duplicate crash of the unchanged duplicate walk is part of the model -/
example : raises env false ['(',')',',','(',')'] = true := by decide +kernel

end HedVerif.C01.Tiny
