/-
C01 — String validation verdict agrees with the HED rules.

Theorems about `Validate.validate` (the composed pipeline with its three short-circuits), for ALL schemas
(vocabulary + attribute data), placeholder modes and texts:
  * the generated code map agrees with the specification's rule -> code table;
  * the short-circuit structure (`phase_structure`, `reported_iff_earlier_phases_silent`);
  * one `injected_k` per modelled violation kind: defect present (a predicate on the text / parsed tree) and
    every earlier phase silent  ==>  the specification's code of `k` is among the reported error codes;
  * `valid_no_error_partial`: every rule predicate false ==> no error.
Not covered here (implementation-side oracle only): definition dictionaries (declared Def / Def-expand
contents, wrongly valued Def, altered Def-expand), several schemas at once.
-/
import HedVerif.Model.Validate
import HedVerif.Props.C02

namespace HedVerif.C01
open HedVerif HedVerif.Schema HedVerif.Validate
open HedVerif.Generated.CodeMap

/-! ### the specification's table -/

/-- rule violations named by the property statement -/
inductive Rule where
  | unknownTag | forbiddenExtension | missingRequiredChild | badUnit | badValue | repeatedTag | repeatedGroup
  | misplacedTagGroup | misplacedTopLevel | unbalanced | emptyDelimiter | emptyGroup | forbiddenCharacter
  | strayPlaceholder | undeclaredDef | wrongDefValue | alteredDefExpand | duplicatedUnique
deriving DecidableEq, Repr

/-- HED-specification error code of each rule (hand-written from the property statement) -/
def Spec.codeOf : Rule → Str
  | .unknownTag => ['T','A','G','_','I','N','V','A','L','I','D']
  | .forbiddenExtension => ['T','A','G','_','E','X','T','E','N','S','I','O','N','_','I','N','V','A','L','I','D']
  | .missingRequiredChild => ['T','A','G','_','R','E','Q','U','I','R','E','S','_','C','H','I','L','D']
  | .badUnit => ['U','N','I','T','S','_','I','N','V','A','L','I','D']
  | .badValue => ['V','A','L','U','E','_','I','N','V','A','L','I','D']
  | .repeatedTag => ['T','A','G','_','E','X','P','R','E','S','S','I','O','N','_','R','E','P','E','A','T','E','D']
  | .repeatedGroup => ['T','A','G','_','E','X','P','R','E','S','S','I','O','N','_','R','E','P','E','A','T','E','D']
  | .misplacedTagGroup => ['T','A','G','_','G','R','O','U','P','_','E','R','R','O','R']
  | .misplacedTopLevel => ['T','A','G','_','G','R','O','U','P','_','E','R','R','O','R']
  | .unbalanced => ['P','A','R','E','N','T','H','E','S','E','S','_','M','I','S','M','A','T','C','H']
  | .emptyDelimiter => ['T','A','G','_','E','M','P','T','Y']
  | .emptyGroup => ['T','A','G','_','E','M','P','T','Y']
  | .forbiddenCharacter => ['C','H','A','R','A','C','T','E','R','_','I','N','V','A','L','I','D']
  | .strayPlaceholder => ['P','L','A','C','E','H','O','L','D','E','R','_','I','N','V','A','L','I','D']
  | .undeclaredDef => ['D','E','F','_','I','N','V','A','L','I','D']
  | .wrongDefValue => ['D','E','F','_','I','N','V','A','L','I','D']
  | .alteredDefExpand => ['D','E','F','_','E','X','P','A','N','D','_','I','N','V','A','L','I','D']
  | .duplicatedUnique => ['T','A','G','_','N','O','T','_','U','N','I','Q','U','E']

/-- what the source publishes for the internal kinds that implement each rule: (published code, severity) -/
def Rule.published : Rule → List (Str × Nat)
  | .unknownTag => [(code_NO_VALID_TAG_FOUND, sev_NO_VALID_TAG_FOUND)]
  | .forbiddenExtension => [(code_TAG_EXTENSION_INVALID, sev_TAG_EXTENSION_INVALID),
                            (code_INVALID_PARENT_NODE, sev_INVALID_PARENT_NODE)]
  | .missingRequiredChild => [(code_TAG_REQUIRES_CHILD, sev_TAG_REQUIRES_CHILD)]
  | .badUnit => [(code_UNITS_INVALID, sev_UNITS_INVALID)]
  | .badValue => [(code_INVALID_VALUE_CLASS_VALUE, sev_INVALID_VALUE_CLASS_VALUE), (code_VALUE_INVALID, sev_VALUE_INVALID)]
  | .repeatedTag => [(code_HED_TAG_REPEATED, sev_HED_TAG_REPEATED)]
  | .repeatedGroup => [(code_HED_TAG_REPEATED_GROUP, sev_HED_TAG_REPEATED_GROUP)]
  | .misplacedTagGroup => [(code_HED_TAG_GROUP_TAG, sev_HED_TAG_GROUP_TAG)]
  | .misplacedTopLevel => [(code_HED_TOP_LEVEL_TAG, sev_HED_TOP_LEVEL_TAG), (code_HED_MULTIPLE_TOP_TAGS, sev_HED_MULTIPLE_TOP_TAGS)]
  | .unbalanced => [(code_PARENTHESES_MISMATCH, sev_PARENTHESES_MISMATCH)]
  | .emptyDelimiter => [(code_TAG_EMPTY, sev_TAG_EMPTY)]
  | .emptyGroup => [(code_HED_GROUP_EMPTY, sev_HED_GROUP_EMPTY)]
  | .forbiddenCharacter => [(code_CHARACTER_INVALID, sev_CHARACTER_INVALID), (code_INVALID_TAG_CHARACTER, sev_INVALID_TAG_CHARACTER),
                            (code_INVALID_VALUE_CLASS_CHARACTER, sev_INVALID_VALUE_CLASS_CHARACTER)]
  | .strayPlaceholder => [(val_PLACEHOLDER_INVALID, sev_INVALID_TAG_CHARACTER), (val_PLACEHOLDER_INVALID, sev_TAG_EXTENSION_INVALID)]
  | .undeclaredDef => [(code_HED_DEF_UNMATCHED, sev_HED_DEF_UNMATCHED)]
  | .wrongDefValue => [(code_HED_DEF_VALUE_MISSING, sev_HED_DEF_VALUE_MISSING), (code_HED_DEF_VALUE_EXTRA, sev_HED_DEF_VALUE_EXTRA)]
  | .alteredDefExpand => [(code_HED_DEF_EXPAND_INVALID, sev_HED_DEF_EXPAND_INVALID),
                          (code_HED_DEF_EXPAND_UNMATCHED, sev_HED_DEF_EXPAND_UNMATCHED),
                          (code_HED_DEF_EXPAND_VALUE_MISSING, sev_HED_DEF_EXPAND_VALUE_MISSING),
                          (code_HED_DEF_EXPAND_VALUE_EXTRA, sev_HED_DEF_EXPAND_VALUE_EXTRA)]
  | .duplicatedUnique => [(code_TAG_NOT_UNIQUE, sev_TAG_NOT_UNIQUE)]

/-- The code map extracted from `error_messages.py` agrees with the specification's table: every internal kind
that implements a rule is published under the rule's code, with error severity. -/
theorem codeMap_agrees_with_spec (r : Rule) :
    (r.published.all fun e => e.1 == Spec.codeOf r && decide (e.2 < sevWarning)) = true := by
  cases r <;> decide

/-- the kinds for which the model fills `sub` (index_in_tag, index_in_tag_end) are exactly the `has_sub_tag` ones
(PARENTHESES_MISMATCH carries its two counts there) -/
def modelUsesSub : Kind → Bool
  | .nodeNameEmpty | .invalidTagCharacter | .noValidTag | .invalidParent | .tagExtended
  | .valueClassValue | .valueClassChar | .curlyBrace => true
  | _ => false

theorem sub_consistent (k : Kind) : k.hasSub = modelUsesSub k := by
  cases k <;> decide

/-! ### helpers -/

theorem hasError_append (a b : List Issue) : hasError (a ++ b) = (hasError a || hasError b) := by
  simp [hasError]

theorem errors_append (a b : List Issue) : errors (a ++ b) = errors a ++ errors b := by
  simp [errors]

theorem errors_nil_of_hasError_false {l : List Issue} (h : hasError l = false) : errors l = [] := by
  simp only [hasError, List.any_eq_false] at h
  simp only [errors, List.filter_eq_nil_iff]
  intro a ha
  exact h a ha

theorem hasError_false_of_errors_nil {l : List Issue} (h : errors l = []) : hasError l = false := by
  simp only [errors, List.filter_eq_nil_iff] at h
  simp only [hasError, List.any_eq_false]
  exact h

theorem errors_flatMap_nil {α} (l : List α) (f : α → List Issue) (h : ∀ x ∈ l, errors (f x) = []) :
    errors (l.flatMap f) = [] := by
  induction l with
  | nil => simp [errors]
  | cons x xs ih =>
    simp only [List.flatMap_cons, errors_append]
    rw [h x (by simp), ih (fun y hy => h y (by simp [hy]))]
    rfl

theorem code_mem {l : List Issue} {i : Issue} (hi : i ∈ l) (he : i.isError = true) :
    i.code ∈ codes (errors l) := by
  simp only [codes, errors, List.mem_map, List.mem_filter]
  exact ⟨i, ⟨hi, he⟩, rfl⟩

theorem conclude {l : List Issue} {i : Issue} {c : Str} (hi : i ∈ l) (hs : i.sev = 1) (hc : i.code = c) :
    c ∈ codes (errors l) := by
  subst hc
  exact code_mem hi (by simp [Issue.isError, hs]; decide)

/-- the four phases of `validate` on a text -/
abbrev S (env : Env) (ph : Bool) (text : Str) : List Issue := stringIssues env ph text (parse env text)
abbrev T (env : Env) (ph : Bool) (text : Str) : List Issue := tagIssues env ph (parse env text)
abbrev M (env : Env) (ph : Bool) (text : Str) : List Issue := semIssues env ph text.length (parse env text)
abbrev F (env : Env) (text : Str) : List Issue := fullIssues env text.length (parse env text)
abbrev NA (env : Env) (text : Str) : Bool := isNA env (parse env text).root0

/-! ### the short-circuit structure, once -/

/-- `validate` = string checks; stop on error; ("n/a": straight to the full checks); tag characters and lookup;
stop on error; individual tags and Def tags; stop on error; full-string checks. -/
theorem phase_structure (env : Env) (ph : Bool) (text : Str) :
    validate env ph text =
      if hasError (S env ph text) then S env ph text
      else if NA env text then S env ph text ++ F env text
      else if hasError (S env ph text ++ T env ph text) then S env ph text ++ T env ph text
      else if hasError (S env ph text ++ T env ph text ++ M env ph text) then
        S env ph text ++ T env ph text ++ M env ph text
      else S env ph text ++ T env ph text ++ M env ph text ++ F env text := by
  simp only [validate, validateP, basicP, S, T, M, F, NA]
  by_cases h1 : hasError (stringIssues env ph text (parse env text)) = true
  · simp [h1]
  · by_cases h2 : isNA env (parse env text).root0 = true
    · simp [h1, h2]
    · by_cases h3 : hasError (stringIssues env ph text (parse env text) ++ tagIssues env ph (parse env text)) = true
      · simp [h1, h2, h3]
      · simp [h1, h2, h3]

/-- An issue of a phase is reported iff every earlier phase produced no error (and, for the phases after the
string checks, the text is not "n/a"; "n/a" goes to the full checks directly). -/
theorem reported_iff_earlier_phases_silent (env : Env) (ph : Bool) (text : Str) (i : Issue) :
    i ∈ validate env ph text ↔
      i ∈ S env ph text
      ∨ (hasError (S env ph text) = false ∧ NA env text = false ∧ i ∈ T env ph text)
      ∨ (hasError (S env ph text) = false ∧ NA env text = false ∧
          hasError (S env ph text ++ T env ph text) = false ∧ i ∈ M env ph text)
      ∨ (hasError (S env ph text) = false ∧
          (NA env text = true ∨ (hasError (S env ph text ++ T env ph text) = false ∧
            hasError (S env ph text ++ T env ph text ++ M env ph text) = false)) ∧ i ∈ F env text) := by
  rw [phase_structure]
  by_cases h1 : hasError (S env ph text) = true
  · simp [h1]
  · by_cases h2 : NA env text = true
    · simp [h1, h2]
    · by_cases h3 : hasError (S env ph text ++ T env ph text) = true
      · simp [h1, h2, h3]
      · by_cases h4 : hasError (S env ph text ++ T env ph text ++ M env ph text) = true
        · simp only [Bool.not_eq_true] at h1 h2 h3
          have h4' := h4
          rw [List.append_assoc] at h4'
          simp [h1, h2, h3, h4, h4']
        · simp only [Bool.not_eq_true] at h1 h2 h3 h4
          have h4' := h4
          rw [List.append_assoc] at h4'
          simp [h1, h2, h3, h4, h4']

theorem reach_string {env : Env} {ph : Bool} {text : Str} {i : Issue} (h : i ∈ S env ph text) :
    i ∈ validate env ph text :=
  (reported_iff_earlier_phases_silent env ph text i).2 (Or.inl h)

theorem reach_tag {env : Env} {ph : Bool} {text : Str} {i : Issue} (hS : hasError (S env ph text) = false)
    (hNA : NA env text = false) (h : i ∈ T env ph text) : i ∈ validate env ph text :=
  (reported_iff_earlier_phases_silent env ph text i).2 (Or.inr (Or.inl ⟨hS, hNA, h⟩))

theorem reach_sem {env : Env} {ph : Bool} {text : Str} {i : Issue} (hS : hasError (S env ph text) = false)
    (hNA : NA env text = false) (hT : hasError (S env ph text ++ T env ph text) = false)
    (h : i ∈ M env ph text) : i ∈ validate env ph text :=
  (reported_iff_earlier_phases_silent env ph text i).2 (Or.inr (Or.inr (Or.inl ⟨hS, hNA, hT, h⟩)))

/-- the full checks run exactly when the basic checks reported no error -/
theorem reach_full {env : Env} {ph : Bool} {text : Str} {i : Issue} (hB : hasError (basic env ph text) = false)
    (h : i ∈ F env text) : i ∈ validate env ph text := by
  simp only [validate, validateP]
  simp only [basic] at hB
  simp [hB, h]

/-! ### membership lemmas of the single rules -/

theorem charIssuesFrom_mem (env : Env) (ph : Bool) (c : Char) :
    ∀ (s : Str) (n : Nat), c ∈ s → badChar env ph c = true → ∃ k, charIssue k c ∈ charIssuesFrom env ph n s := by
  intro s
  induction s with
  | nil => intro n h; simp at h
  | cons d ds ih =>
    intro n h hb
    simp only [List.mem_cons] at h
    cases h with
    | inl h => subst h; exact ⟨n, by simp [charIssuesFrom, hb]⟩
    | inr h =>
      obtain ⟨k, hk⟩ := ih (n + 1) h hb
      exact ⟨k, by simp only [charIssuesFrom, List.mem_append]; exact Or.inr hk⟩

theorem charIssuesFrom_nil (env : Env) (ph : Bool) :
    ∀ (s : Str) (n : Nat), (∀ c ∈ s, badChar env ph c = false) → charIssuesFrom env ph n s = [] := by
  intro s
  induction s with
  | nil => intro n _; rfl
  | cons d ds ih =>
    intro n h
    simp only [charIssuesFrom, h d (by simp), ih (n + 1) (fun c hc => h c (by simp [hc]))]
    rfl

theorem placeholderFrom_mem (t : RTag) (start : Nat) :
    ∀ (s : Str) (n : Nat), '#' ∈ s → ∃ k, ({ subIssue .invalidTagCharacter t (start + k) (start + k + 1) with
        code := val_PLACEHOLDER_INVALID } : Issue) ∈ placeholderFrom t start n s := by
  intro s
  induction s with
  | nil => intro n h; simp at h
  | cons d ds ih =>
    intro n h
    simp only [List.mem_cons] at h
    cases h with
    | inl h => subst h; exact ⟨n, by simp [placeholderFrom]⟩
    | inr h =>
      obtain ⟨k, hk⟩ := ih (n + 1) h
      exact ⟨k, by simp only [placeholderFrom, List.mem_append]; exact Or.inr hk⟩

mutual
theorem recanonNode_mem (env : Env) :
    ∀ (n : RNode) (t : RTag) (i : Issue), t ∈ tagsNode n → i ∈ (canon env t).2 → i ∈ (recanonNode env n).2
  | .tag t0, t, i, ht, hi => by
    simp only [tagsNode, List.mem_singleton] at ht
    subst ht
    simpa [recanonNode] using hi
  | .group s kids, t, i, ht, hi => by
    simp only [tagsNode] at ht
    simp only [recanonNode]
    exact recanonList_mem env kids t i ht hi
theorem recanonList_mem (env : Env) :
    ∀ (l : List RNode) (t : RTag) (i : Issue), t ∈ tagsList l → i ∈ (canon env t).2 → i ∈ (recanonList env l).2
  | [], t, i, ht, _ => by simp [tagsList] at ht
  | n :: ns, t, i, ht, hi => by
    simp only [tagsList, List.mem_append] at ht
    simp only [recanonList, List.mem_append]
    cases ht with
    | inl h => exact Or.inl (recanonNode_mem env n t i h hi)
    | inr h => exact Or.inr (recanonList_mem env ns t i h hi)
end

theorem defIssuesOf_mem (env : Env) (t : RTag) (h : shortBase env t = defKey) (i : Issue)
    (hi : i ∈ defContentIssues env t none) :
    ∀ (l : List RNode), RNode.tag t ∈ l → i ∈ defIssuesOf env l := by
  intro l
  induction l with
  | nil => intro hm; simp at hm
  | cons n ns ih =>
    intro hm
    simp only [List.mem_cons] at hm
    cases n with
    | tag t0 =>
      simp only [defIssuesOf, List.mem_append]
      cases hm with
      | inl e => cases e; exact Or.inl (by simpa [h] using hi)
      | inr e => exact Or.inr (ih e)
    | group s ks =>
      simp only [defIssuesOf, List.mem_append]
      cases hm with
      | inl e => cases e
      | inr e => exact Or.inr (ih e)

theorem defIssuesOf_mem_expand (env : Env) (t : RTag) (s : Nat × Nat) (kids : List RNode)
    (ht : t ∈ directTags kids) (h : shortBase env t = defExpandKey) (i : Issue)
    (hi : i ∈ defContentIssues env t (some kids)) :
    ∀ (l : List RNode), RNode.group s kids ∈ l → i ∈ defIssuesOf env l := by
  intro l
  induction l with
  | nil => intro hm; simp at hm
  | cons n ns ih =>
    intro hm
    simp only [List.mem_cons] at hm
    cases n with
    | tag t0 =>
      simp only [defIssuesOf, List.mem_append]
      cases hm with
      | inl e => cases e
      | inr e => exact Or.inr (ih e)
    | group s' ks =>
      simp only [defIssuesOf, List.mem_append, List.mem_flatMap, List.mem_filter]
      cases hm with
      | inl e => cases e; exact Or.inl ⟨t, ⟨ht, by simp [h]⟩, hi⟩
      | inr e => exact Or.inr (ih e)

theorem mem_individualPhase {env : Env} {ph : Bool} {len : Nat} {root : List RNode} {g : GV} {t : RTag} {i : Issue}
    (hg : g ∈ allGroups len root) (ht : t ∈ directTags g.kids)
    (hi : ∀ isDef, i ∈ tagSemIssues env ph isDef t) : i ∈ individualPhase env ph len root := by
  simp only [individualPhase, List.mem_flatMap]
  exact ⟨g, hg, t, ht, hi _⟩

/-- the same with the definition status of the group spelled out -/
theorem mem_individualPhase' {env : Env} {ph : Bool} {len : Nat} {root : List RNode} {g : GV} {t : RTag} {i : Issue}
    (hg : g ∈ allGroups len root) (ht : t ∈ directTags g.kids)
    (hi : i ∈ tagSemIssues env ph (isDefGroup env root g) t) : i ∈ individualPhase env ph len root := by
  simp only [individualPhase, List.mem_flatMap]
  exact ⟨g, hg, t, ht, hi⟩

theorem mem_sem_of_individual {env : Env} {ph isDef : Bool} {t : RTag} {i : Issue}
    (h : i ∈ individualIssues env ph isDef t) : i ∈ tagSemIssues env ph isDef t := by
  simp only [tagSemIssues, List.mem_append]
  exact Or.inl (Or.inr h)

/-- a tag that is not Def / Def-expand / Definition and (with placeholders allowed) has no `#` has its value
checked by `validate_units` -/
theorem mem_sem_of_units {env : Env} {ph isDef : Bool} {t : RTag} {i : Issue}
    (h1 : (shortBase env t == defKey) = false) (h2 : (shortBase env t == defExpandKey) = false)
    (h3 : (shortBase env t == definitionKey) = false) (h4 : (ph && (extension t).contains '#') = false)
    (h : i ∈ validateUnits env t (extension t)) : i ∈ tagSemIssues env ph isDef t := by
  simp only [tagSemIssues, List.mem_append]
  refine Or.inr ?_
  simp [h1, h2, h3, h]
  cases ph <;> simp_all

/-! ### one theorem per injected violation kind -/

/-- forbidden character: some character of the text is `[]{}~`-forbidden (`[]~` with placeholders) or fails the
schema generation's character test; reported whatever else is wrong. -/
theorem injected_forbidden_character (env : Env) (ph : Bool) (text : Str) (c : Char)
    (hc : c ∈ text) (hbad : badChar env ph c = true) (hne : (c == '~') = false) :
    Spec.codeOf .forbiddenCharacter ∈ codes (errors (validate env ph text)) := by
  obtain ⟨k, hk⟩ := charIssuesFrom_mem env ph c text 0 hc hbad
  have hS : charIssue k c ∈ S env ph text := by
    simp only [S, stringIssues, stringPhase, charIssues, List.mem_append]
    exact Or.inl (Or.inl (Or.inl hk))
  have he : charIssue k c = { Issue.plain .characterInvalid with chr := some k } := by simp [charIssue, hne]
  rw [he] at hS
  exact conclude (reach_string hS) rfl rfl

/-- unbalanced parentheses: the counts differ or a closing one comes first -/
theorem injected_unbalanced (env : Env) (ph : Bool) (text : Str) (h : Paren.mismatch text = true) :
    Spec.codeOf .unbalanced ∈ codes (errors (validate env ph text)) := by
  have hS : ({ Issue.plain .parentheses with sub := some (text.count '(', text.count ')') } : Issue) ∈ S env ph text := by
    simp only [S, stringIssues, stringPhase, parenIssues, h, List.mem_append]
    exact Or.inl (Or.inl (Or.inr (by simp)))
  exact conclude (reach_string hS) rfl rfl

/-- empty tag between delimiters: the delimiter scan meets an empty tag at position `n` -/
theorem injected_empty_delimiter (env : Env) (ph : Bool) (text : Str) (n : Nat)
    (h : emptyAt n ∈ delimIssues env.cd text) :
    Spec.codeOf .emptyDelimiter ∈ codes (errors (validate env ph text)) := by
  have hS : emptyAt n ∈ S env ph text := by
    simp only [S, stringIssues, stringPhase, List.mem_append]
    exact Or.inl (Or.inr h)
  exact conclude (reach_string hS) rfl rfl

/-- empty group: some group of the parsed tree has no children; basic checks silent -/
theorem injected_empty_group (env : Env) (ph : Bool) (text : Str) (g : GV)
    (hB : hasError (basic env ph text) = false)
    (hg : g ∈ allGroups text.length ((parse env text).final env)) (hk : g.kids = []) (hgr : g.isGroup = true) :
    Spec.codeOf .emptyGroup ∈ codes (errors (validate env ph text)) := by
  have hF : ({ Issue.plain .groupEmpty with span := some g.span } : Issue) ∈ F env text := by
    simp only [F, fullIssues, fullPhase, List.mem_append, List.mem_flatMap]
    refine Or.inl (Or.inl (Or.inl (Or.inr ⟨g, hg, ?_⟩)))
    simp [groupIssues, hk, hgr]
  exact conclude (reach_full hB hF) rfl rfl

/-- unknown tag: some tag resolves to "no valid tag"; string checks silent, not "n/a" -/
theorem injected_unknown_tag (env : Env) (ph : Bool) (text : Str) (t : RTag) (stop : Nat)
    (hS : hasError (S env ph text) = false) (hNA : NA env text = false)
    (ht : t ∈ tagsList (parse env text).root0) (hns : (t.ns != env.ns) = false)
    (hf : find env.vocab fold ((strOf env t).drop t.ns.length) = .noValidTag stop) :
    Spec.codeOf .unknownTag ∈ codes (errors (validate env ph text)) := by
  have hc : subIssue .noValidTag t t.ns.length (t.ns.length + stop) ∈ (canon env t).2 := by
    simp [canon, hns, hf]
  have hT : subIssue .noValidTag t t.ns.length (t.ns.length + stop) ∈ T env ph text := by
    simp only [T, tagIssues, parse, List.mem_append]
    exact Or.inr (recanonList_mem env _ t _ ht hc)
  exact conclude (reach_tag hS hNA hT) rfl rfl

/-- forbidden extension (a term of the extension is itself a schema tag) -/
theorem injected_forbidden_extension_term (env : Env) (ph : Bool) (text : Str) (t : RTag) (a b x : Nat)
    (hS : hasError (S env ph text) = false) (hNA : NA env text = false)
    (ht : t ∈ tagsList (parse env text).root0) (hns : (t.ns != env.ns) = false)
    (hf : find env.vocab fold ((strOf env t).drop t.ns.length) = .invalidParent a b x) :
    Spec.codeOf .forbiddenExtension ∈ codes (errors (validate env ph text)) := by
  have hc : subIssue .invalidParent t (t.ns.length + a) (t.ns.length + b) ∈ (canon env t).2 := by
    simp [canon, hns, hf]
  have hT : subIssue .invalidParent t (t.ns.length + a) (t.ns.length + b) ∈ T env ph text := by
    simp only [T, tagIssues, parse, List.mem_append]
    exact Or.inr (recanonList_mem env _ t _ ht hc)
  exact conclude (reach_tag hS hNA hT) rfl rfl

/-- forbidden extension: a resolved tag carries an extension, does not take a value and does not allow extension -/
theorem injected_forbidden_extension (env : Env) (ph : Bool) (text : Str) (g : GV) (t : RTag) (e : Nat)
    (hS : hasError (S env ph text) = false) (hNA : NA env text = false)
    (hT : hasError (S env ph text ++ T env ph text) = false)
    (hg : g ∈ allGroups text.length (parse env text).root1) (ht : t ∈ directTags g.kids)
    (he : t.entry = some e) (hx : (extension t).isEmpty = false) (hph : (extension t).contains '#' = false)
    (htv : (env.attr e).takesValue = false) (hea : (env.attr e).extensionAllowed = false) :
    Spec.codeOf .forbiddenExtension ∈ codes (errors (validate env ph text)) := by
  have hi : ∀ isDef, tagIssue .extensionInvalid t ∈ tagSemIssues env ph isDef t := by
    intro isDef
    apply mem_sem_of_individual
    simp only [individualIssues, List.mem_append]
    refine Or.inl (Or.inl (Or.inl (Or.inl ?_)))
    have hph' : ¬ '#' ∈ extension t := by simpa using hph
    simp [existsIssues, entryAttr, he, hx, htv, hea, tagIssue, Issue.plain]
    intro h
    exact absurd h hph'
  have hM : tagIssue .extensionInvalid t ∈ M env ph text := by
    simp only [M, semIssues, List.mem_append]
    exact Or.inl (mem_individualPhase hg ht hi)
  exact conclude (reach_sem hS hNA hT hM) rfl rfl

/-- missing required child: a tag resolves to an entry with `requireChild` -/
theorem injected_missing_required_child (env : Env) (ph : Bool) (text : Str) (g : GV) (t : RTag) (e : Nat)
    (hS : hasError (S env ph text) = false) (hNA : NA env text = false)
    (hT : hasError (S env ph text ++ T env ph text) = false)
    (hg : g ∈ allGroups text.length (parse env text).root1) (ht : t ∈ directTags g.kids)
    (he : t.entry = some e) (hrc : (env.attr e).requireChild = true) :
    Spec.codeOf .missingRequiredChild ∈ codes (errors (validate env ph text)) := by
  have hi : ∀ isDef, tagIssue .requiresChild t ∈ tagSemIssues env ph isDef t := by
    intro isDef
    apply mem_sem_of_individual
    simp only [individualIssues, List.mem_append]
    refine Or.inl (Or.inl (Or.inr ?_))
    simp [entryAttr, he, hrc]
  have hM : tagIssue .requiresChild t ∈ M env ph text := by
    simp only [M, semIssues, List.mem_append]
    exact Or.inl (mem_individualPhase hg ht hi)
  exact conclude (reach_sem hS hNA hT hM) rfl rfl

/-- stray placeholder: placeholders not allowed, a tag whose group is not (inside) a top-level Definition group
has `#` in its extension -/
theorem injected_stray_placeholder (env : Env) (text : Str) (g : GV) (t : RTag)
    (hS : hasError (S env false text) = false) (hNA : NA env text = false)
    (hT : hasError (S env false text ++ T env false text) = false)
    (hg : g ∈ allGroups text.length (parse env text).root1) (ht : t ∈ directTags g.kids)
    (hdef : isDefGroup env (parse env text).root1 g = false)
    (hp : '#' ∈ extension t) :
    Spec.codeOf .strayPlaceholder ∈ codes (errors (validate env false text)) := by
  obtain ⟨k, hk⟩ := placeholderFrom_mem t ((orgBase t).length + 1) (extension t) 0 hp
  have hM : ({ subIssue .invalidTagCharacter t ((orgBase t).length + 1 + k) ((orgBase t).length + 1 + k + 1) with
      code := val_PLACEHOLDER_INVALID } : Issue) ∈ M env false text := by
    simp only [M, semIssues, List.mem_append]
    refine Or.inl (mem_individualPhase' hg ht ?_)
    rw [hdef]
    apply mem_sem_of_individual
    simp only [individualIssues, List.mem_append]
    refine Or.inl (Or.inl (Or.inl (Or.inr ?_)))
    simpa [placeholderIssues] using hk
  exact conclude (reach_sem hS hNA hT hM) rfl rfl

/-- bad unit: a unit-class tag whose extension keeps a blank and ends in no unit of its classes -/
theorem injected_bad_unit (env : Env) (ph : Bool) (text : Str) (g : GV) (t : RTag)
    (hS : hasError (S env ph text) = false) (hNA : NA env text = false)
    (hT : hasError (S env ph text ++ T env ph text) = false)
    (hg : g ∈ allGroups text.length (parse env text).root1) (ht : t ∈ directTags g.kids)
    (h1 : (shortBase env t == defKey) = false) (h2 : (shortBase env t == defExpandKey) = false)
    (h3 : (shortBase env t == definitionKey) = false) (h4 : (ph && (extension t).contains '#') = false)
    (h5 : (extension t == ['#']) = false) (hu : (tagUnitClasses env t).isEmpty = false)
    (hnf : unitFound env t (extension t) = false) (hbl : (strippedText env t (extension t)).contains ' ' = true) :
    Spec.codeOf .badUnit ∈ codes (errors (validate env ph text)) := by
  have hi : ∀ isDef, tagIssue .unitsInvalid t ∈ tagSemIssues env ph isDef t := by
    intro isDef
    apply mem_sem_of_units h1 h2 h3 h4
    have hbl' : ' ' ∈ strippedText env t (extension t) := by simpa using hbl
    simp [validateUnits, h5, hu, unitIssues, hnf]
    exact Or.inr (by simp [hbl'])
  have hM : tagIssue .unitsInvalid t ∈ M env ph text := by
    simp only [M, semIssues, List.mem_append]
    exact Or.inl (mem_individualPhase hg ht hi)
  exact conclude (reach_sem hS hNA hT hM) rfl rfl

/-- bad value: a unit-class tag whose value text matches the word pattern of none of its value classes
(and no class accepts it) -/
theorem injected_bad_value (env : Env) (ph : Bool) (text : Str) (g : GV) (t : RTag) (c : Str)
    (hS : hasError (S env ph text) = false) (hNA : NA env text = false)
    (hT : hasError (S env ph text ++ T env ph text) = false)
    (hg : g ∈ allGroups text.length (parse env text).root1) (ht : t ∈ directTags g.kids)
    (h1 : (shortBase env t == defKey) = false) (h2 : (shortBase env t == defExpandKey) = false)
    (h3 : (shortBase env t == definitionKey) = false) (h4 : (ph && (extension t).contains '#') = false)
    (h5 : (extension t == ['#']) = false) (hu : (tagUnitClasses env t).isEmpty = false)
    (htv : (entryAttr env t).takesValue = true) (hc : c ∈ (entryAttr env t).valueClasses)
    (hw : wordValid c (valueText env t (extension t)) = false)
    (hnone : ((entryAttr env t).valueClasses.any fun c =>
      wordValid c (valueText env t (extension t)) && (problemChars c (valueText env t (extension t))).isEmpty) = false) :
    Spec.codeOf .badValue ∈ codes (errors (validate env ph text)) := by
  have hne : (entryAttr env t).valueClasses.isEmpty = false := by
    cases hv : (entryAttr env t).valueClasses with
    | nil => rw [hv] at hc; simp at hc
    | cons _ _ => rfl
  have hi : ∀ isDef, ({ subIssue .valueClassValue t 0 t.org.length with txt := some c } : Issue)
      ∈ tagSemIssues env ph isDef t := by
    intro isDef
    apply mem_sem_of_units h1 h2 h3 h4
    have hv : ({ subIssue .valueClassValue t 0 t.org.length with txt := some c } : Issue)
        ∈ valueClassIssues env t (valueText env t (extension t)) := by
      rw [valueClassIssues]
      simp only [htv, hne, hnone, Bool.not_true, Bool.false_eq_true, ↓reduceIte, List.mem_flatMap]
      exact ⟨c, hc, by simp [hw]⟩
    simp [validateUnits, h5, hu, unitIssues, hv]
  have hM : ({ subIssue .valueClassValue t 0 t.org.length with txt := some c } : Issue) ∈ M env ph text := by
    simp only [M, semIssues, List.mem_append]
    exact Or.inl (mem_individualPhase hg ht hi)
  exact conclude (reach_sem hS hNA hT hM) rfl rfl

/-- undeclared Def: a `Def` tag anywhere whose label is not in the definition dictionary -/
theorem injected_undeclared_def (env : Env) (ph : Bool) (text : Str) (g : GV) (t : RTag)
    (hS : hasError (S env ph text) = false) (hNA : NA env text = false)
    (hT : hasError (S env ph text ++ T env ph text) = false)
    (hg : g ∈ allGroups text.length (parse env text).root1) (ht : RNode.tag t ∈ g.kids)
    (hd : shortBase env t = defKey) (hno : defLookup env (defLabel t) = none) :
    Spec.codeOf .undeclaredDef ∈ codes (errors (validate env ph text)) := by
  have hM : tagIssue .defUnmatched t ∈ M env ph text := by
    simp only [M, semIssues, defPhase, List.mem_append, List.mem_flatMap]
    exact Or.inr ⟨g, hg, defIssuesOf_mem env t hd _ (by simp [defContentIssues, defExpansion, hno]) g.kids ht⟩
  exact conclude (reach_sem hS hNA hT hM) rfl rfl

/-- wrongly valued Def: the definition takes a value and none is given, or takes none and one is given -/
theorem injected_wrong_valued_def (env : Env) (ph : Bool) (text : Str) (g : GV) (t : RTag) (e : DefEntry)
    (hS : hasError (S env ph text) = false) (hNA : NA env text = false)
    (hT : hasError (S env ph text ++ T env ph text) = false)
    (hg : g ∈ allGroups text.length (parse env text).root1) (ht : RNode.tag t ∈ g.kids)
    (hd : shortBase env t = defKey) (hl : defLookup env (defLabel t) = some e)
    (hv : (e.takes == (defValue t).isEmpty) = true) :
    Spec.codeOf .wrongDefValue ∈ codes (errors (validate env ph text)) := by
  have hM : tagIssue (if e.takes then .defValueMissing else .defValueExtra) t ∈ M env ph text := by
    simp only [M, semIssues, defPhase, List.mem_append, List.mem_flatMap]
    exact Or.inr ⟨g, hg, defIssuesOf_mem env t hd _ (by simp [defContentIssues, defExpansion, hl, hv]) g.kids ht⟩
  cases hk : e.takes with
  | true => rw [hk] at hM; exact conclude (reach_sem hS hNA hT hM) rfl rfl
  | false => rw [hk] at hM; exact conclude (reach_sem hS hNA hT hM) rfl rfl

/-- altered Def-expand: the group of a `Def-expand` tag differs (sorted compare) from the tag followed by the
definition's content with the value substituted -/
theorem injected_altered_def_expand (env : Env) (ph : Bool) (text : Str) (g : GV) (s : Nat × Nat)
    (kids rest : List RNode) (t : RTag)
    (hS : hasError (S env ph text) = false) (hNA : NA env text = false)
    (hT : hasError (S env ph text ++ T env ph text) = false)
    (hg : g ∈ allGroups text.length (parse env text).root1) (hk : RNode.group s kids ∈ g.kids)
    (ht : t ∈ directTags kids) (hd : shortBase env t = defExpandKey)
    (hx : defExpansion env t = .ok rest)
    (hne : listEq env (sortedView env kids) (sortedView env (.tag t :: rest)) = false) :
    Spec.codeOf .alteredDefExpand ∈ codes (errors (validate env ph text)) := by
  have hM : tagIssue .defExpandInvalid t ∈ M env ph text := by
    simp only [M, semIssues, defPhase, List.mem_append, List.mem_flatMap]
    exact Or.inr ⟨g, hg, defIssuesOf_mem_expand env t s kids ht hd _
      (by simp [defContentIssues, hx, hne]) g.kids hk⟩
  exact conclude (reach_sem hS hNA hT hM) rfl rfl

/-- misplaced tag-group tag: a tag whose base entry has `tagGroup` sits directly in the string (no parentheses) -/
theorem injected_misplaced_tag_group (env : Env) (ph : Bool) (text : Str) (g : GV) (t : RTag)
    (hB : hasError (basic env ph text) = false)
    (hg : g ∈ allGroups text.length ((parse env text).final env)) (ht : t ∈ directTags g.kids)
    (ha : (baseAttr env t).tagGroup = true) (hgr : g.isGroup = false) :
    Spec.codeOf .misplacedTagGroup ∈ codes (errors (validate env ph text)) := by
  have hF : tagIssue .tagGroupTag t ∈ F env text := by
    simp only [F, fullIssues, fullPhase, List.mem_append, List.mem_flatMap]
    refine Or.inl (Or.inl (Or.inl (Or.inr ⟨g, hg, ?_⟩)))
    simp only [groupIssues, levelIssues, List.mem_append, List.mem_flatMap, List.mem_filter]
    exact Or.inr (Or.inl (Or.inl ⟨t, ⟨ht, ha⟩, by simp [hgr]⟩))
  exact conclude (reach_full hB hF) rfl rfl

/-- misplaced top-level tag: a tag whose base entry has `topLevelTagGroup` is not in a top-level group -/
theorem injected_misplaced_top_level (env : Env) (ph : Bool) (text : Str) (g : GV) (t : RTag)
    (hB : hasError (basic env ph text) = false)
    (hg : g ∈ allGroups text.length ((parse env text).final env)) (ht : t ∈ directTags g.kids)
    (ha : (baseAttr env t).topLevelTagGroup = true) (htop : g.isTop = false) :
    Spec.codeOf .misplacedTopLevel ∈ codes (errors (validate env ph text)) := by
  have hF : tagIssue .topLevelTag t ∈ F env text := by
    simp only [F, fullIssues, fullPhase, List.mem_append, List.mem_flatMap]
    refine Or.inl (Or.inl (Or.inl (Or.inr ⟨g, hg, ?_⟩)))
    simp only [groupIssues, levelIssues, List.mem_append, List.mem_flatMap, List.mem_filter]
    refine Or.inr (Or.inl (Or.inr ⟨t, ⟨ht, ha⟩, ?_⟩))
    simp [htop]
  exact conclude (reach_full hB hF) rfl rfl

/-- duplicated unique tag: two tags fall under the same `unique` entry -/
theorem injected_duplicated_unique (env : Env) (ph : Bool) (text : Str) (p : Str)
    (hB : hasError (basic env ph text) = false)
    (hp : p ∈ namesWith env (·.unique))
    (hc : countPrefix env (tagsList ((parse env text).final env)) p > 1) :
    Spec.codeOf .duplicatedUnique ∈ codes (errors (validate env ph text)) := by
  have hF : ({ Issue.plain .notUnique with txt := some p } : Issue) ∈ F env text := by
    simp only [F, fullIssues, fullPhase, List.mem_append]
    refine Or.inl (Or.inl (Or.inl (Or.inl (Or.inr ?_))))
    simp only [uniqueIssues, List.mem_flatMap]
    exact ⟨p, hp, by simp [hc]⟩
  exact conclude (reach_full hB hF) rfl rfl

/-! #### repeated tag or group -/

theorem dupList_adjacent (env : Env) (a b : RNode) (post : List RNode) (heq : nodeEq env b a = true) :
    ∀ (pre : List RNode) (prev : Option RNode), repeatIssue b ∈ dupList env prev (pre ++ a :: b :: post) := by
  intro pre
  induction pre with
  | nil =>
    intro prev
    simp only [List.nil_append, dupList, List.mem_append]
    exact Or.inr (Or.inl (Or.inl (by simp [eqPrev, heq])))
  | cons x xs ih =>
    intro prev
    simp only [List.cons_append, dupList, List.mem_append]
    exact Or.inr (ih (some x))

theorem dupList_sub (env : Env) (s : Nat × Nat) (ks : List RNode) (i : Issue) (hi : i ∈ dupList env none ks) :
    ∀ (w : List RNode) (prev : Option RNode), RNode.group s ks ∈ w → i ∈ dupList env prev w := by
  intro w
  induction w with
  | nil => intro _ h; simp at h
  | cons x xs ih =>
    intro prev h
    simp only [List.mem_cons] at h
    simp only [dupList, List.mem_append]
    cases h with
    | inl e => subst e; exact Or.inl (Or.inr (by simpa [dupNode] using hi))
    | inr e => exact Or.inr (ih (some x) e)

/-- the child lists visited by the recursive duplicate walk -/
inductive Reach (top : List RNode) : List RNode → Prop
  | root : Reach top top
  | sub {w : List RNode} {s : Nat × Nat} {ks : List RNode} : Reach top w → RNode.group s ks ∈ w → Reach top ks

theorem dupList_reach (env : Env) (top : List RNode) {w : List RNode} (h : Reach top w) :
    ∀ i, i ∈ dupList env none w → i ∈ dupList env none top := by
  induction h with
  | root => intro i hi; exact hi
  | sub _ hm ih => intro i hi; exact ih i (dupList_sub env _ _ i hi _ none hm)

theorem repeatIssue_code (b : RNode) :
    (repeatIssue b).code = Spec.codeOf .repeatedTag ∧ (repeatIssue b).sev = 1 := by
  cases b <;> exact ⟨rfl, rfl⟩

/-- repeated tag or group: at some level of the sorted view two neighbours are `==`; basic checks silent.
(When the real validator raises instead — `raises` — there is no issue list at all.) -/
theorem injected_repeated (env : Env) (ph : Bool) (text : Str) (w pre post : List RNode) (a b : RNode)
    (hB : hasError (basic env ph text) = false)
    (hR : Reach (sortedView env ((parse env text).final env)) w)
    (hw : w = pre ++ a :: b :: post) (heq : nodeEq env b a = true) :
    Spec.codeOf .repeatedTag ∈ codes (errors (validate env ph text)) ∧
    Spec.codeOf .repeatedGroup ∈ codes (errors (validate env ph text)) := by
  have h1 : repeatIssue b ∈ dupList env none w := by rw [hw]; exact dupList_adjacent env a b post heq pre none
  have hF : repeatIssue b ∈ F env text := by
    simp only [F, fullIssues, fullPhase, dupIssues, List.mem_append]
    exact Or.inl (Or.inl (Or.inr (dupList_reach env _ hR _ h1)))
  have := conclude (reach_full hB hF) (repeatIssue_code b).2 (repeatIssue_code b).1
  exact ⟨this, this⟩

/-! ### lengths of slash-joined names, bounds of `find` -/

theorem go_ne_nil (cur s : Str) : splitSlash.go cur s ≠ [] := by
  induction s generalizing cur with
  | nil => simp [splitSlash.go]
  | cons c cs ih =>
    simp only [splitSlash.go]
    split
    · simp
    · exact ih _

theorem joinLen_cons (a : Str) (l : Name) (h : l ≠ []) : joinLen (a :: l) = a.length + 1 + joinLen l := by
  cases l with
  | nil => exact absurd rfl h
  | cons b bs => simp [joinLen]

theorem go_joinLen (cur s : Str) : joinLen (splitSlash.go cur s) = cur.length + s.length := by
  induction s generalizing cur with
  | nil => simp [splitSlash.go, joinLen]
  | cons c cs ih =>
    simp only [splitSlash.go]
    split
    · rw [joinLen_cons _ _ (go_ne_nil _ _), ih]; simp; omega
    · rw [ih]; simp; omega

theorem splitSlash_joinLen (s : Str) : joinLen (splitSlash s) = s.length := by
  simpa [splitSlash] using go_joinLen [] s

theorem splitSlash_ne_nil (s : Str) : splitSlash s ≠ [] := go_ne_nil [] s

theorem joinSlash_length (n : Name) : (joinSlash n).length = joinLen n := by
  induction n with
  | nil => rfl
  | cons a l ih =>
    cases l with
    | nil => simp [joinSlash, joinLen]
    | cons b bs => simp only [joinSlash, joinLen, List.length_append, List.length_cons] at ih ⊢; omega

theorem fold_length (s : Str) : (fold s).length = s.length := by simp [fold]

theorem joinLen_fold (n : Name) : joinLen (foldName fold n) = joinLen n := by
  induction n with
  | nil => rfl
  | cons a l ih =>
    cases l with
    | nil => simp [foldName, joinLen, fold_length]
    | cons b bs =>
      simp only [foldName, List.map_cons, joinLen, fold_length] at ih ⊢
      omega

theorem head_le_joinLen (l : Name) : (l.head?.getD []).length ≤ joinLen l := by
  cases l with
  | nil => simp [joinLen]
  | cons a l =>
    cases l with
    | nil => simp [joinLen]
    | cons b bs => simp [joinLen]; omega

theorem joinLen_take_drop (l : Name) : ∀ (k : Nat), 1 ≤ k → k < l.length →
    joinLen l = joinLen (l.take k) + 1 + joinLen (l.drop k) := by
  induction l with
  | nil => intro k _ h; simp at h
  | cons a l ih =>
    intro k h1 h2
    obtain ⟨k', rfl⟩ : ∃ k', k = k' + 1 := ⟨k - 1, by omega⟩
    simp only [List.length_cons] at h2
    have hl : l ≠ [] := by intro e; subst e; simp at h2
    by_cases hk : k' = 0
    · subst hk
      simp [joinLen_cons a l hl, joinLen]
    · have := ih k' (by omega) (by omega)
      have ht : l.take k' ≠ [] := by
        obtain ⟨b, bs, rfl⟩ := List.exists_cons_of_ne_nil hl
        obtain ⟨n, rfl⟩ : ∃ n, k' = n + 1 := ⟨k' - 1, by omega⟩
        simp
      simp only [List.take_succ_cons, List.drop_succ_cons]
      rw [joinLen_cons a l hl, joinLen_cons a _ ht, this]
      omega

theorem last_le_joinLen (l : Name) (x : Str) (h2 : 2 ≤ l.length) (h : l.getLast? = some x) :
    x.length + 1 ≤ joinLen l := by
  induction l with
  | nil => simp at h2
  | cons a l ih =>
    cases l with
    | nil => simp at h2
    | cons b bs =>
      rw [joinLen_cons a _ (by simp)]
      have hl : (b :: bs).getLast? = some x := by simpa [List.getLast?_cons_cons] using h
      cases bs with
      | nil => simp at hl; subst hl; simp [joinLen]; omega
      | cons c cs =>
        have := ih (by simp) hl
        omega

theorem walk_bounds (tbl : Table) (w : Name) (e k' : Nat) :
    ∀ (fuel : Nat) (cur : Option Nat) (k : Nat), walk tbl w fuel cur k = some (e, k') →
      k ≤ k' ∧ (k ≤ w.length → k' ≤ w.length) ∧ (cur = none → k + 1 ≤ k') := by
  intro fuel
  induction fuel with
  | zero =>
    intro cur k h
    cases cur with
    | none => simp [walk] at h
    | some c => simp [walk] at h; obtain ⟨_, rfl⟩ := h; exact ⟨Nat.le_refl _, id, by simp⟩
  | succ f ih =>
    intro cur k h
    simp only [walk] at h
    split at h
    · cases cur with
      | none => simp at h
      | some c => simp at h; obtain ⟨_, rfl⟩ := h; exact ⟨Nat.le_refl _, id, by simp⟩
    · split at h
      · have := ih _ _ h
        exact ⟨by omega, fun _ => this.2.1 (by omega), fun _ => by omega⟩
      · cases cur with
        | none => simp at h
        | some c => simp at h; obtain ⟨_, rfl⟩ := h; exact ⟨Nat.le_refl _, id, by simp⟩

theorem badTerm_bounds (tbl : Table) : ∀ (l : Name) (pos a b x : Nat), badTerm tbl pos l = some (a, b, x) →
    pos ≤ a ∧ a ≤ b ∧ b ≤ pos + joinLen l := by
  intro l
  induction l with
  | nil => intro pos a b x h; simp [badTerm] at h
  | cons c cs ih =>
    intro pos a b x h
    simp only [badTerm] at h
    split at h
    · simp at h
      obtain ⟨rfl, rfl, _⟩ := h
      have := head_le_joinLen (c :: cs)
      simp at this
      omega
    · cases cs with
      | nil => simp [badTerm] at h
      | cons d ds =>
        have := ih _ _ _ _ h
        rw [joinLen_cons c _ (by simp)]
        omega

theorem drop_lt_of_nonempty {α} (l : List α) (k : Nat) (h : (l.drop k).isEmpty = false) : k < l.length :=
  Nat.lt_of_not_le fun hc => by simp [List.drop_eq_nil_of_le hc] at h

/-- what `findComps` can answer, with the bounds of each answer -/
theorem findComps_bounds (v : Vocab) (comps : Name) :
    match findComps v fold comps with
    | .found _ rem => rem.length ≤ joinLen comps ∨ (rem = ['/', '#'] ∧ 2 ≤ joinLen comps)
    | .noValidTag stop => stop ≤ joinLen comps
    | .invalidParent a b _ => a ≤ b ∧ b ≤ joinLen comps := by
  unfold findComps
  simp only []
  cases hg : v.table.get (foldName fold comps) with
  | some e =>
    simp only []
    split
    · rename_i hc
      simp only [Bool.and_eq_true, beq_iff_eq, decide_eq_true_eq] at hc
      have := last_le_joinLen (foldName fold comps) ['#'] hc.2 hc.1
      rw [joinLen_fold] at this
      simp at this
      exact Or.inr ⟨rfl, by omega⟩
    · exact Or.inl (by simp)
  | none =>
    simp only []
    cases hw : walk v.table (foldName fold comps) (foldName fold comps).length none 0 with
    | none => simp only []; exact head_le_joinLen comps
    | some p =>
      obtain ⟨e, k⟩ := p
      simp only []
      have hk := (walk_bounds _ _ _ _ _ _ _ hw).2.2 rfl
      cases hd : (comps.drop k).isEmpty with
      | true =>
        simp only [if_true]
        cases v.valueChild fold e with
        | some ch => simp
        | none =>
          simp only []
          have : (foldName fold comps).drop k = [] := by
            have : comps.drop k = [] := by simpa using hd
            simp [foldName, ← List.map_drop, this]
          simp [this, badTerm]
      | false =>
        have hlt := drop_lt_of_nonempty comps k hd
        have hj := joinLen_take_drop comps k (by omega) hlt
        simp only [Bool.false_eq_true, if_false]
        cases v.valueChild fold e with
        | some ch => simp only []; exact Or.inl (by simp [joinSlash_length]; omega)
        | none =>
          simp only []
          cases hb : badTerm v.table (joinLen (comps.take k) + 1) ((foldName fold comps).drop k) with
          | none => simp only []; exact Or.inl (by simp [joinSlash_length]; omega)
          | some x =>
            obtain ⟨a, b, y⟩ := x
            simp only []
            have := badTerm_bounds _ _ _ _ _ _ hb
            have hf : joinLen ((foldName fold comps).drop k) = joinLen (comps.drop k) := by
              have : (foldName fold comps).drop k = foldName fold (comps.drop k) := by simp [foldName, List.map_drop]
              rw [this, joinLen_fold]
            omega

theorem find_bounds (v : Vocab) (clean : Str) :
    match find v fold clean with
    | .found _ rem => rem.length ≤ clean.length
    | .noValidTag stop => stop ≤ clean.length
    | .invalidParent a b _ => a ≤ b ∧ b ≤ clean.length := by
  have h := findComps_bounds v (splitSlash clean)
  rw [splitSlash_joinLen] at h
  unfold find
  cases hf : findComps v fold (splitSlash clean) with
  | found i rem =>
    rw [hf] at h
    simp only [] at h ⊢
    rcases h with h | ⟨rfl, h⟩
    · exact h
    · simpa using h
  | noValidTag stop => rw [hf] at h; exact h
  | invalidParent a b x => rw [hf] at h; exact h

/-! ### every tag of the parsed tree lies in the text; its indices lie in the tag -/

/-- the location facts of a resolved tag -/
structure TagOK (text : Str) (t : RTag) : Prop where
  lt : t.span.1 < t.span.2
  le : t.span.2 ≤ text.length
  org : t.org.length = t.span.2 - t.span.1
  ns : t.ns.length ≤ t.org.length
  ext : t.extVal.length ≤ t.org.length
  ext0 : t.entry = none → t.extVal = []

/-- an issue's tag-relative index pair lies inside the tag it names, and that tag inside the text -/
def IssueOK (text : Str) (i : Issue) : Prop :=
  ∀ s e a b, i.span = some (s, e) → i.sub = some (a, b) → a ≤ b ∧ b ≤ e - s ∧ s ≤ e ∧ e ≤ text.length

theorem issueOK_nosub {text : Str} {i : Issue} (h : i.sub = none) : IssueOK text i := by
  intro s e a b _ hs; rw [h] at hs; cases hs

theorem issueOK_nospan {text : Str} {i : Issue} (h : i.span = none) : IssueOK text i := by
  intro s e a b hs _; rw [h] at hs; cases hs

theorem issueOK_of {text : Str} {t : RTag} (ht : TagOK text t) {i : Issue} {a b : Nat}
    (hs : i.span = some t.span) (hsub : i.sub = some (a, b)) (hab : a ≤ b) (hb : b ≤ t.org.length) :
    IssueOK text i := by
  intro s e a' b' hs' hsub'
  have h1 : t.span = (s, e) := by rw [hs] at hs'; exact Option.some.inj hs'
  have h2 : (a, b) = (a', b') := by rw [hsub] at hsub'; exact Option.some.inj hsub'
  cases h2
  have h3 := ht.lt; have h4 := ht.le; have h5 := ht.org
  rw [h1] at h3 h4 h5
  simp only at h3 h4 h5
  exact ⟨hab, by omega, by omega, h4⟩

theorem namespaceOf_le (org : Str) : (namespaceOf org).length ≤ org.length := by
  unfold namespaceOf
  split
  · simp
  · split
    · split
      · simp
      · simp only [List.length_take]; omega
    · simp only [List.length_take]; omega

theorem orgBase_le (t : RTag) : (orgBase t).length ≤ t.org.length := by
  unfold orgBase
  split
  · split
    · exact Nat.le_refl _
    · split <;> simp
  · exact Nat.le_refl _

/-- `org_base_tag`, the slash and the extension fit in the tag text -/
theorem orgBase_ext {text : Str} {t : RTag} (ht : TagOK text t) (hne : (extension t) ≠ []) :
    (orgBase t).length + 1 + (extension t).length ≤ t.org.length := by
  have hx : t.extVal ≠ [] := by intro e; apply hne; simp [extension, e]
  have he : t.entry ≠ none := fun e => hx (ht.ext0 e)
  have hl := ht.ext
  have hpos : 0 < t.extVal.length := by
    cases h : t.extVal with
    | nil => exact absurd h hx
    | cons _ _ => simp
  unfold orgBase extension
  cases hen : t.entry with
  | none => exact absurd hen he
  | some e =>
    simp only [List.length_drop]
    have : t.extVal.isEmpty = false := by simpa using hx
    simp only [this, Bool.false_eq_true, if_false]
    split
    · simp; omega
    · simp; omega

theorem slice_len (s : Str) (a b : Nat) (hb : b ≤ s.length) : (Tree.slice s a b).length = b - a := by
  simp [Tree.slice]; omega

theorem canon_eq (env : Env) (t : RTag) (hn : t.entry = none) (hns : (t.ns != env.ns) = false) :
    canon env t = match find env.vocab fold (t.org.drop t.ns.length) with
      | .found i rem => ({ t with entry := some i, extVal := if rem.isEmpty then t.extVal else rem }, [])
      | .noValidTag stop => ({ t with entry := none }, [subIssue .noValidTag t t.ns.length (t.ns.length + stop)])
      | .invalidParent a b _ =>
        ({ t with entry := none }, [subIssue .invalidParent t (t.ns.length + a) (t.ns.length + b)]) := by
  simp only [canon, hns, strOf, hn, Bool.false_eq_true, if_false]
  cases find env.vocab fold (t.org.drop t.ns.length) <;> rfl

/-- `_calculate_to_canonical_forms` on a not yet identified tag keeps the location facts, and its issues
(`NO_VALID_TAG_FOUND`, `INVALID_PARENT_NODE`, `HED_LIBRARY_UNMATCHED`) point inside the tag -/
theorem canon_ok (env : Env) {text : Str} {t : RTag} (ht : TagOK text t) (hn : t.entry = none) :
    TagOK text (canon env t).1 ∧ ∀ i ∈ (canon env t).2, IssueOK text i := by
  have hx := ht.ext0 hn
  have hns := ht.ns
  cases hc : (t.ns != env.ns) with
  | true =>
    simp only [canon, hc, if_true]
    refine ⟨⟨ht.lt, ht.le, ht.org, ht.ns, ht.ext, fun _ => hx⟩, ?_⟩
    intro i hi
    simp only [List.mem_singleton] at hi
    subst hi
    exact issueOK_nosub rfl
  | false =>
    rw [canon_eq env t hn hc]
    have hb := find_bounds env.vocab (t.org.drop t.ns.length)
    cases hf : find env.vocab fold (t.org.drop t.ns.length) with
    | found i rem =>
      rw [hf] at hb
      simp only [List.length_drop] at hb
      simp only []
      refine ⟨⟨ht.lt, ht.le, ht.org, ht.ns, ?_, fun h => by simp at h⟩, by simp⟩
      show (if rem.isEmpty then t.extVal else rem).length ≤ t.org.length
      split
      · exact ht.ext
      · omega
    | noValidTag stop =>
      rw [hf] at hb
      simp only [List.length_drop] at hb
      simp only []
      refine ⟨⟨ht.lt, ht.le, ht.org, ht.ns, ht.ext, fun _ => hx⟩, ?_⟩
      intro i hi
      simp only [List.mem_singleton] at hi
      subst hi
      exact issueOK_of ht rfl rfl (by omega) (by omega)
    | invalidParent a b x =>
      rw [hf] at hb
      simp only [List.length_drop] at hb
      simp only []
      refine ⟨⟨ht.lt, ht.le, ht.org, ht.ns, ht.ext, fun _ => hx⟩, ?_⟩
      intro i hi
      simp only [List.mem_singleton] at hi
      subst hi
      exact issueOK_of ht rfl rfl (by omega) (by omega)

theorem mkTag_ok (env : Env) (text : Str) (a b : Nat) (hab : a < b) (hb : b ≤ text.length) :
    TagOK text (mkTag env text a b) := by
  unfold mkTag
  exact (canon_ok env (t := ⟨(a, b), Tree.slice text a b, namespaceOf (Tree.slice text a b), none, []⟩)
    ⟨hab, hb, slice_len text a b hb, namespaceOf_le _, by simp, fun _ => rfl⟩ rfl).1

mutual
theorem resolveNode_ok (env : Env) (text : Str) : ∀ (d : Nat) (n : Node), NodeNest text d n →
    ∀ t ∈ tagsNode (resolveNode env text n), TagOK text t
  | d, .tag a b, h, t, ht => by
    simp only [resolveNode, tagsNode, List.mem_singleton] at ht
    subst ht
    simp only [NodeNest] at h
    exact mkTag_ok env text a b h.2.2.1 h.2.2.2
  | d, .group a b kids, h, t, ht => by
    simp only [resolveNode, tagsNode] at ht
    simp only [NodeNest] at h
    exact resolveList_ok env text (d + 1) kids h.2.2.2.2.2.2 t ht
theorem resolveList_ok (env : Env) (text : Str) : ∀ (d : Nat) (l : List Node), ListNest text d l →
    ∀ t ∈ tagsList (resolveList env text l), TagOK text t
  | d, [], _, t, ht => by simp [resolveList, tagsList] at ht
  | d, n :: ns, h, t, ht => by
    simp only [resolveList, tagsList, List.mem_append] at ht
    simp only [ListNest] at h
    cases ht with
    | inl h1 => exact resolveNode_ok env text d n h.1 t h1
    | inr h1 => exact resolveList_ok env text d ns h.2 t h1
end

/-- every tag of the tree built by `HedString.__init__` lies in the text (C02 `nesting_depth`) -/
theorem root0_ok (env : Env) (text : Str) : ∀ t ∈ tagsList (parse env text).root0, TagOK text t := by
  intro t ht
  simp only [parse] at ht
  by_cases hb : balanced text
  · obtain ⟨r, _, hc, hn⟩ := C02.nesting_depth text hb
    rw [hc] at ht
    exact resolveList_ok env text 0 r hn t ht
  · rw [C02.unbalanced_empty text hb] at ht
    simp [resolveList, tagsList] at ht

mutual
theorem recanonNode_tags (env : Env) : ∀ (n : RNode),
    tagsNode (recanonNode env n).1 = (tagsNode n).map (fun t => (canon env t).1)
  | .tag t => by simp [recanonNode, tagsNode]
  | .group s kids => by simp [recanonNode, tagsNode, recanonList_tags env kids]
theorem recanonList_tags (env : Env) : ∀ (l : List RNode),
    tagsList (recanonList env l).1 = (tagsList l).map (fun t => (canon env t).1)
  | [] => by simp [recanonList, tagsList]
  | n :: ns => by simp [recanonList, tagsList, recanonNode_tags env n, recanonList_tags env ns]
end

mutual
theorem recanonNode_issues (env : Env) : ∀ (n : RNode),
    (recanonNode env n).2 = (tagsNode n).flatMap (fun t => (canon env t).2)
  | .tag t => by simp [recanonNode, tagsNode]
  | .group s kids => by simp [recanonNode, tagsNode, recanonList_issues env kids]
theorem recanonList_issues (env : Env) : ∀ (l : List RNode),
    (recanonList env l).2 = (tagsList l).flatMap (fun t => (canon env t).2)
  | [] => by simp [recanonList, tagsList]
  | n :: ns => by simp [recanonList, tagsList, recanonNode_issues env n, recanonList_issues env ns]
end

/-- Re-resolving an already identified tag from its short form (`str(tag)`) finds an entry again, raises no
issue and leaves a remainder that is not longer — a consequence of C03's `short_long_fixpoint` (same entry, same
remainder) for well-formed vocabularies; here a hypothesis on the text, evaluated by the driver on every case. -/
def LookupStable (env : Env) (text : Str) : Prop :=
  ∀ t ∈ tagsList (parse env text).root0, t.entry.isSome = true →
    (canon env t).2 = [] ∧ (canon env t).1.extVal.length ≤ t.extVal.length

theorem canon_keeps (env : Env) (t : RTag) :
    (canon env t).1.span = t.span ∧ (canon env t).1.org = t.org ∧ (canon env t).1.ns = t.ns := by
  unfold canon
  split
  · exact ⟨rfl, rfl, rfl⟩
  · simp only []
    split <;> exact ⟨rfl, rfl, rfl⟩

theorem canon_noissue_entry (env : Env) (t : RTag) (h : (canon env t).2 = []) :
    (canon env t).1.entry.isSome = true := by
  unfold canon at h ⊢
  split
  · rename_i hc; simp [hc] at h
  · rename_i hc
    simp only [hc] at h
    simp only [] at h ⊢
    split
    · rfl
    · rename_i hf; simp [hf] at h
    · rename_i hf; simp [hf] at h

theorem root1_ok (env : Env) (text : Str) (hst : LookupStable env text) :
    ∀ t ∈ tagsList (parse env text).root1, TagOK text t := by
  intro t ht
  simp only [parse, recanonList_tags] at ht
  obtain ⟨t0, h0, rfl⟩ := List.mem_map.mp ht
  have h0' : t0 ∈ tagsList (parse env text).root0 := by simpa [parse] using h0
  have ok0 := root0_ok env text t0 h0'
  cases he : t0.entry with
  | none => exact (canon_ok env ok0 he).1
  | some e =>
    obtain ⟨h2, hlen⟩ := hst t0 h0' (by simp [he])
    obtain ⟨hs, ho, hn⟩ := canon_keeps env t0
    have hsome := canon_noissue_entry env t0 h2
    refine ⟨by rw [hs]; exact ok0.lt, by rw [hs]; exact ok0.le, by rw [ho, hs]; exact ok0.org,
      by rw [hn, ho]; exact ok0.ns, by rw [ho]; have := ok0.ext; omega, fun hnone => ?_⟩
    rw [hnone] at hsome; simp at hsome

theorem lookup_ok (env : Env) (text : Str) (hst : LookupStable env text) :
    ∀ i ∈ (parse env text).lookup, IssueOK text i := by
  intro i hi
  simp only [parse, recanonList_issues, List.mem_flatMap] at hi
  obtain ⟨t0, h0, hi⟩ := hi
  have h0' : t0 ∈ tagsList (parse env text).root0 := by simpa [parse] using h0
  have ok0 := root0_ok env text t0 h0'
  cases he : t0.entry with
  | none => exact (canon_ok env ok0 he).2 i hi
  | some e => rw [(hst t0 h0' (by simp [he])).1] at hi; simp at hi

/-! #### the index pairs of each rule -/

theorem takeWhile_length_le {α} (p : α → Bool) (l : List α) : (l.takeWhile p).length ≤ l.length := by
  induction l with
  | nil => simp
  | cons a l ih =>
    simp only [List.takeWhile_cons]
    split
    · simp only [List.length_cons]; omega
    · simp

theorem slashMatches_bounds : ∀ (s : Str) (i skip : Nat), skip ≤ s.length →
    ∀ m ∈ slashMatches i skip s, m.1 ≤ m.2 ∧ m.2 ≤ i + s.length := by
  intro s
  induction s with
  | nil => intro i skip _ m hm; cases skip <;> simp [slashMatches] at hm
  | cons c cs ih =>
    intro i skip hs m hm
    cases skip with
    | succ k =>
      simp only [slashMatches] at hm
      have := ih (i + 1) k (by simpa using hs) m hm
      simp only [List.length_cons]; omega
    | zero =>
      simp only [slashMatches] at hm
      have hrun : ((c :: cs).takeWhile isSlashRun).length ≤ cs.length + 1 := by
        simpa using takeWhile_length_le isSlashRun (c :: cs)
      simp only [List.length_cons]
      split at hm
      · simp only [List.mem_cons] at hm
        cases hm with
        | inl h => subst h; simp only; omega
        | inr h => have := ih (i + 1) _ (by omega) m h; omega
      · split at hm
        · simp only [List.mem_cons] at hm
          cases hm with
          | inl h => subst h; simp only; omega
          | inr h => have := ih (i + 1) 0 (by omega) m h; omega
        · have := ih (i + 1) 0 (by omega) m hm; omega

theorem slashIssues_ok {text : Str} {t : RTag} (ht : TagOK text t) : ∀ i ∈ slashIssues t, IssueOK text i := by
  intro i hi
  simp only [slashIssues, List.mem_map] at hi
  obtain ⟨m, hm, rfl⟩ := hi
  have := slashMatches_bounds t.org 0 0 (by omega) m hm
  exact issueOK_of ht rfl rfl this.1 (by omega)

theorem invalidCharsFrom_ok {text : Str} {t : RTag} (ht : TagOK text t) (cd : CharData) (allowed : List Char)
    (ov : Option Str) : ∀ (s : Str) (start : Nat), start + s.length ≤ t.org.length →
    ∀ i ∈ invalidCharsFrom cd allowed t ov start s, IssueOK text i := by
  intro s
  induction s with
  | nil => intro _ _ i hi; simp [invalidCharsFrom] at hi
  | cons c cs ih =>
    intro start hs i hi
    simp only [invalidCharsFrom, List.mem_append, List.length_cons] at hi hs
    cases hi with
    | inl h =>
      split at h
      · simp at h
      · simp only [List.mem_singleton] at h; subst h
        exact issueOK_of ht rfl rfl (by omega) (by omega)
    | inr h => exact ih (start + 1) (by omega) i h

theorem placeholderFrom_ok {text : Str} {t : RTag} (ht : TagOK text t) (start : Nat) :
    ∀ (s : Str) (n : Nat), start + n + s.length ≤ t.org.length →
    ∀ i ∈ placeholderFrom t start n s, IssueOK text i := by
  intro s
  induction s with
  | nil => intro _ _ i hi; simp [placeholderFrom] at hi
  | cons c cs ih =>
    intro n hs i hi
    simp only [placeholderFrom, List.mem_append, List.length_cons] at hi hs
    cases hi with
    | inl h =>
      split at h
      · simp only [List.mem_singleton] at h; subst h
        exact issueOK_of ht rfl rfl (by omega) (by omega)
      · simp at h
    | inr h => exact ih (n + 1) (by omega) i h

theorem problemCharsFrom_bounds (ccs : List CharClass) : ∀ (s : Str) (n : Nat),
    ∀ p ∈ problemCharsFrom ccs n s, n ≤ p.1 ∧ p.1 < n + s.length := by
  intro s
  induction s with
  | nil => intro _ p hp; simp [problemCharsFrom] at hp
  | cons c cs ih =>
    intro n p hp
    simp only [problemCharsFrom, List.mem_append, List.length_cons] at hp ⊢
    cases hp with
    | inl h =>
      split at h
      · simp at h
      · simp only [List.mem_singleton] at h; subst h; simp only; omega
    | inr h => have := ih (n + 1) p h; omega

theorem problemChars_bounds (cls sv : Str) : ∀ p ∈ problemChars cls sv, p.1 < sv.length := by
  intro p hp
  unfold problemChars at hp
  split at hp
  · split at hp
    · simp at hp
    · have := problemCharsFrom_bounds _ sv 0 p hp; omega
  · simp at hp

theorem findSubFrom_bounds (sub : Str) : ∀ (s : Str) (i j : Nat), findSubFrom sub i s = some j →
    i ≤ j ∧ j + sub.length ≤ i + s.length := by
  intro s
  induction s with
  | nil =>
    intro i j h
    simp only [findSubFrom] at h
    split at h
    · rename_i he; simp at h; subst h
      have : sub = [] := by simpa using he
      simp [this]
    · simp at h
  | cons c cs ih =>
    intro i j h
    simp only [findSubFrom] at h
    split at h
    · rename_i hp
      simp at h; subst h
      have := (List.isPrefixOf_iff_prefix.mp hp).length_le
      simp only [List.length_cons] at this ⊢; omega
    · have := ih (i + 1) j h
      simp only [List.length_cons]; omega

theorem extension_ne_of_len {t : RTag} {sv : Str} (h : sv.length ≤ (extension t).length) (hne : sv ≠ []) :
    extension t ≠ [] := by
  intro e
  rw [e] at h
  cases sv with
  | nil => exact hne rfl
  | cons _ _ => simp at h

theorem valueClassIssues_ok {text : Str} {t : RTag} (ht : TagOK text t) (env : Env) (sv : Str)
    (hsv : sv.length ≤ (extension t).length) : ∀ i ∈ valueClassIssues env t sv, IssueOK text i := by
  intro i hi
  unfold valueClassIssues at hi
  simp only [] at hi
  split at hi
  · simp at hi
  · split at hi
    · simp at hi
    · split at hi
      · simp at hi
      · simp only [List.mem_flatMap] at hi
        obtain ⟨c, _, hi⟩ := hi
        split at hi
        · simp only [List.mem_singleton] at hi; subst hi
          exact issueOK_of ht rfl rfl (Nat.zero_le _) (Nat.le_refl _)
        · simp only [List.mem_map] at hi
          obtain ⟨p, hp, rfl⟩ := hi
          have hk := problemChars_bounds c sv p hp
          have hne : sv ≠ [] := by intro e; rw [e] at hk; simp at hk
          have hob := orgBase_ext ht (extension_ne_of_len hsv hne)
          obtain ⟨k, ch⟩ := p
          simp only at hk ⊢
          have hstart : k + (match findSub (extension t) sv with
              | some j => j + (orgBase t).length + 1
              | none => (orgBase t).length) + 1 ≤ t.org.length := by
            cases hf : findSub (extension t) sv with
            | none => simp only; omega
            | some j =>
              have := findSubFrom_bounds sv (extension t) 0 j hf
              simp only; omega
          split
          · exact issueOK_of ht rfl rfl (by omega) hstart
          · exact issueOK_of ht rfl rfl (by omega) hstart

theorem rpartitionBlank_le (s : Str) :
    (Units.rpartitionBlank s).1.length ≤ s.length ∧ (Units.rpartitionBlank s).2.length ≤ s.length := by
  unfold Units.rpartitionBlank
  simp only []
  split
  · simp
  · simp only [List.length_reverse, List.length_drop, List.length_take]; omega

theorem go_value (mods : List Units.Modifier) (fold' : Str → Str) (value units : Str) :
    ∀ (cs : List Units.UnitClass) (ci : Nat) (m : Units.Match),
      Units.unitsPortion.go mods fold' value units ci cs = some m → m.value = value ∨ m.value = units := by
  intro cs
  induction cs with
  | nil => intro ci m h; simp [Units.unitsPortion.go] at h
  | cons c cs ih =>
    intro ci m h
    simp only [Units.unitsPortion.go] at h
    repeat' split at h
    all_goals first
      | exact ih _ _ h
      | (simp only [Option.some.injEq] at h; subst h; simp)

theorem stripped_le (mods : List Units.Modifier) (classes : List Units.UnitClass) (text : Str) :
    (Units.stripped mods classes fold text).1.length ≤ text.length := by
  unfold Units.stripped
  cases hu : Units.unitsPortion mods classes fold text with
  | none => simp
  | some m =>
    simp only []
    split
    · simp
    · unfold Units.unitsPortion at hu
      have hr := rpartitionBlank_le text
      simp only [] at hu
      split at hu
      · simp at hu
      · rcases go_value _ _ _ _ _ _ _ hu with h | h <;> simp only [h] <;> omega

theorem valueText_le (env : Env) (t : RTag) (text : Str) (h : text.length ≤ (extension t).length) :
    (valueText env t text).length ≤ (extension t).length := by
  have hs : (strippedText env t text).length ≤ (extension t).length := by
    unfold strippedText
    simp only []
    split
    · have := stripped_le env.mods (tagUnitClasses env t) text; omega
    · exact Nat.le_refl _
  unfold valueText
  simp only []
  split
  · have := takeWhile_length_le (· != ' ') (strippedText env t text); omega
  · exact hs

theorem validateUnits_ok {text : Str} {t : RTag} (ht : TagOK text t) (env : Env) (txt : Str)
    (h : txt.length ≤ (extension t).length) : ∀ i ∈ validateUnits env t txt, IssueOK text i := by
  intro i hi
  unfold validateUnits at hi
  split at hi
  · simp at hi
  · split at hi
    · simp only [unitIssues, List.mem_append] at hi
      cases hi with
      | inl h1 => exact valueClassIssues_ok ht env _ (valueText_le env t txt h) i h1
      | inr h1 =>
        split at h1
        · simp at h1
        · simp only [List.mem_singleton] at h1; subst h1; exact issueOK_nosub rfl
    · split at hi
      · exact valueClassIssues_ok ht env _ h i hi
      · split at hi
        · rename_i hne
          have hne' : extension t ≠ [] := by simpa using hne
          have := orgBase_ext ht hne'
          exact invalidCharsFrom_ok ht _ _ _ txt _ (by omega) i hi
        · simp at hi

theorem tagCharIssues_ok {text : Str} {t : RTag} (ht : TagOK text t) (env : Env) (ph : Bool) :
    ∀ i ∈ tagCharIssues env ph t, IssueOK text i := by
  intro i hi
  simp only [tagCharIssues, List.mem_append] at hi
  cases hi with
  | inl h =>
    split at h
    · simp only [List.mem_singleton] at h; subst h; exact issueOK_nosub rfl
    · simp at h
  | inr h => exact invalidCharsFrom_ok ht _ _ _ _ 0 (by have := orgBase_le t; omega) i h

theorem individualIssues_ok {text : Str} {t : RTag} (ht : TagOK text t) (env : Env) (ph isDef : Bool) :
    ∀ i ∈ individualIssues env ph isDef t, IssueOK text i := by
  intro i hi
  simp only [individualIssues, List.mem_append] at hi
  rcases hi with (((h | h) | h) | h) | h
  · unfold existsIssues at h
    simp only [] at h
    split at h
    · simp at h
    · split at h
      · simp only [List.mem_singleton] at h; subst h; exact issueOK_nosub rfl
      · simp only [List.mem_singleton] at h; subst h
        exact issueOK_of ht rfl rfl (orgBase_le t) (Nat.le_refl _)
  · split at h
    · unfold placeholderIssues at h
      split at h
      · simp at h
      · by_cases hx : extension t = []
        · rw [hx] at h; simp [placeholderFrom] at h
        · have := orgBase_ext ht hx
          exact placeholderFrom_ok ht _ _ 0 (by omega) i h
    · simp at h
  · split at h
    · simp only [List.mem_singleton] at h; subst h; exact issueOK_nosub rfl
    · simp at h
  · split at h
    · simp only [List.mem_singleton] at h; subst h; exact issueOK_nosub rfl
    · simp at h
  · unfold styleIssues at h
    split at h
    · simp only [List.mem_singleton] at h; subst h; exact issueOK_nosub rfl
    · simp at h

theorem findCharAt_bounds (ch : Char) : ∀ (s : Str) (i j : Nat), findCharAt ch i s = some j → j < i + s.length := by
  intro s
  induction s with
  | nil => intro i j h; simp [findCharAt] at h
  | cons c cs ih =>
    intro i j h
    simp only [findCharAt] at h
    split at h
    · simp at h; subst h; simp
    · have := ih (i + 1) j h; simp only [List.length_cons]; omega

theorem findCharFrom_lt (text : Str) (ch : Char) (start j : Nat) (h : findCharFrom text ch start = some j) :
    j < text.length := by
  unfold findCharFrom at h
  have := findCharAt_bounds ch _ _ _ h
  simp only [List.length_drop] at this
  by_cases hs : start ≤ text.length
  · omega
  · have : text.drop start = [] := List.drop_eq_nil_of_le (by omega)
    rw [this] at h; simp [findCharAt] at h

theorem relocate_bounds (text : Str) : ∀ (es : List (Nat × Char)) (start : Nat),
    ∀ r ∈ relocate text start es, r.2.1 ≤ r.2.2 ∧ r.2.2 ≤ text.length := by
  intro es
  induction es with
  | nil => intro _ r hr; simp [relocate] at hr
  | cons e es ih =>
    intro start r hr
    obtain ⟨k, ch⟩ := e
    simp only [relocate] at hr
    split at hr
    · rename_i j hj
      simp only [List.mem_cons] at hr
      cases hr with
      | inl h => subst h; have := findCharFrom_lt _ _ _ _ hj; simp only; omega
      | inr h => exact ih _ r h
    · simp only [List.mem_cons] at hr
      cases hr with
      | inl h => subst h; simp
      | inr h => exact ih _ r h

/-- the value of a Def tag checked inside its definition (`report_as`): in range once the characters are
located in the Def tag itself (`defCharRelocate`) -/
theorem valueClassIssuesAs_ok {text : Str} {rep : RTag} (ht : TagOK text rep) (env : Env) (orig : RTag) (sv : Str)
    (hv : env.var.defCharRelocate = true) : ∀ i ∈ valueClassIssuesAs env orig rep sv, IssueOK text i := by
  intro i hi
  unfold valueClassIssuesAs at hi
  simp only [hv, if_true] at hi
  split at hi
  · simp at hi
  · split at hi
    · simp at hi
    · split at hi
      · simp at hi
      · simp only [List.mem_flatMap] at hi
        obtain ⟨c, _, hi⟩ := hi
        split at hi
        · simp only [List.mem_singleton] at hi; subst hi
          exact issueOK_of ht rfl rfl (Nat.zero_le _) (Nat.le_refl _)
        · simp only [List.mem_map] at hi
          obtain ⟨r, hr, rfl⟩ := hi
          have := relocate_bounds _ _ _ r hr
          obtain ⟨ch, a, b⟩ := r
          simp only at this ⊢
          split
          · exact issueOK_of ht rfl rfl this.1 this.2
          · exact issueOK_of ht rfl rfl this.1 this.2

theorem withErrorCode_ok {text : Str} (code : Str) (l : List Issue) (h : ∀ i ∈ l, IssueOK text i) :
    ∀ i ∈ withErrorCode code l, IssueOK text i := by
  intro i hi
  unfold withErrorCode at hi
  split at hi
  · simp at hi
  · rename_i j js
    split at hi
    · exact h i hi
    · simp only [List.mem_append, List.mem_singleton] at hi
      cases hi with
      | inl h1 => exact h i h1
      | inr h1 =>
        subst h1
        have := h j (by simp)
        intro s e a b hs hsub
        exact this s e a b hs hsub

theorem defUnits_ok {text : Str} {rep : RTag} (ht : TagOK text rep) (env : Env) (p : RTag) (txt code : Str)
    (hv : env.var.defCharRelocate = true) : ∀ i ∈ defUnits env p rep txt code, IssueOK text i := by
  unfold defUnits
  split
  · simp
  · split
    · apply withErrorCode_ok
      intro i hi
      simp only [List.mem_append] at hi
      cases hi with
      | inl h => exact valueClassIssuesAs_ok ht env p _ hv i h
      | inr h =>
        split at h
        · simp at h
        · simp only [List.mem_singleton] at h; subst h; exact issueOK_nosub rfl
    · split
      · exact valueClassIssuesAs_ok ht env p _ hv
      · simp

theorem defValueIssues_ok {text : Str} {t : RTag} (ht : TagOK text t) (env : Env)
    (hd : env.var.defCharRelocate = true ∨ env.defs = []) : ∀ i ∈ defValueIssues env t, IssueOK text i := by
  intro i hi
  unfold defValueIssues at hi
  cases hd with
  | inr h0 => simp [defLookup, h0] at hi
  | inl hv =>
    split at hi
    · simp at hi
    · simp only [List.mem_append] at hi
      cases hi with
      | inl h =>
        refine valueClassIssues_ok ht env _ ?_ i h
        exact takeWhile_length_le _ _
      | inr h =>
        split at h
        · simp at h
        · exact defUnits_ok ht env _ _ _ hv i h

theorem tagSemIssues_ok {text : Str} {t : RTag} (ht : TagOK text t) (env : Env) (ph isDef : Bool)
    (hd : env.var.defCharRelocate = true ∨ env.defs = []) : ∀ i ∈ tagSemIssues env ph isDef t, IssueOK text i := by
  intro i hi
  simp only [tagSemIssues, List.mem_append] at hi
  rcases hi with (h | h) | h
  · split at h
    · simp only [List.mem_singleton] at h; subst h; exact issueOK_nosub rfl
    · simp at h
  · exact individualIssues_ok ht env ph isDef i h
  · split at h
    · exact defValueIssues_ok ht env hd i h
    · split at h
      · exact validateUnits_ok ht env _ (by simp only [List.length_take]; omega) i h
      · split at h
        · exact validateUnits_ok ht env _ (Nat.le_refl _) i h
        · simp at h

/-! #### issues without an index pair -/

theorem tagIssue_sub (k : Kind) (t : RTag) : (tagIssue k t).sub = none := rfl

theorem required_nosub (env : Env) (tags : List RTag) : ∀ i ∈ requiredIssues env tags, i.sub = none := by
  intro i hi
  simp only [requiredIssues, List.mem_flatMap] at hi
  obtain ⟨p, _, hi⟩ := hi
  split at hi
  · simp only [List.mem_singleton] at hi; subst hi; rfl
  · simp at hi

theorem unique_nosub (env : Env) (tags : List RTag) : ∀ i ∈ uniqueIssues env tags, i.sub = none := by
  intro i hi
  simp only [uniqueIssues, List.mem_flatMap] at hi
  obtain ⟨p, _, hi⟩ := hi
  split at hi
  · simp only [List.mem_singleton] at hi; subst hi; rfl
  · simp at hi

theorem level_nosub (env : Env) (g : GV) : ∀ i ∈ levelIssues env g, i.sub = none := by
  intro i hi
  simp only [levelIssues, List.mem_append, List.mem_flatMap] at hi
  rcases hi with (⟨t, _, h⟩ | ⟨t, _, h⟩) | h
  · split at h
    · simp only [List.mem_singleton] at h; subst h; rfl
    · simp at h
  · split at h
    · simp only [List.mem_append, List.mem_singleton] at h
      cases h with
      | inl h =>
        split at h
        · simp only [List.mem_singleton] at h; subst h; rfl
        · split at h
          · simp only [List.mem_singleton] at h; subst h; rfl
          · simp at h
      | inr h => subst h; rfl
    · simp at h
  · split at h
    · split at h
      · simp only [List.mem_singleton] at h; subst h; rfl
      · simp at h
    · simp at h

theorem group_nosub (env : Env) (g : GV) : ∀ i ∈ groupIssues env g, i.sub = none := by
  intro i hi
  simp only [groupIssues, List.mem_append] at hi
  cases hi with
  | inl h =>
    split at h
    · simp only [List.mem_singleton] at h; subst h; rfl
    · simp at h
  | inr h => exact level_nosub env g i h

theorem repeatIssue_sub (n : RNode) : (repeatIssue n).sub = none := by cases n <;> rfl

mutual
theorem dupNode_nosub (env : Env) : ∀ (n : RNode), ∀ i ∈ dupNode env n, i.sub = none
  | .tag _, i, hi => by simp [dupNode] at hi
  | .group _ kids, i, hi => by simp only [dupNode] at hi; exact dupList_nosub env none kids i hi
theorem dupList_nosub (env : Env) : ∀ (prev : Option RNode) (l : List RNode), ∀ i ∈ dupList env prev l, i.sub = none
  | _, [], i, hi => by simp [dupList] at hi
  | prev, c :: cs, i, hi => by
    simp only [dupList, List.mem_append] at hi
    rcases hi with (h | h) | h
    · split at h
      · simp only [List.mem_singleton] at h; subst h; exact repeatIssue_sub c
      · simp at h
    · exact dupNode_nosub env c i h
    · exact dupList_nosub env (some c) cs i h
end

theorem duration_nosub (env : Env) (root : List RNode) : ∀ i ∈ durationIssues env root, i.sub = none := by
  intro i hi
  simp only [durationIssues, List.mem_flatMap] at hi
  obtain ⟨x, _, hi⟩ := hi
  obtain ⟨top, sp, kids⟩ := x
  simp only [] at hi
  split at hi
  · simp at hi
  · split at hi
    · simp only [List.mem_map] at hi; obtain ⟨t, _, rfl⟩ := hi; rfl
    · split at hi
      · simp only [List.mem_singleton] at hi; subst hi; rfl
      · simp at hi

theorem onsetDef_nosub (env : Env) (dt : RTag) : ∀ i ∈ onsetDefIssues env dt, i.sub = none := by
  intro i hi
  unfold onsetDefIssues at hi
  split at hi
  · simp only [List.mem_singleton] at hi; subst hi; rfl
  · split at hi
    · simp only [List.mem_singleton] at hi; subst hi; rfl
    · simp at hi

theorem onsetGroup_nosub (env : Env) (onset : RTag) (kids : List RNode) :
    ∀ i ∈ onsetGroupIssues env onset kids, i.sub = none := by
  intro i hi
  unfold onsetGroupIssues at hi
  simp only [] at hi
  repeat' split at hi
  all_goals first
    | (simp only [List.mem_singleton] at hi; subst hi; rfl)
    | (simp at hi; done)
    | exact onsetDef_nosub env _ i (by simpa using hi)
    | (simp only [List.mem_append, List.mem_singleton] at hi
       rcases hi with h | h
       · subst h; rfl
       · exact onsetDef_nosub env _ i h)

theorem onset_nosub (env : Env) (root : List RNode) : ∀ i ∈ onsetIssues env root, i.sub = none := by
  intro i hi
  simp only [onsetIssues, List.mem_flatMap] at hi
  obtain ⟨x, _, hi⟩ := hi
  exact onsetGroup_nosub env _ _ i hi

theorem full_nosub (env : Env) (len : Nat) (root : List RNode) : ∀ i ∈ fullPhase env len root, i.sub = none := by
  intro i hi
  simp only [fullPhase, List.mem_append, List.mem_flatMap] at hi
  rcases hi with ((((h | h) | ⟨g, _, h⟩) | h) | h) | h
  · exact required_nosub env _ i h
  · exact unique_nosub env _ i h
  · exact group_nosub env g i h
  · exact dupList_nosub env none _ i h
  · exact duration_nosub env root i h
  · exact onset_nosub env root i h

theorem defContent_nosub (env : Env) (t : RTag) (grp : Option (List RNode)) :
    ∀ i ∈ defContentIssues env t grp, i.sub = none := by
  intro i hi
  unfold defContentIssues at hi
  split at hi
  · simp only [List.mem_singleton] at hi; subst hi; rfl
  · simp only [List.mem_singleton] at hi; subst hi; rfl
  · split at hi
    · split at hi
      · simp only [List.mem_singleton] at hi; subst hi; rfl
      · simp at hi
    · simp at hi

theorem defIssuesOf_nosub (env : Env) : ∀ (l : List RNode), ∀ i ∈ defIssuesOf env l, i.sub = none := by
  intro l
  induction l with
  | nil => intro i hi; simp [defIssuesOf] at hi
  | cons n ns ih =>
    intro i hi
    cases n with
    | tag t =>
      simp only [defIssuesOf, List.mem_append] at hi
      cases hi with
      | inl h =>
        split at h
        · exact defContent_nosub env t none i h
        · simp at h
      | inr h => exact ih i h
    | group s ks =>
      simp only [defIssuesOf, List.mem_append, List.mem_flatMap] at hi
      cases hi with
      | inl h => obtain ⟨t, _, h⟩ := h; exact defContent_nosub env t _ i h
      | inr h => exact ih i h

/-! #### tags of a group are tags of the tree -/

theorem directTags_sub : ∀ (l : List RNode), ∀ t ∈ directTags l, t ∈ tagsList l := by
  intro l
  induction l with
  | nil => intro t h; simp [directTags] at h
  | cons n ns ih =>
    intro t h
    cases n with
    | tag t0 =>
      simp only [directTags, List.mem_cons] at h
      simp only [tagsList, tagsNode, List.mem_append, List.mem_singleton]
      cases h with
      | inl e => exact Or.inl e
      | inr e => exact Or.inr (ih t e)
    | group s ks =>
      simp only [directTags] at h
      simp only [tagsList, List.mem_append]
      exact Or.inr (ih t h)

mutual
theorem groupsNode_tags : ∀ (top : Bool) (n : RNode) (g : GV), g ∈ groupsNode top n →
    ∀ t ∈ tagsList g.kids, t ∈ tagsNode n
  | _, .tag _, g, hg, _, _ => by simp [groupsNode] at hg
  | top, .group s kids, g, hg, t, ht => by
    simp only [groupsNode, List.mem_cons] at hg
    simp only [tagsNode]
    cases hg with
    | inl e => subst e; exact ht
    | inr e => exact groupsList_tags false kids g e t ht
theorem groupsList_tags : ∀ (top : Bool) (l : List RNode) (g : GV), g ∈ groupsList top l →
    ∀ t ∈ tagsList g.kids, t ∈ tagsList l
  | _, [], g, hg, _, _ => by simp [groupsList] at hg
  | top, n :: ns, g, hg, t, ht => by
    simp only [groupsList, List.mem_append] at hg
    simp only [tagsList, List.mem_append]
    cases hg with
    | inl e => exact Or.inl (groupsNode_tags top n g e t ht)
    | inr e => exact Or.inr (groupsList_tags top ns g e t ht)
end

theorem allGroups_tags (len : Nat) (root : List RNode) (g : GV) (hg : g ∈ allGroups len root) :
    ∀ t ∈ directTags g.kids, t ∈ tagsList root := by
  intro t ht
  have ht' := directTags_sub _ t ht
  simp only [allGroups, List.mem_cons] at hg
  cases hg with
  | inl e => subst e; exact ht'
  | inr e => exact groupsList_tags true root g e t ht'


/-! #### the delimiter scan: positions and absence of a tag -/

structure DInv (n : Nat) (st : Validate.DSt) : Prop where
  iss : ∀ x ∈ st.issues, x.span = none ∧ ∀ k, x.chr = some k → k < n
  last : st.last.isSome = true → st.lastIdx < n

theorem dstep_inv (cd : CharData) (st : Validate.DSt) (i : Nat) (c : Char) (h : DInv i st) :
    DInv (i + 1) (dstep cd st i c) := by
  have hold : ∀ x ∈ st.issues, x.span = none ∧ ∀ k, x.chr = some k → k < i + 1 :=
    fun x hx => ⟨(h.iss x hx).1, fun k hk => Nat.lt_succ_of_lt ((h.iss x hx).2 k hk)⟩
  have hnew : ∀ (y : Issue), (y = emptyAt i ∨ ∃ t, y = commaMissing t) →
      ∀ x ∈ st.issues ++ [y], x.span = none ∧ ∀ k, x.chr = some k → k < i + 1 := by
    intro y hy x hx
    rcases List.mem_append.mp hx with hx | hx
    · exact hold x hx
    · simp only [List.mem_singleton] at hx; subst hx
      rcases hy with rfl | ⟨t, rfl⟩
      · exact ⟨rfl, fun k hk => by simp [emptyAt, Issue.plain] at hk; omega⟩
      · exact ⟨rfl, fun k hk => by simp [commaMissing, Issue.plain] at hk⟩
  simp only [dstep]
  repeat' split
  all_goals first
    | exact ⟨hold, fun hl => Nat.lt_succ_of_lt (h.last hl)⟩
    | exact ⟨hold, fun _ => Nat.lt_succ_self i⟩
    | exact ⟨hnew _ (Or.inl rfl), fun hl => Nat.lt_succ_of_lt (h.last hl)⟩
    | exact ⟨hnew _ (Or.inl rfl), fun _ => Nat.lt_succ_self i⟩
    | exact ⟨hnew _ (Or.inr ⟨_, rfl⟩), fun _ => Nat.lt_succ_self i⟩
    | exact ⟨hnew _ (Or.inr ⟨_, rfl⟩), fun hl => Nat.lt_succ_of_lt (h.last hl)⟩

theorem drun_inv (cd : CharData) : ∀ (s : Str) (st : Validate.DSt) (i : Nat), DInv i st → DInv (i + s.length) (drun cd st i s) := by
  intro s
  induction s with
  | nil => intro st i h; simpa [drun] using h
  | cons c cs ih =>
    intro st i h
    have := ih _ (i + 1) (dstep_inv cd st i c h)
    simp only [drun, List.length_cons]
    rwa [show i + (cs.length + 1) = i + 1 + cs.length by omega]

theorem delimIssues_props (cd : CharData) (text : Str) :
    ∀ x ∈ delimIssues cd text, x.span = none ∧ ∀ k, x.chr = some k → k < text.length := by
  have h : DInv text.length (drun cd {} 0 text) := by
    simpa using drun_inv cd text {} 0 ⟨fun x hx => (by cases hx), fun hl => (by cases hl)⟩
  intro x hx
  simp only [delimIssues, List.mem_append] at hx
  cases hx with
  | inl hx => exact h.iss x hx
  | inr hx =>
    split at hx
    · rename_i hl
      simp only [List.mem_singleton] at hx; subst hx
      have hl' : (drun cd {} 0 text).last = some ',' := by simpa using hl
      have := h.last (by rw [hl']; rfl)
      exact ⟨rfl, fun k hk => by simp [emptyAt, Issue.plain] at hk; omega⟩
    · simp at hx

theorem charIssuesFrom_props (env : Env) (ph : Bool) : ∀ (s : Str) (n : Nat),
    ∀ x ∈ charIssuesFrom env ph n s, x.span = none ∧ ∀ k, x.chr = some k → k < n + s.length := by
  intro s
  induction s with
  | nil => intro _ x hx; simp [charIssuesFrom] at hx
  | cons c cs ih =>
    intro n x hx
    simp only [charIssuesFrom, List.mem_append, List.length_cons] at hx ⊢
    cases hx with
    | inl h =>
      split at h
      · simp only [List.mem_singleton] at h; subst h
        exact ⟨rfl, fun k hk => by simp [charIssue] at hk; omega⟩
      · simp at h
    | inr h =>
      have := ih (n + 1) x h
      exact ⟨this.1, fun k hk => by have := this.2 k hk; omega⟩

/-- **Character offsets of the string phase.** Every issue of the raw-string checks that carries a
`char_index` (forbidden character, tilde, empty tag) is reported by `validate` and points inside the text. -/
theorem issue_char_index_in_text (env : Env) (ph : Bool) (text : Str) (i : Issue)
    (hi : i ∈ stringIssues env ph text (parse env text)) (k : Nat) (hk : i.chr = some k) :
    i ∈ validate env ph text ∧ k < text.length := by
  refine ⟨reach_string hi, ?_⟩
  simp only [stringIssues, stringPhase, List.mem_append, List.mem_flatMap] at hi
  rcases hi with ((h | h) | h) | ⟨t, _, h⟩
  · have := (charIssuesFrom_props env ph text 0 i h).2 k hk; omega
  · simp only [parenIssues] at h
    split at h
    · simp only [List.mem_singleton] at h; subst h; simp [Issue.plain] at hk
    · simp at h
  · exact (delimIssues_props env.cd text i h).2 k hk
  · simp only [slashIssues, List.mem_map] at h
    obtain ⟨m, _, rfl⟩ := h
    simp [subIssue, Issue.plain] at hk

theorem string_ok (env : Env) (ph : Bool) (text : Str) : ∀ i ∈ S env ph text, IssueOK text i := by
  intro i hi
  simp only [S, stringIssues, stringPhase, List.mem_append, List.mem_flatMap] at hi
  rcases hi with ((h | h) | h) | ⟨t, ht, h⟩
  · exact issueOK_nospan (charIssuesFrom_props env ph text 0 i h).1
  · simp only [parenIssues] at h
    split at h
    · simp only [List.mem_singleton] at h; subst h; exact issueOK_nospan rfl
    · simp at h
  · exact issueOK_nospan (delimIssues_props env.cd text i h).1
  · exact slashIssues_ok (root0_ok env text t ht) i h

/-- **Tag-relative indices.** For every schema / environment / placeholder mode / text: every issue reported by
`validate` that names a tag (span `(s, e)`) and carries an index pair `(a, b)` has `a ≤ b ≤ e − s`, and the
tag lies in the text (`s ≤ e ≤ len(text)`, from C02's `nesting_depth` / `tiling`) — the premise of
`C12.offsets_in_range`.  Hypotheses: `hst` — re-resolving an identified tag from its short form succeeds without an
issue and does not lengthen the remainder (C03's fixpoint; evaluated per case by the driver); `hd` — either no definitions are declared, or the value of a
Def tag is located in the Def tag itself (fixes/C01_def_value_char_index.diff; without it
`def_value_index_counterexample`). -/
theorem issue_indices_in_tag (env : Env) (ph : Bool) (text : Str) (hst : LookupStable env text)
    (hd : env.var.defCharRelocate = true ∨ env.defs = []) (i : Issue) (hi : i ∈ validate env ph text)
    (s e a b : Nat) (hspan : i.span = some (s, e)) (hsub : i.sub = some (a, b)) :
    a ≤ b ∧ b ≤ e - s ∧ s ≤ e ∧ e ≤ text.length := by
  have key : IssueOK text i := by
    rcases (reported_iff_earlier_phases_silent env ph text i).1 hi with h | ⟨_, _, h⟩ | ⟨_, _, _, h⟩ | ⟨_, _, h⟩
    · exact string_ok env ph text i h
    · simp only [T, tagIssues, List.mem_append, List.mem_flatMap] at h
      rcases h with ⟨t, ht, h⟩ | h
      · exact tagCharIssues_ok (root0_ok env text t ht) env ph i h
      · exact lookup_ok env text hst i h
    · simp only [M, semIssues, List.mem_append] at h
      cases h with
      | inl h =>
        simp only [individualPhase, List.mem_flatMap] at h
        obtain ⟨g, hg, t, ht, h⟩ := h
        exact tagSemIssues_ok (root1_ok env text hst t (allGroups_tags _ _ g hg t ht)) env ph _ hd i h
      | inr h =>
        simp only [defPhase, List.mem_flatMap] at h
        obtain ⟨g, _, h⟩ := h
        exact issueOK_nosub (defIssuesOf_nosub env _ i h)
    · exact issueOK_nosub (full_nosub env _ _ i h)
  exact key s e a b hspan hsub

/-! ### conforming annotations -/

/-- **Every rule predicate is false of the text.**  One field per rule of `validate`, in the code's order.
Characters, parentheses and slashes are spelled out on the text / tag text; each other field says that the rule's
function reports no error-severity issue on this tag / group / string (warnings are allowed).  The fields of the
tag-level phases are void for the text `n/a`, which the code sends from the string checks straight to the
full-string checks.  The definition dictionary is part of `env`.
Outside the model altogether (see `Validate.unmodelledP`, and the note in MANIFEST): several schemas at once;
a Def value holding a character the extension rule rejects when the definition's placeholder tag has no unit or
value class; dictionaries that `DefinitionDict` itself rejects. -/
structure Clean (env : Env) (ph : Bool) (text : Str) : Prop where
  chars : ∀ c ∈ text, badChar env ph c = false
  parens : Paren.mismatch text = false
  delim : errors (delimIssues env.cd text) = []
  slashes : ∀ t ∈ tagsList (parse env text).root0, slashMatches 0 0 t.org = []
  tagChars : NA env text = false → ∀ t ∈ tagsList (parse env text).root0, errors (tagCharIssues env ph t) = []
  lookup : NA env text = false → errors (parse env text).lookup = []
  tags : NA env text = false → ∀ g ∈ allGroups text.length (parse env text).root1, ∀ t ∈ directTags g.kids,
    errors (tagSemIssues env ph (isDefGroup env (parse env text).root1 g) t) = []
  noDef : NA env text = false → ∀ g ∈ allGroups text.length (parse env text).root1, errors (defIssuesOf env g.kids) = []
  required : errors (requiredIssues env (tagsList ((parse env text).final env))) = []
  unique : errors (uniqueIssues env (tagsList ((parse env text).final env))) = []
  groups : ∀ g ∈ allGroups text.length ((parse env text).final env), errors (groupIssues env g) = []
  noRepeat : errors (dupIssues env ((parse env text).final env)) = []
  duration : errors (durationIssues env ((parse env text).final env)) = []
  temporal : errors (onsetIssues env ((parse env text).final env)) = []

theorem errors_append_nil {a b : List Issue} : errors (a ++ b) = [] ↔ errors a = [] ∧ errors b = [] := by
  rw [errors_append, List.append_eq_nil_iff]

theorem errors_flatMap_nil_iff {α} (l : List α) (f : α → List Issue) :
    errors (l.flatMap f) = [] ↔ ∀ x ∈ l, errors (f x) = [] := by
  induction l with
  | nil => simp [errors]
  | cons x xs ih =>
    simp only [List.flatMap_cons, errors_append_nil, ih, List.mem_cons, forall_eq_or_imp]

theorem errors_all_error {l : List Issue} (hall : ∀ x ∈ l, x.isError = true) (h : errors l = []) : l = [] := by
  cases l with
  | nil => rfl
  | cons x xs =>
    have : x ∈ errors (x :: xs) := by simp [errors, hall x (by simp)]
    rw [h] at this; simp at this

theorem charIssue_isError (n : Nat) (c : Char) : (charIssue n c).isError = true := by
  cases h : (c == '~') <;> simp [charIssue, h, Issue.isError, Issue.plain] <;> decide

theorem charIssuesFrom_errors (env : Env) (ph : Bool) :
    ∀ (s : Str) (n : Nat), errors (charIssuesFrom env ph n s) = [] → ∀ c ∈ s, badChar env ph c = false := by
  intro s
  induction s with
  | nil => intro _ _ c hc; simp at hc
  | cons d ds ih =>
    intro n h c hc
    simp only [charIssuesFrom, errors_append_nil] at h
    have hd : badChar env ph d = false := by
      cases hb : badChar env ph d with
      | false => rfl
      | true =>
        have h1 := h.1
        simp only [hb, if_true] at h1
        have := errors_all_error (l := [charIssue n d]) (by intro x hx; simp at hx; subst hx; exact charIssue_isError n d) h1
        simp at this
    simp only [List.mem_cons] at hc
    cases hc with
    | inl e => subst e; exact hd
    | inr e => exact ih (n + 1) h.2 c e

theorem slashIssues_errors (t : RTag) (h : errors (slashIssues t) = []) : slashMatches 0 0 t.org = [] := by
  have := errors_all_error (l := slashIssues t) (by
    intro x hx
    simp only [slashIssues, List.mem_map] at hx
    obtain ⟨m, _, rfl⟩ := hx
    rfl) h
  simpa [slashIssues] using this

theorem clean_S {env : Env} {ph : Bool} {text : Str} (h : Clean env ph text) : errors (S env ph text) = [] := by
  simp only [S, stringIssues, stringPhase, errors_append, charIssues, parenIssues]
  rw [charIssuesFrom_nil env ph text 0 h.chars, h.parens, h.delim]
  rw [errors_flatMap_nil _ _ (fun t ht => by simp [slashIssues, h.slashes t ht, errors])]
  simp [errors]

theorem clean_T {env : Env} {ph : Bool} {text : Str} (h : Clean env ph text) (hna : NA env text = false) :
    errors (T env ph text) = [] := by
  simp only [T, tagIssues, errors_append]
  rw [errors_flatMap_nil _ _ (h.tagChars hna), h.lookup hna]
  rfl

theorem clean_M {env : Env} {ph : Bool} {text : Str} (h : Clean env ph text) (hna : NA env text = false) :
    errors (M env ph text) = [] := by
  simp only [M, semIssues, errors_append, individualPhase, defPhase]
  rw [errors_flatMap_nil _ _ (h.noDef hna)]
  rw [errors_flatMap_nil _ _ (fun g hg => errors_flatMap_nil _ _ (h.tags hna g hg))]
  rfl

theorem clean_F {env : Env} {ph : Bool} {text : Str} (h : Clean env ph text) : errors (F env text) = [] := by
  simp only [F, fullIssues, fullPhase, errors_append]
  rw [h.required, h.unique, errors_flatMap_nil _ _ h.groups, h.noRepeat, h.duration, h.temporal]
  rfl

/-- **Rule-conforming ⇒ no error.**  If every rule predicate is false of the text (`Clean`), `validate` reports no
error-severity issue — for every schema / dictionary / placeholder mode / text, without further hypothesis. -/
theorem valid_no_error (env : Env) (ph : Bool) (text : Str) (h : Clean env ph text) :
    errors (validate env ph text) = [] := by
  rw [phase_structure]
  have hS := clean_S h
  have hF := clean_F (ph := ph) h
  split
  · exact hS
  · split
    · simp [errors_append, hS, hF]
    · rename_i hna
      have hna' : NA env text = false := by simpa using hna
      have hT := clean_T h hna'
      have hM := clean_M h hna'
      split
      · simp [errors_append, hS, hT]
      · split
        · simp [errors_append, hS, hT, hM]
        · simp [errors_append, hS, hT, hM, hF]

theorem hasError_of_errors {l : List Issue} (h : hasError l = true) : errors l ≠ [] := by
  intro e
  have := hasError_false_of_errors_nil e
  rw [h] at this; cases this

/-- **No error ⇒ every modelled rule predicate is false.**  The converse: the short-circuits hide nothing — when
`validate` reports no error, every phase ran (or the text is `n/a`) and each rule was silent. -/
theorem no_error_implies_clean (env : Env) (ph : Bool) (text : Str) (h : errors (validate env ph text) = []) :
    Clean env ph text := by
  rw [phase_structure] at h
  have hSF : errors (S env ph text) = [] ∧ errors (F env text) = [] ∧
      (NA env text = false → errors (T env ph text) = [] ∧ errors (M env ph text) = []) := by
    split at h
    · rename_i h1; exact absurd h (hasError_of_errors h1)
    · split at h
      · rename_i hna
        rw [errors_append_nil] at h
        exact ⟨h.1, h.2, fun e => by rw [e] at hna; cases hna⟩
      · split at h
        · rename_i h3; exact absurd h (hasError_of_errors h3)
        · split at h
          · rename_i h4; exact absurd h (hasError_of_errors h4)
          · simp only [errors_append_nil] at h
            exact ⟨h.1.1.1, h.2, fun _ => ⟨h.1.1.2, h.1.2⟩⟩
  obtain ⟨hS, hF, hTM⟩ := hSF
  simp only [S, stringIssues, stringPhase, charIssues, errors_append_nil, errors_flatMap_nil_iff] at hS
  simp only [F, fullIssues, fullPhase, errors_append_nil, errors_flatMap_nil_iff] at hF
  refine ⟨charIssuesFrom_errors env ph text 0 hS.1.1.1, ?_, hS.1.2, fun t ht => slashIssues_errors t (hS.2 t ht),
    fun hna => ?_, fun hna => ?_, fun hna => ?_, fun hna => ?_,
    hF.1.1.1.1.1, hF.1.1.1.1.2, hF.1.1.1.2, hF.1.1.2, hF.1.2, hF.2⟩
  · cases hm : Paren.mismatch text with
    | false => rfl
    | true =>
      have := hS.1.1.2
      simp only [parenIssues, hm, if_true] at this
      have := errors_all_error (l := [({ Issue.plain .parentheses with sub := some (text.count '(', text.count ')') } : Issue)])
        (by intro x hx; simp at hx; subst hx; rfl) this
      simp at this
  · have := (hTM hna).1
    simp only [T, tagIssues, errors_append_nil, errors_flatMap_nil_iff] at this
    exact this.1
  · have := (hTM hna).1
    simp only [T, tagIssues, errors_append_nil] at this
    exact this.2
  · have := (hTM hna).2
    simp only [M, semIssues, individualPhase, errors_append_nil, errors_flatMap_nil_iff] at this
    exact this.1
  · have := (hTM hna).2
    simp only [M, semIssues, defPhase, errors_append_nil, errors_flatMap_nil_iff] at this
    exact this.2

/-- **The verdict, for the modelled fragment:** `validate` reports no error exactly when every rule predicate is
false of the text. -/
theorem no_error_iff_clean (env : Env) (ph : Bool) (text : Str) :
    errors (validate env ph text) = [] ↔ Clean env ph text :=
  ⟨no_error_implies_clean env ph text, valid_no_error env ph text⟩

end HedVerif.C01

/-! ### non-vacuity: a small vocabulary -/
namespace HedVerif.C01.Tiny
open HedVerif HedVerif.Schema HedVerif.Validate HedVerif.C01

def names : List Str :=
  [['R','e','d'], ['I','t','e','m'], ['I','t','e','m','/','O','b','j','e','c','t'], ['L','a','b','e','l'],
   ['L','a','b','e','l','/','#'], ['E','v','e','n','t','-','c','o','n','t','e','x','t'], ['D','e','f'], ['D','e','f','/','#'],
   ['D','e','f','-','e','x','p','a','n','d'], ['D','e','f','-','e','x','p','a','n','d','/','#'],
   ['D','e','f','i','n','i','t','i','o','n'], ['D','e','f','i','n','i','t','i','o','n','/','#']]

/-- Red; Item (extension allowed) > Object; Label (requireChild) > # (takesValue, nameClass);
Event-context (topLevelTagGroup, unique); Def (requireChild) > # -/
def env : Env :=
  { vocab := Vocab.build fold (names.map splitSlash), ns := [],
    attrs := #[{}, { extensionAllowed := true }, { extensionAllowed := true, parent := some 1 }, { requireChild := true },
               { takesValue := true, valueClasses := [['n','a','m','e','C','l','a','s','s']], parent := some 3 },
               { topLevelTagGroup := true, unique := true }, { requireChild := true },
               { takesValue := true, parent := some 6 }, { requireChild := true, tagGroup := true },
               { takesValue := true, parent := some 8 }, { requireChild := true, topLevelTagGroup := true },
               { takesValue := true, parent := some 10 }],
    mods := [], unitClasses := #[], modern := true, cd := {} }

def red : Str := ['R','e','d']
def conf : Str := ['R','e','d',',',' ','(','I','t','e','m','/','X','y',',',' ','L','a','b','e','l','/','a','b',')']

/-- a conforming annotation exists: nested, with an extension and a value, and no error is reported -/
example : errors (validate env false conf) = [] := by decide +kernel
/-- … and it satisfies the spelled-out part of `Clean` -/
example : (∀ c ∈ conf, badChar env false c = false) ∧ Paren.mismatch conf = false ∧ delimIssues env.cd conf = [] := by
  decide +kernel
example : Clean env false red := by
  constructor <;> decide +kernel
/-- a nested annotation with an extension and a value satisfies every rule predicate … -/
example : Clean env false conf := by
  constructor <;> decide +kernel
/-- … `n/a` does too (its tag-level fields are void), and an unknown tag does not -/
example : Clean env false ['n','/','a'] := by
  constructor <;> decide +kernel
example : ¬ Clean env false ['R','e','d',',','Z','z'] := by
  intro h
  have := valid_no_error env false _ h
  revert this
  decide +kernel

/-- each injection kind fires on a concrete text (the hypotheses of the `injected_k` theorems are satisfiable) -/
example : Spec.codeOf .unknownTag ∈ codes (errors (validate env false ['R','e','d',',','Z','z'])) := by decide +kernel
example : Spec.codeOf .forbiddenExtension ∈ codes (errors (validate env false ['R','e','d','/','Z','z'])) := by decide +kernel
example : Spec.codeOf .forbiddenExtension ∈ codes (errors (validate env false ['I','t','e','m','/','Z','/','R','e','d'])) := by
  decide +kernel
example : Spec.codeOf .missingRequiredChild ∈ codes (errors (validate env false ['L','a','b','e','l'])) := by decide +kernel
example : Spec.codeOf .strayPlaceholder ∈ codes (errors (validate env false ['L','a','b','e','l','/','#'])) := by decide +kernel
example : errors (validate env true ['L','a','b','e','l','/','#']) = [] := by decide +kernel
example : Spec.codeOf .unbalanced ∈ codes (errors (validate env false ['(','R','e','d'])) := by decide +kernel
example : Spec.codeOf .emptyDelimiter ∈ codes (errors (validate env false ['R','e','d',',',','])) := by decide +kernel
example : Spec.codeOf .emptyGroup ∈ codes (errors (validate env false ['R','e','d',',','(',')'])) := by decide +kernel
example : Spec.codeOf .forbiddenCharacter ∈ codes (errors (validate env false ['R','e','d','['])) := by decide +kernel
example : Spec.codeOf .repeatedTag ∈ codes (errors (validate env false ['R','e','d',',','r','e','d'])) := by decide +kernel
example : Spec.codeOf .repeatedGroup ∈ codes (errors (validate env false ['(','R','e','d',')',',','(','R','e','d',')'])) := by
  decide +kernel
example : Spec.codeOf .misplacedTopLevel ∈ codes (errors (validate env false
    ['E','v','e','n','t','-','c','o','n','t','e','x','t'])) := by decide +kernel
example : Spec.codeOf .duplicatedUnique ∈ codes (errors (validate env false
    ['(','E','v','e','n','t','-','c','o','n','t','e','x','t',',','R','e','d',')',',',
     '(','E','v','e','n','t','-','c','o','n','t','e','x','t',',','I','t','e','m',')'])) := by decide +kernel
example : Spec.codeOf .undeclaredDef ∈ codes (errors (validate env false ['D','e','f','/','A'])) := by decide +kernel
example : (¬ Spec.codeOf .badValue ∈ codes (errors (validate env false ['L','a','b','e','l','/','a','$']))) ∧
    Spec.codeOf .forbiddenCharacter ∈ codes (errors (validate env false ['L','a','b','e','l','/','a','$'])) := by
  decide +kernel
/-- the empty-duplicate crash of the unchanged duplicate walk is part of the model -/
example : raises env false ['(',')',',','(',')'] = true := by decide +kernel

/-! #### declared definitions -/

def pContent : Str := ['L','a','b','e','l','/','a','a','a','a','#']
/-- definitions `P/#` ↦ `(Label/aaaa#)` and `A` ↦ `(Red)` -/
def envD : Env :=
  { env with defs := [⟨['p'], true, resolveList env pContent (Tree.construct pContent)⟩,
                      ⟨['a'], false, resolveList env red (Tree.construct red)⟩] }
def envDfixed : Env := { envD with var := { defCharRelocate := true } }

def outOfTag (i : Issue) : Bool :=
  match i.span, i.sub with
  | some (s, e), some (_, b) => decide (e - s < b)
  | _, _ => false

/-- **Counter-example on the unchanged code** (`_check_value_class` with `report_as`): the character error of
the value of `Def/P/x$` is reported with an index pair beyond the 8 characters of the tag (real code: 29–30 with
`Label/aaaaaaaaaaaaaaaaaaaaaaaa#`); with `_relocate_errors` every pair is inside. -/
theorem def_value_index_counterexample :
    (validate envD false ['D','e','f','/','P','/','x','$']).any outOfTag = true ∧
    (validate envDfixed false ['D','e','f','/','P','/','x','$']).any outOfTag = false ∧
    Spec.codeOf .forbiddenCharacter ∈ codes (errors (validate envDfixed false ['D','e','f','/','P','/','x','$'])) := by
  decide +kernel

/-- the hypothesis of `issue_indices_in_tag` is satisfiable -/
example : LookupStable env conf := by unfold LookupStable; decide +kernel
example : LookupStable envD ['(','D','e','f','-','e','x','p','a','n','d','/','A',',','(','R','e','d',')',')'] := by
  unfold LookupStable; decide +kernel

/-- correct use of declared definitions satisfies `Clean` (so the iff is not vacuous with a dictionary) -/
example : Clean envD false ['(','D','e','f','-','e','x','p','a','n','d','/','A',',','(','R','e','d',')',')',',','D','e','f','/','P','/','x'] := by
  constructor <;> decide +kernel

/-- correct use of declared definitions reports no error; the two new injection kinds fire -/
example : errors (validate envD false
    ['(','D','e','f','-','e','x','p','a','n','d','/','A',',','(','R','e','d',')',')',',','D','e','f','/','P','/','x']) = [] := by
  decide +kernel
example : Spec.codeOf .wrongDefValue ∈ codes (errors (validate envD false ['D','e','f','/','A','/','3'])) := by decide +kernel
example : Spec.codeOf .wrongDefValue ∈ codes (errors (validate envD false ['D','e','f','/','P'])) := by decide +kernel
example : Spec.codeOf .alteredDefExpand ∈ codes (errors (validate envD false
    ['(','D','e','f','-','e','x','p','a','n','d','/','A',',','(','I','t','e','m',')',')'])) := by decide +kernel
example : Spec.codeOf .undeclaredDef ∈ codes (errors (validate envD false ['D','e','f','/','Z'])) := by decide +kernel

/-! #### definition content is positional (fix 5440313) -/

/-- a copy of the definition's inner group outside the definition: same member order / other order -/
def copySame : Str := ['(','R','e','d',',','(','L','a','b','e','l','/','#',',','I','t','e','m',')',')',',','(','D','e','f','i','n','i','t','i','o','n','/','N','/','#',',','(','L','a','b','e','l','/','#',',','I','t','e','m',')',')']
def copySwapped : Str := ['(','R','e','d',',','(','I','t','e','m',',','L','a','b','e','l','/','#',')',')',',','(','D','e','f','i','n','i','t','i','o','n','/','N','/','#',',','(','L','a','b','e','l','/','#',',','I','t','e','m',')',')']

/-- `is_definition` of every group, in `get_all_groups` order (the string, the outer group, the copy, the
Definition group, its inner group) -/
def defFlags (text : Str) : List Bool :=
  (allGroups text.length (parse env text).root1).map (isDefGroup env (parse env text).root1)
def defFlagsOld (text : Str) : List Bool :=
  (allGroups text.length (parse env text).root1).map (isDefGroupOld env (parse env text).root1)

/-- **Counter-example for the structural test** (`group in all_definition_groups`, before fix 5440313): whether the
copy outside the definition was excused depended on the order of its members; the positional test excuses it in
neither spelling, and both spellings now report the stray placeholder. -/
theorem is_definition_structural_counterexample :
    defFlagsOld copySame = [false, false, true, true, true] ∧
    defFlagsOld copySwapped = [false, false, false, true, true] ∧
    defFlags copySame = [false, false, false, true, true] ∧
    defFlags copySwapped = [false, false, false, true, true] ∧
    Spec.codeOf .strayPlaceholder ∈ codes (errors (validate env false copySame)) ∧
    Spec.codeOf .strayPlaceholder ∈ codes (errors (validate env false copySwapped)) := by
  decide +kernel

/-! #### a schema loaded under a namespace: the capitalisation rule reads the tag name without its prefix -/

def envNs : Env := { env with ns := ['t','l',':'] }

example : (validate envNs false ['t','l',':','r','e','d']).map (·.kind) = [Kind.style] := by decide +kernel
example : validate envNs false ['t','l',':','R','e','d'] = [] := by decide +kernel
example : (validate envNs false ['t','l',':','I','t','e','m','/','X','q']).map (·.kind) = [Kind.tagExtended] := by decide +kernel
example : (validate envNs false ['T','l',':','r','e','d']).map (·.kind) = [Kind.libraryUnmatched] := by decide +kernel
/-- the name after the prefix is what is inspected: `styleIssues` of a tag whose base is `tl:9x` is silent
(`"9x".capitalize() == "9x"`), although `"tl:9x"` as a whole is not capitalised -/
example : styleIssues ⟨(0, 5), ['t','l',':','9','x'], ['t','l',':'], none, []⟩ = [] := by decide

end HedVerif.C01.Tiny
