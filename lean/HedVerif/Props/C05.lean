/-
C05 — Schemas survive saving and reloading in every format.

Theorems about the text grammars shared by the MediaWiki and TSV formats (`Model/SchemaIO.lean`):
attribute strings, wiki entry lines, the tag section, and the save decisions of `process_schema`.
-/
import HedVerif.Model.SchemaIO

namespace HedVerif.SchemaIO

/-! ### characters -/

theorem isLetter_not_space {c : Char} (h : isLetter c = true) : isPySpace c = false := by
  unfold isLetter at h
  unfold isPySpace
  simp only [Bool.or_eq_true, Bool.and_eq_true, decide_eq_true_eq, Bool.or_eq_false_iff,
    Bool.and_eq_false_iff, decide_eq_false_iff_not, beq_eq_false_iff_ne] at h ⊢
  omega

theorem isLetter_ne {c d : Char} (h : isLetter c = true) (hd : isLetter d = false) : c ≠ d := by
  intro e; subst e; simp [h] at hd

/-! ### takeWhile / dropWhile -/

theorem takeWhile_append_stop {α} (p : α → Bool) (a b : List α) (ha : ∀ x ∈ a, p x = true)
    (hb : ∀ x, b.head? = some x → p x = false) : (a ++ b).takeWhile p = a ∧ (a ++ b).dropWhile p = b := by
  induction a with
  | nil =>
    cases b with
    | nil => simp
    | cons x xs => simp [hb x rfl]
  | cons x xs ih =>
    have hx := ha x List.mem_cons_self
    have := ih (fun y hy => ha y (List.mem_cons_of_mem _ hy))
    simp [hx, this.1, this.2]

/-! ### strip -/

theorem rstrip_cons (c : Char) (cs : Str) :
    rstrip (c :: cs) = if (rstrip cs).isEmpty && isPySpace c then [] else c :: rstrip cs := rfl

theorem rstrip_of_last (s : Str) (c : Char) (h : s.getLast? = some c) (hc : isPySpace c = false) :
    rstrip s = s := by
  induction s with
  | nil => simp at h
  | cons a t ih =>
    cases t with
    | nil =>
      simp at h; subst h
      simp [rstrip_cons, rstrip, hc]
    | cons b u =>
      have h' : (b :: u).getLast? = some c := by simpa [List.getLast?_cons_cons] using h
      have := ih h'
      rw [rstrip_cons, this]
      simp

theorem rstrip_append (s t : Str) (ht : rstrip t = t) (hne : t ≠ []) : rstrip (s ++ t) = s ++ t := by
  induction s with
  | nil => simpa using ht
  | cons a u ih =>
    have : (u ++ t) ≠ [] := by simp [hne]
    cases h : u ++ t with
    | nil => exact absurd h this
    | cons x y =>
      rw [List.cons_append, rstrip_cons, ih, h]
      simp

theorem lstrip_of_head (s : Str) (h : ∀ c, s.head? = some c → isPySpace c = false) : lstrip s = s := by
  cases s with
  | nil => rfl
  | cons a t => simp [lstrip, List.dropWhile, h a rfl]

theorem trimmed_head {s : Str} (h : trimmed s = true) : ∀ c, s.head? = some c → isPySpace c = false := by
  intro c hc
  unfold trimmed at h
  simp [hc] at h
  exact h.1

theorem trimmed_rstrip {s : Str} (h : trimmed s = true) : rstrip s = s := by
  cases hl : s.getLast? with
  | none => simp [List.getLast?_eq_none_iff] at hl; subst hl; rfl
  | some c =>
    unfold trimmed at h
    simp [hl] at h
    exact rstrip_of_last s c hl h.2

theorem strip_trimmed {s : Str} (h : trimmed s = true) : strip s = s := by
  unfold strip
  rw [lstrip_of_head s (trimmed_head h), trimmed_rstrip h]

theorem strip_space_cons (s : Str) : strip (' ' :: s) = strip s := by
  unfold strip lstrip
  have : isPySpace ' ' = true := by decide
  simp [List.dropWhile, this]

/-! ### split / join -/

theorem splitOn_none (d : Char) (a : Str) (h : ∀ c ∈ a, c ≠ d) : splitOn d a = [a] := by
  induction a with
  | nil => rfl
  | cons x xs ih =>
    have hx : (x == d) = false := by simpa using h x List.mem_cons_self
    simp [splitOn, hx, ih (fun c hc => h c (List.mem_cons_of_mem _ hc)), consHead]

theorem splitOn_append (d : Char) (a b : Str) (h : ∀ c ∈ a, c ≠ d) :
    splitOn d (a ++ d :: b) = a :: splitOn d b := by
  induction a with
  | nil => simp [splitOn]
  | cons x xs ih =>
    have hx : (x == d) = false := by simpa using h x List.mem_cons_self
    simp [splitOn, hx, ih (fun c hc => h c (List.mem_cons_of_mem _ hc)), consHead]

/-- the pieces of `", ".join(items)` after splitting at `,` -/
def spaced : List Str → List Str
  | [] => []
  | x :: r => x :: r.map (' ' :: ·)

theorem splitOn_join (items : List Str) (hne : items ≠ []) (h : ∀ x ∈ items, ∀ c ∈ x, c ≠ ',') :
    splitOn ',' (joinWith [',', ' '] items) = spaced items := by
  induction items with
  | nil => exact absurd rfl hne
  | cons x r ih =>
    cases r with
    | nil => simp [joinWith, spaced, splitOn_none ',' x (h x List.mem_cons_self)]
    | cons y r' =>
      have ih' := ih (by simp) (fun z hz => h z (List.mem_cons_of_mem _ hz))
      have hs : (' ' == ',') = false := by decide
      simp only [joinWith, List.append_assoc, List.cons_append, List.nil_append]
      rw [splitOn_append ',' x _ (h x List.mem_cons_self)]
      simp [splitOn, hs, ih', spaced, consHead]

theorem joinWith_ne_nil (sep x : Str) (r : List Str) (hx : x ≠ []) : joinWith sep (x :: r) ≠ [] := by
  cases r with
  | nil => simpa [joinWith] using hx
  | cons y r' => simp [joinWith, hx]

end HedVerif.SchemaIO
