/-
C05 — Schemas survive saving and reloading in every format.

Theorems about the text grammars shared by the MediaWiki and TSV formats (`Model/SchemaIO.lean`):
attribute strings, wiki entry lines, the tag section, and the save decisions of `process_schema`.
-/
import HedVerif.Model.SchemaIO

namespace HedVerif.SchemaIO

/-! ### characters -/

theorem isLetter_not_space {c : Char} (h : isLetter c = true) : isPySpace c = false := by
  unfold isLetter at h
  unfold isPySpace
  simp only [Bool.or_eq_true, Bool.and_eq_true, decide_eq_true_eq, Bool.or_eq_false_iff,
    Bool.and_eq_false_iff, decide_eq_false_iff_not, beq_eq_false_iff_ne] at h ⊢
  omega

theorem isLetter_ne {c d : Char} (h : isLetter c = true) (hd : isLetter d = false) : c ≠ d := by
  intro e; subst e; simp [h] at hd

/-! ### takeWhile / dropWhile -/

theorem takeWhile_append_stop {α} (p : α → Bool) (a b : List α) (ha : ∀ x ∈ a, p x = true)
    (hb : ∀ x, b.head? = some x → p x = false) : (a ++ b).takeWhile p = a ∧ (a ++ b).dropWhile p = b := by
  induction a with
  | nil =>
    cases b with
    | nil => simp
    | cons x xs => simp [hb x rfl]
  | cons x xs ih =>
    have hx := ha x List.mem_cons_self
    have := ih (fun y hy => ha y (List.mem_cons_of_mem _ hy))
    simp [hx, this.1, this.2]

/-! ### strip -/

theorem rstrip_cons (c : Char) (cs : Str) :
    rstrip (c :: cs) = if (rstrip cs).isEmpty && isPySpace c then [] else c :: rstrip cs := rfl

theorem rstrip_of_last (s : Str) (c : Char) (h : s.getLast? = some c) (hc : isPySpace c = false) :
    rstrip s = s := by
  induction s with
  | nil => simp at h
  | cons a t ih =>
    cases t with
    | nil =>
      simp at h; subst h
      simp [rstrip_cons, rstrip, hc]
    | cons b u =>
      have h' : (b :: u).getLast? = some c := by simpa [List.getLast?_cons_cons] using h
      have := ih h'
      rw [rstrip_cons, this]
      simp

theorem rstrip_append (s t : Str) (ht : rstrip t = t) (hne : t ≠ []) : rstrip (s ++ t) = s ++ t := by
  induction s with
  | nil => simpa using ht
  | cons a u ih =>
    have : (u ++ t) ≠ [] := by simp [hne]
    cases h : u ++ t with
    | nil => exact absurd h this
    | cons x y =>
      rw [List.cons_append, rstrip_cons, ih, h]
      simp

theorem lstrip_of_head (s : Str) (h : ∀ c, s.head? = some c → isPySpace c = false) : lstrip s = s := by
  cases s with
  | nil => rfl
  | cons a t => simp [lstrip, List.dropWhile, h a rfl]

theorem trimmed_head {s : Str} (h : trimmed s = true) : ∀ c, s.head? = some c → isPySpace c = false := by
  intro c hc
  unfold trimmed at h
  simp [hc] at h
  exact h.1

theorem trimmed_rstrip {s : Str} (h : trimmed s = true) : rstrip s = s := by
  cases hl : s.getLast? with
  | none => simp [List.getLast?_eq_none_iff] at hl; subst hl; rfl
  | some c =>
    unfold trimmed at h
    simp [hl] at h
    exact rstrip_of_last s c hl h.2

theorem strip_trimmed {s : Str} (h : trimmed s = true) : strip s = s := by
  unfold strip
  rw [lstrip_of_head s (trimmed_head h), trimmed_rstrip h]

theorem strip_space_cons (s : Str) : strip (' ' :: s) = strip s := by
  unfold strip lstrip
  have : isPySpace ' ' = true := by decide
  simp [List.dropWhile, this]

/-! ### split / join -/

theorem splitOn_none (d : Char) (a : Str) (h : ∀ c ∈ a, c ≠ d) : splitOn d a = [a] := by
  induction a with
  | nil => rfl
  | cons x xs ih =>
    have hx : (x == d) = false := by simpa using h x List.mem_cons_self
    simp [splitOn, hx, ih (fun c hc => h c (List.mem_cons_of_mem _ hc)), consHead]

theorem splitOn_append (d : Char) (a b : Str) (h : ∀ c ∈ a, c ≠ d) :
    splitOn d (a ++ d :: b) = a :: splitOn d b := by
  induction a with
  | nil => simp [splitOn]
  | cons x xs ih =>
    have hx : (x == d) = false := by simpa using h x List.mem_cons_self
    simp [splitOn, hx, ih (fun c hc => h c (List.mem_cons_of_mem _ hc)), consHead]

/-- the pieces of `", ".join(items)` after splitting at `,` -/
def spaced : List Str → List Str
  | [] => []
  | x :: r => x :: r.map (' ' :: ·)

theorem splitOn_join (items : List Str) (hne : items ≠ []) (h : ∀ x ∈ items, ∀ c ∈ x, c ≠ ',') :
    splitOn ',' (joinWith [',', ' '] items) = spaced items := by
  induction items with
  | nil => exact absurd rfl hne
  | cons x r ih =>
    cases r with
    | nil => simp [joinWith, spaced, splitOn_none ',' x (h x List.mem_cons_self)]
    | cons y r' =>
      have ih' := ih (by simp) (fun z hz => h z (List.mem_cons_of_mem _ hz))
      have hs : (' ' == ',') = false := by decide
      simp only [joinWith, List.append_assoc, List.cons_append, List.nil_append]
      rw [splitOn_append ',' x _ (h x List.mem_cons_self)]
      simp [splitOn, hs, ih', spaced, consHead]

theorem joinWith_ne_nil (sep x : Str) (r : List Str) (hx : x ≠ []) : joinWith sep (x :: r) ≠ [] := by
  cases r with
  | nil => simpa [joinWith] using hx
  | cons y r' => simp [joinWith, hx]

/-! ### attribute items -/

theorem keyWF_spec {k : Str} (h : keyWF k = true) : k ≠ [] ∧ ∀ c ∈ k, isLetter c = true := by
  unfold keyWF at h
  simp only [Bool.and_eq_true, Bool.not_eq_true', List.isEmpty_eq_false_iff, List.all_eq_true] at h
  exact ⟨h.1, h.2⟩

theorem valWF_spec {v : Str} (h : valWF v = true) :
    v ≠ [] ∧ trimmed v = true ∧ ∀ c ∈ v, c ≠ ',' ∧ c ≠ '=' ∧ c ≠ '\n' := by
  unfold valWF at h
  simp only [Bool.and_eq_true, Bool.not_eq_true', List.isEmpty_eq_false_iff, List.all_eq_true,
    bne_iff_ne, ne_eq] at h
  exact ⟨h.1.1, h.1.2, fun c hc => ⟨(h.2 c hc).1.1, (h.2 c hc).1.2, (h.2 c hc).2⟩⟩

theorem letters_take_drop (k rest : Str) (hk : ∀ c ∈ k, isLetter c = true)
    (hr : ∀ x, rest.head? = some x → isLetter x = false) :
    (k ++ rest).takeWhile isLetter = k ∧ (k ++ rest).dropWhile isLetter = rest :=
  takeWhile_append_stop isLetter k rest hk hr

theorem validItem_flag (k : Str) (hk : keyWF k = true) : validItem k = true := by
  obtain ⟨hne, hl⟩ := keyWF_spec hk
  have := letters_take_drop k [] hl (by simp)
  simp only [List.append_nil] at this
  unfold validItem
  rw [this.1, this.2]
  simp [hne]

theorem validItem_kv (k v : Str) (hk : keyWF k = true) (hv : valWF v = true) :
    validItem (k ++ '=' :: v) = true := by
  obtain ⟨hne, hl⟩ := keyWF_spec hk
  obtain ⟨hvne, _, hvc⟩ := valWF_spec hv
  have := letters_take_drop k ('=' :: v) hl (by intro x hx; simp at hx; subst hx; decide)
  unfold validItem
  rw [this.1, this.2]
  simp only [Bool.and_eq_true, Bool.not_eq_true', List.isEmpty_eq_false_iff, List.all_eq_true, bne_iff_ne]
  exact ⟨hne, by decide, hvne, fun c hc => (hvc c hc).2.2⟩

theorem letter_ne_eq {c : Char} (h : isLetter c = true) : c ≠ '=' := isLetter_ne h (by decide)
theorem letter_ne_comma {c : Char} (h : isLetter c = true) : c ≠ ',' := isLetter_ne h (by decide)

theorem splitEq_flag (k : Str) (hk : keyWF k = true) : splitOn '=' k = [k] :=
  splitOn_none '=' k (fun c hc => letter_ne_eq ((keyWF_spec hk).2 c hc))

theorem splitEq_kv (k v : Str) (hk : keyWF k = true) (hv : valWF v = true) :
    splitOn '=' (k ++ '=' :: v) = [k, v] := by
  rw [splitOn_append '=' k v (fun c hc => letter_ne_eq ((keyWF_spec hk).2 c hc)),
    splitOn_none '=' v (fun c hc => ((valWF_spec hv).2.2 c hc).2.1)]

theorem strip_flag (k : Str) (hk : keyWF k = true) : strip k = k := by
  obtain ⟨hne, hl⟩ := keyWF_spec hk
  apply strip_trimmed
  unfold trimmed
  cases k with
  | nil => exact absurd rfl hne
  | cons a t =>
    have h1 := isLetter_not_space (hl a List.mem_cons_self)
    have h2 : ∀ c, (a :: t).getLast? = some c → isPySpace c = false := by
      intro c hc
      exact isLetter_not_space (hl c (List.mem_of_getLast? hc))
    cases hg : (a :: t).getLast? with
    | none => simp at hg
    | some c => simp [h1, h2 c hg]

theorem strip_kv (k v : Str) (hk : keyWF k = true) (hv : valWF v = true) :
    strip (k ++ '=' :: v) = k ++ '=' :: v := by
  obtain ⟨hne, hl⟩ := keyWF_spec hk
  obtain ⟨hvne, hvt, _⟩ := valWF_spec hv
  unfold strip
  rw [lstrip_of_head]
  · apply rstrip_append
    · rw [rstrip_cons, trimmed_rstrip hvt]
      simp [hvne]
    · simp
  · intro c hc
    cases k with
    | nil => exact absurd rfl hne
    | cons a t =>
      simp at hc; subst hc
      exact isLetter_not_space (hl a List.mem_cons_self)

/-! ### the dictionary updates -/

theorem hasKey_false {acc : Attrs} {k : Str} (h : hasKey acc k = false) : ∀ x ∈ acc, (x.1 == k) = false := by
  unfold hasKey at h
  simpa using h

theorem map_upd_notin (acc : Attrs) (k : Str) (g : Str × List Str → Str × List Str)
    (h : ∀ x ∈ acc, (x.1 == k) = false) : acc.map (fun kv => if kv.1 == k then g kv else kv) = acc := by
  induction acc with
  | nil => rfl
  | cons a t ih =>
    simp [h a List.mem_cons_self, ih (fun x hx => h x (List.mem_cons_of_mem _ hx))]

theorem find_notin (acc : Attrs) (k : Str) (h : ∀ x ∈ acc, (x.1 == k) = false) :
    acc.find? (·.1 == k) = none := by
  simp only [List.find?_eq_none]
  intro x hx
  simp [h x hx]

theorem setAttr_flag_new (acc : Attrs) (k : Str) (h : hasKey acc k = false) :
    setAttr acc k none = .ok (acc ++ [(k, [])]) := by
  simp [setAttr, h]

theorem setAttr_val_new (acc : Attrs) (k v : Str) (h : hasKey acc k = false) :
    setAttr acc k (some v) = .ok (acc ++ [(k, [v])]) := by
  simp [setAttr, find_notin acc k (hasKey_false h)]

theorem setAttr_val_more (acc : Attrs) (k v : Str) (l : List Str) (h : hasKey acc k = false) (hl : l ≠ []) :
    setAttr (acc ++ [(k, l)]) k (some v) = .ok (acc ++ [(k, l ++ [v])]) := by
  have hf : (acc ++ [(k, l)]).find? (·.1 == k) = some (k, l) := by
    simp [List.find?_append, find_notin acc k (hasKey_false h)]
  cases l with
  | nil => exact absurd rfl hl
  | cons a t =>
    simp only [setAttr, hf]
    simp [map_upd_notin acc k _ (hasKey_false h)]

theorem parseItems_values (k : Str) (hk : keyWF k = true) (vs : List Str) (hvs : ∀ v ∈ vs, valWF v = true)
    (rest : List Str) (acc : Attrs) (hacc : hasKey acc k = false) (l : List Str) (hl : l ≠ []) :
    parseItems (vs.map (fun x => k ++ '=' :: x) ++ rest) (acc ++ [(k, l)]) =
      parseItems rest (acc ++ [(k, l ++ vs)]) := by
  induction vs generalizing l with
  | nil => simp
  | cons v vs ih =>
    have hv := hvs v List.mem_cons_self
    simp only [List.map_cons, List.cons_append, parseItems, validItem_kv k v hk hv, splitEq_kv k v hk hv,
      setAttr_val_more acc k v l hacc hl]
    simp only [Bool.not_true, Bool.false_eq_true, ↓reduceIte, Except.bind]
    rw [ih (fun x hx => hvs x (List.mem_cons_of_mem _ hx)) (l ++ [v]) (by simp)]
    simp

theorem hasKey_append_single (acc : Attrs) (k k' : Str) (l : List Str) (h : hasKey acc k' = false)
    (hne : (k == k') = false) : hasKey (acc ++ [(k, l)]) k' = false := by
  unfold hasKey at *
  simp only [List.any_append, h, List.any_cons, hne, List.any_nil, Bool.or_self]

theorem parseItems_format (as : Attrs) (acc : Attrs)
    (hwf : ∀ kv ∈ as, keyWF kv.1 = true ∧ ∀ v ∈ kv.2, valWF v = true) (hnd : nodupKeys as = true)
    (hdis : ∀ kv ∈ as, hasKey acc kv.1 = false) :
    parseItems (formatItems as) acc = .ok (acc ++ as) := by
  induction as generalizing acc with
  | nil => simp [formatItems, parseItems]
  | cons kv r ih =>
    obtain ⟨k, vs⟩ := kv
    have hk := (hwf (k, vs) List.mem_cons_self).1
    have hvs := (hwf (k, vs) List.mem_cons_self).2
    have hacc := hdis (k, vs) List.mem_cons_self
    simp only [nodupKeys, Bool.and_eq_true, Bool.not_eq_true'] at hnd
    have hr : ∀ kv' ∈ r, hasKey (acc ++ [(k, vs)]) kv'.1 = false := by
      intro kv' hkv'
      apply hasKey_append_single _ _ _ _ (hdis kv' (List.mem_cons_of_mem _ hkv'))
      have := hasKey_false hnd.1 kv' hkv'
      simpa [beq_eq_false_iff_ne, eq_comm] using this
    have ih' := ih (acc ++ [(k, vs)]) (fun x hx => hwf x (List.mem_cons_of_mem _ hx)) hnd.2 hr
    cases vs with
    | nil =>
      simp only [formatItems, parseItems, validItem_flag k hk, splitEq_flag k hk, setAttr_flag_new acc k hacc]
      simp only [Bool.not_true, Bool.false_eq_true, ↓reduceIte, Except.bind]
      rw [ih']; simp
    | cons v vs' =>
      have hv := hvs v List.mem_cons_self
      simp only [formatItems, List.map_cons, List.cons_append, parseItems, validItem_kv k v hk hv,
        splitEq_kv k v hk hv, setAttr_val_new acc k v hacc]
      simp only [Bool.not_true, Bool.false_eq_true, ↓reduceIte, Except.bind]
      rw [parseItems_values k hk vs' (fun x hx => hvs x (List.mem_cons_of_mem _ hx)) _ acc hacc [v] (by simp)]
      simpa using ih'

theorem mem_formatItems {as : Attrs} {x : Str} (h : x ∈ formatItems as) :
    ∃ kv ∈ as, (kv.2 = [] ∧ x = kv.1) ∨ (∃ v ∈ kv.2, x = kv.1 ++ '=' :: v) := by
  induction as with
  | nil => simp [formatItems] at h
  | cons kv r ih =>
    obtain ⟨k, vs⟩ := kv
    cases vs with
    | nil =>
      simp only [formatItems, List.mem_cons] at h
      rcases h with h | h
      · exact ⟨(k, []), List.mem_cons_self, Or.inl ⟨rfl, h⟩⟩
      · obtain ⟨kv, hkv, hx⟩ := ih h
        exact ⟨kv, List.mem_cons_of_mem _ hkv, hx⟩
    | cons v vs' =>
      simp only [formatItems, List.mem_append, List.mem_map] at h
      rcases h with ⟨w, hw, rfl⟩ | h
      · exact ⟨(k, v :: vs'), List.mem_cons_self, Or.inr ⟨w, hw, rfl⟩⟩
      · obtain ⟨kv, hkv, hx⟩ := ih h
        exact ⟨kv, List.mem_cons_of_mem _ hkv, hx⟩

theorem attrsWF_spec {as : Attrs} (h : attrsWF as = true) :
    nodupKeys as = true ∧ ∀ kv ∈ as, keyWF kv.1 = true ∧ ∀ v ∈ kv.2, valWF v = true := by
  unfold attrsWF at h
  simp only [Bool.and_eq_true, List.all_eq_true] at h
  exact ⟨h.1, fun kv hkv => ⟨(h.2 kv hkv).1, (h.2 kv hkv).2⟩⟩

theorem item_props {as : Attrs} (h : attrsWF as = true) {x : Str} (hx : x ∈ formatItems as) :
    strip x = x ∧ x ≠ [] ∧ ∀ c ∈ x, c ≠ ',' := by
  obtain ⟨_, hwf⟩ := attrsWF_spec h
  obtain ⟨kv, hkv, hc⟩ := mem_formatItems hx
  have hk := (hwf kv hkv).1
  obtain ⟨hne, hl⟩ := keyWF_spec hk
  rcases hc with ⟨_, rfl⟩ | ⟨v, hv, rfl⟩
  · exact ⟨strip_flag _ hk, hne, fun c hc => letter_ne_comma (hl c hc)⟩
  · have hvw := (hwf kv hkv).2 v hv
    refine ⟨strip_kv _ v hk hvw, by simp, ?_⟩
    intro c hc
    simp only [List.mem_append, List.mem_cons] at hc
    rcases hc with hc | rfl | hc
    · exact letter_ne_comma (hl c hc)
    · decide
    · exact ((valWF_spec hvw).2.2 c hc).1

theorem map_strip_spaced (items : List Str) (h : ∀ x ∈ items, strip x = x) :
    (spaced items).map strip = items := by
  cases items with
  | nil => rfl
  | cons x r =>
    simp only [spaced, List.map_cons, List.map_map, h x List.mem_cons_self, List.cons.injEq, true_and]
    have : ∀ y ∈ r, (strip ∘ fun s => ' ' :: s) y = y := by
      intro y hy
      simp [strip_space_cons, h y (List.mem_cons_of_mem _ hy)]
    calc r.map (strip ∘ fun s => ' ' :: s) = r.map id := List.map_congr_left this
      _ = r := by simp

end HedVerif.SchemaIO

namespace HedVerif.C05
open HedVerif.SchemaIO

/-- **Attribute strings round-trip.**  For every attribute dictionary whose names are `[A-Za-z]+`, pairwise
distinct, and whose values are non-empty, trimmed and free of `,` `=` and newline, the reader
(`parse_attribute_string`) applied to what the writer (`_format_tag_attributes`) produces gives the dictionary
back: same names in the same order, every value list (multi-valued attributes included) intact. -/
theorem attr_roundtrip (as : Attrs) (h : attrsWF as = true) : parseAttr (formatAttr as) = .ok as := by
  unfold parseAttr formatAttr
  cases has : as with
  | nil => simp [formatItems, joinWith]
  | cons kv r =>
    rw [← has]
    have hitems : formatItems as ≠ [] := by
      subst has
      obtain ⟨k, vs⟩ := kv
      cases vs <;> simp [formatItems]
    obtain ⟨x, xs, hx⟩ := List.exists_cons_of_ne_nil hitems
    have hxne : x ≠ [] := (item_props h (x := x) (by rw [hx]; exact List.mem_cons_self)).2.1
    have hjoin : (joinWith [',', ' '] (formatItems as)).isEmpty = false := by
      rw [hx]; simpa using joinWith_ne_nil _ x xs hxne
    rw [hjoin]
    simp only [Bool.false_eq_true, ↓reduceIte]
    rw [splitOn_join _ hitems (fun y hy => (item_props h hy).2.2),
      map_strip_spaced _ (fun y hy => (item_props h hy).1)]
    obtain ⟨hnd, hwf⟩ := attrsWF_spec h
    simpa using parseItems_format as [] hwf hnd (by intro kv _; rfl)

/-- multi-valued attributes (`suggestedTag=a, suggestedTag=b`) survive with all their values, in order -/
theorem attr_multivalue_survives (as : Attrs) (h : attrsWF as = true) (k : Str) (vs : List Str)
    (hk : (k, vs) ∈ as) : ∃ bs, parseAttr (formatAttr as) = .ok bs ∧ (k, vs) ∈ bs :=
  ⟨as, attr_roundtrip as h, hk⟩

example : attrsWF [(['a'], []), (['b'], [['c'], ['d', ' ', 'e']])] = true := by decide
example : formatAttr [(['a'], []), (['b'], [['c'], ['d']])] = "a, b=c, b=d".toList := by decide

end HedVerif.C05
