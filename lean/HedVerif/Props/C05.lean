/-
C05 — Schemas survive saving and reloading in every format.

Theorems about the text grammars shared by the MediaWiki and TSV formats (`Model/SchemaIO.lean`):
attribute strings, wiki entry lines, the tag section, and the save decisions of `process_schema`.
-/
import HedVerif.Model.SchemaIO

namespace HedVerif.SchemaIO

/-! ### characters -/

theorem isLetter_not_space {c : Char} (h : isLetter c = true) : isPySpace c = false := by
  unfold isLetter at h
  unfold isPySpace
  simp only [Bool.or_eq_true, Bool.and_eq_true, decide_eq_true_eq, Bool.or_eq_false_iff,
    Bool.and_eq_false_iff, decide_eq_false_iff_not, beq_eq_false_iff_ne] at h ⊢
  omega

theorem isLetter_ne {c d : Char} (h : isLetter c = true) (hd : isLetter d = false) : c ≠ d := by
  intro e; subst e; simp [h] at hd

/-! ### takeWhile / dropWhile -/

theorem takeWhile_append_stop {α} (p : α → Bool) (a b : List α) (ha : ∀ x ∈ a, p x = true)
    (hb : ∀ x, b.head? = some x → p x = false) : (a ++ b).takeWhile p = a ∧ (a ++ b).dropWhile p = b := by
  induction a with
  | nil =>
    cases b with
    | nil => simp
    | cons x xs => simp [hb x rfl]
  | cons x xs ih =>
    have hx := ha x List.mem_cons_self
    have := ih (fun y hy => ha y (List.mem_cons_of_mem _ hy))
    simp [hx, this.1, this.2]

/-! ### strip -/

theorem rstrip_cons (c : Char) (cs : Str) :
    rstrip (c :: cs) = if (rstrip cs).isEmpty && isPySpace c then [] else c :: rstrip cs := rfl

theorem rstrip_of_last (s : Str) (c : Char) (h : s.getLast? = some c) (hc : isPySpace c = false) :
    rstrip s = s := by
  induction s with
  | nil => simp at h
  | cons a t ih =>
    cases t with
    | nil =>
      simp at h; subst h
      simp [rstrip_cons, rstrip, hc]
    | cons b u =>
      have h' : (b :: u).getLast? = some c := by simpa [List.getLast?_cons_cons] using h
      have := ih h'
      rw [rstrip_cons, this]
      simp

theorem rstrip_append (s t : Str) (ht : rstrip t = t) (hne : t ≠ []) : rstrip (s ++ t) = s ++ t := by
  induction s with
  | nil => simpa using ht
  | cons a u ih =>
    have : (u ++ t) ≠ [] := by simp [hne]
    cases h : u ++ t with
    | nil => exact absurd h this
    | cons x y =>
      rw [List.cons_append, rstrip_cons, ih, h]
      simp

theorem lstrip_of_head (s : Str) (h : ∀ c, s.head? = some c → isPySpace c = false) : lstrip s = s := by
  cases s with
  | nil => rfl
  | cons a t => simp [lstrip, List.dropWhile, h a rfl]

theorem trimmed_head {s : Str} (h : trimmed s = true) : ∀ c, s.head? = some c → isPySpace c = false := by
  intro c hc
  unfold trimmed at h
  simp [hc] at h
  exact h.1

theorem trimmed_rstrip {s : Str} (h : trimmed s = true) : rstrip s = s := by
  cases hl : s.getLast? with
  | none => simp [List.getLast?_eq_none_iff] at hl; subst hl; rfl
  | some c =>
    unfold trimmed at h
    simp [hl] at h
    exact rstrip_of_last s c hl h.2

theorem strip_trimmed {s : Str} (h : trimmed s = true) : strip s = s := by
  unfold strip
  rw [lstrip_of_head s (trimmed_head h), trimmed_rstrip h]

theorem strip_space_cons (s : Str) : strip (' ' :: s) = strip s := by
  unfold strip lstrip
  have : isPySpace ' ' = true := by decide
  simp [List.dropWhile, this]

/-! ### split / join -/

theorem splitOn_none (d : Char) (a : Str) (h : ∀ c ∈ a, c ≠ d) : splitOn d a = [a] := by
  induction a with
  | nil => rfl
  | cons x xs ih =>
    have hx : (x == d) = false := by simpa using h x List.mem_cons_self
    simp [splitOn, hx, ih (fun c hc => h c (List.mem_cons_of_mem _ hc)), consHead]

theorem splitOn_append (d : Char) (a b : Str) (h : ∀ c ∈ a, c ≠ d) :
    splitOn d (a ++ d :: b) = a :: splitOn d b := by
  induction a with
  | nil => simp [splitOn]
  | cons x xs ih =>
    have hx : (x == d) = false := by simpa using h x List.mem_cons_self
    simp [splitOn, hx, ih (fun c hc => h c (List.mem_cons_of_mem _ hc)), consHead]

/-- the pieces of `", ".join(items)` after splitting at `,` -/
def spaced : List Str → List Str
  | [] => []
  | x :: r => x :: r.map (' ' :: ·)

theorem splitOn_join (items : List Str) (hne : items ≠ []) (h : ∀ x ∈ items, ∀ c ∈ x, c ≠ ',') :
    splitOn ',' (joinWith [',', ' '] items) = spaced items := by
  induction items with
  | nil => exact absurd rfl hne
  | cons x r ih =>
    cases r with
    | nil => simp [joinWith, spaced, splitOn_none ',' x (h x List.mem_cons_self)]
    | cons y r' =>
      have ih' := ih (by simp) (fun z hz => h z (List.mem_cons_of_mem _ hz))
      have hs : (' ' == ',') = false := by decide
      simp only [joinWith, List.append_assoc, List.cons_append, List.nil_append]
      rw [splitOn_append ',' x _ (h x List.mem_cons_self)]
      simp [splitOn, hs, ih', spaced, consHead]

theorem joinWith_ne_nil (sep x : Str) (r : List Str) (hx : x ≠ []) : joinWith sep (x :: r) ≠ [] := by
  cases r with
  | nil => simpa [joinWith] using hx
  | cons y r' => simp [joinWith, hx]

/-! ### attribute items -/

theorem keyWF_spec {k : Str} (h : keyWF k = true) : k ≠ [] ∧ ∀ c ∈ k, isLetter c = true := by
  unfold keyWF at h
  simp only [Bool.and_eq_true, Bool.not_eq_true', List.isEmpty_eq_false_iff, List.all_eq_true] at h
  exact ⟨h.1, h.2⟩

theorem valWF_spec {v : Str} (h : valWF v = true) :
    v ≠ [] ∧ trimmed v = true ∧ ∀ c ∈ v, c ≠ ',' ∧ c ≠ '=' ∧ c ≠ '\n' := by
  unfold valWF at h
  simp only [Bool.and_eq_true, Bool.not_eq_true', List.isEmpty_eq_false_iff, List.all_eq_true,
    bne_iff_ne, ne_eq] at h
  exact ⟨h.1.1, h.1.2, fun c hc => ⟨(h.2 c hc).1.1, (h.2 c hc).1.2, (h.2 c hc).2⟩⟩

theorem letters_take_drop (k rest : Str) (hk : ∀ c ∈ k, isLetter c = true)
    (hr : ∀ x, rest.head? = some x → isLetter x = false) :
    (k ++ rest).takeWhile isLetter = k ∧ (k ++ rest).dropWhile isLetter = rest :=
  takeWhile_append_stop isLetter k rest hk hr

theorem validItem_flag (k : Str) (hk : keyWF k = true) : validItem k = true := by
  obtain ⟨hne, hl⟩ := keyWF_spec hk
  have := letters_take_drop k [] hl (by simp)
  simp only [List.append_nil] at this
  unfold validItem
  rw [this.1, this.2]
  simp [hne]

theorem validItem_kv (k v : Str) (hk : keyWF k = true) (hv : valWF v = true) :
    validItem (k ++ '=' :: v) = true := by
  obtain ⟨hne, hl⟩ := keyWF_spec hk
  obtain ⟨hvne, _, hvc⟩ := valWF_spec hv
  have := letters_take_drop k ('=' :: v) hl (by intro x hx; simp at hx; subst hx; decide)
  unfold validItem
  rw [this.1, this.2]
  simp only [Bool.and_eq_true, Bool.not_eq_true', List.isEmpty_eq_false_iff, List.all_eq_true, bne_iff_ne]
  exact ⟨hne, ⟨by simp, hvne⟩, fun c hc => (hvc c hc).2.2⟩

theorem letter_ne_eq {c : Char} (h : isLetter c = true) : c ≠ '=' := isLetter_ne h (by decide)
theorem letter_ne_comma {c : Char} (h : isLetter c = true) : c ≠ ',' := isLetter_ne h (by decide)

theorem splitEq_flag (k : Str) (hk : keyWF k = true) : splitOn '=' k = [k] :=
  splitOn_none '=' k (fun c hc => letter_ne_eq ((keyWF_spec hk).2 c hc))

theorem splitEq_kv (k v : Str) (hk : keyWF k = true) (hv : valWF v = true) :
    splitOn '=' (k ++ '=' :: v) = [k, v] := by
  rw [splitOn_append '=' k v (fun c hc => letter_ne_eq ((keyWF_spec hk).2 c hc)),
    splitOn_none '=' v (fun c hc => ((valWF_spec hv).2.2 c hc).2.1)]

theorem strip_flag (k : Str) (hk : keyWF k = true) : strip k = k := by
  obtain ⟨hne, hl⟩ := keyWF_spec hk
  apply strip_trimmed
  unfold trimmed
  cases k with
  | nil => exact absurd rfl hne
  | cons a t =>
    have h1 := isLetter_not_space (hl a List.mem_cons_self)
    have h2 : ∀ c, (a :: t).getLast? = some c → isPySpace c = false := by
      intro c hc
      exact isLetter_not_space (hl c (List.mem_of_getLast? hc))
    cases hg : (a :: t).getLast? with
    | none => simp at hg
    | some c => simp [h1, h2 c hg]

theorem strip_kv (k v : Str) (hk : keyWF k = true) (hv : valWF v = true) :
    strip (k ++ '=' :: v) = k ++ '=' :: v := by
  obtain ⟨hne, hl⟩ := keyWF_spec hk
  obtain ⟨hvne, hvt, _⟩ := valWF_spec hv
  unfold strip
  rw [lstrip_of_head]
  · apply rstrip_append
    · rw [rstrip_cons, trimmed_rstrip hvt]
      simp [hvne]
    · simp
  · intro c hc
    cases k with
    | nil => exact absurd rfl hne
    | cons a t =>
      simp at hc; subst hc
      exact isLetter_not_space (hl a List.mem_cons_self)

/-! ### the dictionary updates -/

theorem hasKey_false {acc : Attrs} {k : Str} (h : hasKey acc k = false) : ∀ x ∈ acc, x.1 ≠ k := by
  unfold hasKey at h
  simpa using h

theorem map_upd_notin (acc : Attrs) (k : Str) (g : Str × List Str → Str × List Str)
    (h : ∀ x ∈ acc, x.1 ≠ k) : acc.map (fun kv => if kv.1 = k then g kv else kv) = acc := by
  induction acc with
  | nil => rfl
  | cons a t ih =>
    have := h a List.mem_cons_self
    simp [this, ih (fun x hx => h x (List.mem_cons_of_mem _ hx))]

theorem find_notin (acc : Attrs) (k : Str) (h : ∀ x ∈ acc, x.1 ≠ k) :
    acc.find? (·.1 == k) = none := by
  simp only [List.find?_eq_none]
  intro x hx
  simp [h x hx]

theorem setAttr_flag_new (acc : Attrs) (k : Str) (h : hasKey acc k = false) :
    setAttr acc k none = .ok (acc ++ [(k, [])]) := by
  simp [setAttr, h]

theorem setAttr_val_new (acc : Attrs) (k v : Str) (h : hasKey acc k = false) :
    setAttr acc k (some v) = .ok (acc ++ [(k, [v])]) := by
  simp [setAttr, find_notin acc k (hasKey_false h)]

theorem setAttr_val_more (acc : Attrs) (k v : Str) (l : List Str) (h : hasKey acc k = false) (hl : l ≠ []) :
    setAttr (acc ++ [(k, l)]) k (some v) = .ok (acc ++ [(k, l ++ [v])]) := by
  have hf : (acc ++ [(k, l)]).find? (·.1 == k) = some (k, l) := by
    simp [List.find?_append, find_notin acc k (hasKey_false h)]
  cases l with
  | nil => exact absurd rfl hl
  | cons a t =>
    simp only [setAttr, hf]
    have := map_upd_notin acc k (fun kv => (k, kv.2 ++ [v])) (hasKey_false h)
    simp [this]

theorem parseItems_values (k : Str) (hk : keyWF k = true) (vs : List Str) (hvs : ∀ v ∈ vs, valWF v = true)
    (rest : List Str) (acc : Attrs) (hacc : hasKey acc k = false) (l : List Str) (hl : l ≠ []) :
    parseItems (vs.map (fun x => k ++ '=' :: x) ++ rest) (acc ++ [(k, l)]) =
      parseItems rest (acc ++ [(k, l ++ vs)]) := by
  induction vs generalizing l with
  | nil => simp
  | cons v vs ih =>
    have hv := hvs v List.mem_cons_self
    simp only [List.map_cons, List.cons_append, parseItems, validItem_kv k v hk hv, splitEq_kv k v hk hv,
      setAttr_val_more acc k v l hacc hl]
    simp only [Bool.not_true, Bool.false_eq_true, ↓reduceIte, Except.bind]
    rw [ih (fun x hx => hvs x (List.mem_cons_of_mem _ hx)) (l ++ [v]) (by simp)]
    simp

theorem hasKey_append_single (acc : Attrs) (k k' : Str) (l : List Str) (h : hasKey acc k' = false)
    (hne : (k == k') = false) : hasKey (acc ++ [(k, l)]) k' = false := by
  unfold hasKey at *
  simp only [List.any_append, h, List.any_cons, hne, List.any_nil, Bool.or_self]

theorem parseItems_format (as : Attrs) (acc : Attrs)
    (hwf : ∀ kv ∈ as, keyWF kv.1 = true ∧ ∀ v ∈ kv.2, valWF v = true) (hnd : nodupKeys as = true)
    (hdis : ∀ kv ∈ as, hasKey acc kv.1 = false) :
    parseItems (formatItems as) acc = .ok (acc ++ as) := by
  induction as generalizing acc with
  | nil => simp [formatItems, parseItems]
  | cons kv r ih =>
    obtain ⟨k, vs⟩ := kv
    have hk := (hwf (k, vs) List.mem_cons_self).1
    have hvs := (hwf (k, vs) List.mem_cons_self).2
    have hacc := hdis (k, vs) List.mem_cons_self
    simp only [nodupKeys, Bool.and_eq_true, Bool.not_eq_true'] at hnd
    have hr : ∀ kv' ∈ r, hasKey (acc ++ [(k, vs)]) kv'.1 = false := by
      intro kv' hkv'
      apply hasKey_append_single _ _ _ _ (hdis kv' (List.mem_cons_of_mem _ hkv'))
      have := hasKey_false hnd.1 kv' hkv'
      exact beq_eq_false_iff_ne.mpr (fun e => this e.symm)
    have ih' := ih (acc ++ [(k, vs)]) (fun x hx => hwf x (List.mem_cons_of_mem _ hx)) hnd.2 hr
    cases vs with
    | nil =>
      simp only [formatItems, parseItems, validItem_flag k hk, splitEq_flag k hk, setAttr_flag_new acc k hacc]
      simp only [Bool.not_true, Bool.false_eq_true, ↓reduceIte, Except.bind]
      rw [ih']; simp
    | cons v vs' =>
      have hv := hvs v List.mem_cons_self
      simp only [formatItems, List.map_cons, List.cons_append, parseItems, validItem_kv k v hk hv,
        splitEq_kv k v hk hv, setAttr_val_new acc k v hacc]
      simp only [Bool.not_true, Bool.false_eq_true, ↓reduceIte, Except.bind]
      rw [parseItems_values k hk vs' (fun x hx => hvs x (List.mem_cons_of_mem _ hx)) _ acc hacc [v] (by simp)]
      simpa using ih'

theorem mem_formatItems {as : Attrs} {x : Str} (h : x ∈ formatItems as) :
    ∃ kv ∈ as, (kv.2 = [] ∧ x = kv.1) ∨ (∃ v ∈ kv.2, x = kv.1 ++ '=' :: v) := by
  induction as with
  | nil => simp [formatItems] at h
  | cons kv r ih =>
    obtain ⟨k, vs⟩ := kv
    cases vs with
    | nil =>
      simp only [formatItems, List.mem_cons] at h
      rcases h with h | h
      · exact ⟨(k, []), List.mem_cons_self, Or.inl ⟨rfl, h⟩⟩
      · obtain ⟨kv, hkv, hx⟩ := ih h
        exact ⟨kv, List.mem_cons_of_mem _ hkv, hx⟩
    | cons v vs' =>
      simp only [formatItems, List.mem_append, List.mem_map] at h
      rcases h with ⟨w, hw, rfl⟩ | h
      · exact ⟨(k, v :: vs'), List.mem_cons_self, Or.inr ⟨w, hw, rfl⟩⟩
      · obtain ⟨kv, hkv, hx⟩ := ih h
        exact ⟨kv, List.mem_cons_of_mem _ hkv, hx⟩

theorem attrsWF_spec {as : Attrs} (h : attrsWF as = true) :
    nodupKeys as = true ∧ ∀ kv ∈ as, keyWF kv.1 = true ∧ ∀ v ∈ kv.2, valWF v = true := by
  unfold attrsWF at h
  simp only [Bool.and_eq_true, List.all_eq_true] at h
  exact ⟨h.1, fun kv hkv => ⟨(h.2 kv hkv).1, (h.2 kv hkv).2⟩⟩

theorem item_props {as : Attrs} (h : attrsWF as = true) {x : Str} (hx : x ∈ formatItems as) :
    strip x = x ∧ x ≠ [] ∧ ∀ c ∈ x, c ≠ ',' := by
  obtain ⟨_, hwf⟩ := attrsWF_spec h
  obtain ⟨kv, hkv, hc⟩ := mem_formatItems hx
  have hk := (hwf kv hkv).1
  obtain ⟨hne, hl⟩ := keyWF_spec hk
  rcases hc with ⟨_, rfl⟩ | ⟨v, hv, rfl⟩
  · exact ⟨strip_flag _ hk, hne, fun c hc => letter_ne_comma (hl c hc)⟩
  · have hvw := (hwf kv hkv).2 v hv
    refine ⟨strip_kv _ v hk hvw, by simp, ?_⟩
    intro c hc
    simp only [List.mem_append, List.mem_cons] at hc
    rcases hc with hc | rfl | hc
    · exact letter_ne_comma (hl c hc)
    · decide
    · exact ((valWF_spec hvw).2.2 c hc).1

theorem map_strip_spaced (items : List Str) (h : ∀ x ∈ items, strip x = x) :
    (spaced items).map strip = items := by
  cases items with
  | nil => rfl
  | cons x r =>
    simp only [spaced, List.map_cons, List.map_map, h x List.mem_cons_self, List.cons.injEq, true_and]
    have : ∀ y ∈ r, (strip ∘ fun s => ' ' :: s) y = y := by
      intro y hy
      simp [strip_space_cons, h y (List.mem_cons_of_mem _ hy)]
    calc r.map (strip ∘ fun s => ' ' :: s) = r.map id := List.map_congr_left this
      _ = r := by simp

theorem parseAttr_formatAttr (as : Attrs) (h : attrsWF as = true) : parseAttr (formatAttr as) = .ok as := by
  unfold parseAttr formatAttr
  cases has : as with
  | nil => simp [formatItems, joinWith]
  | cons kv r =>
    rw [← has]
    have hitems : formatItems as ≠ [] := by
      subst has
      obtain ⟨k, vs⟩ := kv
      cases vs <;> simp [formatItems]
    obtain ⟨x, xs, hx⟩ := List.exists_cons_of_ne_nil hitems
    have hxne : x ≠ [] := (item_props h (x := x) (by rw [hx]; exact List.mem_cons_self)).2.1
    have hjoin : (joinWith [',', ' '] (formatItems as)).isEmpty = false := by
      rw [hx]; simpa using joinWith_ne_nil _ x xs hxne
    rw [hjoin]
    simp only [Bool.false_eq_true, ↓reduceIte]
    rw [splitOn_join _ hitems (fun y hy => (item_props h hy).2.2),
      map_strip_spaced _ (fun y hy => (item_props h hy).1)]
    obtain ⟨hnd, hwf⟩ := attrsWF_spec h
    simpa using parseItems_format as [] hwf hnd (by intro kv _; rfl)


/-! ### save decisions -/

theorem outputTagsFrom_entries (f : Flags) (all es : List Entry) (adj : Nat) (done : List Str) :
    (outputTagsFrom f all es adj done).map (·.2) = (es.filter fun e => !shouldSkip f e).map (written f) := by
  induction es generalizing adj done with
  | nil => simp [outputTagsFrom]
  | cons e r ih =>
    unfold outputTagsFrom
    by_cases hs : shouldSkip f e = true
    · simp [hs, ih]
    · simp only [hs, Bool.false_eq_true, ↓reduceIte]
      have hs' : shouldSkip f e = false := by simpa using hs
      split <;> simp [hs', ih]

theorem outputTagsFrom_merged (f : Flags) (hm : f.saveMerged = true) (hb : f.saveBase = true) (hl : f.saveLib = true)
    (all es : List Entry) (done : List Str) :
    outputTagsFrom f all es 0 done = es.map fun e => (level e.name, written f e) := by
  induction es generalizing done with
  | nil => simp [outputTagsFrom]
  | cons e r ih =>
    have hs : shouldSkip f e = false := by simp [shouldSkip, hb, hl]
    unfold outputTagsFrom
    simp only [hs, Bool.false_eq_true, ↓reduceIte, ite_self, hm, Bool.not_true, Bool.and_false, Bool.false_and]
    by_cases hz : (level e.name == 0) = true
    · have : level e.name = 0 := by simpa using hz
      simp [hz, ih, this]
    · simp only [hz, Bool.false_eq_true, ↓reduceIte]
      cases parentName e.name with
      | none => simp [ih]
      | some p =>
        dsimp only
        cases all.find? (fun x => x.name == p) <;> simp [ih]

theorem hasKey_filter_ne (as : Attrs) (k : Str) : hasKey (as.filter fun kv => !(kv.1 == k)) k = false := by
  unfold hasKey
  simp

theorem unescape_cons (c : Char) (t : Str) (hc : c ≠ '\\') : unescapeNl (c :: t) = c :: unescapeNl t := by
  cases t with
  | nil => simp [unescapeNl]
  | cons d t' => simp [unescapeNl, hc]

/-! ### nowiki tags: `cleanLine` on written lines -/

theorem prefix_of_append_sep (p s r : Str) (z : Char) (hz : z ∉ p) (h : p.isPrefixOf (s ++ z :: r) = true) :
    p.isPrefixOf s = true := by
  induction p generalizing s with
  | nil => simp
  | cons a p' ih =>
    have hz' : z ∉ p' := fun hm => hz (List.mem_cons_of_mem _ hm)
    have haz : a ≠ z := fun e => hz (e ▸ List.mem_cons_self)
    cases s with
    | nil => simp [haz] at h
    | cons b s' =>
      simp only [List.cons_append, List.isPrefixOf_cons_cons, Bool.and_eq_true] at h ⊢
      exact ⟨h.1, ih s' hz' h.2⟩

theorem tagOpen_prefix_ne (c : Char) (cs : Str) (hc : c ≠ '<') : tagOpen.isPrefixOf (c :: cs) = false := by
  have : ('<' == c) = false := by simpa using Ne.symm hc
  simp [tagOpen, List.isPrefixOf_cons_cons, this]

theorem tagClose_prefix_ne (c : Char) (cs : Str) (hc : c ≠ '<') : tagClose.isPrefixOf (c :: cs) = false := by
  have : ('<' == c) = false := by simpa using Ne.symm hc
  simp [tagClose, List.isPrefixOf_cons_cons, this]

theorem removeTags_noLt (x r : Str) (hx : ∀ c ∈ x, c ≠ '<') : removeTags 0 (x ++ r) = x ++ removeTags 0 r := by
  induction x with
  | nil => rfl
  | cons c cs ih =>
    have hc := hx c List.mem_cons_self
    simp only [List.cons_append, removeTags, tagOpen_prefix_ne c _ hc, tagClose_prefix_ne c _ hc,
      Bool.false_eq_true, ↓reduceIte, ih (fun y hy => hx y (List.mem_cons_of_mem _ hy))]

theorem removeTags_open (r : Str) : removeTags 0 (tagOpen ++ r) = removeTags 0 r := by
  simp [tagOpen, removeTags]

theorem removeTags_close : removeTags 0 tagClose = [] := by
  simp [tagClose, tagOpen, removeTags]

theorem noTag_cons {c : Char} {d : Str} (h : noTag (c :: d) = true) :
    tagOpen.isPrefixOf (c :: d) = false ∧ tagClose.isPrefixOf (c :: d) = false ∧ noTag d = true := by
  unfold noTag at h ⊢
  simp only [hasSub, Bool.and_eq_true, Bool.not_eq_true', Bool.or_eq_false_iff] at h ⊢
  exact ⟨h.1.1, h.2.1, h.1.2, h.2.2⟩

theorem removeTags_noTag (d r : Str) (z : Char) (hd : noTag d = true) (hz1 : z ∉ tagOpen) (hz2 : z ∉ tagClose) :
    removeTags 0 (d ++ z :: r) = d ++ removeTags 0 (z :: r) := by
  induction d with
  | nil => rfl
  | cons c cs ih =>
    obtain ⟨h1, h2, h3⟩ := noTag_cons hd
    have e1 : tagOpen.isPrefixOf (c :: (cs ++ z :: r)) = false := by
      cases h : tagOpen.isPrefixOf (c :: (cs ++ z :: r)) with
      | false => rfl
      | true =>
        have := prefix_of_append_sep tagOpen (c :: cs) r z hz1 (by simpa using h)
        rw [h1] at this; exact absurd this (by simp)
    have e2 : tagClose.isPrefixOf (c :: (cs ++ z :: r)) = false := by
      cases h : tagClose.isPrefixOf (c :: (cs ++ z :: r)) with
      | false => rfl
      | true =>
        have := prefix_of_append_sep tagClose (c :: cs) r z hz2 (by simpa using h)
        rw [h2] at this; exact absurd this (by simp)
    simp only [List.cons_append, removeTags, e1, e2, Bool.false_eq_true, ↓reduceIte, ih h3]

/-- an `extra` text that comes back unchanged when the closing tag behind it is removed -/
def Clean (extra : Str) : Prop := removeTags 0 (extra ++ tagClose) = extra

theorem clean_noLt (x : Str) (hx : ∀ c ∈ x, c ≠ '<') : Clean x := by
  unfold Clean
  rw [removeTags_noLt x _ hx, removeTags_close]; simp

theorem clean_desc (x d : Str) (hx : ∀ c ∈ x, c ≠ '<') (hd : noTag d = true) : Clean (x ++ d ++ [']']) := by
  unfold Clean
  have : x ++ d ++ [']'] ++ tagClose = x ++ (d ++ ']' :: tagClose) := by simp
  rw [this, removeTags_noLt x _ hx, removeTags_noTag d tagClose ']' hd (by decide) (by decide)]
  have : removeTags 0 (']' :: tagClose) = [']'] := by
    have := removeTags_noLt [']'] tagClose (by simp)
    simpa [removeTags_close] using this
  rw [this]; simp

theorem findSub_noLt_open (x r : Str) (hx : ∀ c ∈ x, c ≠ '<') :
    findSub tagOpen (x ++ r) = (findSub tagOpen r).map (· + x.length) := by
  induction x with
  | nil => simp
  | cons c cs ih =>
    have hc := hx c List.mem_cons_self
    simp only [List.cons_append, findSub, tagOpen_prefix_ne c _ hc, Bool.false_eq_true, ↓reduceIte,
      ih (fun y hy => hx y (List.mem_cons_of_mem _ hy)), Option.map_map, List.length_cons]
    congr 1

theorem findSub_noLt_close (x r : Str) (hx : ∀ c ∈ x, c ≠ '<') :
    findSub tagClose (x ++ r) = (findSub tagClose r).map (· + x.length) := by
  induction x with
  | nil => simp
  | cons c cs ih =>
    have hc := hx c List.mem_cons_self
    simp only [List.cons_append, findSub, tagClose_prefix_ne c _ hc, Bool.false_eq_true, ↓reduceIte,
      ih (fun y hy => hx y (List.mem_cons_of_mem _ hy)), Option.map_map, List.length_cons]
    congr 1

theorem findSub_self_suffix (p a : Str) : (findSub p (a ++ p)).isSome = true := by
  induction a with
  | nil =>
    cases p with
    | nil => simp [findSub]
    | cons c cs => simp [findSub]
  | cons x a' ih =>
    simp only [List.cons_append, findSub]
    split
    · rfl
    · simpa using ih

theorem nowikiErr_noLt (x : Str) (hx : ∀ c ∈ x, c ≠ '<') : nowikiErr x = false := by
  have h1 := findSub_noLt_open x [] hx
  have h2 := findSub_noLt_close x [] hx
  simp only [List.append_nil] at h1 h2
  unfold nowikiErr
  rw [h1, h2]
  simp [findSub, tagOpen, tagClose]

theorem nowikiErr_written (cur m : Str) (hx : ∀ c ∈ cur, c ≠ '<') :
    nowikiErr (cur ++ ' ' :: tagOpen ++ m ++ tagClose) = false := by
  have e : cur ++ ' ' :: tagOpen ++ m ++ tagClose = (cur ++ [' ']) ++ (tagOpen ++ (m ++ tagClose)) := by simp
  have hx' : ∀ c ∈ cur ++ [' '], c ≠ '<' := by
    intro c hc
    simp only [List.mem_append, List.mem_singleton] at hc
    rcases hc with hc | rfl
    · exact hx c hc
    · decide
  have h1 : findSub tagOpen (tagOpen ++ (m ++ tagClose)) = some 0 := by simp [findSub, tagOpen]
  obtain ⟨k, hk⟩ := Option.isSome_iff_exists.mp (findSub_self_suffix tagClose (['n', 'o', 'w', 'i', 'k', 'i', '>'] ++ m))
  have h2 : findSub tagClose (tagOpen ++ (m ++ tagClose)) = some (k + 1) := by
    have : tagOpen ++ (m ++ tagClose) = '<' :: (['n', 'o', 'w', 'i', 'k', 'i', '>'] ++ m ++ tagClose) := by
      simp [tagOpen]
    rw [this]
    simp only [findSub]
    rw [hk]
    simp [tagClose]
  unfold nowikiErr
  rw [e, findSub_noLt_open _ _ hx', findSub_noLt_close _ _ hx', h1, h2]
  simp only [Option.map_some]
  simp only [Nat.zero_add]
  show decide (k + 1 + (cur ++ [' ']).length ≤ (cur ++ [' ']).length) = false
  simp

theorem cleanLine_plain (cur : Str) (hne : cur ≠ []) (hx : ∀ c ∈ cur, c ≠ '<') (ht : trimmed cur = true) :
    cleanLine cur = .ok (some cur) := by
  unfold cleanLine
  simp only [strip_trimmed ht, nowikiErr_noLt cur hx, Bool.false_eq_true, ↓reduceIte]
  have := removeTags_noLt cur [] hx
  simp only [List.append_nil] at this
  rw [this]
  simp [removeTags, hne]

theorem cleanLine_written (cur extra : Str) (hx : ∀ c ∈ cur, c ≠ '<')
    (hh : ∃ c t, cur = c :: t ∧ isPySpace c = false) (hc : Clean extra) :
    cleanLine (cur ++ ' ' :: tagOpen ++ extra ++ tagClose) = .ok (some (cur ++ ' ' :: extra)) := by
  obtain ⟨c, t, rfl, hsp⟩ := hh
  have hstrip : strip (c :: t ++ ' ' :: tagOpen ++ extra ++ tagClose) = c :: t ++ ' ' :: tagOpen ++ extra ++ tagClose := by
    unfold strip
    rw [lstrip_of_head _ (by intro d hd; simp at hd; subst hd; exact hsp)]
    have : c :: t ++ ' ' :: tagOpen ++ extra ++ tagClose = (c :: t ++ ' ' :: tagOpen ++ extra) ++ tagClose := by simp
    rw [this]
    apply rstrip_append
    · exact rstrip_of_last tagClose '>' (by simp [tagClose]) (by decide)
    · simp [tagClose]
  unfold cleanLine
  rw [hstrip]
  simp only [nowikiErr_written (c :: t) extra hx, Bool.false_eq_true, ↓reduceIte]
  have e : c :: t ++ ' ' :: tagOpen ++ extra ++ tagClose = (c :: t ++ [' ']) ++ (tagOpen ++ (extra ++ tagClose)) := by simp
  have hx' : ∀ d ∈ c :: t ++ [' '], d ≠ '<' := by
    intro d hd
    simp only [List.mem_append, List.mem_singleton] at hd
    rcases hd with hd | rfl
    · exact hx d hd
    · decide
  rw [e, removeTags_noLt _ _ hx', removeTags_open, hc]
  simp

/-! ### the name part of a row -/

theorem removeSub_none (p s : Str) (h : hasSub p s = false) : removeSub p 0 s = s := by
  induction s with
  | nil => rfl
  | cons c cs ih =>
    simp only [hasSub, Bool.or_eq_false_iff] at h
    simp [removeSub, h.1, ih h.2]

theorem dropWhile_space_append (u t : Str) (hne : u ≠ [])
    (hlast : ∀ c, u.getLast? = some c → isPySpace c = false) :
    ∃ c rest, (u ++ t).dropWhile isPySpace = c :: rest ∧ c ∈ u ∧ isPySpace c = false := by
  induction u with
  | nil => exact absurd rfl hne
  | cons a u' ih =>
    cases u' with
    | nil =>
      have ha := hlast a (by simp)
      exact ⟨a, t, by simp [List.dropWhile, ha], List.mem_cons_self, ha⟩
    | cons b u'' =>
      by_cases ha : isPySpace a = true
      · obtain ⟨c, rest, h1, h2, h3⟩ := ih (by simp) (by
          intro c hc; apply hlast c; simpa [List.getLast?_cons_cons] using hc)
        exact ⟨c, rest, by simpa [List.dropWhile, ha] using h1, List.mem_cons_of_mem _ h2, h3⟩
      · have ha' : isPySpace a = false := by simpa using ha
        exact ⟨a, b :: u'' ++ t, by simp [List.dropWhile, ha'], List.mem_cons_self, ha'⟩

theorem tailMatch_none (u t : Str) (hne : u ≠ []) (hchars : ∀ c ∈ u, c ≠ '\'' ∧ isOpen c = false)
    (hlast : ∀ c, u.getLast? = some c → isPySpace c = false) : tailMatch (u ++ t) = none := by
  obtain ⟨c, rest, hd, hc, _⟩ := dropWhile_space_append u t hne hlast
  have hq : quote3.isPrefixOf (u ++ t) = false := by
    cases u with
    | nil => exact absurd rfl hne
    | cons a u' =>
      have : ('\'' == a) = false := by simpa using Ne.symm (hchars a List.mem_cons_self).1
      simp [quote3, List.isPrefixOf_cons_cons, this]
  unfold tailMatch
  simp only [hq, Bool.false_eq_true, ↓reduceIte, List.drop_zero, hd, (hchars c hc).2]

theorem tailMatch_nil : tailMatch [] = some 0 := by decide

theorem scanName_append (u t : Str) (k : Nat) (ht : tailMatch t = some k)
    (hu : ∀ u1 u2, u = u1 ++ u2 → u2 ≠ [] → tailMatch (u2 ++ t) = none) :
    scanName (u ++ t) = (u, u.length + k) := by
  induction u with
  | nil =>
    cases t with
    | nil =>
      rw [tailMatch_nil] at ht
      simp at ht; subst ht; rfl
    | cons c cs => simp [scanName, ht]
  | cons c u' ih =>
    have h0 := hu [] (c :: u') rfl (by simp)
    have ih' := ih (fun u1 u2 e hne => hu (c :: u1) u2 (by simp [e]) hne)
    simp only [List.cons_append] at h0 ⊢
    simp only [scanName, h0, ih', List.length_cons]
    congr 1; omega

theorem scanName_name (u t : Str) (k : Nat) (ht : tailMatch t = some k) (_hne : u ≠ [])
    (hchars : ∀ c ∈ u, c ≠ '\'' ∧ isOpen c = false) (hlast : ∀ c, u.getLast? = some c → isPySpace c = false) :
    scanName (u ++ t) = (u, u.length + k) := by
  apply scanName_append u t k ht
  intro u1 u2 e h2
  apply tailMatch_none u2 t h2
  · intro c hc; exact hchars c (by rw [e]; exact List.mem_append_right _ hc)
  · intro c hc
    apply hlast c
    rw [e, List.getLast?_append, hc]; rfl

theorem stars_take_drop (n : Nat) (rest : Str) (h : ∀ c, rest.head? = some c → c ≠ '*') :
    (stars n ++ rest).takeWhile (· == '*') = stars n ∧ (stars n ++ rest).dropWhile (· == '*') = rest := by
  apply takeWhile_append_stop
  · intro x hx; simp [stars] at hx; simp [hx.2]
  · intro x hx; simpa using h x hx

theorem searchName_star (l : Nat) (u t : Str) (k : Nat) (hu0 : ∀ c, (u ++ t).head? = some c → c ≠ '*')
    (hs : scanName (u ++ t) = (u, u.length + k)) :
    searchName (stars (l + 1) ++ (u ++ t)) 0 = some (u, l + 1 + u.length + k) := by
  have e : stars (l + 1) ++ (u ++ t) = '*' :: (stars l ++ (u ++ t)) := by simp [stars, List.replicate_succ]
  obtain ⟨h1, h2⟩ := stars_take_drop l (u ++ t) hu0
  rw [e]
  have hl : (stars l).length = l := by simp [stars]
  simp only [searchName, beq_self_eq_true, ↓reduceIte, h1, h2, hs, hl]
  congr 2; omega

theorem searchName_root (u t : Str) (k : Nat) (hs : scanName (u ++ t) = (u, u.length + k)) :
    searchName (quote3 ++ (u ++ t)) 0 = some (u, 3 + u.length + k) := by
  simp only [quote3, List.cons_append, List.nil_append, searchName]
  have : ('\'' == '*') = false := by decide
  simp only [this, Bool.false_eq_true, ↓reduceIte]
  simp [List.isPrefixOf_cons_cons, hs]
  omega

theorem getTagName_of_search (row name g : Str) (idx : Nat) (he : hasSub extendHere row = false)
    (hz : hasSub zwEntity row = false) (hs : searchName row 0 = some (g, idx)) (hg : strip g = name)
    (hn : name ≠ []) : getTagName row = some (name, idx) := by
  unfold getTagName
  simp [he, removeSub_none zwEntity row hz, hs, hg, hn]

/-! ### the bracketed sections of a row -/

theorem findChar_append_notin (c : Char) (x r : Str) (hx : ∀ a ∈ x, a ≠ c) :
    findChar c (x ++ r) = (findChar c r).map (· + x.length) := by
  induction x with
  | nil => simp
  | cons a t ih =>
    have ha : (a == c) = false := by simpa using hx a List.mem_cons_self
    simp only [List.cons_append, findChar, ha, Bool.false_eq_true, ↓reduceIte,
      ih (fun y hy => hx y (List.mem_cons_of_mem _ hy)), Option.map_map, List.length_cons]
    congr 1

theorem findChar_none (c : Char) (x : Str) (hx : ∀ a ∈ x, a ≠ c) : findChar c x = none := by
  have := findChar_append_notin c x [] hx
  simpa [findChar] using this

theorem count_zero (c : Char) (x : Str) (hx : ∀ a ∈ x, a ≠ c) : x.count c = 0 :=
  List.count_eq_zero.mpr (fun hm => hx c hm rfl)

theorem lineSection_absent (row : Str) (idx : Nat) (o c : Char) (ho : ∀ a ∈ row, a ≠ o)
    (hc : ∀ a ∈ row, a ≠ c) : lineSection row idx o c = some ([], idx) := by
  unfold lineSection
  have h1 := findChar_none o (row.drop idx) (fun a ha => ho a (List.mem_of_mem_drop ha))
  have h2 := findChar_none c (row.drop idx) (fun a ha => hc a (List.mem_of_mem_drop ha))
  simp [count_zero o row ho, count_zero c row hc, h1, h2]

theorem lineSection_found (W X inner Z : Str) (o c : Char) (hoc : o ≠ c)
    (hW : ∀ a ∈ W, a ≠ o ∧ a ≠ c) (hX : ∀ a ∈ X, a ≠ o ∧ a ≠ c) (hI : ∀ a ∈ inner, a ≠ o ∧ a ≠ c)
    (hZ : ∀ a ∈ Z, a ≠ o ∧ a ≠ c) (idx : Nat) (hidx : idx = W.length) :
    lineSection (W ++ (X ++ o :: (inner ++ c :: Z))) idx o c = some (inner, X.length + 1 + inner.length + idx) := by
  subst hidx
  have c1 : (W ++ (X ++ o :: (inner ++ c :: Z))).count o = 1 := by
    simp [List.count_append, List.count_cons, count_zero o W (fun a h => (hW a h).1),
      count_zero o X (fun a h => (hX a h).1), count_zero o inner (fun a h => (hI a h).1),
      count_zero o Z (fun a h => (hZ a h).1), Ne.symm hoc]
  have c2 : (W ++ (X ++ o :: (inner ++ c :: Z))).count c = 1 := by
    simp [List.count_append, List.count_cons, count_zero c W (fun a h => (hW a h).2),
      count_zero c X (fun a h => (hX a h).2), count_zero c inner (fun a h => (hI a h).2),
      count_zero c Z (fun a h => (hZ a h).2), hoc]
  have f1 : findChar o (X ++ o :: (inner ++ c :: Z)) = some X.length := by
    rw [findChar_append_notin o X _ (fun a h => (hX a h).1)]; simp [findChar]
  have f2 : findChar c (X ++ o :: (inner ++ c :: Z)) = some (X.length + 1 + inner.length) := by
    rw [findChar_append_notin c X _ (fun a h => (hX a h).2)]
    have : (o == c) = false := by simpa using hoc
    simp only [findChar, this, Bool.false_eq_true, ↓reduceIte]
    rw [findChar_append_notin c inner _ (fun a h => (hI a h).2)]
    simp [findChar]; omega
  unfold lineSection
  simp only [c1, c2, bne_self_eq_false, Bool.false_or, List.drop_left, f1, f2]
  have hlt : ¬ (X.length + 1 + inner.length < X.length) := by omega
  have e1 : (X ++ o :: (inner ++ c :: Z)).drop (X.length + 1) = inner ++ c :: Z := by
    have : X ++ o :: (inner ++ c :: Z) = (X ++ [o]) ++ (inner ++ c :: Z) := by simp
    rw [this]
    have hl : X.length + 1 = (X ++ [o]).length := by simp
    rw [hl, List.drop_left]
  have e2 : X.length + 1 + inner.length - (X.length + 1) = inner.length := by omega
  simp [hlt, e1, e2]

theorem mem_joinWith {sep : Str} {items : List Str} {c : Char} (h : c ∈ joinWith sep items) :
    c ∈ sep ∨ ∃ x ∈ items, c ∈ x := by
  induction items with
  | nil => simp [joinWith] at h
  | cons x r ih =>
    cases r with
    | nil => exact Or.inr ⟨x, List.mem_cons_self, by simpa [joinWith] using h⟩
    | cons y r' =>
      simp only [joinWith, List.mem_append] at h
      rcases h with (h | h) | h
      · exact Or.inr ⟨x, List.mem_cons_self, h⟩
      · exact Or.inl h
      · rcases ih h with h | ⟨z, hz, hc⟩
        · exact Or.inl h
        · exact Or.inr ⟨z, List.mem_cons_of_mem _ hz, hc⟩

theorem isLetter_not_delim {c : Char} (h : isLetter c = true) : lineDelim c = false := by
  unfold lineDelim
  simp only [Bool.or_eq_false_iff, beq_eq_false_iff_ne]
  refine ⟨⟨⟨⟨?_, ?_⟩, ?_⟩, ?_⟩, ?_⟩ <;> exact isLetter_ne h (by decide)

theorem formatAttr_chars (as : Attrs) (h : attrsWF as = true)
    (hv : (as.all fun kv => kv.2.all fun v => v.all (!lineDelim ·)) = true) :
    ∀ c ∈ formatAttr as, lineDelim c = false := by
  intro c hc
  obtain ⟨_, hwf⟩ := attrsWF_spec h
  rcases mem_joinWith hc with hc | ⟨x, hx, hcx⟩
  · simp only [List.mem_cons, List.not_mem_nil, or_false] at hc
    rcases hc with rfl | rfl <;> decide
  · obtain ⟨kv, hkv, hform⟩ := mem_formatItems hx
    have hl := (keyWF_spec (hwf kv hkv).1).2
    simp only [List.all_eq_true, Bool.not_eq_true'] at hv
    rcases hform with ⟨_, rfl⟩ | ⟨v, hvm, rfl⟩
    · exact isLetter_not_delim (hl c hcx)
    · simp only [List.mem_append, List.mem_cons] at hcx
      rcases hcx with hcx | rfl | hcx
      · exact isLetter_not_delim (hl c hcx)
      · decide
      · exact hv kv hkv v hvm c hcx

theorem formatAttr_ne_nil (as : Attrs) (h : attrsWF as = true) (hne : as ≠ []) : formatAttr as ≠ [] := by
  obtain ⟨kv, r, rfl⟩ := List.exists_cons_of_ne_nil hne
  have hitems : formatItems (kv :: r) ≠ [] := by
    obtain ⟨k, vs⟩ := kv
    cases vs <;> simp [formatItems]
  obtain ⟨x, xs, hx⟩ := List.exists_cons_of_ne_nil hitems
  have hxne : x ≠ [] := (item_props h (x := x) (by rw [hx]; exact List.mem_cons_self)).2.1
  unfold formatAttr
  rw [hx]
  exact joinWith_ne_nil _ x xs hxne

/-! ### reading a written row -/

theorem lineDelim_spec {c : Char} (h : lineDelim c = false) :
    c ≠ '{' ∧ c ≠ '}' ∧ c ≠ '[' ∧ c ≠ ']' ∧ c ≠ '<' := by
  unfold lineDelim at h
  simp only [Bool.or_eq_false_iff, beq_eq_false_iff_ne] at h
  exact ⟨h.1.1.1.1, h.1.1.1.2, h.1.1.2, h.1.2, h.2⟩

theorem descWF_spec {d : Str} (h : descWF (some d) = true) :
    d ≠ [] ∧ noTag d = true ∧ ∀ c ∈ d, c ≠ '{' ∧ c ≠ '}' ∧ c ≠ '[' ∧ c ≠ ']' := by
  unfold descWF at h
  simp only [Bool.and_eq_true, Bool.not_eq_true', List.isEmpty_eq_false_iff, List.all_eq_true, bne_iff_ne] at h
  exact ⟨h.1.1, h.1.2, fun c hc => ⟨(h.2 c hc).1.1.1, (h.2 c hc).1.1.2, (h.2 c hc).1.2, (h.2 c hc).2⟩⟩

@[simp] theorem readDesc_nil : readDesc [] = none := rfl
@[simp] theorem normDesc_none : normDesc none = none := rfl
@[simp] theorem normDesc_some (d : Str) : normDesc (some d) = readDesc d := rfl

theorem readDesc_of_trimmed {d : Str} (hne : d ≠ []) (ht : trimmed d = true) : readDesc d = some d := by
  unfold readDesc
  rw [strip_trimmed ht]
  simp [hne]

theorem descNormal_spec {desc : Option Str} (h : descNormal desc = true) :
    ∀ d, desc = some d → d ≠ [] ∧ trimmed d = true := by
  intro d hd
  subst hd
  simpa [descNormal] using h

/-- `normDesc` is the identity on absent and on non-empty trimmed descriptions -/
theorem normDesc_of_normal (desc : Option Str) (h : descNormal desc = true) : normDesc desc = desc := by
  cases desc with
  | none => rfl
  | some d =>
    obtain ⟨hne, ht⟩ := descNormal_spec h d rfl
    simp [readDesc_of_trimmed hne ht]

/-- a `descWF` description (non-empty) that is trimmed is a normal one -/
theorem descNormal_of (desc : Option Str) (hd : descWF desc = true) (ht : descTrimmed desc = true) :
    descNormal desc = true := by
  cases desc with
  | none => rfl
  | some d =>
    have hne := (descWF_spec hd).1
    have ht' : trimmed d = true := by simpa [descTrimmed] using ht
    simp [descNormal, hne, ht']

theorem descTrimmed_of_normal (desc : Option Str) (h : descNormal desc = true) : descTrimmed desc = true := by
  cases desc with
  | none => rfl
  | some d => exact (descNormal_spec h d rfl).2

theorem nameWF_spec {n : Str} (h : nameWF n = true) :
    n ≠ [] ∧ trimmed n = true ∧ ∀ c ∈ n, lineDelim c = false ∧ c ≠ '\'' := by
  unfold nameWF at h
  simp only [Bool.and_eq_true, Bool.not_eq_true', List.isEmpty_eq_false_iff, List.all_eq_true, bne_iff_ne] at h
  exact ⟨h.1.1, h.1.2, fun c hc => ⟨(h.2 c hc).1, (h.2 c hc).2⟩⟩

theorem sections_read (P name : Str) (as : Attrs) (desc : Option Str)
    (hP : ∀ c ∈ P, lineDelim c = false) (has : attrsWF as = true)
    (hv : (as.all fun kv => kv.2.all fun v => v.all (!lineDelim ·)) = true)
    (hd : descWF desc = true)
    (hname : getTagName (P ++ extras (formatAttr as) desc) = some (name, P.length)) :
    readEntry (P ++ extras (formatAttr as) desc) = .ok (name, as, normDesc desc) := by
  have hac := formatAttr_chars as has hv
  have hpa : parseAttr (formatAttr as) = .ok as := parseAttr_formatAttr as has
  have hPo : ∀ (x : Char), (x = '{' ∨ x = '}' ∨ x = '[' ∨ x = ']') → ∀ c ∈ P, c ≠ x := by
    intro x hx c hc e
    have := lineDelim_spec (hP c hc)
    rcases hx with rfl | rfl | rfl | rfl <;> simp_all
  have hao : ∀ (x : Char), (x = '{' ∨ x = '}' ∨ x = '[' ∨ x = ']') → ∀ c ∈ formatAttr as, c ≠ x := by
    intro x hx c hc e
    have := lineDelim_spec (hac c hc)
    rcases hx with rfl | rfl | rfl | rfl <;> simp_all
  unfold readEntry readEntryWith
  rw [hname]
  cases desc with
  | none =>
    by_cases hne : as = []
    · subst hne
      have ha : formatAttr [] = [] := rfl
      simp only [ha] at *
      have e : P ++ extras [] none = P := by simp [extras]
      rw [e]
      have h1 := lineSection_absent P P.length '{' '}' (hPo _ (by simp)) (hPo _ (by simp))
      have h2 := lineSection_absent P P.length '[' ']' (hPo _ (by simp)) (hPo _ (by simp))
      simp [h1, h2, parseAttr]
    · have hane := formatAttr_ne_nil as has hne
      have hemp : (formatAttr as).isEmpty = false := by simpa using hane
      have e : P ++ extras (formatAttr as) none = P ++ ([] ++ '{' :: (formatAttr as ++ '}' :: [])) := by
        simp [extras, hemp]
      rw [e]
      have h1 := lineSection_found P [] (formatAttr as) [] '{' '}' (by decide)
        (fun a h => ⟨hPo _ (by simp) a h, hPo _ (by simp) a h⟩) (by simp)
        (fun a h => ⟨hao _ (by simp) a h, hao _ (by simp) a h⟩) (by simp) P.length rfl
      have h2 := lineSection_absent (P ++ ([] ++ '{' :: (formatAttr as ++ '}' :: [])))
        (([] : Str).length + 1 + (formatAttr as).length + P.length) '[' ']'
        (by
          intro a h
          simp only [List.nil_append, List.mem_append, List.mem_cons, List.not_mem_nil, or_false] at h
          rcases h with h | rfl | h | rfl
          · exact hPo _ (by simp) a h
          · decide
          · exact hao _ (by simp) a h
          · decide)
        (by
          intro a h
          simp only [List.nil_append, List.mem_append, List.mem_cons, List.not_mem_nil, or_false] at h
          rcases h with h | rfl | h | rfl
          · exact hPo _ (by simp) a h
          · decide
          · exact hao _ (by simp) a h
          · decide)
      simp only [h1, hpa, h2]
      simp
  | some d =>
    obtain ⟨hdne, _, hdc⟩ := descWF_spec hd
    have hdemp : d.isEmpty = false := by simpa using hdne
    by_cases hne : as = []
    · subst hne
      have ha : formatAttr [] = [] := rfl
      simp only [ha] at *
      have e : P ++ extras [] (some d) = P ++ ([] ++ '[' :: (d ++ ']' :: [])) := by
        simp [extras, hdemp]
      rw [e]
      have h1 := lineSection_absent (P ++ ([] ++ '[' :: (d ++ ']' :: []))) P.length '{' '}'
        (by
          intro a h
          simp only [List.nil_append, List.mem_append, List.mem_cons, List.not_mem_nil, or_false] at h
          rcases h with h | rfl | h | rfl
          · exact hPo _ (by simp) a h
          · decide
          · exact (hdc a h).1
          · decide)
        (by
          intro a h
          simp only [List.nil_append, List.mem_append, List.mem_cons, List.not_mem_nil, or_false] at h
          rcases h with h | rfl | h | rfl
          · exact hPo _ (by simp) a h
          · decide
          · exact (hdc a h).2.1
          · decide)
      have h2 := lineSection_found P [] d [] '[' ']' (by decide)
        (fun a h => ⟨hPo _ (by simp) a h, hPo _ (by simp) a h⟩) (by simp)
        (fun a h => ⟨(hdc a h).2.2.1, (hdc a h).2.2.2⟩) (by simp) P.length rfl
      simp only [h1, parseAttr, h2]
      simp [hdemp]
    · have hane := formatAttr_ne_nil as has hne
      have hemp : (formatAttr as).isEmpty = false := by simpa using hane
      have e : P ++ extras (formatAttr as) (some d) =
          P ++ ([] ++ '{' :: (formatAttr as ++ '}' :: (' ' :: '[' :: (d ++ [']'])))) := by
        simp [extras, hemp, hdemp]
      have e2 : P ++ ([] ++ '{' :: (formatAttr as ++ '}' :: (' ' :: '[' :: (d ++ [']'])))) =
          (P ++ '{' :: formatAttr as) ++ (['}', ' '] ++ '[' :: (d ++ ']' :: [])) := by simp
      rw [e]
      have h1 := lineSection_found P [] (formatAttr as) (' ' :: '[' :: (d ++ [']'])) '{' '}' (by decide)
        (fun a h => ⟨hPo _ (by simp) a h, hPo _ (by simp) a h⟩) (by simp)
        (fun a h => ⟨hao _ (by simp) a h, hao _ (by simp) a h⟩)
        (by
          intro a h
          simp only [List.mem_cons, List.mem_append, List.not_mem_nil, or_false] at h
          rcases h with rfl | rfl | h | rfl
          · decide
          · decide
          · exact ⟨(hdc a h).1, (hdc a h).2.1⟩
          · decide) P.length rfl
      have h2 := lineSection_found (P ++ '{' :: formatAttr as) ['}', ' '] d [] '[' ']' (by decide)
        (by
          intro a h
          simp only [List.mem_append, List.mem_cons] at h
          rcases h with h | rfl | h
          · exact ⟨hPo _ (by simp) a h, hPo _ (by simp) a h⟩
          · decide
          · exact ⟨hao _ (by simp) a h, hao _ (by simp) a h⟩)
        (by intro a h; simp only [List.mem_cons, List.not_mem_nil, or_false] at h; rcases h with rfl | rfl <;> decide)
        (fun a h => ⟨(hdc a h).2.2.1, (hdc a h).2.2.2⟩) (by simp)
        (([] : Str).length + 1 + (formatAttr as).length + P.length) (by simp; omega)
      rw [← e2] at h2
      simp only [h1, hpa, h2]
      simp [hdemp]

theorem tailMatch_end (Q S : Str) (hQ : Q = [] ∨ Q = quote3) (hS : S = [] ∨ S = [' ']) :
    tailMatch (Q ++ S) = some (Q.length + S.length) := by
  rcases hQ with rfl | rfl <;> rcases hS with rfl | rfl <;> decide

theorem isOpen_spec {o : Char} (h : isOpen o = true) : o = '[' ∨ o = '{' := by
  simpa [isOpen] using h

theorem tailMatch_open (Q : Str) (hQ : Q = [] ∨ Q = quote3) (o x : Char) (rest : Str)
    (ho : isOpen o = true) (hx : isOpen x = false) :
    tailMatch (Q ++ ' ' :: o :: x :: rest) = some (Q.length + 1) := by
  have s1 : isPySpace ' ' = true := by decide
  have s2 : isPySpace '[' = false := by decide
  have s3 : isPySpace '{' = false := by decide
  have o1 : isOpen '[' = true := by decide
  have o2 : isOpen '{' = true := by decide
  have q1 : ('\'' == ' ') = false := by decide
  rcases hQ with rfl | rfl <;> rcases isOpen_spec ho with rfl | rfl <;>
    simp [tailMatch, quote3, List.isPrefixOf_cons_cons, List.takeWhile, List.dropWhile, s1, s2, s3, o1, o2, q1, hx]

/-- a non-empty `extras` text starts with `{` or `[` followed by a character that is neither -/
theorem extras_shape (as : Attrs) (desc : Option Str) (has : attrsWF as = true)
    (hv : (as.all fun kv => kv.2.all fun v => v.all (!lineDelim ·)) = true) (hd : descWF desc = true)
    (hne : extras (formatAttr as) desc ≠ []) :
    ∃ o x rest, extras (formatAttr as) desc = o :: x :: rest ∧ isOpen o = true ∧ isOpen x = false := by
  have hac := formatAttr_chars as has hv
  have hopen : ∀ c, lineDelim c = false → isOpen c = false := by
    intro c hc
    have := lineDelim_spec hc
    simp [isOpen, this.1, this.2.2.1]
  by_cases hae : formatAttr as = []
  · cases desc with
    | none => simp [extras, hae] at hne
    | some d =>
      obtain ⟨hdne, _, hdc⟩ := descWF_spec hd
      obtain ⟨c, t, rfl⟩ := List.exists_cons_of_ne_nil hdne
      have hc := hdc c List.mem_cons_self
      refine ⟨'[', c, t ++ [']'], by simp [extras, hae], by decide, ?_⟩
      simp [isOpen, hc.2.2.1, hc.1]
  · obtain ⟨c, t, hct⟩ := List.exists_cons_of_ne_nil hae
    have hc := hopen c (hac c (by rw [hct]; exact List.mem_cons_self))
    cases desc with
    | none => exact ⟨'{', c, t ++ ['}'], by simp [extras, hct], by decide, hc⟩
    | some d =>
      by_cases hde : d = []
      · exact ⟨'{', c, t ++ ['}'], by simp [extras, hct, hde], by decide, hc⟩
      · have : d.isEmpty = false := by simpa using hde
        exact ⟨'{', c, t ++ ['}'] ++ [' '] ++ '[' :: d ++ [']'], by simp [extras, hct, this], by decide, hc⟩

theorem extras_chars (as : Attrs) (desc : Option Str) (has : attrsWF as = true)
    (hv : (as.all fun kv => kv.2.all fun v => v.all (!lineDelim ·)) = true) (hd : descWF desc = true) :
    Clean (extras (formatAttr as) desc) := by
  have hac := formatAttr_chars as has hv
  have hlt : ∀ c ∈ formatAttr as, c ≠ '<' := fun c hc => (lineDelim_spec (hac c hc)).2.2.2.2
  have hA : ∀ c ∈ (if (formatAttr as).isEmpty then [] else '{' :: formatAttr as ++ ['}']), c ≠ '<' := by
    intro c hc
    split at hc
    · simp at hc
    · simp only [List.mem_append, List.mem_cons, List.not_mem_nil, or_false] at hc
      rcases hc with (rfl | hc) | rfl
      · decide
      · exact hlt c hc
      · decide
  cases desc with
  | none => exact clean_noLt _ (by simpa [extras] using hA)
  | some d =>
    by_cases hde : d = []
    · subst hde; exact clean_noLt _ (by simpa [extras] using hA)
    · obtain ⟨_, hnt, _⟩ := descWF_spec hd
      have hdemp : d.isEmpty = false := by simpa using hde
      have e : extras (formatAttr as) (some d) =
          ((if (formatAttr as).isEmpty then [] else '{' :: formatAttr as ++ ['}']) ++
            (if (formatAttr as).isEmpty then [] else [' ']) ++ ['[']) ++ d ++ [']'] := by
        simp [extras, hdemp]
      rw [e]
      apply clean_desc _ d _ hnt
      intro c hc
      simp only [List.mem_append, List.mem_singleton] at hc
      rcases hc with (hc | hc) | rfl
      · exact hA c hc
      · split at hc
        · simp at hc
        · simp at hc; subst hc; decide
      · decide

/-- reading back a cleaned row `pre ++ u ++ Q ++ S ++ extras`: `pre` the stars or the opening quotes,
`u` the (padded) name, `Q` the closing quotes of a root line, `S` the blank before the extras -/
theorem row_read (pre u Q S short : Str) (as : Attrs) (desc : Option Str)
    (hsearch : ∀ t k, scanName (u ++ t) = (u, u.length + k) →
      searchName (pre ++ (u ++ t)) 0 = some (u, pre.length + u.length + k))
    (hune : u ≠ []) (hchars : ∀ c ∈ u, c ≠ '\'' ∧ isOpen c = false)
    (hlast : ∀ c, u.getLast? = some c → isPySpace c = false) (hstrip : strip u = short) (hsne : short ≠ [])
    (hQ : Q = [] ∨ Q = quote3)
    (hS : (extras (formatAttr as) desc = [] → S = [] ∨ S = [' ']) ∧ (extras (formatAttr as) desc ≠ [] → S = [' ']))
    (hpre : ∀ c ∈ pre, lineDelim c = false) (hu : ∀ c ∈ u, lineDelim c = false)
    (has : attrsWF as = true) (hv : (as.all fun kv => kv.2.all fun v => v.all (!lineDelim ·)) = true)
    (hd : descWF desc = true)
    (he : hasSub extendHere (pre ++ (u ++ (Q ++ S ++ extras (formatAttr as) desc))) = false)
    (hz : hasSub zwEntity (pre ++ (u ++ (Q ++ S ++ extras (formatAttr as) desc))) = false) :
    readEntry (pre ++ (u ++ (Q ++ S ++ extras (formatAttr as) desc))) = .ok (short, as, normDesc desc) := by
  have htm : tailMatch (Q ++ S ++ extras (formatAttr as) desc) = some (Q.length + S.length) := by
    by_cases hex : extras (formatAttr as) desc = []
    · rw [hex]; simpa using tailMatch_end Q S hQ (hS.1 hex)
    · obtain ⟨o, x, rest, e, ho, hx⟩ := extras_shape as desc has hv hd hex
      rw [hS.2 hex, e]
      simpa using tailMatch_open Q hQ o x rest ho hx
  have hscan := scanName_name u _ _ htm hune hchars hlast
  have hs := hsearch _ _ hscan
  have hname := getTagName_of_search _ short u _ he hz hs hstrip hsne
  have hQd : ∀ c ∈ Q, lineDelim c = false := by
    rcases hQ with rfl | rfl
    · simp
    · intro c hc; simp [quote3] at hc; subst hc; decide
  have hSd : ∀ c ∈ S, lineDelim c = false := by
    have : S = [] ∨ S = [' '] := by
      by_cases hex : extras (formatAttr as) desc = []
      · exact hS.1 hex
      · exact Or.inr (hS.2 hex)
    rcases this with rfl | rfl
    · simp
    · intro c hc; simp at hc; subst hc; decide
  have e : pre ++ (u ++ (Q ++ S ++ extras (formatAttr as) desc)) =
      (pre ++ u ++ Q ++ S) ++ extras (formatAttr as) desc := by simp
  rw [e] at hname ⊢
  apply sections_read _ short as desc _ has hv hd
  · rw [hname]; simp; omega
  · intro c hc
    simp only [List.mem_append] at hc
    rcases hc with ((hc | hc) | hc) | hc
    · exact hpre c hc
    · exact hu c hc
    · exact hQd c hc
    · exact hSd c hc

theorem pad_facts (pad short : Str) (hpad : ∀ c ∈ pad, c = ' ') (h : nameWF short = true) :
    pad ++ short ≠ [] ∧ (∀ c ∈ pad ++ short, c ≠ '\'' ∧ isOpen c = false) ∧
    (∀ c, (pad ++ short).getLast? = some c → isPySpace c = false) ∧ strip (pad ++ short) = short ∧
    (∀ c ∈ pad ++ short, lineDelim c = false) := by
  obtain ⟨hne, htr, hch⟩ := nameWF_spec h
  refine ⟨by simp [hne], ?_, ?_, ?_, ?_⟩
  · intro c hc
    simp only [List.mem_append] at hc
    rcases hc with hc | hc
    · rw [hpad c hc]; exact ⟨by decide, by decide⟩
    · have := lineDelim_spec (hch c hc).1
      exact ⟨(hch c hc).2, by simp [isOpen, this.1, this.2.2.1]⟩
  · intro c hc
    rw [List.getLast?_append] at hc
    cases hl : short.getLast? with
    | none => simp [List.getLast?_eq_none_iff] at hl; exact absurd hl hne
    | some x =>
      simp [hl] at hc; subst hc
      unfold trimmed at htr
      simp [hl] at htr
      exact htr.2
  · induction pad with
    | nil => simpa using strip_trimmed htr
    | cons a t ih =>
      have : a = ' ' := hpad a List.mem_cons_self
      subst this
      rw [List.cons_append, strip_space_cons]
      exact ih (fun c hc => hpad c (List.mem_cons_of_mem _ hc))
  · intro c hc
    simp only [List.mem_append] at hc
    rcases hc with hc | hc
    · rw [hpad c hc]; decide
    · exact (hch c hc).1

theorem getLast?_append_some (a b : Str) (d : Char) (h : b.getLast? = some d) : (a ++ b).getLast? = some d := by
  rw [List.getLast?_append, h]; rfl

theorem trimmed_of (s : Str) (c d : Char) (hh : s.head? = some c) (hl : s.getLast? = some d)
    (hc : isPySpace c = false) (hd : isPySpace d = false) : trimmed s = true := by
  simp [trimmed, hh, hl, hc, hd]

theorem getLast?_some_of_ne_nil (s : Str) (h : s ≠ []) : ∃ d, s.getLast? = some d := by
  cases hl : s.getLast? with
  | none => simp [List.getLast?_eq_none_iff] at hl; exact absurd hl h
  | some d => exact ⟨d, rfl⟩

theorem trimmed_last {s : Str} {d : Char} (h : trimmed s = true) (hl : s.getLast? = some d) : isPySpace d = false := by
  unfold trimmed at h
  simp [hl] at h
  exact h.2

theorem lineWF_spec {l : Nat} {short : Str} {as : Attrs} {desc : Option Str} (h : lineWF l short as desc = true) :
    nameWF short = true ∧ attrsWF as = true ∧
    (as.all fun kv => kv.2.all fun v => v.all (!lineDelim ·)) = true ∧ descWF desc = true ∧
    hasSub extendHere (rowBody l short (extras (formatAttr as) desc)) = false ∧
    hasSub zwEntity (rowBody l short (extras (formatAttr as) desc)) = false := by
  unfold lineWF at h
  simp only [Bool.and_eq_true, Bool.not_eq_true'] at h
  exact ⟨h.1.1.1.1.1, h.1.1.1.1.2, h.1.1.1.2, h.1.1.2, h.1.2, h.2⟩

theorem stars_props (n : Nat) : (stars n).length = n ∧ (∀ c ∈ stars n, c = '*') := by
  simp [stars]

theorem tagLevel_stars (n : Nat) (rest : Str) (hn : 0 < n) (hr : ∃ c t, rest = c :: t ∧ c ≠ '*') :
    tagLevel (stars n ++ rest) = some n := by
  obtain ⟨c, t, rfl, hc⟩ := hr
  obtain ⟨h1, _⟩ := stars_take_drop n (c :: t) (by intro x hx; simp at hx; subst hx; exact hc)
  unfold tagLevel
  simp only [h1, (stars_props n).1, List.length_append, List.length_cons]
  have : (n == n + (t.length + 1)) = false := by simp
  have h0 : (n == 0) = false := by simp; omega
  simp [this, h0]

theorem quote3_prefix_stars (n : Nat) (rest : Str) : quote3.isPrefixOf (stars (n + 1) ++ rest) = false := by
  have : ('\'' == '*') = false := by decide
  simp [stars, List.replicate_succ, quote3, List.isPrefixOf_cons_cons, this]

/-! ### wiki entry lines -/

theorem line_roundtrip_full (l : Nat) (short : Str) (as : Attrs) (desc : Option Str)
    (h : lineWF l short as desc = true) :
    cleanLine (tagLine l short (extras (formatAttr as) desc)) =
        .ok (some (rowBody l short (extras (formatAttr as) desc))) ∧
      readEntry (rowBody l short (extras (formatAttr as) desc)) = .ok (short, as, normDesc desc) ∧
      quote3.isPrefixOf (rowBody l short (extras (formatAttr as) desc)) = (l == 0) ∧
      (0 < l → tagLevel (rowBody l short (extras (formatAttr as) desc)) = some l) := by
  obtain ⟨hn, has, hv, hd, he, hz⟩ := lineWF_spec h
  obtain ⟨hsne, hstr, hsch⟩ := nameWF_spec hn
  have hclean := extras_chars as desc has hv hd
  have hslt : ∀ c ∈ short, c ≠ '<' := fun c hc => (lineDelim_spec (hsch c hc).1).2.2.2.2
  have hq : ∀ c ∈ quote3, c ≠ '<' := by intro c hc; simp [quote3] at hc; subst hc; decide
  cases l with
  | zero =>
    -- root line
    obtain ⟨f1, f2, f3, f4, f5⟩ := pad_facts [] short (by simp) hn
    simp only [List.nil_append] at f1 f2 f3 f4 f5
    have hcur : ∀ c ∈ quote3 ++ short ++ quote3, c ≠ '<' := by
      intro c hc
      simp only [List.mem_append] at hc
      rcases hc with (hc | hc) | hc
      · exact hq c hc
      · exact hslt c hc
      · exact hq c hc
    have hread : ∀ S, ((extras (formatAttr as) desc = [] → S = [] ∨ S = [' ']) ∧
          (extras (formatAttr as) desc ≠ [] → S = [' '])) →
        hasSub extendHere (quote3 ++ (short ++ (quote3 ++ S ++ extras (formatAttr as) desc))) = false →
        hasSub zwEntity (quote3 ++ (short ++ (quote3 ++ S ++ extras (formatAttr as) desc))) = false →
        readEntry (quote3 ++ (short ++ (quote3 ++ S ++ extras (formatAttr as) desc))) = .ok (short, as, normDesc desc) := by
      intro S hS he' hz'
      apply row_read quote3 short quote3 S short as desc _ f1 f2 f3 f4 hsne (Or.inr rfl) hS _ f5 has hv hd he' hz'
      · intro t k hs
        simpa [quote3] using searchName_root short t k hs
      · intro c hc; simp [quote3] at hc; subst hc; decide
    by_cases hex : extras (formatAttr as) desc = []
    · have hrb : rowBody 0 short (extras (formatAttr as) desc) = quote3 ++ short ++ quote3 := by
        simp [rowBody, hex]
      rw [hrb] at he hz ⊢
      have htl : tagLine 0 short (extras (formatAttr as) desc) = quote3 ++ short ++ quote3 := by
        simp [tagLine, flush, hex]
      rw [htl]
      refine ⟨?_, ?_, ?_, by intro h0; exact absurd h0 (by simp)⟩
      · apply cleanLine_plain _ (by simp [quote3]) hcur
        exact trimmed_of _ '\'' '\'' (by simp [quote3]) (getLast?_append_some _ quote3 '\'' (by simp [quote3]))
          (by decide) (by decide)
      · have := hread [] ⟨fun _ => Or.inl rfl, fun hne => absurd hex hne⟩ (by simpa [hex] using he)
          (by simpa [hex] using hz)
        simpa [hex] using this
      · simp [quote3]
    · have hemp : (extras (formatAttr as) desc).isEmpty = false := by simpa using hex
      have hrb : rowBody 0 short (extras (formatAttr as) desc) =
          (quote3 ++ short ++ quote3) ++ ' ' :: extras (formatAttr as) desc := by
        simp [rowBody, hemp]
      rw [hrb] at he hz ⊢
      have htl : tagLine 0 short (extras (formatAttr as) desc) =
          (quote3 ++ short ++ quote3) ++ ' ' :: tagOpen ++ extras (formatAttr as) desc ++ tagClose := by
        simp [tagLine, flush, hemp]
      rw [htl]
      refine ⟨?_, ?_, ?_, by intro h0; exact absurd h0 (by simp)⟩
      · exact cleanLine_written _ _ hcur ⟨'\'', ['\'', '\''] ++ short ++ quote3, by simp [quote3], by decide⟩ hclean
      · have := hread [' '] ⟨fun h0 => absurd h0 hex, fun _ => rfl⟩ (by simpa using he) (by simpa using hz)
        simpa using this
      · simp [quote3]
  | succ n =>
    have hpre : ∀ c ∈ stars (n + 1), lineDelim c = false := by
      intro c hc; rw [(stars_props (n + 1)).2 c hc]; decide
    have hprelt : ∀ c ∈ stars (n + 1), c ≠ '<' := by
      intro c hc; rw [(stars_props (n + 1)).2 c hc]; decide
    have hread : ∀ pad S, (∀ c ∈ pad, c = ' ') → pad ≠ [] →
        ((extras (formatAttr as) desc = [] → S = [] ∨ S = [' ']) ∧ (extras (formatAttr as) desc ≠ [] → S = [' '])) →
        hasSub extendHere (stars (n + 1) ++ ((pad ++ short) ++ ([] ++ S ++ extras (formatAttr as) desc))) = false →
        hasSub zwEntity (stars (n + 1) ++ ((pad ++ short) ++ ([] ++ S ++ extras (formatAttr as) desc))) = false →
        readEntry (stars (n + 1) ++ ((pad ++ short) ++ ([] ++ S ++ extras (formatAttr as) desc))) =
          .ok (short, as, normDesc desc) := by
      intro pad S hpad hpne hS he' hz'
      obtain ⟨f1, f2, f3, f4, f5⟩ := pad_facts pad short hpad hn
      apply row_read (stars (n + 1)) (pad ++ short) [] S short as desc _ f1 f2 f3 f4 hsne (Or.inl rfl) hS hpre f5
        has hv hd he' hz'
      intro t k hs
      have := searchName_star n (pad ++ short) t k (by
        obtain ⟨a, r, rfl⟩ := List.exists_cons_of_ne_nil hpne
        intro c hc
        have ha : a = ' ' := hpad a List.mem_cons_self
        simp only [List.cons_append, List.head?_cons, Option.some.injEq] at hc
        rw [← hc, ha]; decide) hs
      simpa [(stars_props (n + 1)).1] using this
    by_cases hhash : short.getLast? = some '#'
    · -- value-taking child: the name goes inside the nowiki part
      have hrb : rowBody (n + 1) short (extras (formatAttr as) desc) =
          stars (n + 1) ++ ' ' :: ' ' :: short ++ ' ' :: extras (formatAttr as) desc := by
        simp [rowBody, hhash]
      rw [hrb] at he hz ⊢
      have htl : tagLine (n + 1) short (extras (formatAttr as) desc) =
          (stars (n + 1) ++ [' ']) ++ ' ' :: tagOpen ++ (short ++ ' ' :: extras (formatAttr as) desc) ++ tagClose := by
        simp [tagLine, flush, hhash, hsne]
      rw [htl]
      refine ⟨?_, ?_, by simpa using quote3_prefix_stars n _, ?_⟩
      · have hcl : Clean (short ++ ' ' :: extras (formatAttr as) desc) := by
          unfold Clean
          have e : short ++ ' ' :: extras (formatAttr as) desc ++ tagClose =
              (short ++ [' ']) ++ (extras (formatAttr as) desc ++ tagClose) := by simp
          rw [e, removeTags_noLt _ _ (by
            intro c hc
            simp only [List.mem_append, List.mem_singleton] at hc
            rcases hc with hc | rfl
            · exact hslt c hc
            · decide), hclean]
          simp
        have := cleanLine_written (stars (n + 1) ++ [' ']) _ (by
            intro c hc
            simp only [List.mem_append, List.mem_singleton] at hc
            rcases hc with hc | rfl
            · exact hprelt c hc
            · decide) ⟨'*', stars n ++ [' '], by simp [stars, List.replicate_succ], by decide⟩ hcl
        simpa using this
      · have := hread [' ', ' '] [' '] (by simp) (by simp)
          ⟨fun _ => Or.inr rfl, fun _ => rfl⟩ (by simpa using he) (by simpa using hz)
        simpa using this
      · intro _
        have := tagLevel_stars (n + 1) (' ' :: ' ' :: short ++ ' ' :: extras (formatAttr as) desc) (by omega)
          ⟨' ', _, rfl, by decide⟩
        simpa using this
    · have hcur : ∀ c ∈ stars (n + 1) ++ ' ' :: short, c ≠ '<' := by
        intro c hc
        simp only [List.mem_append, List.mem_cons] at hc
        rcases hc with hc | rfl | hc
        · exact hprelt c hc
        · decide
        · exact hslt c hc
      have hhd : ∃ c t, stars (n + 1) ++ ' ' :: short = c :: t ∧ isPySpace c = false :=
        ⟨'*', stars n ++ ' ' :: short, by simp [stars, List.replicate_succ], by decide⟩
      have hlvl : ∀ rest, tagLevel (stars (n + 1) ++ ' ' :: rest) = some (n + 1) :=
        fun rest => tagLevel_stars (n + 1) (' ' :: rest) (by omega) ⟨' ', _, rfl, by decide⟩
      by_cases hex : extras (formatAttr as) desc = []
      · have hrb : rowBody (n + 1) short (extras (formatAttr as) desc) = stars (n + 1) ++ ' ' :: short := by
          simp [rowBody, hhash, hex]
        rw [hrb] at he hz ⊢
        have htl : tagLine (n + 1) short (extras (formatAttr as) desc) = stars (n + 1) ++ ' ' :: short := by
          simp [tagLine, flush, hhash, hex]
        rw [htl]
        refine ⟨?_, ?_, by simpa using quote3_prefix_stars n _, fun _ => hlvl _⟩
        · apply cleanLine_plain _ (by simp) hcur
          obtain ⟨d, hd⟩ := getLast?_some_of_ne_nil short hsne
          exact trimmed_of _ '*' d (by simp [stars, List.replicate_succ])
            (getLast?_append_some _ _ d (getLast?_append_some [' '] short d hd)) (by decide) (trimmed_last hstr hd)
        · have := hread [' '] [] (by simp) (by simp) ⟨fun _ => Or.inl rfl, fun hne => absurd hex hne⟩
            (by simpa [hex] using he) (by simpa [hex] using hz)
          simpa [hex] using this
      · have hemp : (extras (formatAttr as) desc).isEmpty = false := by simpa using hex
        have hrb : rowBody (n + 1) short (extras (formatAttr as) desc) =
            (stars (n + 1) ++ ' ' :: short) ++ ' ' :: extras (formatAttr as) desc := by
          simp [rowBody, hhash, hemp]
        rw [hrb] at he hz ⊢
        have htl : tagLine (n + 1) short (extras (formatAttr as) desc) =
            (stars (n + 1) ++ ' ' :: short) ++ ' ' :: tagOpen ++ extras (formatAttr as) desc ++ tagClose := by
          simp [tagLine, flush, hhash, hemp]
        rw [htl]
        refine ⟨cleanLine_written _ _ hcur hhd hclean, ?_, by simpa using quote3_prefix_stars n _, ?_⟩
        · have := hread [' '] [' '] (by simp) (by simp) ⟨fun h0 => absurd h0 hex, fun _ => rfl⟩
            (by simpa using he) (by simpa using hz)
          simpa using this
        · intro _
          have := hlvl (short ++ ' ' :: extras (formatAttr as) desc)
          simpa using this


theorem normDesc_of_trimmed (desc : Option Str) (hd : descWF desc = true) (ht : descTrimmed desc = true) :
    normDesc desc = desc :=
  normDesc_of_normal desc (descNormal_of desc hd ht)

theorem line_roundtrip_core (l : Nat) (short : Str) (as : Attrs) (desc : Option Str)
    (h : lineWF l short as desc = true) (ht : descTrimmed desc = true) :
    cleanLine (tagLine l short (extras (formatAttr as) desc)) =
        .ok (some (rowBody l short (extras (formatAttr as) desc))) ∧
      readEntry (rowBody l short (extras (formatAttr as) desc)) = .ok (short, as, desc) ∧
      quote3.isPrefixOf (rowBody l short (extras (formatAttr as) desc)) = (l == 0) ∧
      (0 < l → tagLevel (rowBody l short (extras (formatAttr as) desc)) = some l) := by
  have := line_roundtrip_full l short as desc h
  rw [normDesc_of_trimmed desc (lineWF_spec h).2.2.2.1 ht] at this
  exact this

/-- `line_roundtrip_partial` in the form used by the tag-section proof (stated here because the section lemmas
live in this namespace) -/
theorem C05aux.line (e : Entry) (hl : lineWF (level e.name) (shortName e.name) e.attrs e.desc = true)
    (htr : descTrimmed e.desc = true) :
    cleanLine (tagLine (level e.name) (shortName e.name) (extras (formatAttr e.attrs) e.desc)) =
        .ok (some (rowBody (level e.name) (shortName e.name) (extras (formatAttr e.attrs) e.desc))) ∧
      readEntry (rowBody (level e.name) (shortName e.name) (extras (formatAttr e.attrs) e.desc)) =
        .ok (shortName e.name, e.attrs, e.desc) ∧
      quote3.isPrefixOf (rowBody (level e.name) (shortName e.name) (extras (formatAttr e.attrs) e.desc)) =
        (level e.name == 0) ∧
      (0 < level e.name →
        tagLevel (rowBody (level e.name) (shortName e.name) (extras (formatAttr e.attrs) e.desc)) = some (level e.name)) :=
  line_roundtrip_core (level e.name) (shortName e.name) e.attrs e.desc hl htr

/-! ### the tag section -/

theorem splitOn_ne_nil (d : Char) (s : Str) : splitOn d s ≠ [] := by
  induction s with
  | nil => simp [splitOn]
  | cons c cs ih =>
    simp only [splitOn]
    split
    · simp
    · cases h : splitOn d cs with
      | nil => exact absurd h ih
      | cons p ps => simp [consHead]

theorem splitOn_length (d : Char) (s : Str) : (splitOn d s).length = s.count d + 1 := by
  induction s with
  | nil => simp [splitOn]
  | cons c cs ih =>
    simp only [splitOn, List.count_cons]
    by_cases h : (c == d) = true
    · simp [h, ih]
    · have h' : (c == d) = false := by simpa using h
      simp only [h', Bool.false_eq_true, ↓reduceIte, Nat.add_zero]
      cases hs : splitOn d cs with
      | nil => exact absurd hs (splitOn_ne_nil d cs)
      | cons p ps => rw [hs] at ih; simpa [consHead] using ih

theorem joinWith_cons_head (sep : Str) (c : Char) (p : Str) (ps : List Str) :
    joinWith sep ((c :: p) :: ps) = c :: joinWith sep (p :: ps) := by
  cases ps <;> simp [joinWith]

theorem join_split (d : Char) (s : Str) : joinWith [d] (splitOn d s) = s := by
  induction s with
  | nil => simp [splitOn, joinWith]
  | cons c cs ih =>
    simp only [splitOn]
    cases hs : splitOn d cs with
    | nil => exact absurd hs (splitOn_ne_nil d cs)
    | cons p ps =>
      rw [hs] at ih
      by_cases h : (c == d) = true
      · have : c = d := by simpa using h
        simp [h, joinWith, ih, this]
      · have h' : (c == d) = false := by simpa using h
        simp [h', consHead, joinWith_cons_head, ih]

theorem joinWith_snoc (sep : Str) (dl : List Str) (x : Str) (h : dl ≠ []) :
    joinWith sep (dl ++ [x]) = joinWith sep dl ++ sep ++ x := by
  induction dl with
  | nil => exact absurd rfl h
  | cons a t ih =>
    cases t with
    | nil => simp [joinWith]
    | cons b t' =>
      have := ih (by simp)
      simp only [List.cons_append] at this ⊢
      simp [joinWith, this]

theorem rebuild_name (name : Str) :
    (if (splitOn '/' name).dropLast.isEmpty then shortName name
     else joinWith ['/'] (splitOn '/' name).dropLast ++ '/' :: shortName name) = name := by
  have hne := splitOn_ne_nil '/' name
  have hdl := List.dropLast_concat_getLast hne
  have hl : (splitOn '/' name).getLast? = some ((splitOn '/' name).getLast hne) := List.getLast?_eq_some_getLast hne
  generalize (splitOn '/' name).getLast hne = last at hdl hl
  have hshort : shortName name = last := by simp [shortName, hl]
  have hj := join_split '/' name
  rw [hshort]
  by_cases hd : (splitOn '/' name).dropLast = []
  · rw [hd] at hdl ⊢
    simp only [List.nil_append] at hdl
    rw [← hdl] at hj
    simpa [joinWith] using hj
  · have : (splitOn '/' name).dropLast.isEmpty = false := by simpa using hd
    rw [this]
    simp only [Bool.false_eq_true, ↓reduceIte]
    rw [← hdl, joinWith_snoc _ _ _ hd] at hj
    simpa using hj

theorem cleanLine_nil : cleanLine [] = .ok none := by
  simp [cleanLine, strip, lstrip, rstrip, nowikiErr, findSub, tagOpen, tagClose, removeTags]

theorem entryWF_spec {e : Entry} (h : entryWF e = true) :
    lineWF (level e.name) (shortName e.name) e.attrs e.desc = true := by
  unfold entryWF at h
  simp only [Bool.and_eq_true] at h
  exact h.2

theorem ofWikiFrom_step (rest : List Str) (prev : List Str) (e : Entry) (hwf : entryWF e = true)
    (htr : descTrimmed e.desc = true)
    (h1 : (splitOn '/' e.name).length - 1 ≤ prev.length)
    (h2 : (splitOn '/' e.name).dropLast = prev.take ((splitOn '/' e.name).length - 1)) :
    ofWikiFrom (tagLine (level e.name) (shortName e.name) (entryExtras e) :: rest) prev =
      match ofWikiFrom rest (splitOn '/' e.name) with
      | .error x => .error x
      | .ok es => .ok (e :: es) := by
  have hl := entryWF_spec hwf
  have hlevel : level e.name = (splitOn '/' e.name).length - 1 := by
    simp [level, splitOn_length]
  obtain ⟨hn, _⟩ := lineWF_spec hl
  obtain ⟨hsne, _, _⟩ := nameWF_spec hn
  have hsemp : (shortName e.name).isEmpty = false := by simpa using hsne
  have hrebuild := rebuild_name e.name
  have hmk : (⟨e.name, e.attrs, e.desc⟩ : Entry) = e := by cases e; rfl
  unfold entryExtras
  obtain ⟨c1, c2, c3, c4⟩ := C05aux.line e hl htr
  rw [ofWikiFrom]
  simp only [c1, c2, c3, hsemp]
  cases hlv : level e.name with
  | zero =>
    rw [hlv] at c3 c4
    rw [← hlevel, hlv] at h2
    simp only [List.take_zero] at h2
    simp only [beq_self_eq_true, ↓reduceIte, Bool.false_eq_true]
    rw [h2] at hrebuild
    simp only [List.isEmpty_nil, ↓reduceIte] at hrebuild ⊢
    rw [hrebuild, hmk]
    cases ofWikiFrom rest (splitOn '/' e.name) <;> rfl
  | succ n =>
    rw [hlv] at c3 c4
    have c4' := c4 (by omega)
    rw [← hlevel, hlv] at h1 h2
    have hne : ((n + 1) == 0) = false := by simp
    simp only [hne, Bool.false_eq_true, ↓reduceIte, c4']
    by_cases hlt : n + 1 < prev.length
    · simp only [hlt, ↓reduceIte]
      rw [← h2, hrebuild, hmk]
      cases ofWikiFrom rest (splitOn '/' e.name) <;> rfl
    · have heq : prev.length = n + 1 := by omega
      have hgt : ¬ (n + 1 > prev.length) := by omega
      simp only [hlt, hgt, ↓reduceIte]
      have : prev = prev.take (n + 1) := by rw [← heq, List.take_length]
      rw [this, ← h2, hrebuild, hmk]
      cases ofWikiFrom rest (splitOn '/' e.name) <;> rfl

theorem ofWikiFrom_toWiki (ts : List Entry) (prev : List Str)
    (hwf : ∀ e ∈ ts, entryWF e = true ∧ descTrimmed e.desc = true) (hp : Preorder prev ts = true) :
    ofWikiFrom (toWiki ts) prev = .ok ts := by
  induction ts generalizing prev with
  | nil => simp [toWiki, toWikiLeveled, ofWikiFrom]
  | cons e r ih =>
    obtain ⟨hw, ht⟩ := hwf e List.mem_cons_self
    simp only [Preorder, Bool.and_eq_true, decide_eq_true_eq, beq_iff_eq] at hp
    obtain ⟨⟨h1, h2⟩, h3⟩ := hp
    have ih' := ih (splitOn '/' e.name) (fun x hx => hwf x (List.mem_cons_of_mem _ hx)) h3
    have hstep := ofWikiFrom_step (toWiki r) prev e hw ht h1 h2
    rw [ih'] at hstep
    have e1 : toWiki (e :: r) = (if level e.name == 0 then [[]] else []) ++
        tagLine (level e.name) (shortName e.name) (entryExtras e) :: toWiki r := by
      simp [toWiki, toWikiLeveled]
    rw [e1]
    by_cases hz : (level e.name == 0) = true
    · simp only [hz, ↓reduceIte, List.cons_append, List.nil_append]
      rw [ofWikiFrom, cleanLine_nil]
      exact hstep
    · simp only [hz, Bool.false_eq_true, ↓reduceIte, List.nil_append]
      exact hstep

theorem ofWikiFrom_step_full (rest : List Str) (prev : List Str) (e : Entry) (hwf : entryWF e = true)
    (h1 : (splitOn '/' e.name).length - 1 ≤ prev.length)
    (h2 : (splitOn '/' e.name).dropLast = prev.take ((splitOn '/' e.name).length - 1)) :
    ofWikiFrom (tagLine (level e.name) (shortName e.name) (entryExtras e) :: rest) prev =
      match ofWikiFrom rest (splitOn '/' e.name) with
      | .error x => .error x
      | .ok es => .ok (normEntry e :: es) := by
  have hl := entryWF_spec hwf
  have hlevel : level e.name = (splitOn '/' e.name).length - 1 := by
    simp [level, splitOn_length]
  obtain ⟨hn, _⟩ := lineWF_spec hl
  obtain ⟨hsne, _, _⟩ := nameWF_spec hn
  have hsemp : (shortName e.name).isEmpty = false := by simpa using hsne
  have hrebuild := rebuild_name e.name
  have hmk : (⟨e.name, e.attrs, normDesc e.desc⟩ : Entry) = normEntry e := rfl
  unfold entryExtras
  obtain ⟨c1, c2, c3, c4⟩ := line_roundtrip_full (level e.name) (shortName e.name) e.attrs e.desc hl
  rw [ofWikiFrom]
  simp only [c1, c2, c3, hsemp]
  cases hlv : level e.name with
  | zero =>
    rw [hlv] at c3 c4
    rw [← hlevel, hlv] at h2
    simp only [List.take_zero] at h2
    simp only [beq_self_eq_true, ↓reduceIte, Bool.false_eq_true]
    rw [h2] at hrebuild
    simp only [List.isEmpty_nil, ↓reduceIte] at hrebuild ⊢
    rw [hrebuild, hmk]
    cases ofWikiFrom rest (splitOn '/' e.name) <;> rfl
  | succ n =>
    rw [hlv] at c3 c4
    have c4' := c4 (by omega)
    rw [← hlevel, hlv] at h1 h2
    have hne : ((n + 1) == 0) = false := by simp
    simp only [hne, Bool.false_eq_true, ↓reduceIte, c4']
    by_cases hlt : n + 1 < prev.length
    · simp only [hlt, ↓reduceIte]
      rw [← h2, hrebuild, hmk]
      cases ofWikiFrom rest (splitOn '/' e.name) <;> rfl
    · have heq : prev.length = n + 1 := by omega
      have hgt : ¬ (n + 1 > prev.length) := by omega
      simp only [hlt, hgt, ↓reduceIte]
      have : prev = prev.take (n + 1) := by rw [← heq, List.take_length]
      rw [this, ← h2, hrebuild, hmk]
      cases ofWikiFrom rest (splitOn '/' e.name) <;> rfl


theorem ofWikiFrom_toWiki_full (ts : List Entry) (prev : List Str)
    (hwf : ∀ e ∈ ts, entryWF e = true) (hp : Preorder prev ts = true) :
    ofWikiFrom (toWiki ts) prev = .ok (ts.map normEntry) := by
  induction ts generalizing prev with
  | nil => simp [toWiki, toWikiLeveled, ofWikiFrom]
  | cons e r ih =>
    have hw := hwf e List.mem_cons_self
    simp only [Preorder, Bool.and_eq_true, decide_eq_true_eq, beq_iff_eq] at hp
    obtain ⟨⟨h1, h2⟩, h3⟩ := hp
    have ih' := ih (splitOn '/' e.name) (fun x hx => hwf x (List.mem_cons_of_mem _ hx)) h3
    have hstep := ofWikiFrom_step_full (toWiki r) prev e hw h1 h2
    rw [ih'] at hstep
    have e1 : toWiki (e :: r) = (if level e.name == 0 then [[]] else []) ++
        tagLine (level e.name) (shortName e.name) (entryExtras e) :: toWiki r := by
      simp [toWiki, toWikiLeveled]
    rw [e1]
    by_cases hz : (level e.name == 0) = true
    · simp only [hz, ↓reduceIte, List.cons_append, List.nil_append]
      rw [ofWikiFrom, cleanLine_nil]
      exact hstep
    · simp only [hz, Bool.false_eq_true, ↓reduceIte, List.nil_append]
      exact hstep

/-! ### what the readers can return: descriptions are always absent or non-empty and trimmed -/

theorem lstrip_head (s : Str) : ∀ c, (lstrip s).head? = some c → isPySpace c = false := by
  induction s with
  | nil => intro c h; simp [lstrip] at h
  | cons a t ih =>
    intro c h
    unfold lstrip at h ih
    by_cases ha : isPySpace a = true
    · simp only [List.dropWhile, ha] at h; exact ih c h
    · have ha' : isPySpace a = false := by simpa using ha
      simp only [List.dropWhile, ha'] at h
      simp at h; subst h; exact ha'

theorem rstrip_last (t : Str) : ∀ c, (rstrip t).getLast? = some c → isPySpace c = false := by
  induction t with
  | nil => intro c h; simp [rstrip] at h
  | cons a t' ih =>
    intro c h
    rw [rstrip_cons] at h
    by_cases hc : ((rstrip t').isEmpty && isPySpace a) = true
    · simp [hc] at h
    · simp only [hc, Bool.false_eq_true, ↓reduceIte] at h
      cases hr : rstrip t' with
      | nil =>
        rw [hr] at h hc
        simp at h hc; subst h; exact hc
      | cons b u =>
        rw [hr] at h
        rw [List.getLast?_cons_cons] at h
        exact ih c (by rw [hr]; exact h)

theorem rstrip_head (t : Str) : ∀ c, (rstrip t).head? = some c → t.head? = some c := by
  cases t with
  | nil => intro c h; simp [rstrip] at h
  | cons a t' =>
    intro c h
    rw [rstrip_cons] at h
    split at h
    · simp at h
    · simpa using h

theorem strip_is_trimmed (s : Str) : trimmed (strip s) = true := by
  unfold trimmed strip
  have h1 : ∀ c, (rstrip (lstrip s)).head? = some c → isPySpace c = false :=
    fun c hc => lstrip_head s c (rstrip_head _ c hc)
  have h2 := rstrip_last (lstrip s)
  cases hh : (rstrip (lstrip s)).head? with
  | none =>
    cases hl : (rstrip (lstrip s)).getLast? with
    | none => simp
    | some d => simp [h2 d hl]
  | some c =>
    cases hl : (rstrip (lstrip s)).getLast? with
    | none => simp [h1 c hh]
    | some d => simp [h1 c hh, h2 d hl]

theorem readDesc_normal (d : Str) : descNormal (readDesc d) = true := by
  unfold readDesc
  split
  · rfl
  · rename_i hne
    simp only [descNormal, Bool.and_eq_true, Bool.not_eq_true']
    exact ⟨by simpa using hne, strip_is_trimmed _⟩

theorem normDesc_normal (desc : Option Str) : descNormal (normDesc desc) = true := by
  cases desc with
  | none => rfl
  | some d => exact readDesc_normal d

/-- `normDesc` fixes a description exactly when it is absent or non-empty and trimmed -/
theorem normDesc_fixed_iff (desc : Option Str) : normDesc desc = desc ↔ descNormal desc = true :=
  ⟨fun h => by rw [← h]; exact normDesc_normal desc, normDesc_of_normal desc⟩

theorem normDesc_idem (desc : Option Str) : normDesc (normDesc desc) = normDesc desc :=
  normDesc_of_normal _ (normDesc_normal desc)

theorem readEntry_desc_normal (row name : Str) (as : Attrs) (desc : Option Str)
    (h : readEntry row = .ok (name, as, desc)) : descNormal desc = true := by
  unfold readEntry readEntryWith at h
  split at h
  · simp at h
  · split at h
    · simp at h
    · split at h
      · simp at h
      · simp at h
      · split at h
        · simp at h
        · simp only [Except.ok.injEq, Prod.mk.injEq] at h
          obtain ⟨_, _, hd⟩ := h
          subst hd
          exact readDesc_normal _

theorem ofWikiFrom_desc_normal (lines : List Str) (parents : List Str) (es : List Entry)
    (h : ofWikiFrom lines parents = .ok es) : ∀ e ∈ es, descNormal e.desc = true := by
  fun_induction ofWikiFrom lines parents generalizing es
  all_goals first
    | (simp at h; subst h; simp; done)
    | (simp at h; done)
    | (rename_i ih; exact ih es h)
    | (rename_i ih
       simp only [Except.ok.injEq] at h
       subst h
       intro e he
       simp only [List.mem_cons] at he
       rcases he with rfl | he
       · exact readEntry_desc_normal _ _ _ _ (by assumption)
       · exact ih _ (by assumption) e he)

theorem ofTsvFrom_desc_normal (rows : List TsvRow) (known : List (Str × List Str)) (es : List Entry)
    (h : ofTsvFrom rows known = .ok es) : ∀ e ∈ es, descNormal e.desc = true := by
  fun_induction ofTsvFrom rows known generalizing es
  case case8 r rest known tagName _ parents long attrs0 _ attrs desc _ _ es' hrec ih =>
    simp only [Except.ok.injEq] at h
    subst h
    intro e he
    simp only [List.mem_cons] at he
    rcases he with rfl | he
    · exact readDesc_normal _
    · exact ih es' hrec e he
  all_goals simp at h
  all_goals (subst h; simp)

/-- the XML reader's description rule (fix a64eb53) is the same function as the text readers' (fix 391436a) -/
theorem readXmlDesc_eq_normDesc (d : Option Str) : readXmlDesc d = normDesc d := by
  cases d <;> rfl

theorem readXmlDesc_normal (d : Option Str) : descNormal (readXmlDesc d) = true := by
  rw [readXmlDesc_eq_normDesc]; exact normDesc_normal d

mutual
theorem readNode_desc_normal (parents : List Str) (x : XNode) :
    ∀ e ∈ readNode parents x, descNormal e.desc = true := by
  cases x with
  | node n d as ch =>
    intro e he
    simp only [readNode, List.mem_cons] at he
    rcases he with rfl | he
    · exact readXmlDesc_normal d
    · exact readForest_desc_normal (parents ++ [n]) ch e he
theorem readForest_desc_normal (parents : List Str) (F : List XNode) :
    ∀ e ∈ readForest parents F, descNormal e.desc = true := by
  cases F with
  | nil => intro e he; simp [readForest] at he
  | cons x xs =>
    intro e he
    simp only [readForest, List.mem_append] at he
    rcases he with he | he
    · exact readNode_desc_normal parents x e he
    · exact readForest_desc_normal parents xs e he
end

/-! ### the other MediaWiki sections -/

theorem entryLine_eq_tagLine (d : Nat) (name ex : Str) (hd : d ≠ 0) (hh : ¬ name.getLast? = some '#') :
    entryLine d name ex = tagLine d name ex := by
  have : (d == 0) = false := by simpa using hd
  simp [entryLine, tagLine, this, hh]

theorem secWF_spec {d : Nat} {e : Entry} (h : secWF d e = true) :
    lineWF d e.name e.attrs e.desc = true ∧ descTrimmed e.desc = true ∧ ¬ e.name.getLast? = some '#' := by
  unfold secWF at h
  simp only [Bool.and_eq_true, Bool.not_eq_true', beq_eq_false_iff_ne, ne_eq] at h
  exact ⟨h.1.1, h.1.2, h.2⟩

theorem section_line (d : Nat) (hd : 0 < d) (e : Entry) (h : secWF d e = true) :
    ∃ row, cleanLine (entryLine d e.name (entryExtras e)) = .ok (some row) ∧
      readEntry row = .ok (e.name, e.attrs, e.desc) ∧ tagLevel row = some d := by
  obtain ⟨hl, ht, hh⟩ := secWF_spec h
  obtain ⟨c1, c2, _, c4⟩ := line_roundtrip_core d e.name e.attrs e.desc hl ht
  refine ⟨_, ?_, c2, c4 hd⟩
  rw [entryLine_eq_tagLine d e.name _ (by omega) hh]
  exact c1

theorem entry_eta (e : Entry) : (⟨e.name, e.attrs, e.desc⟩ : Entry) = e := by cases e; rfl

theorem ofWikiSection_lines (es : List Entry) (h : ∀ e ∈ es, secWF 1 e = true) :
    ofWikiSection (sectionLines es) = .ok es := by
  induction es with
  | nil => simp [sectionLines, ofWikiSection]
  | cons e r ih =>
    obtain ⟨row, c1, c2, _⟩ := section_line 1 (by omega) e (h e List.mem_cons_self)
    have ih' := ih (fun x hx => h x (List.mem_cons_of_mem _ hx))
    simp only [sectionLines, List.map_cons] at ih' ⊢
    rw [ofWikiSection]
    simp only [c1, c2, ih', entry_eta]

theorem ofWikiUnitsAux_units (us : List Entry) (rest : List Str) (pend : List Entry)
    (cls : List (Entry × List Entry)) (h : ∀ u ∈ us, secWF 2 u = true)
    (hr : ofWikiUnitsAux rest = .ok (pend, cls)) :
    ofWikiUnitsAux ((us.map fun u => entryLine 2 u.name (entryExtras u)) ++ rest) = .ok (us ++ pend, cls) := by
  induction us with
  | nil => simpa using hr
  | cons u r ih =>
    obtain ⟨row, c1, c2, c3⟩ := section_line 2 (by omega) u (h u List.mem_cons_self)
    have ih' := ih (fun x hx => h x (List.mem_cons_of_mem _ hx))
    simp only [List.map_cons, List.cons_append]
    simp only [ofWikiUnitsAux, c1, c2, c3, ih', entry_eta]
    try simp

theorem ofWikiUnitsAux_lines (ucs : List (Entry × List Entry))
    (h : ∀ p ∈ ucs, secWF 1 p.1 = true ∧ ∀ u ∈ p.2, secWF 2 u = true) :
    ofWikiUnitsAux (unitLines ucs) = .ok ([], ucs) := by
  induction ucs with
  | nil => simp [unitLines, ofWikiUnitsAux]
  | cons p r ih =>
    obtain ⟨uc, us⟩ := p
    obtain ⟨h1, h2⟩ := h (uc, us) List.mem_cons_self
    obtain ⟨row, c1, c2, c3⟩ := section_line 1 (by omega) uc h1
    have ih' := ih (fun x hx => h x (List.mem_cons_of_mem _ hx))
    have hu := ofWikiUnitsAux_units us (unitLines r) [] r h2 ih'
    simp only [unitLines, List.cons_append]
    simp only [ofWikiUnitsAux, c1, c2, c3, hu, entry_eta]
    try simp

/-! ### the TSV tag sheet -/

theorem name_decomp (name : Str) :
    ∃ dl last, splitOn '/' name = dl ++ [last] ∧ shortName name = last ∧ (dl = [] → name = last) ∧
      (dl ≠ [] → name = joinWith ['/'] dl ++ '/' :: last) := by
  have hne := splitOn_ne_nil '/' name
  have hdl := List.dropLast_concat_getLast hne
  have hl : (splitOn '/' name).getLast? = some ((splitOn '/' name).getLast hne) := List.getLast?_eq_some_getLast hne
  generalize (splitOn '/' name).getLast hne = last at hdl hl
  refine ⟨(splitOn '/' name).dropLast, last, hdl.symm, by simp [shortName, hl], ?_, ?_⟩
  · intro hd
    have hj := join_split '/' name
    rw [← hdl, hd] at hj
    simpa [joinWith] using hj.symm
  · intro hd
    have hj := join_split '/' name
    rw [← hdl, joinWith_snoc _ _ _ hd] at hj
    simpa using hj.symm

theorem getLast?_append_ne (a l : Str) (h : l ≠ []) : (a ++ l).getLast? = l.getLast? := by
  obtain ⟨d, hd⟩ := getLast?_some_of_ne_nil l h
  rw [getLast?_append_some a l d hd, hd]

theorem endsDashHash_last {s : Str} (h : endsDashHash s = true) : s.getLast? = some '#' := by
  unfold endsDashHash dashHash at h
  rw [List.getLast?_eq_head?_reverse]
  cases hr : s.reverse with
  | nil => rw [hr] at h; simp at h
  | cons c t =>
    rw [hr] at h
    simp only [List.reverse_cons, List.reverse_nil, List.nil_append, List.cons_append,
      List.isPrefixOf_cons_cons, Bool.and_eq_true, beq_iff_eq] at h
    simp [h.1.symm]

theorem endsDashHash_append (p : Str) : endsDashHash (p ++ dashHash) = true := by
  simp [endsDashHash, dashHash, List.isPrefixOf_cons_cons]

theorem splitOn_joinComma (vs : List Str) (hne : vs ≠ []) (h : ∀ v ∈ vs, ∀ c ∈ v, c ≠ ',') :
    splitOn ',' (joinWith [','] vs) = vs := by
  induction vs with
  | nil => exact absurd rfl hne
  | cons x r ih =>
    cases r with
    | nil => simp [joinWith, splitOn_none ',' x (h x List.mem_cons_self)]
    | cons y r' =>
      have ih' := ih (by simp) (fun z hz => h z (List.mem_cons_of_mem _ hz))
      simp only [joinWith, List.append_assoc, List.cons_append, List.nil_append]
      rw [splitOn_append ',' x _ (h x List.mem_cons_self), ih']

theorem hasKey_filter {as : Attrs} {p : Str × List Str → Bool} {k : Str} (h : hasKey as k = false) :
    hasKey (as.filter p) k = false := by
  unfold hasKey at *
  simp only [List.any_eq_false, List.mem_filter] at h ⊢
  intro x hx
  exact h x hx.1

theorem nodupKeys_filter (as : Attrs) (p : Str × List Str → Bool) (h : nodupKeys as = true) :
    nodupKeys (as.filter p) = true := by
  induction as with
  | nil => rfl
  | cons kv r ih =>
    simp only [nodupKeys, Bool.and_eq_true, Bool.not_eq_true'] at h
    simp only [List.filter]
    split
    · simp only [nodupKeys, Bool.and_eq_true, Bool.not_eq_true']
      exact ⟨hasKey_filter h.1, ih h.2⟩
    · exact ih h.2

theorem attrsWF_filter (as : Attrs) (p : Str × List Str → Bool) (h : attrsWF as = true) :
    attrsWF (as.filter p) = true := by
  obtain ⟨hnd, hwf⟩ := attrsWF_spec h
  unfold attrsWF
  simp only [Bool.and_eq_true, List.all_eq_true]
  refine ⟨nodupKeys_filter as p hnd, ?_⟩
  intro kv hkv
  have := hwf kv (List.mem_filter.mp hkv).1
  exact ⟨this.1, this.2⟩

theorem lookupAttr_none {as : Attrs} {k : Str} (h : lookupAttr as k = none) : ∀ kv ∈ as, kv.1 ≠ k := by
  unfold lookupAttr at h
  simp only [Option.map_eq_none_iff, List.find?_eq_none] at h
  intro kv hkv
  simpa using h kv hkv

theorem lookupAttr_some {as : Attrs} {k : Str} {vs : List Str} (h : lookupAttr as k = some vs) : (k, vs) ∈ as := by
  unfold lookupAttr at h
  simp only [Option.map_eq_some_iff] at h
  obtain ⟨kv, hf, rfl⟩ := h
  have hm := List.mem_of_find?_eq_some hf
  have hk := List.find?_some hf
  have : kv.1 = k := by simpa using hk
  rw [← this]
  exact hm

theorem dictPut_new {α} (d : List (Str × α)) (k : Str) (v : α) (h : ∀ kv ∈ d, kv.1 ≠ k) :
    dictPut d k v = d ++ [(k, v)] := by
  unfold dictPut
  have : d.any (·.1 == k) = false := by
    simp only [List.any_eq_false, beq_iff_eq]
    exact h
  simp [this]

theorem tsvWF_spec {e : Entry} (h : tsvWF e = true) :
    attrsWF e.attrs = true ∧ hasKey e.attrs annotationKey = false ∧ lookupAttr e.attrs hedIdKey ≠ some [] ∧
    (∀ d, e.desc = some d → d ≠ [] ∧ trimmed d = true) ∧ (∀ c ∈ splitOn '/' e.name, c ≠ []) ∧
    (match (splitOn '/' e.name).reverse with
     | last :: _ :: _ => last = ['#'] ∨ ¬ last.getLast? = some '#'
     | [last] => ¬ last.getLast? = some '#'
     | [] => False) := by
  unfold tsvWF at h
  simp only [Bool.and_eq_true, Bool.not_eq_true', List.all_eq_true, List.isEmpty_eq_false_iff] at h
  obtain ⟨⟨⟨⟨⟨h1, h2⟩, h3⟩, h4⟩, h5⟩, h6⟩ := h
  refine ⟨h1, h2, ?_, ?_, h5, ?_⟩
  · intro hc; rw [hc] at h3; simp at h3
  · intro d hd; rw [hd] at h4; simpa using h4
  · revert h6
    cases (splitOn '/' e.name).reverse with
    | nil => simp
    | cons last t =>
      cases t with
      | nil => simp
      | cons p t' => simp

theorem tsv_name_decode (lv : Nat) (e : Entry) (h : tsvWF e = true) :
    (if endsDashHash (tsvRow lv e).name then ['#'] else (tsvRow lv e).name) = shortName e.name ∧
    shortName e.name ≠ [] ∧ e.name ≠ ['#'] := by
  obtain ⟨_, _, _, _, hcomp, hlast⟩ := tsvWF_spec h
  obtain ⟨dl, last, hcs, hshort, h1, h2⟩ := name_decomp e.name
  have hlne : last ≠ [] := hcomp last (by rw [hcs]; simp)
  have hrev : (splitOn '/' e.name).reverse = last :: dl.reverse := by rw [hcs]; simp
  have hnl : e.name.getLast? = last.getLast? := by
    by_cases hd : dl = []
    · rw [h1 hd]
    · rw [h2 hd]
      have : joinWith ['/'] dl ++ '/' :: last = (joinWith ['/'] dl ++ ['/']) ++ last := by simp
      rw [this, getLast?_append_ne _ _ hlne]
  rw [hrev] at hlast
  rw [hshort]
  have hname : (tsvRow lv e).name =
      if e.name.getLast? == some '#' then shortTag e.name ++ dashHash else shortTag e.name := rfl
  by_cases hh : last.getLast? = some '#'
  · -- value-taking child `…/#`
    cases hdr : dl.reverse with
    | nil => rw [hdr] at hlast; exact absurd hh hlast
    | cons prev t =>
      rw [hdr] at hlast
      have hl : last = ['#'] := by
        rcases hlast with hl | hl
        · exact hl
        · exact absurd hh hl
      subst hl
      have hdne : dl ≠ [] := by intro e0; rw [e0] at hdr; simp at hdr
      have hst : shortTag e.name = prev := by simp [shortTag, hrev, hdr]
      refine ⟨?_, hlne, ?_⟩
      · rw [hname, hnl, hh, hst]
        simp [endsDashHash_append]
      · intro hn
        have : splitOn '/' e.name = [['#']] := by rw [hn]; decide
        rw [this] at hcs
        cases dl with
        | nil => exact hdne rfl
        | cons a t => simp at hcs
  · have hl : ¬ last = ['#'] := by intro e0; rw [e0] at hh; simp at hh
    have hst' : shortTag e.name = last := by
      unfold shortTag
      rw [hrev]
      cases dl.reverse with
      | nil => simp [hl]
      | cons p t => simp [hl]
    have hne : ¬ (e.name.getLast? == some '#') = true := by rw [hnl]; simpa using hh
    refine ⟨?_, hlne, ?_⟩
    · rw [hname]
      simp only [hne, Bool.false_eq_true, ↓reduceIte, hst']
      have : endsDashHash last = false := by
        cases hd : endsDashHash last with
        | false => rfl
        | true => exact absurd (endsDashHash_last hd) hh
      simp [this]
    · intro hn
      rw [hn] at hnl
      simp at hnl
      exact hh hnl.symm

theorem tsv_long (e : Entry) :
    tsvLong (some (splitOn '/' e.name).dropLast) (shortName e.name) = e.name := by
  unfold tsvLong
  obtain ⟨dl, last, hcs, hshort, h1, h2⟩ := name_decomp e.name
  rw [hcs, List.dropLast_concat, hshort]
  cases dl with
  | nil => simpa using (h1 rfl).symm
  | cons p ps => simpa using (h2 (by simp)).symm

theorem dfAttrs_eq (as : Attrs) (ha : hasKey as annotationKey = false) :
    dfAttrs as = as.filter fun kv => !(kv.1 == hedIdKey) := by
  unfold dfAttrs
  apply List.filter_congr
  intro kv hkv
  have := hasKey_false ha kv hkv
  simp [this]

theorem tsv_attrs (lv : Nat) (e : Entry) (h : tsvWF e = true) :
    parseAttr (tsvRow lv e).attrs = .ok (dfAttrs e.attrs) ∧
    (if (tsvRow lv e).hedId.isEmpty then dfAttrs e.attrs
     else dictPut (dfAttrs e.attrs) hedIdKey (splitOn ',' (tsvRow lv e).hedId)) = (hedLast e).attrs := by
  obtain ⟨hwf, hann, hid, _, _, _⟩ := tsvWF_spec h
  refine ⟨parseAttr_formatAttr _ (attrsWF_filter _ _ hwf), ?_⟩
  have hdf := dfAttrs_eq e.attrs hann
  have hhid : (tsvRow lv e).hedId = match lookupAttr e.attrs hedIdKey with
      | none => []
      | some [] => ['T', 'r', 'u', 'e']
      | some vs => joinWith [','] vs := rfl
  rw [hhid]
  unfold hedLast
  cases hl : lookupAttr e.attrs hedIdKey with
  | none =>
    simp only [List.isEmpty_nil, ↓reduceIte]
    rw [hdf]
    apply List.filter_eq_self.mpr
    intro kv hkv
    simpa using lookupAttr_none hl kv hkv
  | some vs =>
    cases vs with
    | nil => exact absurd hl hid
    | cons v vs' =>
      have hmem := lookupAttr_some hl
      obtain ⟨_, hall⟩ := attrsWF_spec hwf
      have hvs := (hall _ hmem).2
      have hvne : v ≠ [] := (valWF_spec (hvs v List.mem_cons_self)).1
      have hj : joinWith [','] (v :: vs') ≠ [] := joinWith_ne_nil _ v vs' hvne
      have hemp : (joinWith [','] (v :: vs')).isEmpty = false := by simpa using hj
      simp only [hemp, Bool.false_eq_true, ↓reduceIte]
      rw [splitOn_joinComma (v :: vs') (by simp) (fun x hx c hc => ((valWF_spec (hvs x hx)).2.2 c hc).1), hdf]
      apply dictPut_new
      intro kv hkv
      have := (List.mem_filter.mp hkv).2
      simpa using this

theorem tsv_desc (lv : Nat) (e : Entry) (h : tsvWF e = true) :
    readDesc (tsvRow lv e).desc = e.desc := by
  obtain ⟨_, _, _, hd, _, _⟩ := tsvWF_spec h
  have : (tsvRow lv e).desc = e.desc.getD [] := rfl
  rw [this]
  cases hdesc : e.desc with
  | none => simp
  | some d =>
    obtain ⟨hne, htr⟩ := hd d hdesc
    simpa using readDesc_of_trimmed hne htr

theorem ofTsvFrom_toTsvRows (leveled : List (Nat × Entry)) (known : List (Str × List Str))
    (hwf : ∀ p ∈ leveled, tsvWF p.2 = true) (hr : TsvResolvable known (leveled.map (·.2)) = true) :
    ofTsvFrom (toTsvRows leveled) known = .ok (leveled.map fun p => hedLast p.2) := by
  induction leveled generalizing known with
  | nil => simp [toTsvRows, ofTsvFrom]
  | cons p r ih =>
    obtain ⟨lv, e⟩ := p
    have hw := hwf (lv, e) List.mem_cons_self
    simp only [List.map_cons, TsvResolvable, Bool.and_eq_true, beq_iff_eq] at hr
    obtain ⟨hk, hr'⟩ := hr
    obtain ⟨hdec, hsne, hnh⟩ := tsv_name_decode lv e hw
    have hk : dictGet known (tsvRow lv e).parent = some (splitOn '/' e.name).dropLast := hk
    have hlong := tsv_long e
    obtain ⟨hparse, hattrs⟩ := tsv_attrs lv e hw
    have hdesc := tsv_desc lv e hw
    have ih' := ih (dictPut known (shortTag e.name) (splitOn '/' e.name))
      (fun x hx => hwf x (List.mem_cons_of_mem _ hx)) hr'
    have hsemp : (shortName e.name).isEmpty = false := by simpa using hsne
    have hnh' : (e.name == ['#']) = false := by simpa using hnh
    have hmk : (⟨e.name, (hedLast e).attrs, e.desc⟩ : Entry) = hedLast e := by
      unfold hedLast
      cases lookupAttr e.attrs hedIdKey <;> rfl
    simp only [toTsvRows, List.map_cons] at ih' ⊢
    rw [ofTsvFrom]
    simp only [hdec, hsemp, hlong, hparse, hattrs, hdesc, hnh', hk, ih', hmk]
    simp

theorem hedLast_lookup (e : Entry) (k : Str) : lookupAttr (hedLast e).attrs k = lookupAttr e.attrs k := by
  unfold hedLast
  cases hl : lookupAttr e.attrs hedIdKey with
  | none => rfl
  | some vs =>
    simp only
    unfold lookupAttr at hl ⊢
    rw [List.find?_append, List.find?_filter]
    by_cases hk : k = hedIdKey
    · subst hk
      have : (e.attrs.find? fun a => decide ((!(a.1 == hedIdKey)) = true ∧ (a.1 == hedIdKey) = true)) = none := by
        simp [List.find?_eq_none]
      rw [this]
      simpa using hl.symm
    · have hfun : (fun a : Str × List Str => decide ((!(a.1 == hedIdKey)) = true ∧ (a.1 == k) = true)) =
          fun a => a.1 == k := by
        funext a
        by_cases ha : a.1 = k
        · simp [ha, hk]
        · simp [ha]
      rw [hfun]
      have hne : (hedIdKey == k) = false := by simpa using Ne.symm hk
      cases e.attrs.find? (fun a => a.1 == k) with
      | none => simp [hne]
      | some x => simp

/-! ### the XML element tree -/

/-- names along the rightmost spine of a forest, `d` levels deep (proof device for `insertDepth`) -/
def spine : List XNode → Nat → List Str
  | _, 0 => []
  | [], _ + 1 => []
  | [.node n _ _ ch], k + 1 => n :: spine ch k
  | _ :: m :: rest, k + 1 => spine (m :: rest) (k + 1)

theorem readForest_append (ps : List Str) (F G : List XNode) :
    readForest ps (F ++ G) = readForest ps F ++ readForest ps G := by
  induction F with
  | nil => simp [readForest]
  | cons x xs ih => simp [readForest, ih]

theorem insert_read (F : List XNode) (d : Nat) (x : XNode) (F' : List XNode) (ps : List Str)
    (h : insertDepth F d x = some F') :
    readForest ps F' = readForest ps F ++ readNode (ps ++ spine F d) x := by
  fun_induction insertDepth F d x generalizing F' ps
  case case1 F x =>
    simp only [Option.some.injEq] at h
    subst h
    simp [readForest_append, readForest, spine]
  case case2 => simp at h
  case case3 n d as ch k x ih =>
    simp only [Option.map_eq_some_iff] at h
    obtain ⟨ch', hch, rfl⟩ := h
    have := ih ch' (ps ++ [n]) hch
    simp [readForest, readNode, this, spine]
  case case4 n m rest k x ih =>
    simp only [Option.map_eq_some_iff] at h
    obtain ⟨F'', hF, rfl⟩ := h
    have := ih F'' ps hF
    simp [readForest, this, spine]

theorem insertDepth_ne_nil (F : List XNode) (d : Nat) (x : XNode) (F' : List XNode)
    (h : insertDepth F d x = some F') : F' ≠ [] := by
  fun_induction insertDepth F d x generalizing F'
  case case1 => simp at h; subst h; simp
  case case2 => simp at h
  case case3 =>
    simp only [Option.map_eq_some_iff] at h
    obtain ⟨_, _, rfl⟩ := h; simp
  case case4 =>
    simp only [Option.map_eq_some_iff] at h
    obtain ⟨_, _, rfl⟩ := h; simp

theorem spine_succ_cons_cons (n a : XNode) (b : List XNode) (k : Nat) :
    spine (n :: a :: b) (k + 1) = spine (a :: b) (k + 1) := by
  simp [spine]

theorem spine_append_last (F : List XNode) (n : Str) (d : Option Str) (as : Attrs) (ch : List XNode) (k : Nat) :
    spine (F ++ [.node n d as ch]) (k + 1) = n :: spine ch k := by
  induction F with
  | nil => simp [spine]
  | cons a t ih =>
    cases t with
    | nil => simpa [spine] using ih
    | cons b t' =>
      simp only [List.cons_append] at ih ⊢
      rw [spine_succ_cons_cons]
      exact ih

theorem spine_success (F : List XNode) (d : Nat) (x : XNode) (h : (spine F d).length = d) :
    ∃ F', insertDepth F d x = some F' := by
  fun_induction insertDepth F d x
  case case1 F x => exact ⟨_, rfl⟩
  case case2 => simp [spine] at h
  case case3 n dd as ch k x ih =>
    simp only [spine, List.length_cons] at h
    obtain ⟨ch', hch⟩ := ih (by omega)
    exact ⟨[.node n dd as ch'], by simp [insertDepth, hch]⟩
  case case4 n m rest k x ih =>
    rw [spine_succ_cons_cons] at h
    obtain ⟨F'', hF⟩ := ih h
    exact ⟨n :: F'', by simp [insertDepth, hF]⟩

theorem spine_after_insert (F : List XNode) (d : Nat) (n : Str) (dd : Option Str) (as : Attrs) (F' : List XNode)
    (h : insertDepth F d (.node n dd as []) = some F') :
    (∀ d' ≤ d, spine F' d' = spine F d') ∧ spine F' (d + 1) = spine F d ++ [n] := by
  generalize hx : XNode.node n dd as [] = x at h
  fun_induction insertDepth F d x generalizing F'
  case case1 F x =>
    simp only [Option.some.injEq] at h
    subst h; subst hx
    refine ⟨?_, ?_⟩
    · intro d' hd'
      have : d' = 0 := by omega
      subst this; simp [spine]
    · simp [spine_append_last, spine]
  case case2 => simp at h
  case case3 n0 d0 as0 ch k x ih =>
    simp only [Option.map_eq_some_iff] at h
    obtain ⟨ch', hch, rfl⟩ := h
    obtain ⟨i1, i2⟩ := ih ch' hx hch
    refine ⟨?_, ?_⟩
    · intro d' hd'
      cases d' with
      | zero => simp [spine]
      | succ j => simp [spine, i1 j (by omega)]
    · simp [spine, i2]
  case case4 n0 m rest k x ih =>
    simp only [Option.map_eq_some_iff] at h
    obtain ⟨F'', hF, rfl⟩ := h
    obtain ⟨i1, i2⟩ := ih F'' hx hF
    obtain ⟨a, b, hab⟩ := List.exists_cons_of_ne_nil (insertDepth_ne_nil _ _ _ _ hF)
    subst hab
    refine ⟨?_, ?_⟩
    · intro d' hd'
      cases d' with
      | zero => simp [spine]
      | succ j =>
        rw [spine_succ_cons_cons, spine_succ_cons_cons]
        exact i1 (j + 1) hd'
    · rw [spine_succ_cons_cons, spine_succ_cons_cons]
      exact i2

theorem readXmlAttrs_id (as acc : Attrs) (hnd : nodupKeys as = true)
    (hv : ∀ kv ∈ as, ∀ v ∈ kv.2, v ≠ [] ∧ ∀ c ∈ v, c ≠ ',') (hdis : ∀ kv ∈ as, hasKey acc kv.1 = false) :
    readXmlAttrs as acc = acc ++ as := by
  induction as generalizing acc with
  | nil => simp [readXmlAttrs]
  | cons kv r ih =>
    obtain ⟨k, vs⟩ := kv
    simp only [nodupKeys, Bool.and_eq_true, Bool.not_eq_true'] at hnd
    have hval : (if (joinWith [','] vs).isEmpty then [] else splitOn ',' (joinWith [','] vs)) = vs := by
      cases vs with
      | nil => simp [joinWith]
      | cons v vs' =>
        have hv' := hv (k, v :: vs') List.mem_cons_self
        have hj : (joinWith [','] (v :: vs')).isEmpty = false := by
          simpa using joinWith_ne_nil [','] v vs' (hv' v List.mem_cons_self).1
        rw [hj]
        simp only [Bool.false_eq_true, ↓reduceIte]
        exact splitOn_joinComma _ (by simp) (fun x hx => (hv' x hx).2)
    have hput : dictPut acc k vs = acc ++ [(k, vs)] :=
      dictPut_new acc k vs (hasKey_false (hdis (k, vs) List.mem_cons_self))
    simp only [readXmlAttrs, hval, hput]
    rw [ih (acc ++ [(k, vs)]) hnd.2 (fun x hx => hv x (List.mem_cons_of_mem _ hx))]
    · simp
    · intro kv' hkv'
      apply hasKey_append_single _ _ _ _ (hdis kv' (List.mem_cons_of_mem _ hkv'))
      have := hasKey_false hnd.1 kv' hkv'
      exact beq_eq_false_iff_ne.mpr (fun e => this e.symm)

theorem xmlWF_spec {e : Entry} (h : xmlWF e = true) :
    nodupKeys e.attrs = true ∧ (∀ kv ∈ e.attrs, ∀ v ∈ kv.2, v ≠ [] ∧ ∀ c ∈ v, c ≠ ',') ∧
    (∀ d, e.desc = some d → d ≠ [] ∧ trimmed d = true) := by
  unfold xmlWF at h
  simp only [Bool.and_eq_true, List.all_eq_true, Bool.not_eq_true', List.isEmpty_eq_false_iff, bne_iff_ne] at h
  refine ⟨h.1.1, fun kv hkv v hv => ⟨(h.1.2 kv hkv v hv).1, (h.1.2 kv hkv v hv).2⟩, ?_⟩
  intro d hd
  have := h.2
  rw [hd] at this
  simpa using this

theorem xml_elem_read (ps : List Str) (e : Entry) (h : xmlWF e = true) :
    readNode ps (xmlElem e) =
      [⟨joinWith ['/'] (ps ++ [shortName e.name]), e.attrs, e.desc⟩] := by
  obtain ⟨hnd, hv, hd⟩ := xmlWF_spec h
  have ha := readXmlAttrs_id e.attrs [] hnd hv (by intro kv _; rfl)
  simp only [List.nil_append] at ha
  have hdesc : readXmlDesc (xmlDesc e.desc) = e.desc := by
    cases hde : e.desc with
    | none => rfl
    | some d =>
      obtain ⟨hne, htr⟩ := hd d hde
      have h1 : d.isEmpty = false := by simpa using hne
      simp [xmlDesc, h1, readXmlDesc, strip_trimmed htr]
  unfold xmlElem
  simp only [readNode, readForest, ha, hdesc, List.append_nil]

theorem toXmlFrom_read (leveled : List Entry) (prev : List Str) (F : List XNode)
    (hwf : ∀ e ∈ leveled, xmlWF e = true) (hp : Preorder prev leveled = true)
    (hinv : ∀ d ≤ prev.length, spine F d = prev.take d) :
    ∃ F', toXmlFrom (leveled.map fun e => (level e.name, e)) F = some F' ∧
      readForest [] F' = readForest [] F ++ leveled := by
  induction leveled generalizing prev F with
  | nil => exact ⟨F, by simp [toXmlFrom], by simp⟩
  | cons e r ih =>
    simp only [Preorder, Bool.and_eq_true, decide_eq_true_eq, beq_iff_eq] at hp
    obtain ⟨⟨h1, h2⟩, h3⟩ := hp
    have hlevel : level e.name = (splitOn '/' e.name).length - 1 := by simp [level, splitOn_length]
    have hcne := splitOn_ne_nil '/' e.name
    obtain ⟨dl, last, hcs, hshort, _, _⟩ := name_decomp e.name
    have hdl : (splitOn '/' e.name).dropLast = dl := by rw [hcs, List.dropLast_concat]
    have hlen : (splitOn '/' e.name).length - 1 = dl.length := by rw [hcs]; simp
    rw [hlen] at h1 h2
    rw [hdl] at h2
    have hsp : spine F dl.length = dl := by rw [hinv _ h1, ← h2]
    obtain ⟨F1, hF1⟩ := spine_success F dl.length (xmlElem e) (by rw [hsp])
    have hread := insert_read F dl.length (xmlElem e) F1 [] hF1
    rw [hsp, xml_elem_read _ e (hwf e List.mem_cons_self)] at hread
    have hname : joinWith ['/'] ([] ++ dl ++ [shortName e.name]) = e.name := by
      rw [hshort]; simp only [List.nil_append]; rw [← hcs]; exact join_split '/' e.name
    rw [hname] at hread
    have hxe : xmlElem e = .node (shortName e.name) (xmlDesc e.desc) e.attrs [] := rfl
    rw [hxe] at hF1
    obtain ⟨s1, s2⟩ := spine_after_insert F dl.length _ _ _ F1 hF1
    have hinv' : ∀ d ≤ (splitOn '/' e.name).length, spine F1 d = (splitOn '/' e.name).take d := by
      intro d hd
      rw [hcs] at hd ⊢
      simp only [List.length_append, List.length_cons, List.length_nil] at hd
      by_cases hle : d ≤ dl.length
      · rw [s1 d hle, hinv d (by omega), List.take_append_of_le_length hle]
        have : dl.take d = (prev.take dl.length).take d := congrArg (List.take d) h2
        rw [this, List.take_take]
        congr 1; omega
      · have : d = dl.length + 1 := by omega
        subst this
        rw [s2, hsp, hshort]
        exact (List.take_of_length_le (by simp)).symm
    obtain ⟨F', hF', hr'⟩ := ih (splitOn '/' e.name) F1 (fun x hx => hwf x (List.mem_cons_of_mem _ hx)) h3 hinv'
    refine ⟨F', ?_, ?_⟩
    · simp only [List.map_cons, toXmlFrom, hlevel, hlen]
      rw [← hxe] at hF1
      simp [hF1, hF']
    · rw [hr', hread, entry_eta]; simp

/-! ### the unit-class output loop -/

theorem outputUnits_unmerged (f : Flags) (hb : f.saveBase = false) (hl : f.saveLib = true)
    (ucs : List (Entry × List Entry)) :
    outputUnits f ucs = ucs.filterMap fun p =>
      if hasLib p.1 then some (written f p.1, true, outputSection f p.2)
      else if p.2.any hasLib then some (written f p.1, false, outputSection f p.2)
      else none := by
  induction ucs with
  | nil => simp [outputUnits]
  | cons p r ih =>
    obtain ⟨uc, us⟩ := p
    by_cases hu : hasLib uc = true
    · simp [outputUnits, shouldSkip, hb, hl, hu, ih]
    · have hu' : hasLib uc = false := by simpa using hu
      by_cases ha : us.any hasLib = true
      · simp [outputUnits, shouldSkip, hb, hl, hu', ha, ih, List.filterMap_cons, -List.any_eq_true]
      · have ha' : us.any hasLib = false := by simpa using ha
        simp [outputUnits, shouldSkip, hb, hl, hu', ha', ih, List.filterMap_cons, -List.any_eq_true]

theorem outputUnits_merged (f : Flags) (hb : f.saveBase = true) (hl : f.saveLib = true)
    (ucs : List (Entry × List Entry)) :
    outputUnits f ucs = ucs.map fun p => (written f p.1, true, p.2.map (written f)) := by
  induction ucs with
  | nil => simp [outputUnits]
  | cons p r ih =>
    obtain ⟨uc, us⟩ := p
    have : List.filter (fun _ : Entry => true) us = us := List.filter_eq_self.mpr (by simp)
    simp [outputUnits, outputSection, shouldSkip, hb, hl, ih, this]

theorem unescape_bs (h : Char) (t : Str) (hh : h ≠ 'n') :
    unescapeNl ('\\' :: h :: t) = '\\' :: unescapeNl (h :: t) := by
  simp [unescapeNl, hh]

theorem escape_unescape (s : Str) (h : hasSub ['\\', 'n'] s = false) : unescapeNl (escapeNl s) = s := by
  induction s with
  | nil => rfl
  | cons c cs ih =>
    simp only [hasSub, Bool.or_eq_false_iff] at h
    have ih' := ih h.2
    by_cases hc : c = '\n'
    · subst hc; simp [escapeNl, unescapeNl, ih']
    · by_cases hb : c = '\\'
      · subst hb
        have he : escapeNl ('\\' :: cs) = '\\' :: escapeNl cs := by simp [escapeNl]
        rw [he]
        cases cs with
        | nil => simp [escapeNl, unescapeNl]
        | cons d cs' =>
          have hd : d ≠ 'n' := by
            intro e; subst e
            have := h.1
            simp [List.isPrefixOf_cons_cons] at this
          by_cases hdn : d = '\n'
          · subst hdn
            have : escapeNl ('\n' :: cs') = '\\' :: 'n' :: escapeNl cs' := by simp [escapeNl]
            rw [this] at ih' ⊢
            rw [unescape_bs '\\' _ (by decide), ih']
          · have : escapeNl (d :: cs') = d :: escapeNl cs' := by simp [escapeNl, hdn]
            rw [this] at ih' ⊢
            rw [unescape_bs d _ hd, ih']
      · simp [escapeNl, hc, unescape_cons c _ hb, ih']

theorem normEntry_of_normal (e : Entry) (h : descNormal e.desc = true) : normEntry e = e := by
  unfold normEntry
  rw [normDesc_of_normal e.desc h]

/-! ### the files of a TSV save -/

theorem dictGet_put_same {α} (d : List (Str × α)) (k : Str) (v : α) : dictGet (dictPut d k v) k = some v := by
  unfold dictPut dictGet
  by_cases h : d.any (·.1 == k) = true
  · simp only [h, ↓reduceIte]
    induction d with
    | nil => simp at h
    | cons x r ih =>
      by_cases hx : (x.1 == k) = true
      · simp only [List.map_cons, hx, ↓reduceIte]
        rw [List.find?_cons_of_pos (by simp)]
        rfl
      · have hx' : (x.1 == k) = false := by simpa using hx
        have hr : r.any (·.1 == k) = true := by simpa [hx'] using h
        simp only [List.map_cons, hx', Bool.false_eq_true, ↓reduceIte, List.find?_cons]
        exact ih hr
  · have : d.find? (·.1 == k) = none := by
      rw [List.find?_eq_none]
      intro x hx hxk
      exact h (List.any_eq_true.mpr ⟨x, hx, hxk⟩)
    simp only [h, Bool.false_eq_true, ↓reduceIte, List.find?_append]
    simp [this]

theorem dictGet_put_other {α} (d : List (Str × α)) (k k' : Str) (v : α) (hne : k ≠ k') :
    dictGet (dictPut d k v) k' = dictGet d k' := by
  unfold dictPut dictGet
  have hkk : (k == k') = false := by simpa using hne
  by_cases h : d.any (·.1 == k) = true
  · simp only [h, ↓reduceIte]
    clear h
    induction d with
    | nil => rfl
    | cons x r ih =>
      by_cases hx : (x.1 == k) = true
      · have hxk : x.1 = k := by simpa using hx
        have : (x.1 == k') = false := by rw [hxk]; exact hkk
        simp only [List.map_cons, hx, ↓reduceIte, List.find?_cons, hkk, this]
        exact ih
      · have hx' : (x.1 == k) = false := by simpa using hx
        simp only [List.map_cons, hx', Bool.false_eq_true, ↓reduceIte, List.find?_cons]
        cases hxk' : (x.1 == k') with
        | true => rfl
        | false => exact ih
  · simp only [h, Bool.false_eq_true, ↓reduceIte, List.find?_append]
    cases d.find? (·.1 == k') with
    | none => simp [hkk]
    | some y => simp

theorem tsvFileName_inj (base a b : Str) (h : tsvFileName base a = tsvFileName base b) : a = b := by
  unfold tsvFileName at h
  have h1 := List.append_cancel_left (List.append_cancel_right h)
  simpa using h1

theorem saveFrames_get_other {α} (base : Str) (files sheets : List (Str × α)) (suf : Str)
    (h : suf ∉ sheets.map (·.1)) :
    dictGet (saveFrames base files sheets) (tsvFileName base suf) = dictGet files (tsvFileName base suf) := by
  induction sheets generalizing files with
  | nil => rfl
  | cons p r ih =>
    obtain ⟨s, v⟩ := p
    simp only [List.map_cons, List.mem_cons, not_or] at h
    rw [saveFrames, ih _ h.2]
    exact dictGet_put_other _ _ _ _ (fun e => h.1 (tsvFileName_inj base s suf e).symm)

theorem saveFrames_get {α} (base : Str) (files sheets : List (Str × α)) (hnd : (sheets.map (·.1)).Nodup)
    (p : Str × α) (hp : p ∈ sheets) :
    dictGet (saveFrames base files sheets) (tsvFileName base p.1) = some p.2 := by
  induction sheets generalizing files with
  | nil => simp at hp
  | cons q r ih =>
    obtain ⟨s, v⟩ := q
    simp only [List.map_cons, List.nodup_cons] at hnd
    rw [saveFrames]
    simp only [List.mem_cons] at hp
    rcases hp with rfl | hp
    · rw [saveFrames_get_other base _ r s hnd.1]
      exact dictGet_put_same _ _ _
    · exact ih _ hnd.2 hp

/-! ### the three documents of one save -/

/-- `rel` names the entries the way the saved file shows them: level, last name segment, attributes and description
of each written entry are those of the corresponding `rel` entry.  For a merged save `rel` is the written entries
themselves; for an unmerged save the library entries with the partner's part of the path removed (rooted tags
become roots). -/
def RelOf (out : List (Nat × Entry)) (rel : List Entry) : Prop :=
  out.map (fun p => (p.1, shortName p.2.name, p.2.attrs, p.2.desc)) =
    rel.map (fun e => (level e.name, shortName e.name, e.attrs, e.desc))

theorem toWikiLeveled_congr (out : List (Nat × Entry)) (rel : List Entry) (h : RelOf out rel) :
    toWikiLeveled out = toWiki rel := by
  unfold RelOf at h
  induction out generalizing rel with
  | nil =>
    cases rel with
    | nil => rfl
    | cons e r => simp at h
  | cons p t ih =>
    cases rel with
    | nil => simp at h
    | cons e r =>
      obtain ⟨l, x⟩ := p
      simp only [List.map_cons, List.cons.injEq, Prod.mk.injEq] at h
      obtain ⟨⟨h1, h2, h3, h4⟩, ht⟩ := h
      have := ih r ht
      simp only [toWiki, List.map_cons, toWikiLeveled, entryExtras] at this ⊢
      rw [this, h1, h2, h3, h4]

theorem toXmlFrom_congr (out : List (Nat × Entry)) (rel : List Entry) (F : List XNode) (h : RelOf out rel) :
    toXmlFrom out F = toXmlFrom (rel.map fun e => (level e.name, e)) F := by
  unfold RelOf at h
  induction out generalizing rel F with
  | nil =>
    cases rel with
    | nil => rfl
    | cons e r => simp at h
  | cons p t ih =>
    cases rel with
    | nil => simp at h
    | cons e r =>
      obtain ⟨l, x⟩ := p
      simp only [List.map_cons, List.cons.injEq, Prod.mk.injEq] at h
      obtain ⟨⟨h1, h2, h3, h4⟩, ht⟩ := h
      simp only [List.map_cons, toXmlFrom, xmlElem, h1, h2, h3, h4]
      cases insertDepth F (level e.name) (.node (shortName e.name) (xmlDesc e.desc) e.attrs []) with
      | none => rfl
      | some F' => exact ih r F' ht

/-! ### tree order of a group -/

theorem lexLe_refl (a : List Nat) : lexLe a a = true := by
  induction a with
  | nil => rfl
  | cons x xs ih => simp [lexLe, ih]

theorem lexLe_total (a b : List Nat) : (lexLe a b || lexLe b a) = true := by
  induction a generalizing b with
  | nil => simp [lexLe]
  | cons x xs ih =>
    cases b with
    | nil => simp [lexLe]
    | cons y ys =>
      have := ih ys
      simp only [lexLe, Bool.or_eq_true, Bool.and_eq_true, decide_eq_true_eq, beq_iff_eq] at this ⊢
      rcases Nat.lt_trichotomy x y with h | h | h
      · exact Or.inl (Or.inl h)
      · subst h
        rcases this with h | h
        · exact Or.inl (Or.inr ⟨rfl, h⟩)
        · exact Or.inr (Or.inr ⟨rfl, h⟩)
      · exact Or.inr (Or.inl h)

theorem lexLe_trans (a b c : List Nat) (h1 : lexLe a b = true) (h2 : lexLe b c = true) : lexLe a c = true := by
  induction a generalizing b c with
  | nil => simp [lexLe]
  | cons x xs ih =>
    cases b with
    | nil => simp [lexLe] at h1
    | cons y ys =>
      cases c with
      | nil => simp [lexLe] at h2
      | cons z zs =>
        simp only [lexLe, Bool.or_eq_true, Bool.and_eq_true, decide_eq_true_eq, beq_iff_eq] at h1 h2 ⊢
        rcases h1 with h1 | ⟨h1, h1'⟩ <;> rcases h2 with h2 | ⟨h2, h2'⟩
        · exact Or.inl (by omega)
        · exact Or.inl (by omega)
        · exact Or.inl (by omega)
        · exact Or.inr ⟨by omega, ih ys zs h1' h2'⟩

theorem lexLe_antisymm (a b : List Nat) (h1 : lexLe a b = true) (h2 : lexLe b a = true) : a = b := by
  induction a generalizing b with
  | nil =>
    cases b with
    | nil => rfl
    | cons y ys => simp [lexLe] at h2
  | cons x xs ih =>
    cases b with
    | nil => simp [lexLe] at h1
    | cons y ys =>
      simp only [lexLe, Bool.or_eq_true, Bool.and_eq_true, decide_eq_true_eq, beq_iff_eq] at h1 h2
      rcases h1 with h1 | ⟨h1, h1'⟩ <;> rcases h2 with h2 | ⟨h2, h2'⟩
      · omega
      · omega
      · omega
      · rw [h1, ih ys h1' h2']

theorem lexLe_of_prefix (a b : List Nat) (h : a <+: b) : lexLe a b = true := by
  obtain ⟨t, rfl⟩ := h
  induction a with
  | nil => simp [lexLe]
  | cons x xs ih => simp [lexLe, ih]

theorem lexLe_between (x a b : List Nat) (hxb : x <+: b) (hxa : lexLe x a = true) (hab : lexLe a b = true) :
    x <+: a := by
  induction x generalizing a b with
  | nil => exact List.nil_prefix
  | cons c x' ih =>
    obtain ⟨t, rfl⟩ := hxb
    cases a with
    | nil => simp [lexLe] at hxa
    | cons d a' =>
      simp only [List.cons_append, lexLe, Bool.or_eq_true, Bool.and_eq_true, decide_eq_true_eq, beq_iff_eq] at hxa hab
      rcases hxa with h | ⟨h, h'⟩ <;> rcases hab with g | ⟨g, g'⟩
      · omega
      · omega
      · omega
      · subst h
        have := ih a' (x' ++ t) ⟨t, rfl⟩ h' g'
        obtain ⟨u, hu⟩ := this
        exact ⟨u, by simp [hu]⟩

/-- tree order on keys: the parent key (`dropLast`) of each key is a prefix of the key before it -/
def PreK : List Nat → List (List Nat) → Prop
  | _, [] => True
  | prev, k :: r => k.dropLast <+: prev ∧ PreK k r

theorem keys_preorder (pre : List (List Nat)) (a : List Nat) (rest : List (List Nat))
    (hs : (pre ++ a :: rest).Pairwise (fun x y => lexLe x y = true))
    (hcl : ∀ k ∈ pre ++ a :: rest, k ≠ [] ∧ (k.dropLast = [] ∨ k.dropLast ∈ pre ++ a :: rest)) :
    PreK a rest := by
  induction rest generalizing pre a with
  | nil => trivial
  | cons b r ih =>
    refine ⟨?_, ?_⟩
    · obtain ⟨hbne, hb⟩ := hcl b (by simp)
      rcases hb with hb | hb
      · rw [hb]; exact List.nil_prefix
      · have hpb : lexLe b.dropLast b = true := lexLe_of_prefix _ _ (List.dropLast_prefix b)
        have hlen : b.dropLast ≠ b := by
          intro e
          have := congrArg List.length e
          simp at this
          cases b with
          | nil => exact hbne rfl
          | cons _ _ => simp at this
        have hab : lexLe a b = true := by
          have := List.pairwise_append.mp hs
          have h2 := this.2.1
          exact (List.pairwise_cons.mp h2).1 b (by simp)
        simp only [List.mem_append, List.mem_cons] at hb
        have hpa : lexLe b.dropLast a = true := by
          rcases hb with hb | hb | hb | hb
          · exact (List.pairwise_append.mp hs).2.2 _ hb a (by simp)
          · rw [hb]; exact lexLe_refl a
          · exact absurd hb hlen
          · -- the parent after its child: impossible
            have h2 := (List.pairwise_append.mp hs).2.1
            have h3 := (List.pairwise_cons.mp h2).2
            have h4 := (List.pairwise_cons.mp h3).1 _ hb
            exact absurd (lexLe_antisymm _ _ hpb h4) hlen
        exact lexLe_between _ _ _ (List.dropLast_prefix b) hpa hab
    · have e : pre ++ a :: b :: r = (pre ++ [a]) ++ b :: r := by simp
      exact ih (pre ++ [a]) b (by rw [← e]; exact hs) (by rw [← e]; exact hcl)

theorem prefixPaths_append (acc xs ys : List Str) :
    prefixPaths acc (xs ++ ys) = prefixPaths acc xs ++ prefixPaths (acc ++ xs) ys := by
  induction xs generalizing acc with
  | nil => simp [prefixPaths]
  | cons c cs ih => simp [prefixPaths, ih]

theorem prefixPaths_length (acc cs : List Str) : (prefixPaths acc cs).length = cs.length := by
  induction cs generalizing acc with
  | nil => rfl
  | cons c cs ih => simp [prefixPaths, ih]

theorem sortKey_length (P : List (List Str)) (p : List Str) : (sortKey P p).length = p.length := by
  simp [sortKey, prefixPaths_length]

theorem sortKey_snoc (P : List (List Str)) (dl : List Str) (last : Str) :
    sortKey P (dl ++ [last]) = sortKey P dl ++ [firstIndex P (dl ++ [last])] := by
  simp [sortKey, prefixPaths_append, prefixPaths]

theorem sortKey_take (P : List (List Str)) (p : List Str) (m : Nat) (hm : m ≤ p.length) :
    (sortKey P p).take m = sortKey P (p.take m) := by
  have h := prefixPaths_append [] (p.take m) (p.drop m)
  rw [List.take_append_drop] at h
  have hl : ((prefixPaths [] (p.take m)).map (firstIndex P)).length = m := by
    simp [prefixPaths_length, Nat.min_eq_left hm]
  unfold sortKey
  rw [h, List.map_append, List.take_append_of_le_length (Nat.le_of_eq hl.symm),
    List.take_of_length_le (Nat.le_of_eq hl)]

theorem idxOpt_mem (xs : List (List Str)) (p : List Str) (h : p ∈ xs) : ∃ i, idxOpt xs p = some i := by
  induction xs with
  | nil => simp at h
  | cons x t ih =>
    by_cases hx : x = p
    · exact ⟨0, by simp [idxOpt, hx]⟩
    · have hp : p ∈ t := by
        rcases List.mem_cons.mp h with h | h
        · exact absurd h.symm hx
        · exact h
      obtain ⟨i, hi⟩ := ih hp
      exact ⟨i + 1, by simp [idxOpt, hx, hi]⟩

theorem idxOpt_inj (xs : List (List Str)) (p q : List Str) (i : Nat) (hp : idxOpt xs p = some i)
    (hq : idxOpt xs q = some i) : p = q := by
  induction xs generalizing i with
  | nil => simp [idxOpt] at hp
  | cons x t ih =>
    simp only [idxOpt] at hp hq
    by_cases h1 : x = p
    · subst h1
      simp only [beq_self_eq_true, ↓reduceIte, Option.some.injEq] at hp
      by_cases h2 : x = q
      · exact h2
      · have : (x == q) = false := by simpa using h2
        simp only [this, Bool.false_eq_true, ↓reduceIte, Option.map_eq_some_iff] at hq
        obtain ⟨j, _, hj⟩ := hq
        omega
    · have e1 : (x == p) = false := by simpa using h1
      simp only [e1, Bool.false_eq_true, ↓reduceIte, Option.map_eq_some_iff] at hp
      obtain ⟨j, hj, hji⟩ := hp
      by_cases h2 : x = q
      · subst h2
        simp only [beq_self_eq_true, ↓reduceIte, Option.some.injEq] at hq
        omega
      · have e2 : (x == q) = false := by simpa using h2
        simp only [e2, Bool.false_eq_true, ↓reduceIte, Option.map_eq_some_iff] at hq
        obtain ⟨k, hk, hki⟩ := hq
        exact ih j hj (by rw [hk]; congr 1; omega)

theorem firstIndex_inj (P : List (List Str)) (p q : List Str) (hp : p ∈ P) (hq : q ∈ P)
    (h : firstIndex P p = firstIndex P q) : p = q := by
  obtain ⟨i, hi⟩ := idxOpt_mem P p hp
  obtain ⟨j, hj⟩ := idxOpt_mem P q hq
  unfold firstIndex at h
  rw [hi, hj] at h
  simp at h
  subst h
  exact idxOpt_inj P p q i hi hj

theorem snoc_of_ne_nil (p : List Str) (h : p ≠ []) : ∃ dl last, p = dl ++ [last] :=
  ⟨p.dropLast, p.getLast h, (List.dropLast_concat_getLast h).symm⟩

theorem sortKey_inj (P : List (List Str)) (p q : List Str) (hp : p ∈ P) (hq : q ∈ P) (hpne : p ≠ [])
    (h : sortKey P p = sortKey P q) : p = q := by
  have hlen : p.length = q.length := by rw [← sortKey_length P p, ← sortKey_length P q, h]
  have hqne : q ≠ [] := by intro e; rw [e] at hlen; simp at hlen; exact hpne hlen
  obtain ⟨dl, last, rfl⟩ := snoc_of_ne_nil p hpne
  obtain ⟨dl', last', rfl⟩ := snoc_of_ne_nil q hqne
  rw [sortKey_snoc, sortKey_snoc] at h
  have := congrArg List.getLast? h
  simp at this
  exact firstIndex_inj P _ _ hp hq this

theorem take_mem_of_closed (P : List (List Str)) (hcl : ∀ q ∈ P, q.dropLast = [] ∨ q.dropLast ∈ P) :
    ∀ n (q : List Str), q.length = n → q ∈ P → ∀ m, 1 ≤ m → m ≤ n → q.take m ∈ P := by
  intro n
  induction n with
  | zero => intro q _ _ m h1 h2; omega
  | succ n ih =>
    intro q hl hq m h1 h2
    by_cases hm : m = n + 1
    · rw [hm, ← hl, List.take_length]; exact hq
    · have hmn : m ≤ n := by omega
      have hdl : q.dropLast.length = n := by simp [hl]
      rcases hcl q hq with hd | hd
      · rw [hd] at hdl; simp at hdl; omega
      · have := ih q.dropLast hdl hd m h1 hmn
        rw [List.dropLast_eq_take, List.take_take] at this
        have hmin : min m (q.length - 1) = m := by rw [hl]; omega
        rw [hmin] at this
        exact this

theorem preorder_of_preK (P : List (List Str)) (hcl : ∀ q ∈ P, q.dropLast = [] ∨ q.dropLast ∈ P) :
    ∀ (L : List Entry) (prev : List Str), (∀ e ∈ L, pathOf e ∈ P) → (prev = [] ∨ prev ∈ P) →
      PreK (sortKey P prev) (L.map fun e => sortKey P (pathOf e)) → Preorder prev L = true := by
  intro L
  induction L with
  | nil => intro prev _ _ _; rfl
  | cons e r ih =>
    intro prev hmem hprev hk
    simp only [List.map_cons, PreK] at hk
    obtain ⟨hk1, hk2⟩ := hk
    have he := hmem e List.mem_cons_self
    have hene : pathOf e ≠ [] := splitOn_ne_nil '/' e.name
    obtain ⟨dl, last, hdl⟩ := snoc_of_ne_nil (pathOf e) hene
    have hrest := ih (pathOf e) (fun x hx => hmem x (List.mem_cons_of_mem _ hx)) (Or.inr he) hk2
    have hcs : splitOn '/' e.name = dl ++ [last] := hdl
    rw [hdl, sortKey_snoc, List.dropLast_concat] at hk1
    have hlen : dl.length ≤ prev.length := by
      have := List.IsPrefix.length_le hk1
      rwa [sortKey_length, sortKey_length] at this
    have hpre : dl = prev.take dl.length := by
      by_cases hd : dl = []
      · simp [hd]
      · have hdlP : dl ∈ P := by
          rcases hcl (pathOf e) he with h | h
          · rw [hdl, List.dropLast_concat] at h; exact absurd h hd
          · rwa [hdl, List.dropLast_concat] at h
        have hpos : 1 ≤ dl.length := by
          cases dl with
          | nil => exact absurd rfl hd
          | cons _ _ => simp
        have hprevP : prev ∈ P := by
          rcases hprev with h | h
          · rw [h] at hlen; simp at hlen; exact absurd hlen hd
          · exact h
        have htake := take_mem_of_closed P hcl prev.length prev rfl hprevP dl.length hpos hlen
        have hkeq : sortKey P dl = sortKey P (prev.take dl.length) := by
          rw [← sortKey_take P prev dl.length hlen]
          have := List.prefix_iff_eq_take.mp hk1
          rwa [sortKey_length] at this
        exact sortKey_inj P dl _ hdlP htake hd hkeq
    simp only [Preorder, hcs, List.length_append, List.length_cons, List.length_nil, Nat.zero_add,
      Nat.add_sub_cancel, List.dropLast_concat, Bool.and_eq_true, decide_eq_true_eq, beq_iff_eq]
    refine ⟨⟨hlen, hpre⟩, ?_⟩
    rw [← hcs]
    exact hrest

theorem groupClosed_spec {es : List Entry} (h : groupClosed es = true) :
    ∀ q ∈ es.map pathOf, q.dropLast = [] ∨ q.dropLast ∈ es.map pathOf := by
  intro q hq
  obtain ⟨e, he, rfl⟩ := List.mem_map.mp hq
  unfold groupClosed at h
  have := List.all_eq_true.mp h e he
  simp only [Bool.or_eq_true, List.isEmpty_iff, List.contains_iff_mem] at this
  exact this

theorem treeOrder_perm (es : List Entry) : (treeOrder es).Perm es := List.mergeSort_perm _ _

theorem treeOrder_preorder (es : List Entry) (hcl : groupClosed es = true) :
    Preorder [] (treeOrder es) = true := by
  have hclP := groupClosed_spec hcl
  have hperm := treeOrder_perm es
  have hsorted : (treeOrder es).Pairwise
      (fun a b => lexLe (sortKey (es.map pathOf) (pathOf a)) (sortKey (es.map pathOf) (pathOf b)) = true) :=
    List.pairwise_mergeSort
      (le := fun a b => lexLe (sortKey (es.map pathOf) (pathOf a)) (sortKey (es.map pathOf) (pathOf b)))
      (fun a b c h1 h2 => lexLe_trans _ _ _ h1 h2) (fun a b => lexLe_total _ _) es
  have hmemL : ∀ e ∈ treeOrder es, pathOf e ∈ es.map pathOf := fun e he =>
    List.mem_map_of_mem (hperm.mem_iff.mp he)
  have hkeys : ((treeOrder es).map fun e => sortKey (es.map pathOf) (pathOf e)).Pairwise
      (fun x y => lexLe x y = true) := List.pairwise_map.mpr hsorted
  have hkey_drop : ∀ e : Entry, (sortKey (es.map pathOf) (pathOf e)).dropLast =
      sortKey (es.map pathOf) (pathOf e).dropLast := by
    intro e
    obtain ⟨dl, last, hdl⟩ := snoc_of_ne_nil (pathOf e) (splitOn_ne_nil '/' e.name)
    rw [hdl, sortKey_snoc, List.dropLast_concat, List.dropLast_concat]
  have hclK : ∀ k ∈ (treeOrder es).map fun e => sortKey (es.map pathOf) (pathOf e),
      k ≠ [] ∧ (k.dropLast = [] ∨ k.dropLast ∈ (treeOrder es).map fun e => sortKey (es.map pathOf) (pathOf e)) := by
    intro k hk
    obtain ⟨e, he, rfl⟩ := List.mem_map.mp hk
    refine ⟨?_, ?_⟩
    · intro h0
      have := congrArg List.length h0
      rw [sortKey_length] at this
      exact splitOn_ne_nil '/' e.name (List.length_eq_zero_iff.mp this)
    · rw [hkey_drop e]
      rcases hclP _ (hmemL e he) with h | h
      · left; rw [h]; rfl
      · right
        obtain ⟨e', he', hpe'⟩ := List.mem_map.mp h
        exact List.mem_map.mpr ⟨e', hperm.mem_iff.mpr he', by rw [hpe']⟩
  cases hL : treeOrder es with
  | nil => rfl
  | cons a rest =>
    rw [hL] at hkeys hclK hmemL
    simp only [List.map_cons] at hkeys hclK
    have hk := keys_preorder [] (sortKey (es.map pathOf) (pathOf a))
      (rest.map fun e => sortKey (es.map pathOf) (pathOf e)) (by rw [List.nil_append]; exact hkeys)
      (by rw [List.nil_append]; exact hclK)
    have hfirst : (sortKey (es.map pathOf) (pathOf a)).dropLast = [] := by
      obtain ⟨_, hd⟩ := hclK (sortKey (es.map pathOf) (pathOf a)) List.mem_cons_self
      rcases hd with hd | hd
      · exact hd
      · exfalso
        have hpre : lexLe (sortKey (es.map pathOf) (pathOf a)).dropLast (sortKey (es.map pathOf) (pathOf a)) = true :=
          lexLe_of_prefix _ _ (List.dropLast_prefix _)
        have hne : (sortKey (es.map pathOf) (pathOf a)).dropLast ≠ sortKey (es.map pathOf) (pathOf a) := by
          intro e0
          have := congrArg List.length e0
          rw [List.length_dropLast, sortKey_length] at this
          have : (pathOf a).length ≠ 0 := fun h0 => splitOn_ne_nil '/' a.name (List.length_eq_zero_iff.mp h0)
          omega
        rcases List.mem_cons.mp hd with hd | hd
        · exact hne hd
        · have := (List.pairwise_cons.mp hkeys).1 _ hd
          exact hne (lexLe_antisymm _ _ hpre this)
    apply preorder_of_preK (es.map pathOf) hclP (a :: rest) [] hmemL (Or.inl rfl)
    show PreK (sortKey (es.map pathOf) []) _
    simp only [List.map_cons, PreK]
    exact ⟨by rw [hfirst]; exact List.nil_prefix, hk⟩

theorem lexLe_snoc_cancel (x : List Nat) (i j : Nat) (h : lexLe (x ++ [i]) (x ++ [j]) = true) : i ≤ j := by
  induction x with
  | nil =>
    simp only [List.nil_append, lexLe, Bool.or_eq_true, Bool.and_eq_true, decide_eq_true_eq, beq_iff_eq] at h
    omega
  | cons c t ih =>
    simp only [List.cons_append, lexLe, Bool.or_eq_true, Bool.and_eq_true, decide_eq_true_eq, beq_iff_eq] at h
    rcases h with h | ⟨_, h⟩
    · omega
    · exact ih h

theorem preorder_root_any (prev : List Str) (G : List Entry) (h : Preorder [] G = true) : Preorder prev G = true := by
  cases G with
  | nil => rfl
  | cons e r =>
    simp only [Preorder, Bool.and_eq_true, decide_eq_true_eq, beq_iff_eq, List.length_nil, List.take_nil] at h ⊢
    obtain ⟨⟨h1, h2⟩, h3⟩ := h
    have hz : (splitOn '/' e.name).length - 1 = 0 := by omega
    refine ⟨⟨by omega, ?_⟩, h3⟩
    rw [hz, List.take_zero]; exact h2

theorem preorder_append (prev : List Str) (G1 G2 : List Entry) (h1 : Preorder prev G1 = true)
    (h2 : Preorder [] G2 = true) : Preorder prev (G1 ++ G2) = true := by
  induction G1 generalizing prev with
  | nil => exact preorder_root_any prev G2 h2
  | cons e r ih =>
    simp only [List.cons_append, Preorder, Bool.and_eq_true] at h1 ⊢
    exact ⟨h1.1, ih _ h1.2⟩

end HedVerif.SchemaIO

namespace HedVerif.C05
open HedVerif.SchemaIO

/-- **Attribute strings round-trip.**  For every attribute dictionary whose names are `[A-Za-z]+`, pairwise
distinct, and whose values are non-empty, trimmed and free of `,` `=` and newline, the reader
(`parse_attribute_string`) applied to what the writer (`_format_tag_attributes`) produces gives the dictionary
back: same names in the same order, every value list (multi-valued attributes included) intact. -/
theorem attr_roundtrip (as : Attrs) (h : attrsWF as = true) : parseAttr (formatAttr as) = .ok as :=
  parseAttr_formatAttr as h

/-- multi-valued attributes (`suggestedTag=a, suggestedTag=b`) survive with all their values, in order -/
theorem attr_multivalue_survives (as : Attrs) (h : attrsWF as = true) (k : Str) (vs : List Str)
    (hk : (k, vs) ∈ as) : ∃ bs, parseAttr (formatAttr as) = .ok bs ∧ (k, vs) ∈ bs :=
  ⟨as, attr_roundtrip as h, hk⟩

example : attrsWF [(['a'], []), (['b'], [['c'], ['d', ' ', 'e']])] = true := by decide
example : formatAttr [(['a'], []), (['b'], [['c'], ['d']])] = "a, b=c, b=d".toList := by decide

/-! ### wiki entry lines -/

/-- **Wiki lines round-trip (descriptions trimmed).**  For every level, name, attribute dictionary and
description satisfying the explicit predicate `lineWF` (name non-empty, trimmed, free of `{}[]<` and of the quote
character; attributes as in `attr_roundtrip` with values free of `{}[]<`; description non-empty, free of `{}[]`
and of literal nowiki tags; the reserved texts `extend here` and `&#8203;` absent from the line) and whose
description has no leading or trailing blank: the line written by `_write_tag_entry` (quoted name at level 0,
`*** Name` below, a `#` name inside the nowiki part) passes the reader's per-line cleaning and `_create_entry`
returns exactly the name, the attributes and the description; the root marker and the `*` count give the level
back. -/
theorem line_roundtrip_partial (l : Nat) (short : Str) (as : Attrs) (desc : Option Str)
    (h : lineWF l short as desc = true) (ht : descTrimmed desc = true) :
    cleanLine (tagLine l short (extras (formatAttr as) desc)) =
        .ok (some (rowBody l short (extras (formatAttr as) desc))) ∧
      readEntry (rowBody l short (extras (formatAttr as) desc)) = .ok (short, as, desc) ∧
      quote3.isPrefixOf (rowBody l short (extras (formatAttr as) desc)) = (l == 0) ∧
      (0 < l → tagLevel (rowBody l short (extras (formatAttr as) desc)) = some l) :=
  line_roundtrip_core l short as desc h ht

/-- **#20, on the model.**  An entry that satisfies every clause of `lineWF` but whose description starts with a
blank: the written line is accepted by the reader, which returns the description *without* the blank
(`description.strip()` in `_create_entry`; the TSV reader does the same, and since fix a64eb53 the XML reader too). -/
theorem line_counterexample :
    lineWF 1 ['A'] [] (some [' ', 'x']) = true ∧
    (cleanLine (tagLine 1 ['A'] (extras (formatAttr []) (some [' ', 'x'])))).toOption =
      some (some (rowBody 1 ['A'] (extras (formatAttr []) (some [' ', 'x'])))) ∧
    (readEntry (rowBody 1 ['A'] (extras (formatAttr []) (some [' ', 'x'])))).toOption =
      some ((['A'], [], some ['x']) : Str × Attrs × Option Str) :=
  ⟨by decide, by decide, by decide⟩

/-! ### the tag section -/

/-- **Tag sections round-trip (descriptions trimmed).**  For every list of tag entries with long names that is a
preorder listing (`Preorder`: each tag's parent path is a prefix of the previous tag's path — the order of
`all_entries`), all of whose path segments are well-formed names and whose lines satisfy `lineWF`, with trimmed
descriptions: reading the lines that `_output_tags` writes (blank line and quoted name for roots, one `*` per
level below) with `_read_schema` reconstructs exactly the same entries — long names from the level stack,
attributes with all their values, descriptions. -/
theorem wiki_tags_roundtrip_partial (ts : List Entry)
    (hwf : ∀ e ∈ ts, entryWF e = true ∧ descTrimmed e.desc = true) (hp : Preorder [] ts = true) :
    ofWiki (toWiki ts) = .ok ts :=
  ofWikiFrom_toWiki ts [] hwf hp

/-- a small forest satisfying all hypotheses (root, child with attributes, value-taking grandchild) -/
example :
    let ts : List Entry :=
      [⟨['E'], [], some ['d']⟩,
       ⟨['E', '/', 'F'], [(['s'], [['E'], ['G']]), (['x'], [])], none⟩,
       ⟨['E', '/', 'F', '/', '#'], [(['t'], [])], some ['a', ' ', '=', '"']⟩,
       ⟨['G'], [], none⟩]
    (ts.all fun e => entryWF e && descTrimmed e.desc) = true ∧ Preorder [] ts = true ∧
      (ofWiki (toWiki ts)).toOption = some ts := by decide

/-! ### refusal and library handling of `process_schema` -/

/-- **Refusal.**  A schema whose `library` header lists more than one library (the value contains `,`, as produced
by loading several libraries into one schema) is refused by the decision step every writer shares, whatever the
`withStandard` value, the `save_merged` flag and the content. -/
theorem refuse (library withStandard : Str) (saveMerged : Bool) (all : List Entry) (h : ',' ∈ library) :
    processFlags library withStandard saveMerged = .error .multiLibrary ∧
    saveTags library withStandard saveMerged all = .error .multiLibrary := by
  have hc : canSave library = false := by
    unfold canSave
    cases library with
    | nil => simp at h
    | cons a t => simp [List.contains_iff_mem, h]
  simp [saveTags, processFlags, hc, Except.map]

/-- nothing else is refused: the writers refuse exactly the multi-library headers -/
theorem refuse_iff (library withStandard : Str) (saveMerged : Bool) :
    (∃ f, processFlags library withStandard saveMerged = .ok f) ↔ ',' ∉ library := by
  unfold processFlags canSave
  by_cases h : ',' ∈ library
  · have : library ≠ [] := by intro e; subst e; simp at h
    simp [h, List.contains_iff_mem, this]
  · simp only [h, not_false_eq_true, iff_true]
    have : (library.isEmpty || !library.contains ',') = true := by simp [List.contains_iff_mem, h]
    simp only [this, Bool.not_true, Bool.false_eq_true, ↓reduceIte]
    split <;> exact ⟨_, rfl⟩

/-- **Unmerged save of a partnered library.**  With a `withStandard` header and `save_merged = False` the tag
section written is exactly the library's own entries (those carrying `inLibrary`), in order, each without its
`inLibrary` attribute and otherwise unchanged; the same holds for every flat section. -/
theorem strip_inlibrary (library withStandard : Str) (hl : ',' ∉ library) (hws : withStandard ≠ [])
    (all : List Entry) :
    ∃ f, processFlags library withStandard false = .ok f ∧
      (outputTags f all).map (·.2) =
        (all.filter hasLib).map (fun e => { e with attrs := e.attrs.filter fun kv => !(kv.1 == inLibrary) }) ∧
      (∀ p ∈ outputTags f all, hasLib p.2 = false) ∧
      outputSection f all =
        (all.filter hasLib).map (fun e => { e with attrs := e.attrs.filter fun kv => !(kv.1 == inLibrary) }) := by
  have hc : canSave library = true := by simp [canSave, List.contains_iff_mem, hl]
  have hw : withStandard.isEmpty = false := by simpa using hws
  refine ⟨{ saveLib := true, saveBase := false, saveMerged := false, stripInLib := true }, ?_, ?_, ?_, ?_⟩
  · simp [processFlags, hc, hw]
  · rw [outputTags, outputTagsFrom_entries]
    simp [shouldSkip, written, writeAttrs]
  · intro p hp
    have hm : p.2 ∈ (outputTags _ all).map (·.2) := List.mem_map_of_mem hp
    rw [outputTags, outputTagsFrom_entries] at hm
    obtain ⟨e, _, he⟩ := List.mem_map.mp hm
    rw [← he]
    simp only [written, writeAttrs, Bool.true_and, hasLib]
    exact hasKey_filter_ne e.attrs inLibrary
  · simp [outputSection, shouldSkip, written, writeAttrs]

/-- **Merged save** (and the save of a schema without partner): every entry is written, at the level given by
its own name; a partnered merged save keeps `inLibrary`, so the reader can tell the two parts apart again. -/
theorem merged_keeps_everything (library withStandard : Str) (hl : ',' ∉ library) (all : List Entry) :
    ∃ f, processFlags library withStandard true = .ok f ∧
      outputTags f all = all.map (fun e => (level e.name, written f e)) ∧
      (withStandard ≠ [] → ∀ e, written f e = e) := by
  have hc : canSave library = true := by simp [canSave, List.contains_iff_mem, hl]
  by_cases hw : withStandard = []
  · refine ⟨{ saveLib := true, saveBase := true, saveMerged := true, stripInLib := true }, ?_, ?_, ?_⟩
    · simp [processFlags, hc, hw]
    · exact outputTagsFrom_merged _ rfl rfl rfl all all []
    · intro h; exact absurd hw h
  · have hw' : withStandard.isEmpty = false := by simpa using hw
    refine ⟨{ saveLib := true, saveBase := true, saveMerged := true, stripInLib := false }, ?_, ?_, ?_⟩
    · simp [processFlags, hc, hw']
    · exact outputTagsFrom_merged _ rfl rfl rfl all all []
    · intro _ e
      have : List.filter (fun _ : Str × List Str => true) e.attrs = e.attrs := List.filter_eq_self.mpr (by simp)
      simp [written, writeAttrs, this]

/-- **Rooted library tags are re-levelled.**  One step of the `_output_tags` loop in an unmerged save: when it
reaches a library tag whose parent is a tag of the partner schema (not written in this mode), the tag is written
at level 0 — as a root of the library file — and the tags that follow are shifted by its depth. -/
theorem rooted_relevel (f : Flags) (all r : List Entry) (e pe : Entry) (adj : Nat) (done : List Str) (p : Str)
    (hm : f.saveMerged = false) (hb : f.saveBase = false) (hl : f.saveLib = true)
    (he : hasLib e = true) (hp : parentName e.name = some p) (hfind : all.find? (·.name == p) = some pe)
    (hpe : hasLib pe = false) (hd : done.contains p = false) (hlv : level e.name ≠ 0) :
    outputTagsFrom f all (e :: r) adj done =
      (0, written f e) :: outputTagsFrom f all r (level e.name) (e.name :: done) := by
  have hs : shouldSkip f e = false := by simp [shouldSkip, hb, hl, he]
  have hz : (level e.name == 0) = false := by simpa using hlv
  have hd' : p ∉ done := by simpa using hd
  rw [outputTagsFrom]
  simp [hs, hz, hp, hfind, he, hpe, hm, hd']

/-- ... and a library tag below another library tag keeps the shift of its rooted ancestor -/
theorem child_keeps_shift (f : Flags) (all r : List Entry) (e pe : Entry) (adj : Nat) (done : List Str) (p : Str)
    (hb : f.saveBase = false) (hl : f.saveLib = true)
    (he : hasLib e = true) (hp : parentName e.name = some p) (hfind : all.find? (·.name == p) = some pe)
    (hpe : hasLib pe = true) (hlv : level e.name ≠ 0) :
    outputTagsFrom f all (e :: r) adj done =
      (level e.name - adj, written f e) :: outputTagsFrom f all r adj (e.name :: done) := by
  have hs : shouldSkip f e = false := by simp [shouldSkip, hb, hl, he]
  have hz : (level e.name == 0) = false := by simpa using hlv
  rw [outputTagsFrom]
  simp [hs, hz, hp, hfind, he, hpe]

/-! ### newline escape of the TSV struct sheet -/

/-- prologue / epilogue texts without a backslash survive the struct-sheet escaping -/
theorem escape_roundtrip_partial (s : Str) (h : ∀ c ∈ s, c ≠ '\\') : unescapeNl (escapeNl s) = s := by
  induction s with
  | nil => rfl
  | cons c cs ih =>
    have ih' := ih (fun x hx => h x (List.mem_cons_of_mem _ hx))
    by_cases hc : c = '\n'
    · subst hc; simp [escapeNl, unescapeNl, ih']
    · have hb := h c List.mem_cons_self
      simp [escapeNl, hc, unescape_cons c _ hb, ih']

/-- a literal backslash followed by `n` comes back as a newline (observed on the real TSV round trip of a prologue) -/
theorem escape_counterexample : unescapeNl (escapeNl ['a', '\\', 'n', 'b']) = ['a', '\n', 'b'] := by decide

/-! ### descriptions of loaded schemas -/

/-- **Every description a reader returns is trimmed.**  Whatever lines, rows or element tree they are given, the
MediaWiki tag reader, the TSV tag reader and (since fix a64eb53) the XML tag reader only produce descriptions
without leading or trailing blanks (or none).  Hence the "trimmed description" hypothesis of
`line_roundtrip_partial`, `wiki_tags_roundtrip_partial`, `tsv_tags_roundtrip`, `xml_tags_roundtrip` holds for
every entry of every schema that was obtained by loading one of the three formats: for loaded schemas the
`_partial` theorems are unconditional in that respect. -/
theorem loaded_descriptions_trimmed :
    (∀ lines es, ofWiki lines = .ok es → ∀ e ∈ es, descTrimmed e.desc = true) ∧
    (∀ rows es, ofTsvRows rows = .ok es → ∀ e ∈ es, descTrimmed e.desc = true) ∧
    (∀ F, ∀ e ∈ ofXmlTree F, descTrimmed e.desc = true) :=
  ⟨fun lines es h e he => descTrimmed_of_normal _ (ofWikiFrom_desc_normal lines [] es h e he),
   fun rows es h e he => descTrimmed_of_normal _ (ofTsvFrom_desc_normal rows _ es h e he),
   fun F e he => descTrimmed_of_normal _ (readForest_desc_normal [] F e he)⟩

/-- **Every description a reader returns is absent, or non-empty and trimmed** (`descNormal`; since fix 391436a
also for the MediaWiki and TSV readers, which used to turn a blank `[ ]` / blank cell into the empty string —
`blank_description_counterexample`).  Whatever lines, rows or element tree they are given, none of the three tag
readers produces an empty or untrimmed description.  `descNormal` descriptions are exactly the fixed points of
`normDesc` (`normDesc_fixed`), so for loaded schemas the full-strength theorems `line_roundtrip` and
`wiki_tags_roundtrip` are identities in the description. -/
theorem loaded_descriptions_normal :
    (∀ lines es, ofWiki lines = .ok es → ∀ e ∈ es, descNormal e.desc = true) ∧
    (∀ rows es, ofTsvRows rows = .ok es → ∀ e ∈ es, descNormal e.desc = true) ∧
    (∀ F, ∀ e ∈ ofXmlTree F, descNormal e.desc = true) :=
  ⟨fun lines es h => ofWikiFrom_desc_normal lines [] es h,
   fun rows es h => ofTsvFrom_desc_normal rows _ es h,
   fun F => readForest_desc_normal [] F⟩

/-- what every reader does to a description (`normDesc`: blank = absent, otherwise stripped) is the identity
exactly on the absent and on the non-empty trimmed descriptions, and applying it twice changes nothing more -/
theorem normDesc_fixed (desc : Option Str) :
    (normDesc desc = desc ↔ descNormal desc = true) ∧ normDesc (normDesc desc) = normDesc desc :=
  ⟨normDesc_fixed_iff desc, normDesc_idem desc⟩

example : normDesc (some [' ', 'x', ' ']) = some ['x'] ∧ normDesc (some [' ', '\t']) = none ∧
    normDesc (some []) = none ∧ normDesc (some ['x', ' ', 'y']) = some ['x', ' ', 'y'] := by decide

/-! ### the other MediaWiki sections -/

/-- **The flat sections and the unit-class section of a MediaWiki file round-trip.**  For entries whose lines are
well-formed (`secWF`: `lineWF` at depth 1 — units at depth 2 —, trimmed description, name not ending in `#`):
`_read_section` applied to the `* name <nowiki>…</nowiki>` lines of a section (unit modifiers, value classes,
schema attributes, properties) returns the entries, and `_read_unit_classes` applied to the `* class` / `** unit`
lines returns every class with exactly its own units, in order. -/
theorem wiki_sections_roundtrip :
    (∀ es : List Entry, (∀ e ∈ es, secWF 1 e = true) → ofWikiSection (sectionLines es) = .ok es) ∧
    (∀ ucs : List (Entry × List Entry),
      (∀ p ∈ ucs, secWF 1 p.1 = true ∧ ∀ u ∈ p.2, secWF 2 u = true) → ofWikiUnits (unitLines ucs) = .ok ucs) := by
  refine ⟨ofWikiSection_lines, ?_⟩
  intro ucs h
  simp [ofWikiUnits, ofWikiUnitsAux_lines ucs h]

example : secWF 1 ⟨['m'], [(['S'], []), (['c'], [['1', '.', '0']])], some ['d']⟩ = true := by decide

/-! ### the TSV tag sheet -/

/-- **The TSV tag sheet round-trips.**  For every list of written tag entries (with the level each is written at)
such that every entry satisfies `tsvWF` (attributes as in `attr_roundtrip`, no `annotationProperty`, a hedId with
at least one value, description absent or non-empty and trimmed, non-empty path segments, only a whole segment
`#` may end in `#`) and the short-parent-name column resolves (`TsvResolvable`: in `known_parent_tags` the
`omn:SubClassOf` cell of each row maps to the path of the tag's parent — what distinct short names, C03's
`ShortDistinct`, give): `_read_schema` applied to the rows `_write_tag_entry` produces (hedId column, `name-#`
for value children, short parent name, attribute string without hedId, description) rebuilds every long name,
every attribute with all its values and every description; the only change is that hedId is re-attached behind
the other attributes (`hedLast`), which `hedLast_same` shows is the same attribute map. -/
theorem tsv_tags_roundtrip (leveled : List (Nat × Entry)) (hwf : ∀ p ∈ leveled, tsvWF p.2 = true)
    (hr : TsvResolvable [(hedTag, [])] (leveled.map (·.2)) = true) :
    ofTsvRows (toTsvRows leveled) = .ok (leveled.map fun p => hedLast p.2) :=
  ofTsvFrom_toTsvRows leveled _ hwf hr

/-- moving hedId behind the other attributes changes neither name nor description nor what any attribute name
maps to (Python dictionaries compare as maps) -/
theorem hedLast_same (e : Entry) :
    (hedLast e).name = e.name ∧ (hedLast e).desc = e.desc ∧
    ∀ k, lookupAttr (hedLast e).attrs k = lookupAttr e.attrs k := by
  refine ⟨?_, ?_, hedLast_lookup e⟩ <;> (unfold hedLast; cases lookupAttr e.attrs hedIdKey <;> rfl)

example :
    let ts : List Entry :=
      [⟨['E'], [(hedIdKey, [['H', '1']]), (['x'], [])], some ['d']⟩,
       ⟨['E', '/', 'F'], [(['s'], [['E'], ['G']])], none⟩,
       ⟨['E', '/', 'F', '/', '#'], [(['t'], [])], some ['a', ' ', '=', '"']⟩,
       ⟨['G'], [], none⟩]
    (ts.all tsvWF) = true ∧ TsvResolvable [(hedTag, [])] ts = true ∧
      (ofTsvRows (toTsvRows (ts.map fun e => (level e.name, e)))).toOption = some (ts.map hedLast) := by decide

/-! ### the XML element tree -/

/-- **The XML tag section round-trips.**  For every preorder listing of tag entries satisfying `xmlWF` (distinct
attribute names, every value non-empty and comma-free, description absent or non-empty and trimmed):
`_output_tags` builds a `<node>` forest (each entry a `<node>` with `<name>`, optional `<description>`, one
`<attribute>` per attribute holding one `<value>` element per value — a multi-valued `suggestedTag=a,b` becomes two
`<value>`s, not one — nested under its parent), and `_add_tags_recursive` on that forest returns exactly the
entries: long names from the nesting, attributes with all their values (re-joined by `,`), descriptions. -/
theorem xml_tags_roundtrip (ts : List Entry) (hwf : ∀ e ∈ ts, xmlWF e = true) (hp : Preorder [] ts = true) :
    ∃ F, toXmlTree (ts.map fun e => (level e.name, e)) = some F ∧ ofXmlTree F = ts := by
  obtain ⟨F, h1, h2⟩ := toXmlFrom_read ts [] [] hwf hp (by
    intro d hd
    have : d = 0 := by simpa using hd
    subst this; simp [spine])
  exact ⟨F, h1, by simpa [ofXmlTree, readForest] using h2⟩

example :
    let ts : List Entry :=
      [⟨['E'], [(['x'], [])], some ['d']⟩,
       ⟨['E', '/', 'F'], [(['s'], [['E'], ['G']])], none⟩,
       ⟨['E', '/', 'F', '/', '#'], [(['t'], [])], some ['a', ',', ' ', 'b']⟩,
       ⟨['G'], [], none⟩]
    (ts.all xmlWF) = true ∧
      (toXmlTree (ts.map fun e => (level e.name, e))).map ofXmlTree = some ts := by decide

/-! ### the three formats agree -/

/-- **Cross-format agreement.**  For a tag forest that satisfies the well-formedness predicates of all three
formats, the three abstract documents — MediaWiki lines, TSV rows, XML element forest — decode to the same
entries: MediaWiki and XML give the list itself, TSV gives it with hedId moved behind the other attributes, which
is the same attribute map (`hedLast_same`). -/
theorem cross_format (ts : List Entry)
    (hw : ∀ e ∈ ts, entryWF e = true ∧ descTrimmed e.desc = true ∧ tsvWF e = true ∧ xmlWF e = true)
    (hp : Preorder [] ts = true) (hr : TsvResolvable [(hedTag, [])] ts = true) :
    ofWiki (toWiki ts) = .ok ts ∧
    (∃ F, toXmlTree (ts.map fun e => (level e.name, e)) = some F ∧ ofXmlTree F = ts) ∧
    ofTsvRows (toTsvRows (ts.map fun e => (level e.name, e))) = .ok (ts.map hedLast) := by
  refine ⟨wiki_tags_roundtrip_partial ts (fun e he => ⟨(hw e he).1, (hw e he).2.1⟩) hp,
    xml_tags_roundtrip ts (fun e he => (hw e he).2.2.2) hp, ?_⟩
  have e1 : (ts.map fun e => (level e.name, e)).map (·.2) = ts := by
    rw [List.map_map]; exact List.map_id'' (fun _ => rfl) ts
  have e2 : ((ts.map fun e => (level e.name, e)).map fun p => hedLast p.2) = ts.map hedLast := by
    rw [List.map_map]; rfl
  have := tsv_tags_roundtrip (ts.map fun e => (level e.name, e))
    (by intro p hp'; obtain ⟨e, he, rfl⟩ := List.mem_map.mp hp'; exact (hw e he).2.2.1)
    (by rw [e1]; exact hr)
  rw [e2] at this
  exact this

/-! ### the unit-class section of a save -/

/-- **Unit classes of an unmerged save.**  For every list of unit classes with their units, when only the library
part is saved (`save_base = False`, `save_lib = True`), `_output_units` writes, in order: every library unit class
in full (description and attributes, `inLibrary` stripped, `include_props = True`) with its library units; a
unit class of the partner schema exactly when it has a library unit, and then as a bare placeholder
(`include_props = False`) holding only those library units; nothing else.  In particular the placeholder decision
of one class never depends on the classes before it. -/
theorem unit_classes_unmerged (f : Flags) (hb : f.saveBase = false) (hl : f.saveLib = true)
    (ucs : List (Entry × List Entry)) :
    outputUnits f ucs = (ucs.filterMap fun p =>
      if hasLib p.1 then some (written f p.1, true, outputSection f p.2)
      else if p.2.any hasLib then some (written f p.1, false, outputSection f p.2)
      else none) ∧
    (∀ p ∈ ucs, hasLib p.1 = true → (written f p.1, true, outputSection f p.2) ∈ outputUnits f ucs) ∧
    (∀ p ∈ ucs, hasLib p.1 = false →
      ((written f p.1, false, outputSection f p.2) ∈ outputUnits f ucs ↔ p.2.any hasLib = true)) ∧
    (∀ t ∈ outputUnits f ucs, t.2.1 = false → ∃ p ∈ ucs, hasLib p.1 = false ∧ p.2.any hasLib = true ∧
      t = (written f p.1, false, outputSection f p.2)) := by
  have heq := outputUnits_unmerged f hb hl ucs
  refine ⟨heq, ?_, ?_, ?_⟩
  · intro p hp hlib
    rw [heq, List.mem_filterMap]
    exact ⟨p, hp, by simp [hlib]⟩
  · intro p hp hlib
    rw [heq, List.mem_filterMap]
    constructor
    · rintro ⟨q, _, hq⟩
      by_cases hql : hasLib q.1 = true
      · simp [hql] at hq
      · have hql' : hasLib q.1 = false := by simpa using hql
        by_cases hqa : q.2.any hasLib = true
        · simp only [hql', Bool.false_eq_true, ↓reduceIte, hqa, Option.some.injEq, Prod.mk.injEq, true_and] at hq
          -- the units written are the library units: non-empty on one side iff on the other
          have h1 : (outputSection f q.2).isEmpty = false := by
            have := hqa
            simp only [List.any_eq_true] at this
            obtain ⟨u, hu, hul⟩ := this
            have : written f u ∈ outputSection f q.2 := by
              simp only [outputSection, List.mem_map, List.mem_filter]
              exact ⟨u, ⟨hu, by simp [shouldSkip, hb, hl, hul]⟩, rfl⟩
            cases hne : outputSection f q.2 with
            | nil => rw [hne] at this; simp at this
            | cons a b => rfl
          rw [hq.2] at h1
          cases hpa : p.2.any hasLib with
          | true => rfl
          | false =>
            have : outputSection f p.2 = [] := by
              simp only [outputSection, List.map_eq_nil_iff, List.filter_eq_nil_iff]
              intro u hu
              simp only [List.any_eq_false] at hpa
              simp [shouldSkip, hb, hl, hpa u hu]
            rw [this] at h1; simp at h1
        · have hqa' : q.2.any hasLib = false := by simpa using hqa
          simp [hql', hqa'] at hq
    · intro ha
      exact ⟨p, hp, by simp [hlib, ha]⟩
  · intro t ht hprops
    rw [heq, List.mem_filterMap] at ht
    obtain ⟨q, hq, hqt⟩ := ht
    by_cases hql : hasLib q.1 = true
    · simp only [hql, ↓reduceIte, Option.some.injEq] at hqt
      rw [← hqt] at hprops; simp at hprops
    · have hql' : hasLib q.1 = false := by simpa using hql
      by_cases hqa : q.2.any hasLib = true
      · simp only [hql', Bool.false_eq_true, ↓reduceIte, hqa, Option.some.injEq] at hqt
        exact ⟨q, hq, hql', hqa, hqt.symm⟩
      · have hqa' : q.2.any hasLib = false := by simpa using hqa
        simp [hql', hqa'] at hqt

/-- merged save (or a schema without partner): every unit class in full with all its units -/
theorem unit_classes_merged (f : Flags) (hb : f.saveBase = true) (hl : f.saveLib = true)
    (ucs : List (Entry × List Entry)) :
    outputUnits f ucs = ucs.map fun p => (written f p.1, true, p.2.map (written f)) :=
  outputUnits_merged f hb hl ucs

/-- **`Preorder` is needed (finding C05-wiki-merged-rooted-order on the model).**  A tag listed behind its
parent's block — as a rooted library tag is after loading an unmerged file, when the tag section does not re-sort
that top-level group — is written by `_output_tags` at its own depth but in that place, and the MediaWiki reader
attaches it to the last tag of the depth above: `A/B/R` listed after `A/C` comes back as `A/C/R`. -/
theorem wiki_order_counterexample :
    Preorder [] [⟨['A'], [], none⟩, ⟨['A', '/', 'B'], [], none⟩, ⟨['A', '/', 'C'], [], none⟩,
      ⟨['A', '/', 'B', '/', 'R'], [], none⟩] = false ∧
    (ofWiki (toWiki [⟨['A'], [], none⟩, ⟨['A', '/', 'B'], [], none⟩, ⟨['A', '/', 'C'], [], none⟩,
      ⟨['A', '/', 'B', '/', 'R'], [], none⟩])).toOption =
      some [⟨['A'], [], none⟩, ⟨['A', '/', 'B'], [], none⟩, ⟨['A', '/', 'C'], [], none⟩,
        ⟨['A', '/', 'C', '/', 'R'], [], none⟩] :=
  ⟨by decide, by decide⟩

/-! ### full-strength forms of the `_partial` theorems -/

/-- **Wiki lines, full strength.**  For *every* level, name, attributes and description satisfying `lineWF` — no
assumption on blanks — the written line is accepted and `_create_entry` returns the name, the attributes and the
description **normalised** (`normDesc`: a blank description comes back as *no description* — fix 391436a; before
it came back as the empty string, `blank_description_counterexample` — and any other one stripped).  So the line
round trip is the identity exactly on descriptions that are absent or non-empty and trimmed (`normDesc_fixed`,
`line_roundtrip_partial`), which is all a loaded schema can contain (`loaded_descriptions_normal`).
What `lineWF` still excludes, and why:
* `{ } [ ]` in names, values, descriptions — the compliance character check rejects them (malformed stream);
* `<` and the quote character in names and `<`, `,`, `=`, newline in attribute values — outside the name / value classes;
* a literal `<nowiki>` / `</nowiki>` in a description — registered finding, `nowiki_counterexample`;
* the text `extend here` anywhere on the line — registered finding, `extend_here_counterexample`;
* the text `&#8203;` anywhere on the line — the reader deletes it before locating the name, which shifts the
  bracket search only if it occurs before the first `{`/`[`; the predicate excludes it everywhere (over-approximation). -/
theorem line_roundtrip (l : Nat) (short : Str) (as : Attrs) (desc : Option Str)
    (h : lineWF l short as desc = true) :
    cleanLine (tagLine l short (extras (formatAttr as) desc)) =
        .ok (some (rowBody l short (extras (formatAttr as) desc))) ∧
      readEntry (rowBody l short (extras (formatAttr as) desc)) = .ok (short, as, normDesc desc) ∧
      quote3.isPrefixOf (rowBody l short (extras (formatAttr as) desc)) = (l == 0) ∧
      (0 < l → tagLevel (rowBody l short (extras (formatAttr as) desc)) = some l) :=
  line_roundtrip_full l short as desc h

/-- **Tag sections, full strength.**  For every preorder listing of `entryWF` entries — descriptions with or
without edge blanks, blank or not — reading what `_output_tags` writes gives every entry back with its description
normalised (`normEntry` = `normDesc` on the description: blank ↦ none, otherwise stripped); on absent and on
non-empty trimmed descriptions `normEntry` is the identity (`normEntry_normal`).  `Preorder` cannot be
dropped (`wiki_order_counterexample`); it holds for every loaded schema (`treeOrder_is_preorder` for the groups the
loader keeps in tree order, checked on every schema by the harness). -/
theorem wiki_tags_roundtrip (ts : List Entry) (hwf : ∀ e ∈ ts, entryWF e = true) (hp : Preorder [] ts = true) :
    ofWiki (toWiki ts) = .ok (ts.map normEntry) :=
  ofWikiFrom_toWiki_full ts [] hwf hp

theorem normEntry_normal (e : Entry) (h : descNormal e.desc = true) : normEntry e = e :=
  normEntry_of_normal e h

/-- a forest with an edge-blank and a blank description: in the input language, and read back normalised -/
example :
    let ts : List Entry :=
      [⟨['E'], [], some [' ', 'd', ' ']⟩, ⟨['E', '/', 'F'], [(['x'], [])], some [' ', ' ']⟩, ⟨['G'], [], some ['\t']⟩]
    (ts.all entryWF) = true ∧ Preorder [] ts = true ∧
      (ofWiki (toWiki ts)).toOption =
        some [⟨['E'], [], some ['d']⟩, ⟨['E', '/', 'F'], [(['x'], [])], none⟩, ⟨['G'], [], none⟩] := by decide

/-- **Defect C05-blank-description-empty-string (fixed by 391436a), on the legacy model.**  The reader as it was
(`if node_desc:` / `if description:` followed by `.strip()`) turns the blank description of `* A [ ]` into the
empty string `''`; the fixed reader gives *no description*.  No writer emits `''`: the MediaWiki line written for
the entry with description `''` is the line written for the entry without description, and the TSV cell is the
empty cell in both cases, so the legacy load of a blank description never survived a save and reload. -/
theorem blank_description_counterexample :
    (readEntryLegacy ['*', ' ', 'A', ' ', '[', ' ', ']']).toOption =
      some ((['A'], [], some []) : Str × Attrs × Option Str) ∧
    (readEntry ['*', ' ', 'A', ' ', '[', ' ', ']']).toOption = some ((['A'], [], none) : Str × Attrs × Option Str) ∧
    readDescLegacy [' '] = some [] ∧ readDesc [' '] = none ∧
    tagLine 1 ['A'] (extras (formatAttr []) (some [])) = tagLine 1 ['A'] (extras (formatAttr []) none) ∧
    (tsvRow 1 ⟨['A'], [], some []⟩).desc = (tsvRow 1 ⟨['A'], [], none⟩).desc ∧
    ((cleanLine (tagLine 1 ['A'] (extras (formatAttr []) (some [])))).toOption.bind
      fun r => r.bind fun row => (readEntryLegacy row).toOption) =
      some ((['A'], [], none) : Str × Attrs × Option Str) :=
  ⟨by decide, by decide, by decide, by decide, by decide, by decide, by decide⟩

/-- **Struct-sheet escape, full strength.**  A prologue / epilogue text survives the TSV newline escaping iff-side
that matters: whenever it does not contain a backslash directly followed by `n`; `escape_counterexample` shows the
excluded texts really change (the two characters come back as a newline). -/
theorem escape_roundtrip (s : Str) (h : hasSub ['\\', 'n'] s = false) : unescapeNl (escapeNl s) = s :=
  escape_unescape s h

set_option maxRecDepth 8192 in
/-- **Finding C05-description-extend-here on the model**: a description containing `extend here` satisfies every
other clause of `lineWF`, yet the reader finds no name on the written line (a fatal load error). -/
theorem extend_here_counterexample :
    (nameWF ['A'] && attrsWF [] && descWF (some ['e', 'x', 't', 'e', 'n', 'd', ' ', 'h', 'e', 'r', 'e'])) = true ∧
    lineWF 1 ['A'] [] (some ['e', 'x', 't', 'e', 'n', 'd', ' ', 'h', 'e', 'r', 'e']) = false ∧
    ((cleanLine (tagLine 1 ['A'] (extras (formatAttr [])
        (some ['e', 'x', 't', 'e', 'n', 'd', ' ', 'h', 'e', 'r', 'e'])))).toOption.bind fun r =>
      r.map fun row => (getTagName row, (readEntry row).toOption.map (·.1))) =
      some (some (([], 0) : Str × Nat), some []) :=
  ⟨by decide, by decide, by decide⟩

set_option maxRecDepth 8192 in
/-- **Finding C05-description-nowiki-tag on the model**: a literal nowiki tag inside a description is removed by
the reader's per-line cleaning, so the description comes back shorter. -/
theorem nowiki_counterexample :
    descWF (some ['a', '<', 'n', 'o', 'w', 'i', 'k', 'i', '>', 'b']) = false ∧
    (nameWF ['A'] && attrsWF []) = true ∧
    ((cleanLine (tagLine 1 ['A'] (extras (formatAttr []) (some ['a', '<', 'n', 'o', 'w', 'i', 'k', 'i', '>', 'b'])))).toOption.bind
      fun r => r.bind fun row => (readEntry row).toOption) =
      some ((['A'], [], some ['a', 'b']) : Str × Attrs × Option Str) :=
  ⟨by decide, by decide, by decide⟩

/-! ### the files of a TSV save -/

/-- **A TSV save writes all ten sheets, and what is loaded afterwards does not depend on what was there before.**
For every location content `old` (files an earlier save left behind) and every dictionary of frames with the ten
sheet names as keys (what `Schema2DF.process_schema` returns for *every* schema: it starts from
`create_empty_dataframes()`), `save_dataframes` leaves a file for each of the ten names — empty sections included —
and `load_dataframes` of the location returns exactly the frames just written: none is a blank fallback and none
comes from `old`. -/
theorem tsv_writes_all_sheets {α} (base : Str) (old sheets : List (Str × α))
    (hk : sheets.map (·.1) = sheetNames) :
    (∀ suf ∈ sheetNames, (dictGet (saveFrames base old sheets) (tsvFileName base suf)).isSome = true) ∧
    loadFrames base (saveFrames base old sheets) = sheets.map fun p => (p.1, some p.2) := by
  have hnd : (sheets.map (·.1)).Nodup := by rw [hk]; decide
  have hget := saveFrames_get base old sheets hnd
  refine ⟨?_, ?_⟩
  · intro suf hs
    rw [← hk] at hs
    obtain ⟨p, hp, rfl⟩ := List.mem_map.mp hs
    rw [hget p hp]; rfl
  · unfold loadFrames
    rw [← hk, List.map_map]
    apply List.map_congr_left
    intro p hp
    simp [hget p hp]

/-- a save that skips the empty frames (seeded change C05-e) would leave the earlier file in place -/
example : dictGet (saveFrames ['b'] [(tsvFileName ['b'] ['U', 'n', 'i', 't'], 7)] ([] : List (Str × Nat)))
    (tsvFileName ['b'] ['U', 'n', 'i', 't']) = some 7 := by decide

/-! ### the three formats agree, merged and unmerged -/

/-- **Format agreement for one save.**  Let `out` be what the shared traversal writes for a schema (any header
that is not refused, `save_merged` either way) and let `rel` name those entries as the saved file shows them
(`RelOf`: for a merged save the written entries themselves, for an unmerged save the library entries with rooted
tags as roots).  If `rel` is in the input language (`entryWF`, trimmed descriptions, `xmlWF`, preorder) then the
MediaWiki lines and the XML element forest written for `out` both decode to exactly `rel`; and whenever the file
shows full names (`out` and `rel` have the same entries: every merged save, and unmerged saves without rooted
tags) and `rel` is in the TSV input language, the TSV rows decode to `rel` as well, up to `hedLast`
(`hedLast_same`).  A rooted tag in an unmerged TSV file can only be read with the partner schema (not modelled). -/
theorem formats_agree (library withStandard : Str) (merged : Bool) (all rel : List Entry) (out : List (Nat × Entry))
    (_hsave : saveTags library withStandard merged all = .ok out) (hrel : RelOf out rel)
    (hwf : ∀ e ∈ rel, entryWF e = true ∧ descTrimmed e.desc = true ∧ xmlWF e = true)
    (hp : Preorder [] rel = true) :
    ofWiki (toWikiLeveled out) = .ok rel ∧
    (∃ F, toXmlTree out = some F ∧ ofXmlTree F = rel) ∧
    (out.map (·.2) = rel → (∀ e ∈ rel, tsvWF e = true) → TsvResolvable [(hedTag, [])] rel = true →
      ofTsvRows (toTsvRows out) = .ok (rel.map hedLast)) := by
  refine ⟨?_, ?_, ?_⟩
  · rw [toWikiLeveled_congr out rel hrel]
    exact wiki_tags_roundtrip_partial rel (fun e he => ⟨(hwf e he).1, (hwf e he).2.1⟩) hp
  · obtain ⟨F, h1, h2⟩ := xml_tags_roundtrip rel (fun e he => (hwf e he).2.2) hp
    exact ⟨F, by rw [toXmlTree, toXmlFrom_congr out rel [] hrel]; exact h1, h2⟩
  · intro hsame htsv hres
    have := tsv_tags_roundtrip out
      (by intro p hp'; exact htsv p.2 (by rw [← hsame]; exact List.mem_map_of_mem hp'))
      (by rw [hsame]; exact hres)
    rw [this, ← hsame, List.map_map]
    rfl

/-- **Merged saves (and schemas without partner): XML ≡ MediaWiki ≡ TSV.**  For every header that is not refused
and every tag list whose written form is in the input language of the three formats, the merged save's three
documents decode to the same entries (TSV up to `hedLast`). -/
theorem formats_agree_merged (library withStandard : Str) (hl : ',' ∉ library) (all : List Entry) :
    ∃ f out, processFlags library withStandard true = .ok f ∧
      saveTags library withStandard true all = .ok out ∧
      ((∀ e ∈ all, entryWF (written f e) = true ∧ descTrimmed (written f e).desc = true ∧
          xmlWF (written f e) = true ∧ tsvWF (written f e) = true) →
        Preorder [] (all.map (written f)) = true → TsvResolvable [(hedTag, [])] (all.map (written f)) = true →
        ofWiki (toWikiLeveled out) = .ok (all.map (written f)) ∧
        (∃ F, toXmlTree out = some F ∧ ofXmlTree F = all.map (written f)) ∧
        ofTsvRows (toTsvRows out) = .ok ((all.map (written f)).map hedLast)) := by
  obtain ⟨f, hf, hout, _⟩ := merged_keeps_everything library withStandard hl all
  have hsave : saveTags library withStandard true all = .ok (outputTags f all) := by
    simp [saveTags, hf, Except.map]
  refine ⟨f, outputTags f all, hf, hsave, ?_⟩
  intro hwf hp hres
  have hrel : RelOf (outputTags f all) (all.map (written f)) := by
    unfold RelOf
    rw [hout, List.map_map, List.map_map]
    apply List.map_congr_left
    intro e _
    simp [written]
  have hsame : (outputTags f all).map (·.2) = all.map (written f) := by
    rw [hout, List.map_map]; rfl
  have hwf' : ∀ e ∈ all.map (written f), entryWF e = true ∧ descTrimmed e.desc = true ∧ xmlWF e = true := by
    intro e he
    obtain ⟨x, hx, rfl⟩ := List.mem_map.mp he
    exact ⟨(hwf x hx).1, (hwf x hx).2.1, (hwf x hx).2.2.1⟩
  obtain ⟨a, b, c⟩ := formats_agree library withStandard true all _ _ hsave hrel hwf' hp
  refine ⟨a, b, c hsame ?_ hres⟩
  intro e he
  obtain ⟨x, hx, rfl⟩ := List.mem_map.mp he
  exact (hwf x hx).2.2.2

/-! ### tree order of the tag section after loading (fix ba6aaf2) -/

/-- **The loader's tree order gives the `Preorder` hypothesis.**  For every top-level group in which each tag's
parent is present (`groupClosed`), the stable sort that `_finalize_section` applies to groups it does not re-sort
alphabetically returns a permutation of the group that is a preorder listing (every tag after its parent and
inside its parent's block: exactly the `Preorder` hypothesis of `wiki_tags_roundtrip`), and it keeps the sibling
order: of two tags with the same parent the one that came first in the input comes first in the output. -/
theorem treeOrder_is_preorder (es : List Entry) (hcl : groupClosed es = true) :
    Preorder [] (treeOrder es) = true ∧ (treeOrder es).Perm es ∧
    (∀ a b, [a, b].Sublist (treeOrder es) → (pathOf a).dropLast = (pathOf b).dropLast →
      firstIndex (es.map pathOf) (pathOf a) ≤ firstIndex (es.map pathOf) (pathOf b)) := by
  refine ⟨treeOrder_preorder es hcl, treeOrder_perm es, ?_⟩
  intro a b hab hpar
  have hsorted : (treeOrder es).Pairwise
      (fun a b => lexLe (sortKey (es.map pathOf) (pathOf a)) (sortKey (es.map pathOf) (pathOf b)) = true) :=
    List.pairwise_mergeSort
      (le := fun a b => lexLe (sortKey (es.map pathOf) (pathOf a)) (sortKey (es.map pathOf) (pathOf b)))
      (fun a b c h1 h2 => lexLe_trans _ _ _ h1 h2) (fun a b => lexLe_total _ _) es
  have h := List.pairwise_iff_forall_sublist.mp hsorted hab
  obtain ⟨da, la, ha⟩ := snoc_of_ne_nil (pathOf a) (splitOn_ne_nil '/' a.name)
  obtain ⟨db, lb, hb⟩ := snoc_of_ne_nil (pathOf b) (splitOn_ne_nil '/' b.name)
  rw [ha, hb, List.dropLast_concat, List.dropLast_concat] at hpar
  subst hpar
  rw [ha, hb, sortKey_snoc, sortKey_snoc] at h
  rw [ha, hb]
  exact lexLe_snoc_cancel _ _ _ h

/-- groups that are each in tree order stay so when concatenated (`all_entries` is the concatenation of the
top-level groups): with `treeOrder_is_preorder` this discharges `Preorder` for the whole tag section of a loaded
schema as far as its groups are tree-ordered by the loader (alphabetically re-sorted groups are checked per schema
by the harness, not modelled). -/
theorem preorder_of_groups (G1 G2 : List Entry) (h1 : Preorder [] G1 = true) (h2 : Preorder [] G2 = true) :
    Preorder [] (G1 ++ G2) = true :=
  preorder_append [] G1 G2 h1 h2

example :
    let es : List Entry :=
      [⟨['A'], [], none⟩, ⟨['A', '/', 'B'], [], none⟩, ⟨['A', '/', 'C'], [], none⟩, ⟨['A', '/', 'B', '/', 'R'], [], none⟩]
    groupClosed es = true ∧ Preorder [] es = false := by
  decide

end HedVerif.C05
