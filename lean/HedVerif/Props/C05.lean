/-
C05 — Schemas survive saving and reloading in every format.

Theorems about the text grammars shared by the MediaWiki and TSV formats (`Model/SchemaIO.lean`):
attribute strings, wiki entry lines, the tag section, and the save decisions of `process_schema`.
-/
import HedVerif.Model.SchemaIO

namespace HedVerif.SchemaIO

/-! ### characters -/

theorem isLetter_not_space {c : Char} (h : isLetter c = true) : isPySpace c = false := by
  unfold isLetter at h
  unfold isPySpace
  simp only [Bool.or_eq_true, Bool.and_eq_true, decide_eq_true_eq, Bool.or_eq_false_iff,
    Bool.and_eq_false_iff, decide_eq_false_iff_not, beq_eq_false_iff_ne] at h ⊢
  omega

theorem isLetter_ne {c d : Char} (h : isLetter c = true) (hd : isLetter d = false) : c ≠ d := by
  intro e; subst e; simp [h] at hd

/-! ### takeWhile / dropWhile -/

theorem takeWhile_append_stop {α} (p : α → Bool) (a b : List α) (ha : ∀ x ∈ a, p x = true)
    (hb : ∀ x, b.head? = some x → p x = false) : (a ++ b).takeWhile p = a ∧ (a ++ b).dropWhile p = b := by
  induction a with
  | nil =>
    cases b with
    | nil => simp
    | cons x xs => simp [hb x rfl]
  | cons x xs ih =>
    have hx := ha x List.mem_cons_self
    have := ih (fun y hy => ha y (List.mem_cons_of_mem _ hy))
    simp [hx, this.1, this.2]

/-! ### strip -/

theorem rstrip_cons (c : Char) (cs : Str) :
    rstrip (c :: cs) = if (rstrip cs).isEmpty && isPySpace c then [] else c :: rstrip cs := rfl

theorem rstrip_of_last (s : Str) (c : Char) (h : s.getLast? = some c) (hc : isPySpace c = false) :
    rstrip s = s := by
  induction s with
  | nil => simp at h
  | cons a t ih =>
    cases t with
    | nil =>
      simp at h; subst h
      simp [rstrip_cons, rstrip, hc]
    | cons b u =>
      have h' : (b :: u).getLast? = some c := by simpa [List.getLast?_cons_cons] using h
      have := ih h'
      rw [rstrip_cons, this]
      simp

theorem rstrip_append (s t : Str) (ht : rstrip t = t) (hne : t ≠ []) : rstrip (s ++ t) = s ++ t := by
  induction s with
  | nil => simpa using ht
  | cons a u ih =>
    have : (u ++ t) ≠ [] := by simp [hne]
    cases h : u ++ t with
    | nil => exact absurd h this
    | cons x y =>
      rw [List.cons_append, rstrip_cons, ih, h]
      simp

theorem lstrip_of_head (s : Str) (h : ∀ c, s.head? = some c → isPySpace c = false) : lstrip s = s := by
  cases s with
  | nil => rfl
  | cons a t => simp [lstrip, List.dropWhile, h a rfl]

theorem trimmed_head {s : Str} (h : trimmed s = true) : ∀ c, s.head? = some c → isPySpace c = false := by
  intro c hc
  unfold trimmed at h
  simp [hc] at h
  exact h.1

theorem trimmed_rstrip {s : Str} (h : trimmed s = true) : rstrip s = s := by
  cases hl : s.getLast? with
  | none => simp [List.getLast?_eq_none_iff] at hl; subst hl; rfl
  | some c =>
    unfold trimmed at h
    simp [hl] at h
    exact rstrip_of_last s c hl h.2

theorem strip_trimmed {s : Str} (h : trimmed s = true) : strip s = s := by
  unfold strip
  rw [lstrip_of_head s (trimmed_head h), trimmed_rstrip h]

theorem strip_space_cons (s : Str) : strip (' ' :: s) = strip s := by
  unfold strip lstrip
  have : isPySpace ' ' = true := by decide
  simp [List.dropWhile, this]

/-! ### split / join -/

theorem splitOn_none (d : Char) (a : Str) (h : ∀ c ∈ a, c ≠ d) : splitOn d a = [a] := by
  induction a with
  | nil => rfl
  | cons x xs ih =>
    have hx : (x == d) = false := by simpa using h x List.mem_cons_self
    simp [splitOn, hx, ih (fun c hc => h c (List.mem_cons_of_mem _ hc)), consHead]

theorem splitOn_append (d : Char) (a b : Str) (h : ∀ c ∈ a, c ≠ d) :
    splitOn d (a ++ d :: b) = a :: splitOn d b := by
  induction a with
  | nil => simp [splitOn]
  | cons x xs ih =>
    have hx : (x == d) = false := by simpa using h x List.mem_cons_self
    simp [splitOn, hx, ih (fun c hc => h c (List.mem_cons_of_mem _ hc)), consHead]

/-- the pieces of `", ".join(items)` after splitting at `,` -/
def spaced : List Str → List Str
  | [] => []
  | x :: r => x :: r.map (' ' :: ·)

theorem splitOn_join (items : List Str) (hne : items ≠ []) (h : ∀ x ∈ items, ∀ c ∈ x, c ≠ ',') :
    splitOn ',' (joinWith [',', ' '] items) = spaced items := by
  induction items with
  | nil => exact absurd rfl hne
  | cons x r ih =>
    cases r with
    | nil => simp [joinWith, spaced, splitOn_none ',' x (h x List.mem_cons_self)]
    | cons y r' =>
      have ih' := ih (by simp) (fun z hz => h z (List.mem_cons_of_mem _ hz))
      have hs : (' ' == ',') = false := by decide
      simp only [joinWith, List.append_assoc, List.cons_append, List.nil_append]
      rw [splitOn_append ',' x _ (h x List.mem_cons_self)]
      simp [splitOn, hs, ih', spaced, consHead]

theorem joinWith_ne_nil (sep x : Str) (r : List Str) (hx : x ≠ []) : joinWith sep (x :: r) ≠ [] := by
  cases r with
  | nil => simpa [joinWith] using hx
  | cons y r' => simp [joinWith, hx]

/-! ### attribute items -/

theorem keyWF_spec {k : Str} (h : keyWF k = true) : k ≠ [] ∧ ∀ c ∈ k, isLetter c = true := by
  unfold keyWF at h
  simp only [Bool.and_eq_true, Bool.not_eq_true', List.isEmpty_eq_false_iff, List.all_eq_true] at h
  exact ⟨h.1, h.2⟩

theorem valWF_spec {v : Str} (h : valWF v = true) :
    v ≠ [] ∧ trimmed v = true ∧ ∀ c ∈ v, c ≠ ',' ∧ c ≠ '=' ∧ c ≠ '\n' := by
  unfold valWF at h
  simp only [Bool.and_eq_true, Bool.not_eq_true', List.isEmpty_eq_false_iff, List.all_eq_true,
    bne_iff_ne, ne_eq] at h
  exact ⟨h.1.1, h.1.2, fun c hc => ⟨(h.2 c hc).1.1, (h.2 c hc).1.2, (h.2 c hc).2⟩⟩

theorem letters_take_drop (k rest : Str) (hk : ∀ c ∈ k, isLetter c = true)
    (hr : ∀ x, rest.head? = some x → isLetter x = false) :
    (k ++ rest).takeWhile isLetter = k ∧ (k ++ rest).dropWhile isLetter = rest :=
  takeWhile_append_stop isLetter k rest hk hr

theorem validItem_flag (k : Str) (hk : keyWF k = true) : validItem k = true := by
  obtain ⟨hne, hl⟩ := keyWF_spec hk
  have := letters_take_drop k [] hl (by simp)
  simp only [List.append_nil] at this
  unfold validItem
  rw [this.1, this.2]
  simp [hne]

theorem validItem_kv (k v : Str) (hk : keyWF k = true) (hv : valWF v = true) :
    validItem (k ++ '=' :: v) = true := by
  obtain ⟨hne, hl⟩ := keyWF_spec hk
  obtain ⟨hvne, _, hvc⟩ := valWF_spec hv
  have := letters_take_drop k ('=' :: v) hl (by intro x hx; simp at hx; subst hx; decide)
  unfold validItem
  rw [this.1, this.2]
  simp only [Bool.and_eq_true, Bool.not_eq_true', List.isEmpty_eq_false_iff, List.all_eq_true, bne_iff_ne]
  exact ⟨hne, ⟨by simp, hvne⟩, fun c hc => (hvc c hc).2.2⟩

theorem letter_ne_eq {c : Char} (h : isLetter c = true) : c ≠ '=' := isLetter_ne h (by decide)
theorem letter_ne_comma {c : Char} (h : isLetter c = true) : c ≠ ',' := isLetter_ne h (by decide)

theorem splitEq_flag (k : Str) (hk : keyWF k = true) : splitOn '=' k = [k] :=
  splitOn_none '=' k (fun c hc => letter_ne_eq ((keyWF_spec hk).2 c hc))

theorem splitEq_kv (k v : Str) (hk : keyWF k = true) (hv : valWF v = true) :
    splitOn '=' (k ++ '=' :: v) = [k, v] := by
  rw [splitOn_append '=' k v (fun c hc => letter_ne_eq ((keyWF_spec hk).2 c hc)),
    splitOn_none '=' v (fun c hc => ((valWF_spec hv).2.2 c hc).2.1)]

theorem strip_flag (k : Str) (hk : keyWF k = true) : strip k = k := by
  obtain ⟨hne, hl⟩ := keyWF_spec hk
  apply strip_trimmed
  unfold trimmed
  cases k with
  | nil => exact absurd rfl hne
  | cons a t =>
    have h1 := isLetter_not_space (hl a List.mem_cons_self)
    have h2 : ∀ c, (a :: t).getLast? = some c → isPySpace c = false := by
      intro c hc
      exact isLetter_not_space (hl c (List.mem_of_getLast? hc))
    cases hg : (a :: t).getLast? with
    | none => simp at hg
    | some c => simp [h1, h2 c hg]

theorem strip_kv (k v : Str) (hk : keyWF k = true) (hv : valWF v = true) :
    strip (k ++ '=' :: v) = k ++ '=' :: v := by
  obtain ⟨hne, hl⟩ := keyWF_spec hk
  obtain ⟨hvne, hvt, _⟩ := valWF_spec hv
  unfold strip
  rw [lstrip_of_head]
  · apply rstrip_append
    · rw [rstrip_cons, trimmed_rstrip hvt]
      simp [hvne]
    · simp
  · intro c hc
    cases k with
    | nil => exact absurd rfl hne
    | cons a t =>
      simp at hc; subst hc
      exact isLetter_not_space (hl a List.mem_cons_self)

/-! ### the dictionary updates -/

theorem hasKey_false {acc : Attrs} {k : Str} (h : hasKey acc k = false) : ∀ x ∈ acc, x.1 ≠ k := by
  unfold hasKey at h
  simpa using h

theorem map_upd_notin (acc : Attrs) (k : Str) (g : Str × List Str → Str × List Str)
    (h : ∀ x ∈ acc, x.1 ≠ k) : acc.map (fun kv => if kv.1 = k then g kv else kv) = acc := by
  induction acc with
  | nil => rfl
  | cons a t ih =>
    have := h a List.mem_cons_self
    simp [this, ih (fun x hx => h x (List.mem_cons_of_mem _ hx))]

theorem find_notin (acc : Attrs) (k : Str) (h : ∀ x ∈ acc, x.1 ≠ k) :
    acc.find? (·.1 == k) = none := by
  simp only [List.find?_eq_none]
  intro x hx
  simp [h x hx]

theorem setAttr_flag_new (acc : Attrs) (k : Str) (h : hasKey acc k = false) :
    setAttr acc k none = .ok (acc ++ [(k, [])]) := by
  simp [setAttr, h]

theorem setAttr_val_new (acc : Attrs) (k v : Str) (h : hasKey acc k = false) :
    setAttr acc k (some v) = .ok (acc ++ [(k, [v])]) := by
  simp [setAttr, find_notin acc k (hasKey_false h)]

theorem setAttr_val_more (acc : Attrs) (k v : Str) (l : List Str) (h : hasKey acc k = false) (hl : l ≠ []) :
    setAttr (acc ++ [(k, l)]) k (some v) = .ok (acc ++ [(k, l ++ [v])]) := by
  have hf : (acc ++ [(k, l)]).find? (·.1 == k) = some (k, l) := by
    simp [List.find?_append, find_notin acc k (hasKey_false h)]
  cases l with
  | nil => exact absurd rfl hl
  | cons a t =>
    simp only [setAttr, hf]
    have := map_upd_notin acc k (fun kv => (k, kv.2 ++ [v])) (hasKey_false h)
    simp [this]

theorem parseItems_values (k : Str) (hk : keyWF k = true) (vs : List Str) (hvs : ∀ v ∈ vs, valWF v = true)
    (rest : List Str) (acc : Attrs) (hacc : hasKey acc k = false) (l : List Str) (hl : l ≠ []) :
    parseItems (vs.map (fun x => k ++ '=' :: x) ++ rest) (acc ++ [(k, l)]) =
      parseItems rest (acc ++ [(k, l ++ vs)]) := by
  induction vs generalizing l with
  | nil => simp
  | cons v vs ih =>
    have hv := hvs v List.mem_cons_self
    simp only [List.map_cons, List.cons_append, parseItems, validItem_kv k v hk hv, splitEq_kv k v hk hv,
      setAttr_val_more acc k v l hacc hl]
    simp only [Bool.not_true, Bool.false_eq_true, ↓reduceIte, Except.bind]
    rw [ih (fun x hx => hvs x (List.mem_cons_of_mem _ hx)) (l ++ [v]) (by simp)]
    simp

theorem hasKey_append_single (acc : Attrs) (k k' : Str) (l : List Str) (h : hasKey acc k' = false)
    (hne : (k == k') = false) : hasKey (acc ++ [(k, l)]) k' = false := by
  unfold hasKey at *
  simp only [List.any_append, h, List.any_cons, hne, List.any_nil, Bool.or_self]

theorem parseItems_format (as : Attrs) (acc : Attrs)
    (hwf : ∀ kv ∈ as, keyWF kv.1 = true ∧ ∀ v ∈ kv.2, valWF v = true) (hnd : nodupKeys as = true)
    (hdis : ∀ kv ∈ as, hasKey acc kv.1 = false) :
    parseItems (formatItems as) acc = .ok (acc ++ as) := by
  induction as generalizing acc with
  | nil => simp [formatItems, parseItems]
  | cons kv r ih =>
    obtain ⟨k, vs⟩ := kv
    have hk := (hwf (k, vs) List.mem_cons_self).1
    have hvs := (hwf (k, vs) List.mem_cons_self).2
    have hacc := hdis (k, vs) List.mem_cons_self
    simp only [nodupKeys, Bool.and_eq_true, Bool.not_eq_true'] at hnd
    have hr : ∀ kv' ∈ r, hasKey (acc ++ [(k, vs)]) kv'.1 = false := by
      intro kv' hkv'
      apply hasKey_append_single _ _ _ _ (hdis kv' (List.mem_cons_of_mem _ hkv'))
      have := hasKey_false hnd.1 kv' hkv'
      exact beq_eq_false_iff_ne.mpr (fun e => this e.symm)
    have ih' := ih (acc ++ [(k, vs)]) (fun x hx => hwf x (List.mem_cons_of_mem _ hx)) hnd.2 hr
    cases vs with
    | nil =>
      simp only [formatItems, parseItems, validItem_flag k hk, splitEq_flag k hk, setAttr_flag_new acc k hacc]
      simp only [Bool.not_true, Bool.false_eq_true, ↓reduceIte, Except.bind]
      rw [ih']; simp
    | cons v vs' =>
      have hv := hvs v List.mem_cons_self
      simp only [formatItems, List.map_cons, List.cons_append, parseItems, validItem_kv k v hk hv,
        splitEq_kv k v hk hv, setAttr_val_new acc k v hacc]
      simp only [Bool.not_true, Bool.false_eq_true, ↓reduceIte, Except.bind]
      rw [parseItems_values k hk vs' (fun x hx => hvs x (List.mem_cons_of_mem _ hx)) _ acc hacc [v] (by simp)]
      simpa using ih'

theorem mem_formatItems {as : Attrs} {x : Str} (h : x ∈ formatItems as) :
    ∃ kv ∈ as, (kv.2 = [] ∧ x = kv.1) ∨ (∃ v ∈ kv.2, x = kv.1 ++ '=' :: v) := by
  induction as with
  | nil => simp [formatItems] at h
  | cons kv r ih =>
    obtain ⟨k, vs⟩ := kv
    cases vs with
    | nil =>
      simp only [formatItems, List.mem_cons] at h
      rcases h with h | h
      · exact ⟨(k, []), List.mem_cons_self, Or.inl ⟨rfl, h⟩⟩
      · obtain ⟨kv, hkv, hx⟩ := ih h
        exact ⟨kv, List.mem_cons_of_mem _ hkv, hx⟩
    | cons v vs' =>
      simp only [formatItems, List.mem_append, List.mem_map] at h
      rcases h with ⟨w, hw, rfl⟩ | h
      · exact ⟨(k, v :: vs'), List.mem_cons_self, Or.inr ⟨w, hw, rfl⟩⟩
      · obtain ⟨kv, hkv, hx⟩ := ih h
        exact ⟨kv, List.mem_cons_of_mem _ hkv, hx⟩

theorem attrsWF_spec {as : Attrs} (h : attrsWF as = true) :
    nodupKeys as = true ∧ ∀ kv ∈ as, keyWF kv.1 = true ∧ ∀ v ∈ kv.2, valWF v = true := by
  unfold attrsWF at h
  simp only [Bool.and_eq_true, List.all_eq_true] at h
  exact ⟨h.1, fun kv hkv => ⟨(h.2 kv hkv).1, (h.2 kv hkv).2⟩⟩

theorem item_props {as : Attrs} (h : attrsWF as = true) {x : Str} (hx : x ∈ formatItems as) :
    strip x = x ∧ x ≠ [] ∧ ∀ c ∈ x, c ≠ ',' := by
  obtain ⟨_, hwf⟩ := attrsWF_spec h
  obtain ⟨kv, hkv, hc⟩ := mem_formatItems hx
  have hk := (hwf kv hkv).1
  obtain ⟨hne, hl⟩ := keyWF_spec hk
  rcases hc with ⟨_, rfl⟩ | ⟨v, hv, rfl⟩
  · exact ⟨strip_flag _ hk, hne, fun c hc => letter_ne_comma (hl c hc)⟩
  · have hvw := (hwf kv hkv).2 v hv
    refine ⟨strip_kv _ v hk hvw, by simp, ?_⟩
    intro c hc
    simp only [List.mem_append, List.mem_cons] at hc
    rcases hc with hc | rfl | hc
    · exact letter_ne_comma (hl c hc)
    · decide
    · exact ((valWF_spec hvw).2.2 c hc).1

theorem map_strip_spaced (items : List Str) (h : ∀ x ∈ items, strip x = x) :
    (spaced items).map strip = items := by
  cases items with
  | nil => rfl
  | cons x r =>
    simp only [spaced, List.map_cons, List.map_map, h x List.mem_cons_self, List.cons.injEq, true_and]
    have : ∀ y ∈ r, (strip ∘ fun s => ' ' :: s) y = y := by
      intro y hy
      simp [strip_space_cons, h y (List.mem_cons_of_mem _ hy)]
    calc r.map (strip ∘ fun s => ' ' :: s) = r.map id := List.map_congr_left this
      _ = r := by simp

/-! ### save decisions -/

theorem outputTagsFrom_entries (f : Flags) (all es : List Entry) (adj : Nat) (done : List Str) :
    (outputTagsFrom f all es adj done).map (·.2) = (es.filter fun e => !shouldSkip f e).map (written f) := by
  induction es generalizing adj done with
  | nil => simp [outputTagsFrom]
  | cons e r ih =>
    unfold outputTagsFrom
    by_cases hs : shouldSkip f e = true
    · simp [hs, ih]
    · simp only [hs, Bool.false_eq_true, ↓reduceIte]
      have hs' : shouldSkip f e = false := by simpa using hs
      split <;> simp [hs', ih]

theorem outputTagsFrom_merged (f : Flags) (hm : f.saveMerged = true) (hb : f.saveBase = true) (hl : f.saveLib = true)
    (all es : List Entry) (done : List Str) :
    outputTagsFrom f all es 0 done = es.map fun e => (level e.name, written f e) := by
  induction es generalizing done with
  | nil => simp [outputTagsFrom]
  | cons e r ih =>
    have hs : shouldSkip f e = false := by simp [shouldSkip, hb, hl]
    unfold outputTagsFrom
    simp only [hs, Bool.false_eq_true, ↓reduceIte, ite_self, hm, Bool.not_true, Bool.and_false, Bool.false_and]
    by_cases hz : (level e.name == 0) = true
    · have : level e.name = 0 := by simpa using hz
      simp [hz, ih, this]
    · simp only [hz, Bool.false_eq_true, ↓reduceIte]
      cases parentName e.name with
      | none => simp [ih]
      | some p =>
        dsimp only
        cases all.find? (fun x => x.name == p) <;> simp [ih]

theorem hasKey_filter_ne (as : Attrs) (k : Str) : hasKey (as.filter fun kv => !(kv.1 == k)) k = false := by
  unfold hasKey
  simp

theorem unescape_cons (c : Char) (t : Str) (hc : c ≠ '\\') : unescapeNl (c :: t) = c :: unescapeNl t := by
  cases t with
  | nil => simp [unescapeNl]
  | cons d t' => simp [unescapeNl, hc]

/-! ### nowiki tags: `cleanLine` on written lines -/

theorem prefix_of_append_sep (p s r : Str) (z : Char) (hz : z ∉ p) (h : p.isPrefixOf (s ++ z :: r) = true) :
    p.isPrefixOf s = true := by
  induction p generalizing s with
  | nil => simp
  | cons a p' ih =>
    have hz' : z ∉ p' := fun hm => hz (List.mem_cons_of_mem _ hm)
    have haz : a ≠ z := fun e => hz (e ▸ List.mem_cons_self)
    cases s with
    | nil => simp [haz] at h
    | cons b s' =>
      simp only [List.cons_append, List.isPrefixOf_cons_cons, Bool.and_eq_true] at h ⊢
      exact ⟨h.1, ih s' hz' h.2⟩

theorem tagOpen_prefix_ne (c : Char) (cs : Str) (hc : c ≠ '<') : tagOpen.isPrefixOf (c :: cs) = false := by
  have : ('<' == c) = false := by simpa using Ne.symm hc
  simp [tagOpen, List.isPrefixOf_cons_cons, this]

theorem tagClose_prefix_ne (c : Char) (cs : Str) (hc : c ≠ '<') : tagClose.isPrefixOf (c :: cs) = false := by
  have : ('<' == c) = false := by simpa using Ne.symm hc
  simp [tagClose, List.isPrefixOf_cons_cons, this]

theorem removeTags_noLt (x r : Str) (hx : ∀ c ∈ x, c ≠ '<') : removeTags 0 (x ++ r) = x ++ removeTags 0 r := by
  induction x with
  | nil => rfl
  | cons c cs ih =>
    have hc := hx c List.mem_cons_self
    simp only [List.cons_append, removeTags, tagOpen_prefix_ne c _ hc, tagClose_prefix_ne c _ hc,
      Bool.false_eq_true, ↓reduceIte, ih (fun y hy => hx y (List.mem_cons_of_mem _ hy))]

theorem removeTags_open (r : Str) : removeTags 0 (tagOpen ++ r) = removeTags 0 r := by
  simp [tagOpen, removeTags]

theorem removeTags_close : removeTags 0 tagClose = [] := by
  simp [tagClose, tagOpen, removeTags]

theorem noTag_cons {c : Char} {d : Str} (h : noTag (c :: d) = true) :
    tagOpen.isPrefixOf (c :: d) = false ∧ tagClose.isPrefixOf (c :: d) = false ∧ noTag d = true := by
  unfold noTag at h ⊢
  simp only [hasSub, Bool.and_eq_true, Bool.not_eq_true', Bool.or_eq_false_iff] at h ⊢
  exact ⟨h.1.1, h.2.1, h.1.2, h.2.2⟩

theorem removeTags_noTag (d r : Str) (z : Char) (hd : noTag d = true) (hz1 : z ∉ tagOpen) (hz2 : z ∉ tagClose) :
    removeTags 0 (d ++ z :: r) = d ++ removeTags 0 (z :: r) := by
  induction d with
  | nil => rfl
  | cons c cs ih =>
    obtain ⟨h1, h2, h3⟩ := noTag_cons hd
    have e1 : tagOpen.isPrefixOf (c :: (cs ++ z :: r)) = false := by
      cases h : tagOpen.isPrefixOf (c :: (cs ++ z :: r)) with
      | false => rfl
      | true =>
        have := prefix_of_append_sep tagOpen (c :: cs) r z hz1 (by simpa using h)
        rw [h1] at this; exact absurd this (by simp)
    have e2 : tagClose.isPrefixOf (c :: (cs ++ z :: r)) = false := by
      cases h : tagClose.isPrefixOf (c :: (cs ++ z :: r)) with
      | false => rfl
      | true =>
        have := prefix_of_append_sep tagClose (c :: cs) r z hz2 (by simpa using h)
        rw [h2] at this; exact absurd this (by simp)
    simp only [List.cons_append, removeTags, e1, e2, Bool.false_eq_true, ↓reduceIte, ih h3]

/-- an `extra` text that comes back unchanged when the closing tag behind it is removed -/
def Clean (extra : Str) : Prop := removeTags 0 (extra ++ tagClose) = extra

theorem clean_noLt (x : Str) (hx : ∀ c ∈ x, c ≠ '<') : Clean x := by
  unfold Clean
  rw [removeTags_noLt x _ hx, removeTags_close]; simp

theorem clean_desc (x d : Str) (hx : ∀ c ∈ x, c ≠ '<') (hd : noTag d = true) : Clean (x ++ d ++ [']']) := by
  unfold Clean
  have : x ++ d ++ [']'] ++ tagClose = x ++ (d ++ ']' :: tagClose) := by simp
  rw [this, removeTags_noLt x _ hx, removeTags_noTag d tagClose ']' hd (by decide) (by decide)]
  have : removeTags 0 (']' :: tagClose) = [']'] := by
    have := removeTags_noLt [']'] tagClose (by simp)
    simpa [removeTags_close] using this
  rw [this]; simp

theorem findSub_noLt_open (x r : Str) (hx : ∀ c ∈ x, c ≠ '<') :
    findSub tagOpen (x ++ r) = (findSub tagOpen r).map (· + x.length) := by
  induction x with
  | nil => simp
  | cons c cs ih =>
    have hc := hx c List.mem_cons_self
    simp only [List.cons_append, findSub, tagOpen_prefix_ne c _ hc, Bool.false_eq_true, ↓reduceIte,
      ih (fun y hy => hx y (List.mem_cons_of_mem _ hy)), Option.map_map, List.length_cons]
    congr 1

theorem findSub_noLt_close (x r : Str) (hx : ∀ c ∈ x, c ≠ '<') :
    findSub tagClose (x ++ r) = (findSub tagClose r).map (· + x.length) := by
  induction x with
  | nil => simp
  | cons c cs ih =>
    have hc := hx c List.mem_cons_self
    simp only [List.cons_append, findSub, tagClose_prefix_ne c _ hc, Bool.false_eq_true, ↓reduceIte,
      ih (fun y hy => hx y (List.mem_cons_of_mem _ hy)), Option.map_map, List.length_cons]
    congr 1

theorem findSub_self_suffix (p a : Str) : (findSub p (a ++ p)).isSome = true := by
  induction a with
  | nil =>
    cases p with
    | nil => simp [findSub]
    | cons c cs => simp [findSub]
  | cons x a' ih =>
    simp only [List.cons_append, findSub]
    split
    · rfl
    · simpa using ih

theorem nowikiErr_noLt (x : Str) (hx : ∀ c ∈ x, c ≠ '<') : nowikiErr x = false := by
  have h1 := findSub_noLt_open x [] hx
  have h2 := findSub_noLt_close x [] hx
  simp only [List.append_nil] at h1 h2
  unfold nowikiErr
  rw [h1, h2]
  simp [findSub, tagOpen, tagClose]

theorem nowikiErr_written (cur m : Str) (hx : ∀ c ∈ cur, c ≠ '<') :
    nowikiErr (cur ++ ' ' :: tagOpen ++ m ++ tagClose) = false := by
  have e : cur ++ ' ' :: tagOpen ++ m ++ tagClose = (cur ++ [' ']) ++ (tagOpen ++ (m ++ tagClose)) := by simp
  have hx' : ∀ c ∈ cur ++ [' '], c ≠ '<' := by
    intro c hc
    simp only [List.mem_append, List.mem_singleton] at hc
    rcases hc with hc | rfl
    · exact hx c hc
    · decide
  have h1 : findSub tagOpen (tagOpen ++ (m ++ tagClose)) = some 0 := by simp [findSub, tagOpen]
  obtain ⟨k, hk⟩ := Option.isSome_iff_exists.mp (findSub_self_suffix tagClose (['n', 'o', 'w', 'i', 'k', 'i', '>'] ++ m))
  have h2 : findSub tagClose (tagOpen ++ (m ++ tagClose)) = some (k + 1) := by
    have : tagOpen ++ (m ++ tagClose) = '<' :: (['n', 'o', 'w', 'i', 'k', 'i', '>'] ++ m ++ tagClose) := by
      simp [tagOpen]
    rw [this]
    simp only [findSub]
    rw [hk]
    simp [tagClose]
  unfold nowikiErr
  rw [e, findSub_noLt_open _ _ hx', findSub_noLt_close _ _ hx', h1, h2]
  simp only [Option.map_some]
  simp only [Nat.zero_add]
  show decide (k + 1 + (cur ++ [' ']).length ≤ (cur ++ [' ']).length) = false
  simp

theorem cleanLine_plain (cur : Str) (hne : cur ≠ []) (hx : ∀ c ∈ cur, c ≠ '<') (ht : trimmed cur = true) :
    cleanLine cur = .ok (some cur) := by
  unfold cleanLine
  simp only [strip_trimmed ht, nowikiErr_noLt cur hx, Bool.false_eq_true, ↓reduceIte]
  have := removeTags_noLt cur [] hx
  simp only [List.append_nil] at this
  rw [this]
  simp [removeTags, hne]

theorem cleanLine_written (cur extra : Str) (hx : ∀ c ∈ cur, c ≠ '<')
    (hh : ∃ c t, cur = c :: t ∧ isPySpace c = false) (hc : Clean extra) :
    cleanLine (cur ++ ' ' :: tagOpen ++ extra ++ tagClose) = .ok (some (cur ++ ' ' :: extra)) := by
  obtain ⟨c, t, rfl, hsp⟩ := hh
  have hstrip : strip (c :: t ++ ' ' :: tagOpen ++ extra ++ tagClose) = c :: t ++ ' ' :: tagOpen ++ extra ++ tagClose := by
    unfold strip
    rw [lstrip_of_head _ (by intro d hd; simp at hd; subst hd; exact hsp)]
    have : c :: t ++ ' ' :: tagOpen ++ extra ++ tagClose = (c :: t ++ ' ' :: tagOpen ++ extra) ++ tagClose := by simp
    rw [this]
    apply rstrip_append
    · exact rstrip_of_last tagClose '>' (by simp [tagClose]) (by decide)
    · simp [tagClose]
  unfold cleanLine
  rw [hstrip]
  simp only [nowikiErr_written (c :: t) extra hx, Bool.false_eq_true, ↓reduceIte]
  have e : c :: t ++ ' ' :: tagOpen ++ extra ++ tagClose = (c :: t ++ [' ']) ++ (tagOpen ++ (extra ++ tagClose)) := by simp
  have hx' : ∀ d ∈ c :: t ++ [' '], d ≠ '<' := by
    intro d hd
    simp only [List.mem_append, List.mem_singleton] at hd
    rcases hd with hd | rfl
    · exact hx d hd
    · decide
  rw [e, removeTags_noLt _ _ hx', removeTags_open, hc]
  simp

/-! ### the name part of a row -/

theorem removeSub_none (p s : Str) (h : hasSub p s = false) : removeSub p 0 s = s := by
  induction s with
  | nil => rfl
  | cons c cs ih =>
    simp only [hasSub, Bool.or_eq_false_iff] at h
    simp [removeSub, h.1, ih h.2]

theorem dropWhile_space_append (u t : Str) (hne : u ≠ [])
    (hlast : ∀ c, u.getLast? = some c → isPySpace c = false) :
    ∃ c rest, (u ++ t).dropWhile isPySpace = c :: rest ∧ c ∈ u ∧ isPySpace c = false := by
  induction u with
  | nil => exact absurd rfl hne
  | cons a u' ih =>
    cases u' with
    | nil =>
      have ha := hlast a (by simp)
      exact ⟨a, t, by simp [List.dropWhile, ha], List.mem_cons_self, ha⟩
    | cons b u'' =>
      by_cases ha : isPySpace a = true
      · obtain ⟨c, rest, h1, h2, h3⟩ := ih (by simp) (by
          intro c hc; apply hlast c; simpa [List.getLast?_cons_cons] using hc)
        exact ⟨c, rest, by simpa [List.dropWhile, ha] using h1, List.mem_cons_of_mem _ h2, h3⟩
      · have ha' : isPySpace a = false := by simpa using ha
        exact ⟨a, b :: u'' ++ t, by simp [List.dropWhile, ha'], List.mem_cons_self, ha'⟩

theorem tailMatch_none (u t : Str) (hne : u ≠ []) (hchars : ∀ c ∈ u, c ≠ '\'' ∧ isOpen c = false)
    (hlast : ∀ c, u.getLast? = some c → isPySpace c = false) : tailMatch (u ++ t) = none := by
  obtain ⟨c, rest, hd, hc, _⟩ := dropWhile_space_append u t hne hlast
  have hq : quote3.isPrefixOf (u ++ t) = false := by
    cases u with
    | nil => exact absurd rfl hne
    | cons a u' =>
      have : ('\'' == a) = false := by simpa using Ne.symm (hchars a List.mem_cons_self).1
      simp [quote3, List.isPrefixOf_cons_cons, this]
  unfold tailMatch
  simp only [hq, Bool.false_eq_true, ↓reduceIte, List.drop_zero, hd, (hchars c hc).2]

theorem tailMatch_nil : tailMatch [] = some 0 := by decide

theorem scanName_append (u t : Str) (k : Nat) (ht : tailMatch t = some k)
    (hu : ∀ u1 u2, u = u1 ++ u2 → u2 ≠ [] → tailMatch (u2 ++ t) = none) :
    scanName (u ++ t) = (u, u.length + k) := by
  induction u with
  | nil =>
    cases t with
    | nil =>
      rw [tailMatch_nil] at ht
      simp at ht; subst ht; rfl
    | cons c cs => simp [scanName, ht]
  | cons c u' ih =>
    have h0 := hu [] (c :: u') rfl (by simp)
    have ih' := ih (fun u1 u2 e hne => hu (c :: u1) u2 (by simp [e]) hne)
    simp only [List.cons_append] at h0 ⊢
    simp only [scanName, h0, ih', List.length_cons]
    congr 1; omega

theorem scanName_name (u t : Str) (k : Nat) (ht : tailMatch t = some k) (hne : u ≠ [])
    (hchars : ∀ c ∈ u, c ≠ '\'' ∧ isOpen c = false) (hlast : ∀ c, u.getLast? = some c → isPySpace c = false) :
    scanName (u ++ t) = (u, u.length + k) := by
  apply scanName_append u t k ht
  intro u1 u2 e h2
  apply tailMatch_none u2 t h2
  · intro c hc; exact hchars c (by rw [e]; exact List.mem_append_right _ hc)
  · intro c hc
    apply hlast c
    rw [e, List.getLast?_append, hc]; rfl

theorem stars_take_drop (n : Nat) (rest : Str) (h : ∀ c, rest.head? = some c → c ≠ '*') :
    (stars n ++ rest).takeWhile (· == '*') = stars n ∧ (stars n ++ rest).dropWhile (· == '*') = rest := by
  apply takeWhile_append_stop
  · intro x hx; simp [stars] at hx; simp [hx.2]
  · intro x hx; simpa using h x hx

theorem searchName_star (l : Nat) (u t : Str) (k : Nat) (hu0 : ∀ c, (u ++ t).head? = some c → c ≠ '*')
    (hs : scanName (u ++ t) = (u, u.length + k)) :
    searchName (stars (l + 1) ++ (u ++ t)) 0 = some (u, l + 1 + u.length + k) := by
  have e : stars (l + 1) ++ (u ++ t) = '*' :: (stars l ++ (u ++ t)) := by simp [stars, List.replicate_succ]
  obtain ⟨h1, h2⟩ := stars_take_drop l (u ++ t) hu0
  rw [e]
  have hl : (stars l).length = l := by simp [stars]
  simp only [searchName, beq_self_eq_true, ↓reduceIte, h1, h2, hs, hl]
  congr 2; omega

theorem searchName_root (u t : Str) (k : Nat) (hs : scanName (u ++ t) = (u, u.length + k)) :
    searchName (quote3 ++ (u ++ t)) 0 = some (u, 3 + u.length + k) := by
  simp only [quote3, List.cons_append, List.nil_append, searchName]
  have : ('\'' == '*') = false := by decide
  simp only [this, Bool.false_eq_true, ↓reduceIte]
  simp [List.isPrefixOf_cons_cons, hs]
  omega

theorem getTagName_of_search (row name g : Str) (idx : Nat) (he : hasSub extendHere row = false)
    (hz : hasSub zwEntity row = false) (hs : searchName row 0 = some (g, idx)) (hg : strip g = name)
    (hn : name ≠ []) : getTagName row = some (name, idx) := by
  unfold getTagName
  simp [he, removeSub_none zwEntity row hz, hs, hg, hn]

/-! ### the bracketed sections of a row -/

theorem findChar_append_notin (c : Char) (x r : Str) (hx : ∀ a ∈ x, a ≠ c) :
    findChar c (x ++ r) = (findChar c r).map (· + x.length) := by
  induction x with
  | nil => simp
  | cons a t ih =>
    have ha : (a == c) = false := by simpa using hx a List.mem_cons_self
    simp only [List.cons_append, findChar, ha, Bool.false_eq_true, ↓reduceIte,
      ih (fun y hy => hx y (List.mem_cons_of_mem _ hy)), Option.map_map, List.length_cons]
    congr 1

theorem findChar_none (c : Char) (x : Str) (hx : ∀ a ∈ x, a ≠ c) : findChar c x = none := by
  have := findChar_append_notin c x [] hx
  simpa [findChar] using this

theorem count_zero (c : Char) (x : Str) (hx : ∀ a ∈ x, a ≠ c) : x.count c = 0 :=
  List.count_eq_zero.mpr (fun hm => hx c hm rfl)

theorem lineSection_absent (row : Str) (idx : Nat) (o c : Char) (ho : ∀ a ∈ row, a ≠ o)
    (hc : ∀ a ∈ row, a ≠ c) : lineSection row idx o c = some ([], idx) := by
  unfold lineSection
  have h1 := findChar_none o (row.drop idx) (fun a ha => ho a (List.mem_of_mem_drop ha))
  have h2 := findChar_none c (row.drop idx) (fun a ha => hc a (List.mem_of_mem_drop ha))
  simp [count_zero o row ho, count_zero c row hc, h1, h2]

theorem lineSection_found (W X inner Z : Str) (o c : Char) (hoc : o ≠ c)
    (hW : ∀ a ∈ W, a ≠ o ∧ a ≠ c) (hX : ∀ a ∈ X, a ≠ o ∧ a ≠ c) (hI : ∀ a ∈ inner, a ≠ o ∧ a ≠ c)
    (hZ : ∀ a ∈ Z, a ≠ o ∧ a ≠ c) (idx : Nat) (hidx : idx = W.length) :
    lineSection (W ++ (X ++ o :: (inner ++ c :: Z))) idx o c = some (inner, X.length + 1 + inner.length + idx) := by
  subst hidx
  have c1 : (W ++ (X ++ o :: (inner ++ c :: Z))).count o = 1 := by
    simp [List.count_append, List.count_cons, count_zero o W (fun a h => (hW a h).1),
      count_zero o X (fun a h => (hX a h).1), count_zero o inner (fun a h => (hI a h).1),
      count_zero o Z (fun a h => (hZ a h).1), Ne.symm hoc]
  have c2 : (W ++ (X ++ o :: (inner ++ c :: Z))).count c = 1 := by
    simp [List.count_append, List.count_cons, count_zero c W (fun a h => (hW a h).2),
      count_zero c X (fun a h => (hX a h).2), count_zero c inner (fun a h => (hI a h).2),
      count_zero c Z (fun a h => (hZ a h).2), hoc]
  have f1 : findChar o (X ++ o :: (inner ++ c :: Z)) = some X.length := by
    rw [findChar_append_notin o X _ (fun a h => (hX a h).1)]; simp [findChar]
  have f2 : findChar c (X ++ o :: (inner ++ c :: Z)) = some (X.length + 1 + inner.length) := by
    rw [findChar_append_notin c X _ (fun a h => (hX a h).2)]
    have : (o == c) = false := by simpa using hoc
    simp only [findChar, this, Bool.false_eq_true, ↓reduceIte]
    rw [findChar_append_notin c inner _ (fun a h => (hI a h).2)]
    simp [findChar]; omega
  unfold lineSection
  simp only [c1, c2, bne_self_eq_false, Bool.false_or, List.drop_left, f1, f2]
  have hlt : ¬ (X.length + 1 + inner.length < X.length) := by omega
  have e1 : (X ++ o :: (inner ++ c :: Z)).drop (X.length + 1) = inner ++ c :: Z := by
    have : X ++ o :: (inner ++ c :: Z) = (X ++ [o]) ++ (inner ++ c :: Z) := by simp
    rw [this]
    have hl : X.length + 1 = (X ++ [o]).length := by simp
    rw [hl, List.drop_left]
  have e2 : X.length + 1 + inner.length - (X.length + 1) = inner.length := by omega
  simp [hlt, e1, e2]

theorem mem_joinWith {sep : Str} {items : List Str} {c : Char} (h : c ∈ joinWith sep items) :
    c ∈ sep ∨ ∃ x ∈ items, c ∈ x := by
  induction items with
  | nil => simp [joinWith] at h
  | cons x r ih =>
    cases r with
    | nil => exact Or.inr ⟨x, List.mem_cons_self, by simpa [joinWith] using h⟩
    | cons y r' =>
      simp only [joinWith, List.mem_append] at h
      rcases h with (h | h) | h
      · exact Or.inr ⟨x, List.mem_cons_self, h⟩
      · exact Or.inl h
      · rcases ih h with h | ⟨z, hz, hc⟩
        · exact Or.inl h
        · exact Or.inr ⟨z, List.mem_cons_of_mem _ hz, hc⟩

theorem isLetter_not_delim {c : Char} (h : isLetter c = true) : lineDelim c = false := by
  unfold lineDelim
  simp only [Bool.or_eq_false_iff, beq_eq_false_iff_ne]
  refine ⟨⟨⟨⟨?_, ?_⟩, ?_⟩, ?_⟩, ?_⟩ <;> exact isLetter_ne h (by decide)

theorem formatAttr_chars (as : Attrs) (h : attrsWF as = true)
    (hv : (as.all fun kv => kv.2.all fun v => v.all (!lineDelim ·)) = true) :
    ∀ c ∈ formatAttr as, lineDelim c = false := by
  intro c hc
  obtain ⟨_, hwf⟩ := attrsWF_spec h
  rcases mem_joinWith hc with hc | ⟨x, hx, hcx⟩
  · simp only [List.mem_cons, List.not_mem_nil, or_false] at hc
    rcases hc with rfl | rfl <;> decide
  · obtain ⟨kv, hkv, hform⟩ := mem_formatItems hx
    have hl := (keyWF_spec (hwf kv hkv).1).2
    simp only [List.all_eq_true, Bool.not_eq_true'] at hv
    rcases hform with ⟨_, rfl⟩ | ⟨v, hvm, rfl⟩
    · exact isLetter_not_delim (hl c hcx)
    · simp only [List.mem_append, List.mem_cons] at hcx
      rcases hcx with hcx | rfl | hcx
      · exact isLetter_not_delim (hl c hcx)
      · decide
      · exact hv kv hkv v hvm c hcx

theorem formatAttr_ne_nil (as : Attrs) (h : attrsWF as = true) (hne : as ≠ []) : formatAttr as ≠ [] := by
  obtain ⟨kv, r, rfl⟩ := List.exists_cons_of_ne_nil hne
  have hitems : formatItems (kv :: r) ≠ [] := by
    obtain ⟨k, vs⟩ := kv
    cases vs <;> simp [formatItems]
  obtain ⟨x, xs, hx⟩ := List.exists_cons_of_ne_nil hitems
  have hxne : x ≠ [] := (item_props h (x := x) (by rw [hx]; exact List.mem_cons_self)).2.1
  unfold formatAttr
  rw [hx]
  exact joinWith_ne_nil _ x xs hxne

end HedVerif.SchemaIO

namespace HedVerif.C05
open HedVerif.SchemaIO

/-- **Attribute strings round-trip.**  For every attribute dictionary whose names are `[A-Za-z]+`, pairwise
distinct, and whose values are non-empty, trimmed and free of `,` `=` and newline, the reader
(`parse_attribute_string`) applied to what the writer (`_format_tag_attributes`) produces gives the dictionary
back: same names in the same order, every value list (multi-valued attributes included) intact. -/
theorem attr_roundtrip (as : Attrs) (h : attrsWF as = true) : parseAttr (formatAttr as) = .ok as := by
  unfold parseAttr formatAttr
  cases has : as with
  | nil => simp [formatItems, joinWith]
  | cons kv r =>
    rw [← has]
    have hitems : formatItems as ≠ [] := by
      subst has
      obtain ⟨k, vs⟩ := kv
      cases vs <;> simp [formatItems]
    obtain ⟨x, xs, hx⟩ := List.exists_cons_of_ne_nil hitems
    have hxne : x ≠ [] := (item_props h (x := x) (by rw [hx]; exact List.mem_cons_self)).2.1
    have hjoin : (joinWith [',', ' '] (formatItems as)).isEmpty = false := by
      rw [hx]; simpa using joinWith_ne_nil _ x xs hxne
    rw [hjoin]
    simp only [Bool.false_eq_true, ↓reduceIte]
    rw [splitOn_join _ hitems (fun y hy => (item_props h hy).2.2),
      map_strip_spaced _ (fun y hy => (item_props h hy).1)]
    obtain ⟨hnd, hwf⟩ := attrsWF_spec h
    simpa using parseItems_format as [] hwf hnd (by intro kv _; rfl)

/-- multi-valued attributes (`suggestedTag=a, suggestedTag=b`) survive with all their values, in order -/
theorem attr_multivalue_survives (as : Attrs) (h : attrsWF as = true) (k : Str) (vs : List Str)
    (hk : (k, vs) ∈ as) : ∃ bs, parseAttr (formatAttr as) = .ok bs ∧ (k, vs) ∈ bs :=
  ⟨as, attr_roundtrip as h, hk⟩

example : attrsWF [(['a'], []), (['b'], [['c'], ['d', ' ', 'e']])] = true := by decide
example : formatAttr [(['a'], []), (['b'], [['c'], ['d']])] = "a, b=c, b=d".toList := by decide

/-! ### refusal and library handling of `process_schema` -/

/-- **Refusal.**  A schema whose `library` header lists more than one library (the value contains `,`, as produced
by loading several libraries into one schema) is refused by the decision step every writer shares, whatever the
`withStandard` value, the `save_merged` flag and the content. -/
theorem refuse (library withStandard : Str) (saveMerged : Bool) (all : List Entry) (h : ',' ∈ library) :
    processFlags library withStandard saveMerged = .error .multiLibrary ∧
    saveTags library withStandard saveMerged all = .error .multiLibrary := by
  have hc : canSave library = false := by
    unfold canSave
    cases library with
    | nil => simp at h
    | cons a t => simp [List.contains_iff_mem, h]
  simp [saveTags, processFlags, hc, Except.map]

/-- nothing else is refused: the writers refuse exactly the multi-library headers -/
theorem refuse_iff (library withStandard : Str) (saveMerged : Bool) :
    (∃ f, processFlags library withStandard saveMerged = .ok f) ↔ ',' ∉ library := by
  unfold processFlags canSave
  by_cases h : ',' ∈ library
  · have : library ≠ [] := by intro e; subst e; simp at h
    simp [h, List.contains_iff_mem, this]
  · simp only [h, not_false_eq_true, iff_true]
    have : (library.isEmpty || !library.contains ',') = true := by simp [List.contains_iff_mem, h]
    simp only [this, Bool.not_true, Bool.false_eq_true, ↓reduceIte]
    split <;> exact ⟨_, rfl⟩

/-- **Unmerged save of a partnered library.**  With a `withStandard` header and `save_merged = False` the tag
section written is exactly the library's own entries (those carrying `inLibrary`), in order, each without its
`inLibrary` attribute and otherwise unchanged; the same holds for every flat section. -/
theorem strip_inlibrary (library withStandard : Str) (hl : ',' ∉ library) (hws : withStandard ≠ [])
    (all : List Entry) :
    ∃ f, processFlags library withStandard false = .ok f ∧
      (outputTags f all).map (·.2) =
        (all.filter hasLib).map (fun e => { e with attrs := e.attrs.filter fun kv => !(kv.1 == inLibrary) }) ∧
      (∀ p ∈ outputTags f all, hasLib p.2 = false) ∧
      outputSection f all =
        (all.filter hasLib).map (fun e => { e with attrs := e.attrs.filter fun kv => !(kv.1 == inLibrary) }) := by
  have hc : canSave library = true := by simp [canSave, List.contains_iff_mem, hl]
  have hw : withStandard.isEmpty = false := by simpa using hws
  refine ⟨{ saveLib := true, saveBase := false, saveMerged := false, stripInLib := true }, ?_, ?_, ?_, ?_⟩
  · simp [processFlags, hc, hw]
  · rw [outputTags, outputTagsFrom_entries]
    simp [shouldSkip, written, writeAttrs]
  · intro p hp
    have hm : p.2 ∈ (outputTags _ all).map (·.2) := List.mem_map_of_mem hp
    rw [outputTags, outputTagsFrom_entries] at hm
    obtain ⟨e, _, he⟩ := List.mem_map.mp hm
    rw [← he]
    simp only [written, writeAttrs, Bool.true_and, hasLib]
    exact hasKey_filter_ne e.attrs inLibrary
  · simp [outputSection, shouldSkip, written, writeAttrs]

/-- **Merged save** (and the save of a schema without partner): every entry is written, at the level given by
its own name; a partnered merged save keeps `inLibrary`, so the reader can tell the two parts apart again. -/
theorem merged_keeps_everything (library withStandard : Str) (hl : ',' ∉ library) (all : List Entry) :
    ∃ f, processFlags library withStandard true = .ok f ∧
      outputTags f all = all.map (fun e => (level e.name, written f e)) ∧
      (withStandard ≠ [] → ∀ e, written f e = e) := by
  have hc : canSave library = true := by simp [canSave, List.contains_iff_mem, hl]
  by_cases hw : withStandard = []
  · refine ⟨{ saveLib := true, saveBase := true, saveMerged := true, stripInLib := true }, ?_, ?_, ?_⟩
    · simp [processFlags, hc, hw]
    · exact outputTagsFrom_merged _ rfl rfl rfl all all []
    · intro h; exact absurd hw h
  · have hw' : withStandard.isEmpty = false := by simpa using hw
    refine ⟨{ saveLib := true, saveBase := true, saveMerged := true, stripInLib := false }, ?_, ?_, ?_⟩
    · simp [processFlags, hc, hw']
    · exact outputTagsFrom_merged _ rfl rfl rfl all all []
    · intro _ e
      have : List.filter (fun _ : Str × List Str => true) e.attrs = e.attrs := List.filter_eq_self.mpr (by simp)
      simp [written, writeAttrs, this]

/-! ### newline escape of the TSV struct sheet -/

/-- prologue / epilogue texts without a backslash survive the struct-sheet escaping -/
theorem escape_roundtrip_partial (s : Str) (h : ∀ c ∈ s, c ≠ '\\') : unescapeNl (escapeNl s) = s := by
  induction s with
  | nil => rfl
  | cons c cs ih =>
    have ih' := ih (fun x hx => h x (List.mem_cons_of_mem _ hx))
    by_cases hc : c = '\n'
    · subst hc; simp [escapeNl, unescapeNl, ih']
    · have hb := h c List.mem_cons_self
      simp [escapeNl, hc, unescape_cons c _ hb, ih']

/-- a literal backslash followed by `n` comes back as a newline (observed on the real TSV round trip of a prologue) -/
theorem escape_counterexample : unescapeNl (escapeNl ['a', '\\', 'n', 'b']) = ['a', '\n', 'b'] := by decide

end HedVerif.C05
