/-
Property C17 — remodeling operations are pure functions of their parameters and input table.
Theorems about `HedVerif.Remodel` (Model/Remodel.lean), for ALL tables, operation lists and processing
histories.  Helper lemmas first, the property theorems at the end.
-/
import HedVerif.Model.Remodel
namespace HedVerif.C17
open HedVerif HedVerif.Remodel

/-! ### tables -/

theorem header_mapCells (f : Cell → Cell) (t : Table) : header (mapCells f t) = header t := by
  simp [header, mapCells, List.map_map, Function.comp_def]

theorem header_prep (t : Table) : header (prep t) = header t := header_mapCells _ t

theorem lookup_none_iff (t : Table) (col : Str) : t.lookup col = none ↔ col ∉ header t := by
  induction t with
  | nil => simp [header]
  | cons p t ih =>
    obtain ⟨n, c⟩ := p
    by_cases h : col = n
    · subst h; simp [header, List.lookup]
    · have h' : (col == n) = false := by simpa using h
      simp only [List.lookup, h', header, List.map_cons, List.mem_cons, h, false_or]
      simpa [header] using ih

theorem lookup_some_of_mem (t : Table) (col : Str) (h : col ∈ header t) : ∃ c, t.lookup col = some c := by
  cases hl : t.lookup col with
  | none => exact absurd h ((lookup_none_iff t col).1 hl)
  | some c => exact ⟨c, rfl⟩

theorem applyMask_nil_right {α} (m : List Bool) : applyMask m ([] : List α) = [] := by
  cases m with
  | nil => rfl
  | cons b m => cases b <;> rfl

/-- masking by a mask computed on the already masked key column = masking once by the conjunction -/
theorem applyMask_comp {α β} (p : α → Bool) :
    ∀ (m : List Bool) (c : List α) (d : List β),
      applyMask ((applyMask m c).map p) (applyMask m d) = applyMask (List.zipWith (· && ·) m (c.map p)) d
  | [], c, d => by simp [applyMask]
  | b :: m, [], d => by simp [applyMask_nil_right, applyMask]
  | b :: m, x :: c, [] => by simp [applyMask_nil_right]
  | true :: m, x :: c, y :: d => by
    cases hp : p x <;> simp [applyMask, hp, applyMask_comp p m c d]
  | false :: m, x :: c, y :: d => by
    simp [applyMask, applyMask_comp p m c d]

theorem lookup_filterRows (m : List Bool) (t : Table) (col : Str) :
    (filterRows m t).lookup col = (t.lookup col).map (applyMask m) := by
  induction t with
  | nil => rfl
  | cons p t ih =>
    obtain ⟨n, c⟩ := p
    simp only [filterRows, List.map_cons, List.lookup] at ih ⊢
    split <;> simp_all

/-! ### state -/

theorem reorderImpl_fst (o : List Str) (i k : Bool) (t : Table) : (reorderImpl o i k t).1 = o := by
  unfold reorderImpl
  simp only
  split <;> rfl

theorem opImpl_fst (o : Op) (t : Table) : (opImpl o t).1 = o := by
  cases o <;> simp [opImpl, reorderImpl_fst]

theorem runWith_fst (step : Op → Table → Op × Except OpErr Table) (hs : ∀ o t, (step o t).1 = o) :
    ∀ (ops : List Op) (t : Table), (runWith step ops t).1 = ops
  | [], t => rfl
  | o :: os, t => by
    unfold runWith
    split
    · rfl
    · have h1 := hs o (prep t)
      split
      · next o' e heq => simp [heq] at h1; simp [h1]
      · next o' t1 heq =>
        simp [heq] at h1
        simp [h1, runWith_fst step hs os (post t1)]

theorem runManyWith_eq (step : Op → Table → Op × Except OpErr Table) (hs : ∀ o t, (step o t).1 = o) :
    ∀ (ops : List Op) (ts : List Table),
      runManyWith step ops ts = (ops, ts.map fun t => (runWith step ops t).2)
  | ops, [] => rfl
  | ops, t :: ts => by
    simp [runManyWith, runWith_fst step hs ops t, runManyWith_eq step hs ops ts]

/-! ### remove_rows -/

theorem removeRows_fold (col : Str) (t : Table) (c : Column) (hc : t.lookup col = some c) :
    ∀ (vs : List Val) (q : Cell → Bool),
      vs.foldl (removeRowsStep col) (filterRows (c.map q) t)
        = filterRows (c.map fun x => q x && vs.all fun v => !cellEq x v) t
  | [], q => by simp
  | v :: vs, q => by
    have hl : (filterRows (c.map q) t).lookup col = some (applyMask (c.map q) c) := by
      simp [lookup_filterRows, hc]
    have hstep : removeRowsStep col (filterRows (c.map q) t) v
        = filterRows (c.map fun x => q x && !cellEq x v) t := by
      simp only [removeRowsStep, hl]
      simp only [filterRows, List.map_map, Function.comp_def]
      apply List.map_congr_left
      intro p _
      simp only [applyMask_comp, List.zipWith_map_left, List.zipWith_map_right, List.zipWith_self]
    rw [List.foldl_cons, hstep, removeRows_fold col t c hc vs]
    congr 1
    apply List.map_congr_left
    intro x _
    simp [Bool.and_assoc]

theorem removeRows_refines (col : Str) (vals : List Val) (t : Table) (hv : vals ≠ []) :
    removeRowsImpl col vals t = removeRowsSpec col vals t := by
  unfold removeRowsImpl removeRowsSpec
  cases hl : t.lookup col with
  | none =>
    have := (lookup_none_iff t col).1 hl
    simp [this]
  | some c =>
    have hm : col ∈ header t := by
      apply Decidable.byContradiction
      intro h; rw [(lookup_none_iff t col).2 h] at hl; cases hl
    cases vals with
    | nil => exact absurd rfl hv
    | cons v vs =>
      simp only [hm, if_true, List.foldl_cons]
      have h1 : removeRowsStep col t v = filterRows (c.map fun x => !cellEq x v) t := by
        simp [removeRowsStep, hl]
      rw [h1, removeRows_fold col t c hl vs]
      simp [List.all_cons]

/-! ### reorder_columns -/

theorem any_eq_not_isEmpty_filter {α} (p : α → Bool) (l : List α) : l.any p = !(l.filter p).isEmpty := by
  induction l with
  | nil => rfl
  | cons x l ih => cases h : p x <;> simp [h, ih]

theorem reorder_refines (o : List Str) (i k : Bool) (t : Table) :
    reorderImpl o i k t = (o, reorderSpec o i k t) := by
  unfold reorderImpl reorderSpec
  simp only [any_eq_not_isEmpty_filter]
  generalize hM : (o.filter fun e => !(header t).contains e) = missing
  have hmem : ∀ e, e ∈ missing ↔ (e ∈ o ∧ (header t).contains e = false) := by
    intro e; rw [← hM, List.mem_filter]; simp
  cases missing with
  | nil =>
    have hall : ∀ e ∈ o, (header t).contains e = true := by
      intro e he
      cases hc : (header t).contains e with
      | true => rfl
      | false => exact absurd ((hmem e).2 ⟨he, hc⟩) (by simp)
    have hlisted : (o.filter fun e => (header t).contains e) = o := List.filter_eq_self.2 hall
    simp only [hlisted, List.isEmpty_nil, Bool.not_true, Bool.false_and, Bool.and_false,
      Bool.false_eq_true, if_false]
    cases k <;> simp
  | cons x xs =>
    cases i
    · simp only [List.isEmpty_cons, Bool.not_false, Bool.and_self, if_true]
    · have hord : (o.filter fun e => !(x :: xs).contains e) = o.filter fun e => (header t).contains e := by
        apply List.filter_congr
        intro e he
        cases hc : (header t).contains e with
        | true =>
          have : e ∉ x :: xs := fun hm => by have := ((hmem e).1 hm).2; rw [hc] at this; cases this
          simp [this]
        | false =>
          have : e ∈ x :: xs := (hmem e).2 ⟨he, hc⟩
          simp [this]
      simp only [List.isEmpty_cons, Bool.not_false, Bool.not_true, Bool.and_false, Bool.false_and,
        Bool.false_eq_true, if_false, if_true, hord]
      cases k
      · simp
      · simp only [if_true]
        have hoth : ((header t).filter fun e => !(o.filter fun e => (header t).contains e).contains e)
            = (header t).filter fun e => !o.contains e := by
          apply List.filter_congr
          intro e he
          cases hc : o.contains e with
          | true =>
            have h1 : e ∈ o := by simpa using hc
            simp [h1, he]
          | false =>
            have h1 : e ∉ o := by simpa using hc
            simp [h1]
        rw [hoth]

/-! ### factor_column -/

theorem header_setCol (t : Table) (n : Str) (c : Column) :
    header (setCol t n c) = if n ∈ header t then header t else header t ++ [n] := by
  unfold setCol
  split
  · simp only [header, List.map_map]
    apply List.map_congr_left
    intro p _
    simp only [Function.comp_def]
    split <;> rfl
  · simp [header]

theorem mem_header_setCol (t : Table) (n : Str) (c : Column) (x : Str) (h : x ∈ header t) :
    x ∈ header (setCol t n c) := by
  rw [header_setCol]; split <;> simp [h]

theorem lookup_map_replace (t : Table) (n col : Str) (c : Column) (h : n ≠ col) :
    (t.map (fun p => if p.1 = n then (p.1, c) else p)).lookup col = t.lookup col := by
  induction t with
  | nil => rfl
  | cons p t ih =>
    obtain ⟨m, d⟩ := p
    by_cases hm : m = n
    · subst hm
      have : (col == m) = false := by simpa using (Ne.symm h)
      simp only [List.map_cons, if_true, List.lookup, this]
      exact ih
    · simp only [List.map_cons, hm, if_false, List.lookup]
      split
      · rfl
      · exact ih

theorem lookup_setCol_ne (t : Table) (n col : Str) (c : Column) (h : n ≠ col) :
    (setCol t n c).lookup col = t.lookup col := by
  unfold setCol
  split
  · exact lookup_map_replace t n col c h
  · cases hl : t.lookup col with
    | none =>
      have : (col == n) = false := by simpa using (Ne.symm h)
      simp [List.lookup_append, hl, List.lookup, this]
    | some d => simp [List.lookup_append, hl]

theorem factorLoop_eq (col : Str) (c0 : Column) :
    ∀ (fv fn : List Str) (t : Table), t.lookup col = some c0 → col ∉ fn →
      factorLoop col fv fn t =
        if fn.length < fv.length then .error (.raised .IndexError)
        else .ok ((fv.zip fn).foldl (fun t' vn => setCol t' vn.2 (factorCol c0 vn.1)) t)
  | [], fn, t, _, _ => by simp [factorLoop]
  | v :: vs, [], t, hl, _ => by simp [factorLoop, hl]
  | v :: vs, n :: ns, t, hl, hn => by
    have hne : n ≠ col := by intro h; apply hn; simp [h]
    have hns : col ∉ ns := by intro h; apply hn; simp [h]
    have hl' : (setCol t n (factorCol c0 v)).lookup col = some c0 := by
      rw [lookup_setCol_ne _ _ _ _ hne]; exact hl
    simp only [factorLoop, hl]
    rw [factorLoop_eq col c0 vs ns _ hl' hns]
    simp [List.zip_cons_cons, List.foldl_cons]

theorem derived_name_ne (col v : Str) : col ≠ col ++ '.' :: v := by
  intro h
  have := congrArg List.length h
  simp at this

theorem factor_refines (col : Str) (values names : Option (List Str)) (t : Table)
    (hn : col ∉ names.getD []) : factorImpl col values names t = factorSpec col values names t := by
  unfold factorImpl factorSpec
  cases hl : t.lookup col with
  | none => rfl
  | some c0 =>
    simp only
    apply factorLoop_eq col c0 _ _ t hl
    unfold factorNames
    split
    · intro hmem
      rw [List.mem_map] at hmem
      obtain ⟨v, _, hv⟩ := hmem
      exact derived_name_ne col v hv.symm
    · exact hn

/-! ### merge_consecutive -/

/-- what the declarative mask knows about the predecessor of the next row -/
def absPrev (st : GSt) : Option (Bool × Row) := st.prev.map fun r => (st.inGroup, r)

def keepBit (st : GSt) (mr : Bool × Row) : Bool :=
  !(mr.1 && (match absPrev st with | some p => p.1 && p.2 = mr.2 | none => false))

theorem groupStep_spec (st : GSt) (mr : Bool × Row) (hinv : st.inGroup = true → 1 ≤ st.count) :
    (∃ g, (groupStep st mr).out = g :: st.out ∧ (g == 0) = keepBit st mr)
    ∧ absPrev (groupStep st mr) = some mr
    ∧ ((groupStep st mr).inGroup = true → 1 ≤ (groupStep st mr).count) := by
  obtain ⟨m, r⟩ := mr
  obtain ⟨ig, cnt, prev, out⟩ := st
  simp only at hinv
  cases m
  · refine ⟨⟨0, ?_, ?_⟩, ?_, ?_⟩ <;> simp [groupStep, keepBit, absPrev]
  · cases ig
    · refine ⟨⟨0, ?_, ?_⟩, ?_, ?_⟩ <;> simp [groupStep, keepBit, absPrev]
      cases prev <;> simp
    · have hc : 1 ≤ cnt := hinv rfl
      by_cases hp : prev = some r
      · subst hp
        refine ⟨⟨cnt, ?_, ?_⟩, ?_, ?_⟩ <;> simp [groupStep, keepBit, absPrev]
        · omega
        · exact hc
      · refine ⟨⟨0, ?_, ?_⟩, ?_, ?_⟩ <;> simp [groupStep, keepBit, absPrev, hp]
        cases prev with
        | none => simp
        | some pr =>
          have : pr ≠ r := fun h => hp (by rw [h])
          simp [this]

theorem removeGroups_fold :
    ∀ (mrs : List (Bool × Row)) (st : GSt), (st.inGroup = true → 1 ≤ st.count) →
      ((mrs.foldl groupStep st).out.reverse.map (· == 0))
        = st.out.reverse.map (· == 0) ++ mergeKeep (absPrev st) mrs
  | [], st, _ => by simp [mergeKeep]
  | mr :: mrs, st, hinv => by
    obtain ⟨⟨g, hout, hg⟩, habs, hinv'⟩ := groupStep_spec st mr hinv
    rw [List.foldl_cons, removeGroups_fold mrs _ hinv', habs, hout]
    simp only [List.reverse_cons, List.map_append, List.map_cons, List.map_nil, List.append_assoc,
      List.cons_append, List.nil_append, mergeKeep, hg]
    rfl

theorem removeGroups_eq_mergeKeep (mrs : List (Bool × Row)) :
    (removeGroups mrs).map (· == 0) = mergeKeep none mrs := by
  have := removeGroups_fold mrs {} (by simp)
  simpa [removeGroups, absPrev] using this


/-! #### set_durations: the loop over group numbers computes the documented durations -/

theorem tw_toFloat (c : Cell) : (toFloat c).tw = c.tw := by cases c <;> rfl
theorem endTw_toFloat (o d : Cell) : endTw o (toFloat d) = endTw o d := by simp [endTw, tw_toFloat]
theorem toFloat_toFloat (c : Cell) : toFloat (toFloat c) = toFloat c := by cases c <;> rfl

/-- the group numbers `_get_remove_groups` can emit from state (`in_group`, `group_count`) -/
inductive Gen : Bool → Nat → List Nat → Prop
  | nil (b c) : Gen b c []
  | other (b c ids) : Gen false c ids → Gen b c (0 :: ids)          -- a row without the event code
  | start (b c ids) : Gen true (c + 1) ids → Gen b c (0 :: ids)      -- a kept row with the code (count += 1)
  | drop (c ids) : 1 ≤ c → Gen true c ids → Gen true c (c :: ids)    -- a row equal to its predecessor

theorem gen_of_fold : ∀ (mrs : List (Bool × Row)) (st : GSt), (st.inGroup = true → 1 ≤ st.count) →
    ∃ ids, (mrs.foldl groupStep st).out.reverse = st.out.reverse ++ ids ∧ Gen st.inGroup st.count ids
  | [], st, _ => ⟨[], by simp, Gen.nil _ _⟩
  | mr :: mrs, st, hinv => by
    obtain ⟨m, r⟩ := mr
    obtain ⟨ig, cnt, prev, out⟩ := st
    simp only at hinv
    rw [List.foldl_cons]
    by_cases hm : m = true
    · by_cases hig : ig = true
      · subst hm; subst hig
        have hc : 1 ≤ cnt := hinv rfl
        by_cases hp : prev = some r
        · have hs : groupStep ⟨true, cnt, prev, out⟩ (true, r) = ⟨true, cnt, some r, cnt :: out⟩ := by
            simp [groupStep, hp]
          rw [hs]
          obtain ⟨ids, h1, h2⟩ := gen_of_fold mrs ⟨true, cnt, some r, cnt :: out⟩ (fun _ => hc)
          exact ⟨cnt :: ids, by rw [h1]; simp, Gen.drop cnt ids hc h2⟩
        · have hs : groupStep ⟨true, cnt, prev, out⟩ (true, r) = ⟨true, cnt + 1, some r, 0 :: out⟩ := by
            simp [groupStep, hp]
          rw [hs]
          obtain ⟨ids, h1, h2⟩ := gen_of_fold mrs ⟨true, cnt + 1, some r, 0 :: out⟩ (fun _ => by simp)
          exact ⟨0 :: ids, by rw [h1]; simp, Gen.start _ _ _ h2⟩
      · subst hm
        have hig' : ig = false := by simpa using hig
        subst hig'
        have hs : groupStep ⟨false, cnt, prev, out⟩ (true, r) = ⟨true, cnt + 1, some r, 0 :: out⟩ := by
          simp [groupStep]
        rw [hs]
        obtain ⟨ids, h1, h2⟩ := gen_of_fold mrs ⟨true, cnt + 1, some r, 0 :: out⟩ (fun _ => by simp)
        exact ⟨0 :: ids, by rw [h1]; simp, Gen.start _ _ _ h2⟩
    · have hm' : m = false := by simpa using hm
      subst hm'
      have hs : groupStep ⟨ig, cnt, prev, out⟩ (false, r) = ⟨false, cnt, some r, 0 :: out⟩ := by
        simp [groupStep]
      rw [hs]
      obtain ⟨ids, h1, h2⟩ := gen_of_fold mrs ⟨false, cnt, some r, 0 :: out⟩ (by simp)
      exact ⟨0 :: ids, by rw [h1]; simp, Gen.other _ _ _ h2⟩

theorem gen_removeGroups (mrs : List (Bool × Row)) : Gen false 0 (removeGroups mrs) := by
  obtain ⟨ids, h1, h2⟩ := gen_of_fold mrs {} (by simp)
  simp only [removeGroups, h1]
  simpa using h2

theorem gen_bound : ∀ {b c ids}, Gen b c ids → ∀ g ∈ ids, g ≠ 0 → (if b then c ≤ g else c < g) := by
  intro b c ids h
  induction h with
  | nil b c => intro g hg; cases hg
  | other b c ids _ ih =>
    intro g hg hne
    rcases List.mem_cons.1 hg with rfl | hg'
    · exact absurd rfl hne
    · have := ih g hg' hne
      simp only [Bool.false_eq_true, if_false] at this
      cases b <;> simp <;> omega
  | start b c ids _ ih =>
    intro g hg hne
    rcases List.mem_cons.1 hg with rfl | hg'
    · exact absurd rfl hne
    · have := ih g hg' hne
      simp only [if_true] at this
      cases b <;> simp <;> omega
  | drop c ids hc _ ih =>
    intro g hg hne
    rcases List.mem_cons.1 hg with rfl | hg'
    · simp
    · simpa using ih g hg' hne

theorem gen_zip {β} : ∀ {b c ids}, Gen b c ids → ∀ (xs : List β), Gen b c ((ids.zip xs).map Prod.fst) := by
  intro b c ids h
  induction h with
  | nil b c => intro xs; simpa using Gen.nil b c
  | other b c ids _ ih =>
    intro xs
    cases xs with
    | nil => simpa using Gen.nil b c
    | cons x xs => simpa using Gen.other b c _ (ih xs)
  | start b c ids _ ih =>
    intro xs
    cases xs with
    | nil => simpa using Gen.nil b c
    | cons x xs => simpa using Gen.start b c _ (ih xs)
  | drop c ids hc _ ih =>
    intro xs
    cases xs with
    | nil => simpa using Gen.nil true c
    | cons x xs => simpa using Gen.drop c _ hc (ih xs)

def idsOf (rs : List DRow) : List Nat := rs.map (·.1)

/-- the rest of the table after a run of dropped rows: nothing, or it starts with a kept row -/
def KeptHead (rs : List DRow) : Prop := rs = [] ∨ ∃ r rest, rs = r :: rest ∧ r.1 = 0

theorem idsOf_updateGroupAux (g : Nat) : ∀ rs : List DRow, idsOf (updateGroupAux g rs) = idsOf rs
  | [] => rfl
  | [a] => rfl
  | a :: b :: rest => by
    unfold updateGroupAux
    split
    · split <;> simp [idsOf]
    · have := idsOf_updateGroupAux g (b :: rest)
      simp [idsOf] at this ⊢
      exact this

theorem keptHead_updateGroupAux (g : Nat) (rs : List DRow) (h : KeptHead rs) : KeptHead (updateGroupAux g rs) := by
  have hi := idsOf_updateGroupAux g rs
  rcases h with rfl | ⟨r, rest, rfl, hr⟩
  · left; rfl
  · right
    cases hu : updateGroupAux g (r :: rest) with
    | nil => rw [hu] at hi; simp [idsOf] at hi
    | cons r' rest' =>
      rw [hu] at hi
      simp only [idsOf, List.map_cons, List.cons.injEq] at hi
      exact ⟨r', rest', rfl, by rw [hi.1]; exact hr⟩

/-- a group number that does not occur changes nothing -/
theorem updateGroupAux_absent (g : Nat) : ∀ rs : List DRow, g ∉ idsOf rs → updateGroupAux g rs = rs
  | [], _ => rfl
  | [a], _ => rfl
  | a :: b :: rest, h => by
    have hb : (b.1 == g) = false := by
      have : b.1 ≠ g := fun hh => h (by simp [idsOf, hh])
      simpa using this
    have hrest : g ∉ idsOf (b :: rest) := fun hh => h (by simp [idsOf] at hh ⊢; exact Or.inr hh)
    unfold updateGroupAux
    simp only [hb, Bool.false_eq_true, if_false]
    rw [updateGroupAux_absent g (b :: rest) hrest]

/-- rows that do not carry the group number are passed over -/
theorem updateGroupAux_skip (g : Nat) : ∀ (pre rest : List DRow), (∀ r ∈ pre, r.1 ≠ g) →
    (rest = [] ∨ ∃ r rest', rest = r :: rest' ∧ r.1 ≠ g) →
    updateGroupAux g (pre ++ rest) = pre ++ updateGroupAux g rest
  | [], rest, _, _ => rfl
  | [p], rest, _, hrest => by
    rcases hrest with rfl | ⟨r, rest', rfl, hr⟩
    · rfl
    · have : (r.1 == g) = false := by simpa using hr
      simp [updateGroupAux, this]
  | p :: q :: pre, rest, hpre, hrest => by
    have hq : (q.1 == g) = false := by
      have := hpre q (by simp)
      simpa using this
    have ih := updateGroupAux_skip g (q :: pre) rest (fun r hr => hpre r (by simp [List.mem_cons] at hr ⊢; exact Or.inr hr)) hrest
    simp only [List.cons_append] at ih ⊢
    rw [updateGroupAux, if_neg (by simp [hq]), ih]

theorem updateGroup_ok (g : Nat) (rs : List DRow) (hg : g ≠ 0) (h : KeptHead rs) :
    updateGroup g rs = .ok (updateGroupAux g rs) := by
  rcases h with rfl | ⟨r, rest, rfl, hr⟩
  · rfl
  · have : (r.1 == g) = false := by rw [hr]; simpa using (Ne.symm hg)
    simp [updateGroup, this]

/-- the anchor of a run of rows with group number `c` -/
def updA (c : Nat) (a : DRow) (run : List DRow) : DRow :=
  match groupMax c run with
  | some m => (a.1, a.2.1, anchorDur a.2.1 a.2.2 m)
  | none => a

theorem updA_fst (c : Nat) (a : DRow) (run : List DRow) : (updA c a run).1 = a.1 := by
  unfold updA; split <;> rfl

theorem groupMax_append_absent (c : Nat) (run rest : List DRow) (h : c ∉ idsOf rest) :
    groupMax c (run ++ rest) = groupMax c run := by
  have : rest.filter (·.1 == c) = [] := by
    rw [List.filter_eq_nil_iff]
    intro r hr hc
    exact h (by simp only [idsOf, List.mem_map]; exact ⟨r, hr, by simpa using hc⟩)
  simp [groupMax, List.filter_append, this]

/-- the anchor's group number `c`: the anchor row gets its new duration, nothing else changes -/
theorem updateGroupAux_anchor (c : Nat) (a : DRow) (run rest : List DRow) (ha : a.1 = 0) (hc : c ≠ 0)
    (hrun : ∀ r ∈ run, r.1 = c) (hk : KeptHead rest) (habs : run ≠ [] → c ∉ idsOf rest) :
    updateGroupAux c (a :: run ++ rest) = updA c a run :: run ++ updateGroupAux c rest := by
  cases run with
  | nil =>
    have hu : updA c a [] = a := by simp [updA, groupMax, maxList]
    rw [hu]
    have := updateGroupAux_skip c [a] rest (by intro r hr; simp at hr; rw [hr, ha]; exact Ne.symm hc)
      (by rcases hk with rfl | ⟨r, rest', rfl, hr⟩
          · left; rfl
          · right; exact ⟨r, rest', rfl, by rw [hr]; exact Ne.symm hc⟩)
    simpa using this
  | cons x run' =>
    have hx : (x.1 == c) = true := by simpa using hrun x (by simp)
    have hab := habs (by simp)
    rw [updateGroupAux_absent c rest hab]
    have hgm : groupMax c (x :: (run' ++ rest)) = groupMax c (x :: run') := by
      have := groupMax_append_absent c (x :: run') rest hab
      simpa using this
    simp only [List.cons_append, updateGroupAux, hx, if_true, hgm, updA]
    cases groupMax c (x :: run') <;> rfl

theorem loopSeg (c : Nat) (run : List DRow) (hrun : ∀ r ∈ run, r.1 = c) :
    ∀ (gs : List Nat) (a : DRow) (rest : List DRow), gs.Nodup → 0 ∉ gs → a.1 = 0 → KeptHead rest →
      (run ≠ [] → c ∉ idsOf rest) →
      updateLoop gs (a :: run ++ rest)
        = (updateLoop gs rest).map (fun rest' => (if c ∈ gs then updA c a run else a) :: run ++ rest')
  | [], a, rest, _, _, _, _, _ => by simp [updateLoop, Except.map]
  | g :: gs, a, rest, hnd, h0, ha, hk, habs => by
    have hg0 : g ≠ 0 := fun h => h0 (by simp [h])
    have hnd' : gs.Nodup := (List.nodup_cons.1 hnd).2
    have hgn : g ∉ gs := (List.nodup_cons.1 hnd).1
    have h0' : 0 ∉ gs := fun h => h0 (by simp [h])
    have hkA : KeptHead (a :: run ++ rest) := Or.inr ⟨a, run ++ rest, rfl, ha⟩
    rw [updateLoop, updateGroup_ok g _ hg0 hkA, updateLoop, updateGroup_ok g rest hg0 hk]
    simp only
    have hk' := keptHead_updateGroupAux g rest hk
    have hids := idsOf_updateGroupAux g rest
    by_cases hgc : g = c
    · subst hgc
      rw [updateGroupAux_anchor g a run rest ha hg0 hrun hk habs]
      rw [loopSeg g run hrun gs (updA g a run) (updateGroupAux g rest) hnd' h0' (by rw [updA_fst]; exact ha) hk'
        (by rw [hids]; exact habs)]
      simp [hgn]
    · have hskip := updateGroupAux_skip g (a :: run) rest
        (by intro r hr
            rcases List.mem_cons.1 hr with rfl | hr'
            · rw [ha]; exact Ne.symm hg0
            · rw [hrun r hr']; exact Ne.symm hgc)
        (by rcases hk with rfl | ⟨r, rest', rfl, hr⟩
            · left; rfl
            · right; exact ⟨r, rest', rfl, by rw [hr]; exact Ne.symm hg0⟩)
      have hskip' : updateGroupAux g (a :: run ++ rest) = a :: run ++ updateGroupAux g rest := hskip
      rw [hskip']
      rw [loopSeg c run hrun gs a (updateGroupAux g rest) hnd' h0' ha hk' (by rw [hids]; exact habs)]
      have : (c ∈ g :: gs) = (c ∈ gs) := by simp [Ne.symm hgc]
      simp [this]


/-- largest end among the dropped rows at the head (rows as `_update_durations` sees them) -/
def runEndR : List DRow → Option Int
  | [] => none
  | r :: rest =>
    if r.1 = 0 then none
    else some (match runEndR rest with | some m => max (endTw r.2.1 r.2.2) m | none => endTw r.2.1 r.2.2)

/-- the documented durations, row by row: a kept row followed by dropped rows lasts until their latest end -/
def specRows : List DRow → List DRow
  | [] => []
  | r :: rest =>
    (if r.1 = 0 then
       (match runEndR rest with
        | some m => (r.1, r.2.1, anchorDur r.2.1 r.2.2 m)
        | none => r)
     else r) :: specRows rest

theorem runEndR_keptHead (rest : List DRow) (h : KeptHead rest) : runEndR rest = none := by
  rcases h with rfl | ⟨r, rest', rfl, hr⟩
  · rfl
  · simp [runEndR, hr]

theorem runEndR_run (c : Nat) (hc : c ≠ 0) (rest : List DRow) (hk : KeptHead rest) :
    ∀ run : List DRow, (∀ r ∈ run, r.1 = c) → runEndR (run ++ rest) = groupMax c run
  | [], _ => by simp [runEndR_keptHead rest hk, groupMax, maxList]
  | x :: run', h => by
    have hx : x.1 = c := h x (by simp)
    have ih := runEndR_run c hc rest hk run' (fun r hr => h r (by simp [hr]))
    have hx0 : ¬ x.1 = 0 := by rw [hx]; exact hc
    have hxc : (x.1 == c) = true := by simpa using hx
    simp only [List.cons_append, runEndR, hx0, if_false, ih, groupMax, List.filter_cons, hxc, if_true,
      List.map_cons, maxList]
    rfl

theorem specRows_run (rest : List DRow) : ∀ run : List DRow, (∀ r ∈ run, r.1 ≠ 0) →
    specRows (run ++ rest) = run ++ specRows rest
  | [], _ => rfl
  | x :: run', h => by
    have hx : ¬ x.1 = 0 := h x (by simp)
    simp [specRows, hx, specRows_run rest run' (fun r hr => h r (by simp [hr]))]

theorem specRows_seg (c : Nat) (hc : c ≠ 0) (a : DRow) (run rest : List DRow) (ha : a.1 = 0)
    (hrun : ∀ r ∈ run, r.1 = c) (hk : KeptHead rest) :
    specRows (a :: run ++ rest) = updA c a run :: run ++ specRows rest := by
  have h1 := runEndR_run c hc rest hk run hrun
  have h2 := specRows_run rest run (fun r hr => by rw [hrun r hr]; exact hc)
  simp only [List.cons_append, specRows, ha, if_true, h1, h2, updA]

theorem gen_false_keptHead {c : Nat} {ids : List Nat} (h : Gen false c ids) (rs : List DRow) (hrs : idsOf rs = ids) :
    KeptHead rs := by
  cases rs with
  | nil => left; rfl
  | cons r rest =>
    right
    refine ⟨r, rest, rfl, ?_⟩
    cases h with
    | nil => simp [idsOf] at hrs
    | other _ _ ids' _ => simp [idsOf] at hrs; exact hrs.1
    | start _ _ ids' _ => simp [idsOf] at hrs; exact hrs.1

theorem updateLoop_nil (gs : List Nat) : updateLoop gs [] = .ok [] := by
  induction gs with
  | nil => rfl
  | cons g gs ih => simp [updateLoop, updateGroup, ih]

theorem loop_spec : ∀ {b : Bool} {c : Nat} {ids : List Nat}, Gen b c ids →
    ∀ (rs : List DRow), idsOf rs = ids → ∀ gs : List Nat, gs.Nodup → 0 ∉ gs → (∀ g ∈ ids, g ≠ 0 → g ∈ gs) →
      (b = false → updateLoop gs rs = .ok (specRows rs)) ∧
      (b = true → ∀ (a : DRow) (run : List DRow), a.1 = 0 → (∀ r ∈ run, r.1 = c) → c ≠ 0 → (run ≠ [] → c ∈ gs) →
          updateLoop gs (a :: run ++ rs) = .ok (specRows (a :: run ++ rs))) := by
  intro b c ids h
  induction h with
  | nil b c =>
    intro rs hrs gs hnd h0 _
    have : rs = [] := by cases rs with | nil => rfl | cons _ _ => simp [idsOf] at hrs
    subst this
    refine ⟨fun _ => by simp [updateLoop_nil, specRows], fun _ a run ha hrun hc hin => ?_⟩
    have hk : KeptHead ([] : List DRow) := Or.inl rfl
    rw [loopSeg c run hrun gs a [] hnd h0 ha hk (fun _ => by simp [idsOf]), updateLoop_nil,
      specRows_seg c hc a run [] ha hrun hk]
    cases run with
    | nil => simp [Except.map, updA, groupMax, maxList, specRows]
    | cons x run' => simp [Except.map, hin (by simp), specRows]
  | other b c ids hgen ih =>
    intro rs hrs gs hnd h0 hcov
    cases rs with
    | nil => simp [idsOf] at hrs
    | cons x rs' =>
      simp only [idsOf, List.map_cons, List.cons.injEq] at hrs
      obtain ⟨hx, hrs'⟩ := hrs
      have hcov' : ∀ g ∈ ids, g ≠ 0 → g ∈ gs := fun g hg => hcov g (by simp [hg])
      have ih1 := (ih rs' hrs' gs hnd h0 hcov').1 rfl
      have hk' : KeptHead rs' := gen_false_keptHead hgen rs' hrs'
      -- the rows from `x` on, on their own
      have hself : updateLoop gs (x :: rs') = .ok (specRows (x :: rs')) := by
        have := loopSeg 0 [] (by simp) gs x rs' hnd h0 hx hk' (by simp)
        simp only [List.nil_append, List.cons_append] at this
        rw [this, ih1]
        have hre := runEndR_keptHead rs' hk'
        simp [Except.map, specRows, hx, hre, updA, groupMax, maxList]
      refine ⟨fun _ => hself, fun _ a run ha hrun hc hin => ?_⟩
      have hk : KeptHead (x :: rs') := Or.inr ⟨x, rs', rfl, hx⟩
      have habs : run ≠ [] → c ∉ idsOf (x :: rs') := by
        intro _ hmem
        simp only [idsOf, List.map_cons, List.mem_cons] at hmem
        rcases hmem with h1 | h1
        · exact hc (by rw [h1, hx])
        · have hb := gen_bound hgen c (by rw [← hrs']; exact h1) hc
          simp at hb
      rw [loopSeg c run hrun gs a (x :: rs') hnd h0 ha hk habs, hself, specRows_seg c hc a run (x :: rs') ha hrun hk]
      cases run with
      | nil => simp [Except.map, updA, groupMax, maxList]
      | cons y run' => simp [Except.map, hin (by simp)]
  | start b c ids hgen ih =>
    intro rs hrs gs hnd h0 hcov
    cases rs with
    | nil => simp [idsOf] at hrs
    | cons x rs' =>
      simp only [idsOf, List.map_cons, List.cons.injEq] at hrs
      obtain ⟨hx, hrs'⟩ := hrs
      have hcov' : ∀ g ∈ ids, g ≠ 0 → g ∈ gs := fun g hg => hcov g (by simp [hg])
      have hself : updateLoop gs (x :: rs') = .ok (specRows (x :: rs')) := by
        have := (ih rs' hrs' gs hnd h0 hcov').2 rfl x [] hx (by simp) (by simp) (by simp)
        simpa using this
      refine ⟨fun _ => hself, fun _ a run ha hrun hc hin => ?_⟩
      have hk : KeptHead (x :: rs') := Or.inr ⟨x, rs', rfl, hx⟩
      have habs : run ≠ [] → c ∉ idsOf (x :: rs') := by
        intro _ hmem
        simp only [idsOf, List.map_cons, List.mem_cons] at hmem
        rcases hmem with h1 | h1
        · exact hc (by rw [h1, hx])
        · have hb := gen_bound hgen c (by rw [← hrs']; exact h1) hc
          simp at hb
          omega
      rw [loopSeg c run hrun gs a (x :: rs') hnd h0 ha hk habs, hself, specRows_seg c hc a run (x :: rs') ha hrun hk]
      cases run with
      | nil => simp [Except.map, updA, groupMax, maxList]
      | cons y run' => simp [Except.map, hin (by simp)]
  | drop c ids hc1 hgen ih =>
    intro rs hrs gs hnd h0 hcov
    cases rs with
    | nil => simp [idsOf] at hrs
    | cons x rs' =>
      simp only [idsOf, List.map_cons, List.cons.injEq] at hrs
      obtain ⟨hx, hrs'⟩ := hrs
      have hcov' : ∀ g ∈ ids, g ≠ 0 → g ∈ gs := fun g hg => hcov g (by simp [hg])
      refine ⟨fun hb => (by cases hb), fun _ a run ha hrun hc hin => ?_⟩
      have hcin : c ∈ gs := hcov c (by simp) hc
      have := (ih rs' hrs' gs hnd h0 hcov').2 rfl a (run ++ [x]) ha
        (by intro r hr; rcases List.mem_append.1 hr with h1 | h1
            · exact hrun r h1
            · simp at h1; rw [h1]; exact hx)
        hc (fun _ => hcin)
      simpa [List.append_assoc] using this


theorem foldl_max_le (l : List Nat) : ∀ (i g : Nat), (g ≤ i ∨ g ∈ l) → g ≤ l.foldl max i := by
  induction l with
  | nil => intro i g h; rcases h with h | h; exact h; cases h
  | cons x l ih =>
    intro i g h
    rw [List.foldl_cons]
    apply ih
    rcases h with h | h
    · left; exact Nat.le_trans h (Nat.le_max_left i x)
    · rcases List.mem_cons.1 h with rfl | h'
      · left; exact Nat.le_max_right i g
      · right; exact h'

theorem foldl_max_pos (l : List Nat) : ∀ i : Nat, (0 < l.foldl max i) ↔ (0 < i ∨ ∃ g ∈ l, g ≠ 0) := by
  induction l with
  | nil => intro i; simp
  | cons x l ih =>
    intro i
    rw [List.foldl_cons, ih]
    constructor
    · rintro (h | ⟨g, hg, hne⟩)
      · by_cases hi : 0 < i
        · left; exact hi
        · right; refine ⟨x, by simp, ?_⟩
          have : i = 0 := by omega
          subst this
          simp at h; omega
      · right; exact ⟨g, by simp [hg], hne⟩
    · rintro (h | ⟨g, hg, hne⟩)
      · left; exact Nat.lt_of_lt_of_le h (Nat.le_max_left i x)
      · rcases List.mem_cons.1 hg with rfl | hg'
        · left; exact Nat.lt_of_lt_of_le (Nat.pos_of_ne_zero hne) (Nat.le_max_right i g)
        · right; exact ⟨g, hg', hne⟩

theorem runEndR_zip : ∀ (groups : List Nat) (O D : Column),
    runEndR (groups.zip (O.zip (D.map toFloat))) = runEnd ((groups.map (· == 0)).zip (O.zip D))
  | [], _, _ => by simp [runEndR, runEnd]
  | g :: gs, [], _ => by simp [runEndR, runEnd]
  | g :: gs, o :: O, [] => by simp [runEndR, runEnd]
  | g :: gs, o :: O, d :: D => by
    have ih := runEndR_zip gs O D
    by_cases hg : g = 0
    · subst hg; simp [runEndR, runEnd]
    · have : (g == 0) = false := by simpa using hg
      simp [runEndR, runEnd, hg, this, ih, endTw_toFloat]
      rfl

theorem specRows_zip : ∀ (groups : List Nat) (O D : Column),
    (specRows (groups.zip (O.zip (D.map toFloat)))).map (·.2.2) = specDur ((groups.map (· == 0)).zip (O.zip D))
  | [], _, _ => by simp [specRows, specDur]
  | g :: gs, [], _ => by simp [specRows, specDur]
  | g :: gs, o :: O, [] => by simp [specRows, specDur]
  | g :: gs, o :: O, d :: D => by
    have ih := specRows_zip gs O D
    have hr := runEndR_zip gs O D
    by_cases hg : g = 0
    · subst hg
      simp only [List.map_cons, List.zip_cons_cons, specRows, if_true, hr, specDur, BEq.rfl, ih]
      cases runEnd ((gs.map (· == 0)).zip (O.zip D)) <;> simp
    · have : (g == 0) = false := by simpa using hg
      simp [specRows, specDur, hg, this, ih]

theorem mergePlan_eq (mrs : List (Bool × Row)) : mergePlanImpl mrs = mergePlanSpec mrs := by
  have hkeep := removeGroups_eq_mergeKeep mrs
  unfold mergePlanImpl mergePlanSpec
  simp only
  rw [← hkeep]
  congr 1
  funext O D
  have hgen := gen_removeGroups mrs
  by_cases hmx : 0 < (removeGroups mrs).foldl max 0
  · have hany : ((removeGroups mrs).map (· == 0)).any (!·) = true := by
      obtain h := (foldl_max_pos (removeGroups mrs) 0).1 hmx
      rcases h with h | ⟨g, hg, hne⟩
      · omega
      · simp only [List.any_map, List.any_eq_true]
        exact ⟨g, hg, by simpa using hne⟩
    have hloop := (loop_spec (gen_zip hgen (O.zip (D.map toFloat)))
      ((removeGroups mrs).zip (O.zip (D.map toFloat))) rfl
      (List.range' 1 ((removeGroups mrs).foldl max 0)) (List.nodup_range' ..) (by simp [List.mem_range'_1])
      (by
        intro g hg hne
        have hg' : g ∈ removeGroups mrs := by
          simp only [List.mem_map] at hg
          obtain ⟨p, hp, rfl⟩ := hg
          exact (List.of_mem_zip hp).1
        have := foldl_max_le (removeGroups mrs) 0 g (Or.inr hg')
        simp only [List.mem_range'_1]
        omega)).1 rfl
    simp only [gt_iff_lt, hmx, if_true, hloop, hany, specRows_zip]
  · have hany : ((removeGroups mrs).map (· == 0)).any (!·) = false := by
      simp only [List.any_map, List.any_eq_false]
      intro g hg
      have : ¬ (∃ g ∈ removeGroups mrs, g ≠ 0) := fun h => hmx ((foldl_max_pos _ 0).2 (Or.inr h))
      have hz : g = 0 := by
        apply Decidable.byContradiction
        intro hne; exact this ⟨g, hg, hne⟩
      simp [hz]
    simp [hmx, hany]

theorem merge_refines (col : Str) (code : Val) (m : Option (List Str)) (sd i : Bool) (t : Table) :
    mergeImpl col code m sd i t = mergeSpec col code m sd i t := by
  have : mergePlanImpl = mergePlanSpec := funext mergePlan_eq
  unfold mergeImpl mergeSpec
  rw [this]


/-! ### remap_columns: the KeyMap built by `update` looks up the first entry of a key -/

def dictOf : Nat → List (List Str × List Cell) → List (List Str × Nat)
  | _, [] => []
  | i, e :: fs => (e.1, i) :: dictOf (i + 1) fs

theorem dictOf_append (e : List Str × List Cell) : ∀ (i : Nat) (fs : List (List Str × List Cell)),
    dictOf i (fs ++ [e]) = dictOf i fs ++ [(e.1, i + fs.length)]
  | i, [] => by simp [dictOf]
  | i, f :: fs => by
    simp only [List.cons_append, dictOf, dictOf_append e (i + 1) fs, List.length_cons, List.cons.injEq, true_and]
    congr 3
    omega

theorem lookup_dictOf (k : List Str) : ∀ (i : Nat) (fs : List (List Str × List Cell)),
    (dictOf i fs).lookup k = (fs.findIdx? (fun e => k == e.1)).map (· + i)
  | i, [] => by simp [dictOf]
  | i, f :: fs => by
    simp only [dictOf, List.lookup_cons, List.findIdx?_cons]
    cases h : k == f.1
    · simp only [lookup_dictOf k (i + 1) fs, Bool.false_eq_true, if_false, Option.map_map]
      congr 1
      funext n
      simp only [Function.comp]
      omega
    · simp

theorem lookup_dictOf_isSome (k : List Str) (fs : List (List Str × List Cell)) :
    ((dictOf 0 fs).lookup k).isSome = (fs.map (·.1)).contains k := by
  rw [lookup_dictOf]
  induction fs with
  | nil => simp
  | cons f fs ih =>
    simp only [List.findIdx?_cons, List.map_cons, List.contains_cons]
    cases h : k == f.1
    · simp only [Bool.false_eq_true, if_false, Bool.false_or]
      simpa using ih
    · simp

theorem build_rep : ∀ (es fs : List (List Str × List Cell)),
    es.foldl keyMapStep ⟨dictOf 0 fs, fs.map (·.2)⟩
      = ⟨dictOf 0 (fs ++ firstEntries (fs.map (·.1)) es), (fs ++ firstEntries (fs.map (·.1)) es).map (·.2)⟩
  | [], fs => by simp [firstEntries]
  | e :: es, fs => by
    rw [List.foldl_cons]
    have hc := lookup_dictOf_isSome e.1 fs
    cases hs : (fs.map (·.1)).contains e.1
    · rw [hs] at hc
      have hstep : keyMapStep ⟨dictOf 0 fs, fs.map (·.2)⟩ e
          = ⟨dictOf 0 (fs ++ [e]), (fs ++ [e]).map (·.2)⟩ := by
        simp [keyMapStep, hc, dictOf_append]
      have hf : firstEntries (fs.map (·.1)) (e :: es) = e :: firstEntries (fs.map (·.1) ++ [e.1]) es := by
        simp only [firstEntries, hs, Bool.false_eq_true, if_false]
      rw [hstep, build_rep es (fs ++ [e]), hf]
      simp [List.append_assoc]
    · rw [hs] at hc
      have hstep : keyMapStep ⟨dictOf 0 fs, fs.map (·.2)⟩ e = ⟨dictOf 0 fs, fs.map (·.2)⟩ := by
        simp [keyMapStep, hc]
      have hf : firstEntries (fs.map (·.1)) (e :: es) = firstEntries (fs.map (·.1)) es := by
        simp only [firstEntries, hs, if_true]
      rw [hstep, build_rep es fs, hf]

theorem firstEntries_find (k : List Str) : ∀ (es : List (List Str × List Cell)) (seen : List (List Str)),
    seen.contains k = false →
    (firstEntries seen es).find? (fun e => k == e.1) = es.find? (fun e => k == e.1)
  | [], _, _ => rfl
  | e :: es, seen, hk => by
    unfold firstEntries
    cases hke : k == e.1
    · have hne : k ≠ e.1 := by simpa using hke
      have hk' : (seen ++ [e.1]).contains k = false := by
        have : k ∉ seen := by simpa using hk
        simp [this, hne]
      cases hs : seen.contains e.1
      · simp only [Bool.false_eq_true, if_false, List.find?_cons, hke]
        exact firstEntries_find k es _ hk'
      · simp only [if_true, List.find?_cons, hke]
        exact firstEntries_find k es seen hk
    · have heq : k = e.1 := by simpa using hke
      have hs : seen.contains e.1 = false := by rw [← heq]; exact hk
      simp only [hs, Bool.false_eq_true, if_false, List.find?_cons, hke]

theorem findIdx_bind_get {α β} (p : α → Bool) (f : α → β) : ∀ l : List α,
    (l.findIdx? p).bind (fun i => (l.map f)[i]?) = (l.find? p).map f
  | [] => rfl
  | x :: l => by
    simp only [List.findIdx?_cons, List.find?_cons]
    cases hp : p x
    · simp only [Bool.false_eq_true, if_false]
      have ih := findIdx_bind_get p f l
      cases hfi : l.findIdx? p with
      | none => rw [hfi] at ih; simpa using ih
      | some i => rw [hfi] at ih; simpa using ih
    · simp

/-- **A repeated source key: the first map_list row wins.**  For every map_list, looking a key up in the KeyMap
that `update` builds (positions advance only for NEW keys) gives the destination values of the first row with
that key, `none` if there is no such row. -/
theorem remap_first_wins (entries : List (List Str × List Cell)) (k : List Str) :
    ((buildKeyMap entries).dict.lookup k).bind (fun i => (buildKeyMap entries).rows[i]?)
      = (entries.find? (fun e => k == e.1)).map (·.2) := by
  have h := build_rep entries []
  simp only [dictOf, List.map_nil, List.nil_append] at h
  have h' : buildKeyMap entries
      = ⟨dictOf 0 (firstEntries [] entries), (firstEntries [] entries).map (·.2)⟩ := h
  rw [h', lookup_dictOf]
  simp only [Nat.add_zero, Option.map_id']
  rw [findIdx_bind_get, firstEntries_find k entries [] (by simp)]

theorem remap_refines (src dst : List Str) (ml : List (List Val)) (ign : Bool) (is : Option (List Str))
    (t : Table) : remapImpl src dst ml ign is t = remapSpec src dst ml ign is t := by
  unfold remapImpl remapSpec
  split
  · rfl
  · have h := build_rep (mapEntries src.length (src.length + dst.length) ml) []
    simp only [dictOf, List.map_nil, List.nil_append] at h
    have h' : buildKeyMap (mapEntries src.length (src.length + dst.length) ml)
        = ⟨dictOf 0 (firstEntries [] (mapEntries src.length (src.length + dst.length) ml)),
           (firstEntries [] (mapEntries src.length (src.length + dst.length) ml)).map (·.2)⟩ := h
    simp only [h']
    congr 1
    funext k
    rw [lookup_dictOf]
    cases (firstEntries [] (mapEntries src.length (src.length + dst.length) ml)).findIdx? (fun e => k == e.1) <;> simp


/-! ### split_rows: assigning the new frame's columns one after the other gives the documented columns -/

def tab (H : List Str) (f : Str → Column) : Table := H.map fun h => (h, f h)

theorem header_tab (H : List Str) (f : Str → Column) : header (tab H f) = H := by
  simp [header, tab, List.map_map, Function.comp_def]

theorem setCol_tab (H : List Str) (f : Str → Column) (n : Str) (c : Column) :
    setCol (tab H f) n c = tab (if n ∈ H then H else H ++ [n]) (fun h => if h = n then c else f h) := by
  unfold setCol
  rw [header_tab]
  by_cases hn : n ∈ H
  · simp only [hn, if_true, tab, List.map_map]
    apply List.map_congr_left
    intro h _
    simp only [Function.comp]
    split <;> rfl
  · simp only [hn, if_false, tab, List.map_append, List.map_cons, List.map_nil, if_true]
    congr 1
    apply List.map_congr_left
    intro h hh
    have : h ≠ n := fun e => hn (e ▸ hh)
    simp [this]

theorem setCols_tab : ∀ (copies : List (Str × Column)) (H : List Str) (f : Str → Column),
    (∀ p ∈ copies, p.1 ∈ H) →
    setCols (tab H f) copies
      = tab H (fun h => match copies.reverse.lookup h with | some c => c | none => f h)
  | [], H, f, _ => by simp [setCols]
  | (n, c) :: rest, H, f, hmem => by
    have hn : n ∈ H := hmem (n, c) (by simp)
    rw [setCols, setCol_tab, if_pos hn, setCols_tab rest H _ (fun p hp => hmem p (by simp [hp]))]
    unfold tab
    apply List.map_congr_left
    intro h _
    simp only [List.reverse_cons, List.lookup_append, Prod.mk.injEq, true_and]
    cases rest.reverse.lookup h with
    | some c' => simp
    | none =>
      by_cases hh : h = n
      · subst hh; simp [List.lookup]
      · have : (h == n) = false := by simpa using hh
        simp [List.lookup, this, hh]

theorem lookupAll_names (t : Table) : ∀ (cs : List Str) (copies : List (Str × Column)),
    lookupAll t cs = .ok copies → ∀ p ∈ copies, p.1 ∈ header t
  | [], copies, h => by simp [lookupAll] at h; subst h; intro p hp; cases hp
  | c :: cs, copies, h => by
    unfold lookupAll at h
    cases hl : t.lookup c with
    | none => rw [hl] at h; simp at h
    | some col =>
      rw [hl] at h
      cases hr : lookupAll t cs with
      | error e => rw [hr] at h; simp at h
      | ok r =>
        rw [hr] at h
        simp only [Except.ok.injEq] at h
        subst h
        intro p hp
        rcases List.mem_cons.1 hp with rfl | hp'
        · apply Decidable.byContradiction
          intro hn
          rw [(lookup_none_iff t c).2 hn] at hl
          cases hl
        · exact lookupAll_names t cs r hr p hp'

theorem eventTable_refines (t : Table) (n : Nat) (anchor : Str) (ev : Str × SplitEvent)
    (hon : onsetName ∈ header t) (hdur : durationName ∈ header t) :
    eventTableImpl t n anchor ev = eventTableSpec t n anchor ev := by
  unfold eventTableImpl eventTableSpec
  cases addSources t (toNumericCol ((t.lookup onsetName).getD [])) ev.2.onsetSrc with
  | error e => rfl
  | ok onsets =>
    simp only
    cases addSources t (List.replicate n (Cell.int 0)) ev.2.duration with
    | error e => rfl
    | ok durs =>
      simp only
      cases hla : lookupAll t (ev.2.copy.getD []) with
      | error e => rfl
      | ok copies =>
        simp only
        have hnames := lookupAll_names t _ copies hla
        have h0 : ((header t).map fun h => (h, List.replicate n Cell.nan)) = tab (header t) (fun _ => List.replicate n Cell.nan) := rfl
        rw [h0, setCol_tab, if_pos hon, setCol_tab, setCol_tab]
        have hdur' : durationName ∈ (if anchor ∈ header t then header t else header t ++ [anchor]) := by
          split
          · exact hdur
          · simp [hdur]
        rw [if_pos hdur']
        rw [setCols_tab copies _ _ (by
          intro p hp
          have := hnames p hp
          split
          · exact this
          · simp [this])]
        rfl

theorem splitCore_congr (mk1 mk2 : Table → Nat → Str → Str × SplitEvent → Except OpErr Table)
    (h : ∀ t n a ev, onsetName ∈ header t → durationName ∈ header t → mk1 t n a ev = mk2 t n a ev)
    (anchor : Str) (events : List (Str × SplitEvent)) (rp : Bool) (t : Table) :
    splitCore mk1 anchor events rp t = splitCore mk2 anchor events rp t := by
  unfold splitCore
  by_cases h1 : (header t).contains onsetName = true
  · by_cases h2 : (header t).contains durationName = true
    · have hon : onsetName ∈ header t := by simpa using h1
      have hdu : durationName ∈ header t := by simpa using h2
      have hf : mk1 t (colD t onsetName).length anchor = mk2 t (colD t onsetName).length anchor :=
        funext fun ev => h t _ anchor ev hon hdu
      simp only [hf]
    · have e1 : (!(header t).contains onsetName) = false := by rw [h1]; rfl
      have e2 : (!(header t).contains durationName) = true := by simpa using h2
      simp only [e1, e2, Bool.false_eq_true, if_false, if_true]
  · have e1 : (!(header t).contains onsetName) = true := by simpa using h1
    simp only [e1, if_true]

theorem split_refines (anchor : Str) (events : List (Str × SplitEvent)) (rp : Bool) (t : Table) :
    splitImpl anchor events rp t = splitSpec anchor events rp t :=
  splitCore_congr eventTableImpl eventTableSpec
    (fun t n a ev hon hdu => eventTable_refines t n a ev hon hdu) anchor events rp t

/-! ### running validated lists -/

theorem selectCols_ok : ∀ (names : List Str) (t : Table), (∀ n ∈ names, n ∈ header t) →
    ∃ t', selectCols names t = .ok t'
  | [], t, _ => ⟨[], rfl⟩
  | n :: ns, t, h => by
    obtain ⟨c, hc⟩ := lookup_some_of_mem t n (h n (by simp))
    obtain ⟨r, hr⟩ := selectCols_ok ns t (fun m hm => h m (by simp [hm]))
    exact ⟨(n, c) :: r, by simp [selectCols, hc, hr]⟩

theorem factorLoop_ok (col : Str) :
    ∀ (fv fn : List Str) (t : Table), col ∈ header t → fv.length ≤ fn.length →
      ∃ t', factorLoop col fv fn t = .ok t'
  | [], fn, t, _, _ => ⟨t, by simp [factorLoop]⟩
  | v :: vs, [], t, _, hlen => by simp at hlen
  | v :: vs, n :: ns, t, hm, hlen => by
    obtain ⟨c, hc⟩ := lookup_some_of_mem t col hm
    have hlen' : vs.length ≤ ns.length := by simpa using hlen
    obtain ⟨t', ht'⟩ := factorLoop_ok col vs ns (setCol t n (factorCol c v))
      (mem_header_setCol t n _ col hm) hlen'
    exact ⟨t', by simp [factorLoop, hc, ht']⟩

/-- what validation guarantees about a modelled operation (`validate_input_data`) -/
def inputOk (o : Op) : Prop := inputDataErrs o = []

theorem factor_lengths (col : Str) (values names : Option (List Str)) (c0 : Column)
    (h : factorInputErrs values names = []) :
    (factorValues (values.getD []) c0).length
      ≤ (factorNames col (names.getD []) (factorValues (values.getD []) c0)).length := by
  unfold factorNames
  split
  · simp
  · next hne =>
    unfold factorInputErrs at h
    simp only at h
    have hne' : (names.getD []).isEmpty = false := by simpa using hne
    cases hv : (values.getD []).isEmpty with
    | true => simp [hne', hv] at h
    | false =>
      simp only [hne', hv, Bool.not_false, Bool.and_false, Bool.false_eq_true, if_false,
        Bool.true_and, Bool.and_true] at h
      have hl : (names.getD []).length = (values.getD []).length := by
        apply Decidable.byContradiction
        intro hcon
        have : ((names.getD []).length != (values.getD []).length) = true := by simpa using hcon
        simp [this] at h
      simp [factorValues, hv, hl]


theorem merge_runs (c : Str) (code : Val) (m : Option (List Str)) (sd i : Bool) (t : Table)
    (hc : c ∈ header t) (hm : ∀ e ∈ m.getD [], e ∈ header t)
    (hsd : sd = true → onsetName ∈ header t ∧ durationName ∈ header t)
    (hk : sd = true → numericCol (colD t onsetName) = true ∧ numericCol (colD t durationName) = true) :
    ∃ t', mergeImpl c code m sd i t = .ok t' := by
  rw [merge_refines]
  obtain ⟨c0, hc0⟩ := lookup_some_of_mem t c hc
  have hcon : (header t).contains c = true := by simpa using hc
  have hmiss : ((m.getD []).filter fun e => !(header t).contains e) = [] := by
    rw [List.filter_eq_nil_iff]
    intro e he
    simpa using hm e he
  unfold mergeSpec mergeCore
  cases sd with
  | false =>
    simp only [hcon, hmiss, hc0, Bool.not_true, Bool.and_false, Bool.false_and, Bool.false_eq_true, if_false,
      List.isEmpty_nil, Bool.not_false, if_true]
    split <;> exact ⟨_, rfl⟩
  | true =>
    obtain ⟨ho, hd⟩ := hsd rfl
    obtain ⟨hno, hnd⟩ := hk rfl
    have hoc : (header t).contains onsetName = true := by simpa using ho
    have hdc : (header t).contains durationName = true := by simpa using hd
    simp only [colD] at hno hnd
    simp only [hcon, hoc, hdc, hmiss, hc0, Bool.not_true, Bool.and_false,
      Bool.false_eq_true, if_false, List.isEmpty_nil, hno, hnd, Bool.or_self]
    split
    · exact ⟨_, rfl⟩
    · simp only [mergePlanSpec]
      generalize (mergeKeep none _).any _ = b
      cases b <;> exact ⟨_, rfl⟩

/-! #### remap_columns runs when the keys are there -/

theorem firstEntries_any (k : List Str) : ∀ (seen : List (List Str)) (es : List (List Str × List Cell)),
    es.any (fun e => k == e.1) = true → seen.contains k = true ∨ (firstEntries seen es).any (fun e => k == e.1) = true
  | _, [], h => by simp at h
  | seen, e :: es, h => by
    simp only [List.any_cons, Bool.or_eq_true] at h
    unfold firstEntries
    cases hs : seen.contains e.1
    · simp only [Bool.false_eq_true, if_false, List.any_cons, Bool.or_eq_true]
      rcases h with h | h
      · right; left; exact h
      · rcases firstEntries_any k (seen ++ [e.1]) es h with h' | h'
        · simp only [List.contains_eq_mem, List.mem_append, List.mem_singleton, decide_eq_true_eq] at h'
          rcases h' with h' | h'
          · left; simpa using h'
          · right; left; simpa using h'
        · right; right; exact h'
    · simp only [if_true]
      rcases h with h | h
      · left
        have : k = e.1 := by simpa using h
        rw [this]; exact hs
      · exact firstEntries_any k seen es h

theorem findIdx?_lt {α} (p : α → Bool) : ∀ (xs : List α), xs.any p = true → ∃ i, xs.findIdx? p = some i ∧ i < xs.length
  | [], h => by simp at h
  | x :: xs, h => by
    simp only [List.findIdx?_cons]
    cases hp : p x
    · simp only [List.any_cons, hp, Bool.false_or] at h
      obtain ⟨i, hi, hlt⟩ := findIdx?_lt p xs h
      exact ⟨i + 1, by simp [hi], by simp; omega⟩
    · exact ⟨0, by simp, by simp⟩

theorem length_rowsOf (cols : List (List Cell)) (n : Nat) : (rowsOf cols n).length = n := by
  simp [rowsOf]

theorem remap_runs (s d : List Str) (ml : List (List Val)) (i : Bool) (is : Option (List Str)) (t : Table)
    (hs : ∀ n ∈ s, n ∈ header t) (hk : kindOk (.remapColumns s d ml i is) t = true) :
    ∃ t', remapImpl s d ml i is t = .ok t' := by
  rw [remap_refines]
  simp only [kindOk, Bool.and_eq_true] at hk
  obtain ⟨hshape, hrest⟩ := hk
  have hsrc : (s.any fun c => !(header t).contains c) = false := by
    simp only [List.any_eq_false]; intro c hc; simpa using hs c hc
  have hint : ((is.getD []).any fun c => !(header t).contains c) = false := by
    simp only [List.any_eq_false]
    intro c hc
    simp only [remapShapeOk, Bool.and_eq_true, List.all_eq_true] at hshape
    have : c ∈ s := by simpa using hshape.2 c hc
    simpa using hs c this
  unfold remapSpec remapCore
  simp only [hshape, Bool.not_true, Bool.false_eq_true, if_false, hsrc, hint]
  simp only [colD] at hrest
  cases hme : mapExcept (fun c => mapExcept (sourceCell ((is.getD []).contains c)) ((t.lookup c).getD [])) s with
  | error e => rw [hme] at hrest; simp at hrest
  | ok srcCols =>
    rw [hme] at hrest
    simp only
    cases hi : i
    · subst hi
      simp only [Bool.false_or, List.all_eq_true] at hrest
      have hfound : ((rowsOf srcCols (srcCols.headD []).length).map fun r =>
          ((firstEntries [] (mapEntries s.length (s.length + d.length) ml)).findIdx? (fun e => r.map pyStr == e.1)).bind
            (fun x => (colMapRows ((firstEntries [] (mapEntries s.length (s.length + d.length) ml)).map (·.2)) d.length)[x]?)).any
          Option.isNone = false := by
        simp only [List.any_map, List.any_eq_false]
        intro r hr
        have hany := hrest r hr
        rcases firstEntries_any (r.map pyStr) [] _ hany with h' | h'
        · simp at h'
        · obtain ⟨idx, hidx, hlt⟩ := findIdx?_lt _ _ h'
          have hlen : idx < (colMapRows ((firstEntries [] (mapEntries s.length (s.length + d.length) ml)).map (·.2)) d.length).length := by
            simp only [colMapRows, length_rowsOf, List.length_map]; exact hlt
          simp [Function.comp, hidx, List.getElem?_eq_getElem hlen]
      simp only [hfound, Bool.not_false, Bool.and_false, Bool.false_eq_true, if_false]
      exact ⟨_, rfl⟩
    · simp only [Bool.not_true, Bool.false_and, Bool.false_eq_true, if_false]
      exact ⟨_, rfl⟩


/-! #### split_rows runs on numeric time columns -/

theorem mem_sourceNames (name : Str) (vs : List Val) : name ∈ sourceNames vs ↔ Cell.str name ∈ vs := by
  induction vs with
  | nil => simp [sourceNames]
  | cons v vs ih =>
    simp only [sourceNames] at ih ⊢
    cases v <;> simp [ih]

theorem addSources_ok (t : Table) : ∀ (vs : List Val) (acc : Column), (∀ v ∈ vs, v ≠ Cell.nan) →
    (∀ name ∈ sourceNames vs, name ∈ header t ∧ numericCol (colD t name) = true) →
    ∃ c, addSources t acc vs = .ok c
  | [], acc, _, _ => ⟨acc, rfl⟩
  | v :: vs, acc, hnan, hsrc => by
    have hnan' : ∀ v' ∈ vs, v' ≠ Cell.nan := fun v' hv' => hnan v' (by simp [hv'])
    have hsrc' : ∀ name ∈ sourceNames vs, name ∈ header t ∧ numericCol (colD t name) = true := by
      intro name hn
      exact hsrc name (by rw [mem_sourceNames] at hn ⊢; simp [hn])
    cases v with
    | str name =>
      obtain ⟨hmem, hnum⟩ := hsrc name (by rw [mem_sourceNames]; simp)
      obtain ⟨c, hc⟩ := lookup_some_of_mem t name hmem
      simp only [colD, hc, Option.getD_some] at hnum
      obtain ⟨r, hr⟩ := addSources_ok t vs (List.zipWith numAdd acc (toNumericCol c)) hnan' hsrc'
      exact ⟨r, by simp [addSources, hc, hnum, hr]⟩
    | int k =>
      obtain ⟨r, hr⟩ := addSources_ok t vs (acc.map (numAdd · (.int k))) hnan' hsrc'
      exact ⟨r, by simp [addSources, hr]⟩
    | flt h =>
      obtain ⟨r, hr⟩ := addSources_ok t vs (acc.map (numAdd · (.flt h))) hnan' hsrc'
      exact ⟨r, by simp [addSources, hr]⟩
    | nan => exact absurd rfl (hnan Cell.nan (by simp))

theorem lookupAll_ok (t : Table) : ∀ cs : List Str, (∀ c ∈ cs, c ∈ header t) → ∃ r, lookupAll t cs = .ok r
  | [], _ => ⟨[], rfl⟩
  | c :: cs, h => by
    obtain ⟨col, hc⟩ := lookup_some_of_mem t c (h c (by simp))
    obtain ⟨r, hr⟩ := lookupAll_ok t cs (fun c' hc' => h c' (by simp [hc']))
    exact ⟨(c, col) :: r, by simp [lookupAll, hc, hr]⟩

theorem eventTables_ok (mk : Str × SplitEvent → Except OpErr Table) :
    ∀ evs : List (Str × SplitEvent), (∀ e ∈ evs, ∃ te, mk e = .ok te) → ∃ r, eventTables mk evs = .ok r
  | [], _ => ⟨[], rfl⟩
  | e :: es, h => by
    obtain ⟨te, hte⟩ := h e (by simp)
    obtain ⟨r, hr⟩ := eventTables_ok mk es (fun e' he' => h e' (by simp [he']))
    exact ⟨te :: r, by simp [eventTables, hte, hr]⟩

theorem split_runs (a : Str) (evs : List (Str × SplitEvent)) (rp : Bool) (t : Table)
    (hc : ∀ n ∈ namedCols (.splitRows a evs rp), n ∈ header t) (hk : kindOk (.splitRows a evs rp) t = true) :
    ∃ t', splitImpl a evs rp t = .ok t' := by
  rw [split_refines]
  simp only [kindOk, Bool.and_eq_true, List.all_eq_true] at hk
  obtain ⟨⟨⟨ha, hno⟩, hnd⟩, hev⟩ := hk
  have hon : (header t).contains onsetName = true := by simpa using hc onsetName (by simp [namedCols])
  have hdu : (header t).contains durationName = true := by simpa using hc durationName (by simp [namedCols])
  have ha' : ¬ a = onsetName := by simpa using ha
  have hevs : ∀ e ∈ evs, ∃ te, eventTableSpec t (colD t onsetName).length a e = .ok te := by
    intro e he
    obtain ⟨hnum, hnan⟩ := hev e he
    have hsrc : ∀ vs, (∀ v ∈ vs, v ∈ e.2.onsetSrc ++ e.2.duration) →
        ∀ name ∈ sourceNames vs, name ∈ header t ∧ numericCol (colD t name) = true := by
      intro vs hvs name hn
      have hstr : Cell.str name ∈ e.2.onsetSrc ++ e.2.duration := hvs _ ((mem_sourceNames name vs).1 hn)
      have hin : name ∈ sourceNames e.2.onsetSrc ++ sourceNames e.2.duration := by
        rcases List.mem_append.1 hstr with h | h
        · exact List.mem_append.2 (Or.inl ((mem_sourceNames _ _).2 h))
        · exact List.mem_append.2 (Or.inr ((mem_sourceNames _ _).2 h))
      refine ⟨hc name ?_, hnum name hin⟩
      simp only [namedCols, List.mem_cons, List.mem_flatMap]
      right; right
      exact ⟨e, he, by
        rcases List.mem_append.1 hin with h | h
        · simp [h]
        · simp [h]⟩
    have hnan' : ∀ v ∈ e.2.onsetSrc ++ e.2.duration, v ≠ Cell.nan := by
      intro v hv; simpa using hnan v hv
    obtain ⟨on, hon'⟩ := addSources_ok t e.2.onsetSrc (toNumericCol ((t.lookup onsetName).getD []))
      (fun v hv => hnan' v (by simp [hv])) (hsrc _ (fun v hv => by simp [hv]))
    obtain ⟨du, hdu'⟩ := addSources_ok t e.2.duration (List.replicate (colD t onsetName).length (Cell.int 0))
      (fun v hv => hnan' v (by simp [hv])) (hsrc _ (fun v hv => by simp [hv]))
    obtain ⟨cp, hcp⟩ := lookupAll_ok t (e.2.copy.getD []) (by
      intro c hcm
      apply hc
      simp only [namedCols, List.mem_cons, List.mem_flatMap]
      right; right
      exact ⟨e, he, by simp [hcm]⟩)
    simp only [eventTableSpec, hon', hdu', hcp]
    exact ⟨_, rfl⟩
  obtain ⟨r, hr⟩ := eventTables_ok _ evs hevs
  unfold splitSpec splitCore
  simp only [hon, hdu, Bool.not_true, Bool.false_eq_true, if_false, ha', decide_false, hno, hnd, Bool.or_self, hr]
  exact ⟨_, rfl⟩

theorem op_runs (o : Op) (t : Table) (hv : inputOk o)
    (hc : ∀ n ∈ namedCols o, n ∈ header t) (hk : kindOk o t = true) : ∃ t', opImpl o t = (o, .ok t') := by
  cases o with
  | removeRows c vs =>
    simp only [opImpl, removeRowsImpl]
    split <;> exact ⟨_, rfl⟩
  | removeColumns cs i =>
    have : (cs.any fun n => !(header t).contains n) = false := by
      simp only [List.any_eq_false]
      intro n hn
      simpa using hc n (by simpa [namedCols] using hn)
    simp only [opImpl, removeColumnsImpl, this, Bool.and_false, Bool.false_eq_true, if_false]
    exact ⟨_, rfl⟩
  | renameColumns m i =>
    have : (m.any fun kv => !(header t).contains kv.1) = false := by
      simp only [List.any_eq_false]
      intro kv hkv
      have : kv.1 ∈ header t := hc kv.1 (by simp only [namedCols, List.mem_map]; exact ⟨kv, hkv, rfl⟩)
      simpa using this
    simp only [opImpl, renameColumnsImpl, this, Bool.and_false, Bool.false_eq_true, if_false]
    exact ⟨_, rfl⟩
  | reorderColumns o i k =>
    have hmiss : (o.filter fun e => !(header t).contains e) = [] := by
      rw [List.filter_eq_nil_iff]
      intro e he
      simpa using hc e (by simpa [namedCols] using he)
    have hsel : ∃ t', selectCols (if k = true then o ++ (header t).filter (fun e => !o.contains e) else o) t
        = .ok t' := by
      apply selectCols_ok
      intro n hn
      cases k
      · exact hc n (by simpa [namedCols] using hn)
      · simp only [if_true, List.mem_append, List.mem_filter] at hn
        rcases hn with hn | hn
        · exact hc n (by simpa [namedCols] using hn)
        · exact hn.1
    obtain ⟨t', ht'⟩ := hsel
    refine ⟨t', ?_⟩
    simp only [opImpl, reorderImpl, hmiss, List.isEmpty_nil, Bool.not_true, Bool.false_and,
      Bool.false_eq_true, if_false, ht']
  | factorColumn c vs ns =>
    have hm : c ∈ header t := hc c (by simp [namedCols])
    obtain ⟨c0, hc0⟩ := lookup_some_of_mem t c hm
    have hlen := factor_lengths c vs ns c0 (by simpa [inputOk, inputDataErrs] using hv)
    obtain ⟨t', ht'⟩ := factorLoop_ok c _ _ t hm hlen
    exact ⟨t', by simp only [opImpl, factorImpl, hc0, ht']⟩
  | mergeConsecutive c code m sd i =>
    obtain ⟨t', ht'⟩ := merge_runs c code m sd i t (hc c (by simp [namedCols]))
      (fun e he => hc e (by simp [namedCols, he]))
      (fun hsd => ⟨hc _ (by simp [namedCols, hsd]), hc _ (by simp [namedCols, hsd])⟩)
      (fun hsd => by simpa [kindOk, hsd] using hk)
    exact ⟨t', by simp only [opImpl, ht']⟩
  | remapColumns s d ml i is =>
    obtain ⟨t', ht'⟩ := remap_runs s d ml i is t (fun n hn => hc n (by simpa [namedCols] using hn)) hk
    exact ⟨t', by simp only [opImpl, ht']⟩
  | splitRows a evs rp =>
    obtain ⟨t', ht'⟩ := split_runs a evs rp t hc hk
    exact ⟨t', by simp only [opImpl, ht']⟩

theorem runs_ok : ∀ (ops : List Op) (t : Table), (∀ o ∈ ops, inputOk o) → hasColumns ops t = true →
    ∃ t', runSt ops t = (ops, .ok t')
  | [], t, _, _ => ⟨t, rfl⟩
  | o :: os, t, hv, hh => by
    simp only [hasColumns, Bool.and_eq_true, decide_eq_true_eq, List.all_eq_true] at hh
    obtain ⟨⟨⟨hnd, hnamed⟩, hkind⟩, hrest⟩ := hh
    have hnamed' : ∀ n ∈ namedCols o, n ∈ header (prep t) := by
      intro n hn; rw [header_prep]; simpa using hnamed n hn
    obtain ⟨t1, ht1⟩ := op_runs o (prep t) (hv o (by simp)) hnamed' hkind
    rw [ht1] at hrest
    obtain ⟨t', ht'⟩ := runs_ok os (post t1) (fun o' ho' => hv o' (by simp [ho'])) hrest
    refine ⟨t', ?_⟩
    unfold runSt at ht' ⊢
    unfold runWith
    simp only [hnd, not_true_eq_false, if_false, ht1, ht']

theorem errsFrom_nil {α} (f : α → List ErrKind) :
    ∀ (i : Nat) (xs : List α), errsFrom f i xs = [] → ∀ x ∈ xs, f x = []
  | _, [], _, x, hx => by cases hx
  | i, y :: ys, h, x, hx => by
    simp only [errsFrom, List.append_eq_nil_iff, List.map_eq_nil_iff] at h
    rcases List.mem_cons.1 hx with rfl | hx'
    · exact h.1
    · exact errsFrom_nil f (i + 1) ys h.2 x hx'


/-! ## The property (all eight operations) -/

/-- **No operation changes its parameters**, whatever the table, whatever the list, also when an exception
escapes: the operations a dispatcher holds after `run_operations` are the ones it was built with. -/
theorem state_constant (ops : List Op) (t : Table) : (runSt ops t).1 = ops :=
  runWith_fst opImpl opImpl_fst ops t

/-- conditions under which the code's way of computing an operation is its documented meaning:
`remove_values` is not empty (PARAMS: minItems 1); explicit factor names do not reuse the factored column.
merge_consecutive (also with set_durations), remap_columns and split_rows need none. -/
def WfOp : Op → Prop
  | .removeRows _ vs => vs ≠ []
  | .factorColumn c _ ns => c ∉ ns.getD []
  | _ => True

/-- **Every `do_op` computes the documented table** (and leaves its parameters alone), for all eight operations:
remove_rows keeps exactly the rows differing from every listed value; remove/rename are the pandas calls;
reorder is "listed-and-present, then the others iff keep_others"; factor columns are computed from the original
column; merge drops a row iff it and its predecessor carry the code and agree on the match columns, and with
set_durations the loop over group numbers gives every absorbing row the latest end of what it absorbs; the
KeyMap dictionary of remap_columns returns the first map_list entry of a key; the column-by-column assembly of
split_rows' new rows gives the documented columns. -/
theorem impl_refines_spec (o : Op) (t : Table) (h : WfOp o) : opImpl o t = (o, opSpec o t) := by
  cases o with
  | removeRows c vs => simp [opImpl, opSpec, removeRows_refines c vs t h]
  | removeColumns cs i => rfl
  | renameColumns m i => rfl
  | reorderColumns o i k => simp [opImpl, opSpec, reorder_refines]
  | factorColumn c vs ns => simp [opImpl, opSpec, factor_refines c vs ns t h]
  | mergeConsecutive c code m sd i => simp [opImpl, opSpec, merge_refines]
  | remapColumns s d ml i is => simp [opImpl, opSpec, remap_refines]
  | splitRows a evs rp => simp [opImpl, opSpec, split_refines]

/-- set_durations never reaches `df_new.loc[-1]`: the loop over the group numbers does not fail -/
theorem merge_durations_total (mrs : List (Bool × Row)) (O D : Column) :
    ∃ r, (mergePlanImpl mrs).newDur O D = .ok r := by
  rw [mergePlan_eq]
  simp only [mergePlanSpec]
  split <;> exact ⟨_, rfl⟩

/-- **Processing order is irrelevant**: pushing any sequence of tables through one dispatcher leaves the
operations as they were and gives, for each table, the result a fresh dispatcher would give. -/
theorem order_independent (ops : List Op) (ts : List Table) :
    runMany ops ts = (ops, ts.map fun t => (runSt ops t).2) :=
  runManyWith_eq opImpl opImpl_fst ops ts

/-- first, last, in the middle or again: the result for `t` is the same at every position of every history -/
theorem order_independent_position (ops : List Op) (before after : List Table) (t : Table) :
    (runMany ops (before ++ t :: after)).2[before.length]? = some (runSt ops t).2 := by
  rw [order_independent]
  simp

/-- **The result for a table is a function of (operations, table) only** — not of what the dispatcher processed
before or will process after — and the dispatcher ends with the operations it was built with. -/
theorem run_deterministic_function :
    ∃ f : List Op → Table → Except OpErr Table, ∀ (ops : List Op) (before after : List Table) (t : Table),
      (runMany ops (before ++ t :: after)).2[before.length]? = some (f ops t)
        ∧ (runMany ops (before ++ t :: after)).1 = ops :=
  ⟨fun ops t => (runSt ops t).2, fun ops before after t =>
    ⟨order_independent_position ops before after t, by rw [order_independent]⟩⟩

/-- **One operation through the dispatcher is `post_proc_data ∘ do_op ∘ prep_data`** (on a table with unique
labels; any other table is outside the model) -/
theorem run_single_is_post_op_prep (o : Op) (t : Table) (h : (header t).Nodup) :
    (runSt [o] t).2 = (match (opImpl o (prep t)).2 with | .ok t1 => .ok (post t1) | .error e => .error e) := by
  unfold runSt runWith
  simp only [h, not_true_eq_false, if_false]
  cases hh : opImpl o (prep t) with
  | mk o' r => cases r <;> simp [runWith]

/-- **`run_operations` on a list is the composition of its operations**: it gives exactly what running the
operations one at a time, each through a dispatcher of its own (so each wrapped in its own n/a → NaN and
NaN → n/a conversions), gives — table or exception — for every list and every table. -/
theorem run_operations_is_composition : ∀ (ops : List Op) (t : Table), (runSt ops t).2 = runOneByOne ops t
  | [], t => rfl
  | o :: os, t => by
    have ih := run_operations_is_composition os
    unfold runSt at ih ⊢
    unfold runOneByOne runSt
    unfold runWith
    by_cases h : (header t).Nodup
    · simp only [h, not_true_eq_false, if_false]
      cases hh : opImpl o (prep t) with
      | mk o' r =>
        cases r with
        | error e => simp
        | ok t1 => simp [runWith, ih (post t1)]
    · simp [h]

/-- **A validated list runs to completion** on every table that has, at each step, the columns the step names
(with unique labels) holding values of the expected kind (`kindOk`: numeric onset/duration and source columns
for split_rows and merge_consecutive with set_durations; convertible integer sources and, unless ignore_missing,
keys present in map_list for remap_columns): no exception, and the parameters are unchanged. -/
theorem validated_runs (raws : List JVal) (ops : List Op) (t : Table)
    (hvalid : validateParams raws = []) (hparse : parseOps raws = some ops)
    (hcols : hasColumns ops t = true) : ∃ t', run ops t = .ok (t', ops) := by
  have hin : ∀ o ∈ ops, inputOk o := by
    unfold validateParams at hvalid
    simp only at hvalid
    split at hvalid
    · next he => rw [hvalid] at he; simp at he
    · rw [hparse] at hvalid
      intro o ho
      exact errsFrom_nil inputDataErrs 0 ops hvalid o ho
  obtain ⟨t', ht'⟩ := runs_ok ops t hin hcols
  exact ⟨t', by simp [run, ht']⟩

/-- **An invalid list is reported and nothing is executed**: the entry point answers with the messages, for any
tables (no result, no operation object exists). -/
theorem invalid_not_run (raws : List JVal) (ts : List Table) (h : validateParams raws ≠ []) :
    remodel raws ts = .rejected (validateParams raws) := by
  unfold remodel
  have : (validateParams raws).isEmpty = false := by
    cases hv : validateParams raws with
    | nil => exact absurd hv h
    | cons _ _ => rfl
  simp [this]

theorem postCell_prepCell (x : Cell) (h : x ≠ Cell.nan) : postCell (prepCell x) = x := by
  cases x with
  | str s => by_cases hs : s = naStr <;> simp [prepCell, postCell, hs]
  | int n => rfl
  | flt r => rfl
  | nan => exact absurd rfl h

theorem prepCell_postCell (x : Cell) (h : x ≠ Cell.str naStr) : prepCell (postCell x) = x := by
  cases x with
  | str s =>
    have : s ≠ naStr := fun e => h (by rw [e])
    simp [prepCell, postCell, this]
  | int n => rfl
  | flt r => rfl
  | nan => simp [prepCell, postCell]

theorem mapCells_id (f : Cell → Cell) (t : Table) (h : ∀ p ∈ t, ∀ c ∈ p.2, f c = c) : mapCells f t = t := by
  unfold mapCells
  have : ∀ p ∈ t, (fun p : Str × Column => (p.1, p.2.map f)) p = id p := by
    intro p hp
    obtain ⟨n, c⟩ := p
    simp only [id, Prod.mk.injEq, true_and]
    calc c.map f = c.map id := List.map_congr_left (fun x hx => h (n, c) hp x hx)
      _ = c := List.map_id c
  calc t.map _ = t.map id := List.map_congr_left this
    _ = t := List.map_id t

/-- **n/a cells stay n/a**: the dispatcher's conversion round trip is the identity on tables as they are read
(no NaN cell), so an empty list returns the table and every untouched cell of a step's result is unchanged. -/
theorem na_round_trip (t : Table) (h : ∀ p ∈ t, ∀ c ∈ p.2, c ≠ Cell.nan) : post (prep t) = t := by
  unfold post prep mapCells
  rw [List.map_map]
  have := mapCells_id (postCell ∘ prepCell) t (fun p hp c hc => postCell_prepCell c (h p hp c hc))
  simpa [mapCells, Function.comp_def, List.map_map] using this

/-- … and between two operations: writing NaN as 'n/a' and reading it back is the identity on every result that
does not itself hold the text 'n/a' (only remap_columns writes that text, for "no value" — and it is read back
as NaN by the next step, like an n/a cell of the file), for all eight operations alike -/
theorem na_round_trip_between (t : Table) (h : ∀ p ∈ t, ∀ c ∈ p.2, c ≠ Cell.str naStr) : prep (post t) = t := by
  unfold post prep mapCells
  rw [List.map_map]
  have := mapCells_id (prepCell ∘ postCell) t (fun p hp c hc => prepCell_postCell c (h p hp c hc))
  simpa [mapCells, Function.comp_def, List.map_map] using this

/-- **A list that validates can be parsed**: `Dispatcher(...)` (parse_operations, every `__init__`) does not fail
on it — validation comes first, and only then are operation objects built. -/
theorem validated_parses (raws : List JVal) (h : validateParams raws = []) : ∃ ops, parseOps raws = some ops := by
  unfold validateParams at h
  simp only at h
  split at h
  · next he => rw [h] at he; simp at he
  · cases hp : parseOps raws with
    | none => rw [hp] at h; simp at h
    | some ops => exact ⟨ops, rfl⟩

/-- the validator stops after the JSON-schema pass: `validate_input_data` is only consulted for lists without
schema errors, and then for every operation in list order -/
theorem validate_order (raws : List JVal) :
    (schemaErrors raws ≠ [] → validateParams raws = schemaErrors raws)
    ∧ (schemaErrors raws = [] → ∀ ops, parseOps raws = some ops → validateParams raws = errsFrom inputDataErrs 0 ops) := by
  constructor
  · intro h
    unfold validateParams
    have : (schemaErrors raws).isEmpty = false := by
      cases hs : schemaErrors raws with
      | nil => exact absurd hs h
      | cons _ _ => rfl
    simp [this]
  · intro h ops hp
    unfold validateParams
    simp [h, hp]

/-! ### metamorphic laws -/

/-- remove_columns (ignore_missing) twice = once -/
theorem removeColumns_idempotent (cs : List Str) (t t1 : Table) (h : removeColumnsImpl cs true t = .ok t1) :
    removeColumnsImpl cs true t1 = .ok t1 := by
  simp only [removeColumnsImpl, Bool.not_true, Bool.false_and, Bool.false_eq_true, if_false, Except.ok.injEq] at h ⊢
  subst h
  simp [List.filter_filter]

theorem length_applyMask_le {α} : ∀ (m : List Bool) (d : List α), (applyMask m d).length ≤ m.count true
  | [], d => by simp [applyMask]
  | b :: m, [] => by simp [applyMask_nil_right]
  | true :: m, x :: d => by
    have := length_applyMask_le m d
    simp only [applyMask, List.length_cons, List.count_cons_self]
    omega
  | false :: m, x :: d => by
    have := length_applyMask_le m d
    simpa [applyMask] using this

theorem length_applyMask_self : ∀ (m : List Bool) (c : List Cell), m.length = c.length →
    (applyMask m c).length = m.count true
  | [], [], _ => rfl
  | true :: m, x :: c, h => by
    have := length_applyMask_self m c (by simpa using h)
    simp [applyMask, this]
  | false :: m, x :: c, h => by
    have := length_applyMask_self m c (by simpa using h)
    simpa [applyMask] using this
  | [], _ :: _, h => by simp at h
  | _ :: _, [], h => by simp at h

theorem applyMask_all_true {α} : ∀ (m : List Bool) (d : List α), (∀ b ∈ m, b = true) → d.length ≤ m.length →
    applyMask m d = d
  | _, [], _, _ => applyMask_nil_right _
  | [], x :: d, _, h => by simp at h
  | b :: m, x :: d, hall, h => by
    have hb : b = true := hall b (by simp)
    subst hb
    simp only [applyMask, List.cons.injEq, true_and]
    exact applyMask_all_true m d (fun b hb => hall b (by simp [hb])) (by simpa using h)

/-- what survives the filter passes it -/
theorem applyMask_map_self (p : Cell → Bool) : ∀ c : List Cell, ∀ b ∈ (applyMask (c.map p) c).map p, b = true
  | [], b, hb => by simp [applyMask] at hb
  | x :: c, b, hb => by
    cases hp : p x
    · simp only [List.map_cons, hp, applyMask] at hb
      exact applyMask_map_self p c b hb
    · simp only [List.map_cons, hp, applyMask, List.mem_cons] at hb
      rcases hb with rfl | hb
      · rfl
      · exact applyMask_map_self p c b hb

/-- remove_rows twice = once (documented meaning; `removeRows_refines` carries it to the code) -/
theorem removeRows_idempotent (col : Str) (vals : List Val) (t t1 : Table) (h : removeRowsSpec col vals t = .ok t1) :
    removeRowsSpec col vals t1 = .ok t1 := by
  unfold removeRowsSpec at h ⊢
  cases hl : t.lookup col with
  | none =>
    rw [hl] at h
    simp only [Except.ok.injEq] at h
    subst h
    rw [hl]
  | some c =>
    rw [hl] at h
    simp only [Except.ok.injEq] at h
    subst h
    rw [lookup_filterRows, hl]
    simp only [Option.map_some, Except.ok.injEq]
    generalize hp : (fun x => vals.all fun v => !cellEq x v) = p
    unfold filterRows
    rw [List.map_map]
    have hid : ∀ q ∈ t, ((fun q : Str × Column => (q.1, applyMask ((applyMask (c.map p) c).map p) q.2)) ∘
        (fun q : Str × Column => (q.1, applyMask (c.map p) q.2))) q = (q.1, applyMask (c.map p) q.2) := by
      intro q _
      simp only [Function.comp, Prod.mk.injEq, true_and]
      apply applyMask_all_true
      · exact applyMask_map_self p c
      · rw [List.length_map, length_applyMask_self (c.map p) c (by simp)]
        exact length_applyMask_le (c.map p) q.2
    exact List.map_congr_left hid

theorem header_selectCols : ∀ (names : List Str) (t r : Table), selectCols names t = .ok r → header r = names
  | [], t, r, h => by simp [selectCols] at h; subst h; rfl
  | n :: ns, t, r, h => by
    unfold selectCols at h
    cases hl : t.lookup n with
    | none => rw [hl] at h; simp at h
    | some c =>
      rw [hl] at h
      cases hs : selectCols ns t with
      | error e => rw [hs] at h; simp at h
      | ok r' =>
        rw [hs] at h
        simp only [Except.ok.injEq] at h
        subst h
        have := header_selectCols ns t r' hs
        simp only [header] at this ⊢
        simp [this]

theorem selectCols_cons_not_mem (n : Str) (c : Column) (t : Table) : ∀ names : List Str, n ∉ names →
    selectCols names ((n, c) :: t) = selectCols names t
  | [], _ => rfl
  | m :: ms, h => by
    have hm : (m == n) = false := by
      have : m ≠ n := fun e => h (by simp [e])
      simpa using this
    have ih := selectCols_cons_not_mem n c t ms (fun hh => h (by simp [hh]))
    simp only [selectCols, List.lookup, hm, ih]

theorem selectCols_header_self : ∀ t : Table, (header t).Nodup → selectCols (header t) t = .ok t
  | [], _ => rfl
  | (n, c) :: t, h => by
    have hn : n ∉ header t := by
      simp only [header, List.map_cons, List.nodup_cons] at h; exact h.1
    have ht : (header t).Nodup := by
      simp only [header, List.map_cons, List.nodup_cons] at h; exact h.2
    have ih := selectCols_header_self t ht
    have hc := selectCols_cons_not_mem n c t (header t) hn
    simp only [header] at hc ih
    simp only [header, List.map_cons, selectCols, List.lookup, BEq.rfl, hc, ih]

theorem any_congr' {α} (p q : α → Bool) : ∀ l : List α, (∀ a ∈ l, p a = q a) → l.any p = l.any q
  | [], _ => rfl
  | x :: l, h => by
    simp only [List.any_cons, h x (by simp), any_congr' p q l (fun a ha => h a (by simp [ha]))]

/-- reorder_columns twice = once (documented meaning; `reorder_refines` carries it to the code) -/
theorem reorder_idempotent (o : List Str) (i k : Bool) (t t1 : Table) (ho : o.Nodup) (ht : (header t).Nodup)
    (h : reorderSpec o i k t = .ok t1) : reorderSpec o i k t1 = .ok t1 := by
  unfold reorderSpec at h
  split at h
  · cases h
  · next hcond =>
    have hh1 := header_selectCols _ t t1 h
    have hF1 : ∀ e ∈ o, (header t1).contains e = (header t).contains e := by
      intro e he
      rw [hh1]
      have heo : o.contains e = true := by simpa using he
      cases hc : (header t).contains e with
      | true =>
        have hmem : e ∈ header t := by simpa using hc
        simp [he, hmem]
      | false =>
        have hnm : e ∉ header t := by simpa using hc
        simp [he, hnm]
    have hany : (o.any fun e => !(header t1).contains e) = (o.any fun e => !(header t).contains e) :=
      any_congr' _ _ o (fun e he => by rw [hF1 e he])
    have hlisted : (o.filter fun e => (header t1).contains e) = o.filter fun e => (header t).contains e :=
      List.filter_congr (fun e he => hF1 e he)
    have hothers : ((header t1).filter fun e => !o.contains e)
        = (if k = true then (header t).filter (fun e => !o.contains e) else []) := by
      rw [hh1, List.filter_append]
      have e1 : (o.filter fun e => (header t).contains e).filter (fun e => !o.contains e) = [] := by
        rw [List.filter_eq_nil_iff]
        intro e he
        have : e ∈ o := (List.mem_filter.1 he).1
        simp [this]
      rw [e1]
      cases k
      · simp
      · simp [List.filter_filter]
    have hnd : (header t1).Nodup := by
      rw [hh1, List.nodup_append]
      refine ⟨ho.filter _, ?_, ?_⟩
      · split
        · exact ht.filter _
        · exact List.nodup_nil
      · intro a ha b hb hab
        subst hab
        have hao : a ∈ o := (List.mem_filter.1 ha).1
        split at hb
        · have := (List.mem_filter.1 hb).2
          simp [hao] at this
        · cases hb
    unfold reorderSpec
    rw [hany]
    simp only [hcond, if_false, hlisted]
    have hsel : selectCols (header t1) t1 = .ok t1 := selectCols_header_self t1 hnd
    cases k
    · simp only [Bool.false_eq_true, if_false, List.append_nil] at hh1 ⊢
      rw [← hh1]; exact hsel
    · simp only [if_true] at hh1 hothers ⊢
      rw [hothers, ← hh1]; exact hsel

/-- a rearrangement of the rows applied to every column (a permutation, a selection, …) -/
def mapCols (f : Column → Column) (t : Table) : Table := t.map fun p => (p.1, f p.2)

theorem header_mapCols (f : Column → Column) (t : Table) : header (mapCols f t) = header t := by
  simp [header, mapCols, List.map_map, Function.comp_def]

theorem lookup_mapCols (f : Column → Column) (t : Table) (n : Str) :
    (mapCols f t).lookup n = (t.lookup n).map f := by
  induction t with
  | nil => rfl
  | cons p t ih =>
    obtain ⟨m, c⟩ := p
    simp only [mapCols, List.map_cons, List.lookup] at ih ⊢
    split <;> simp_all [mapCols]

theorem selectCols_mapCols (f : Column → Column) (t : Table) : ∀ names : List Str,
    selectCols names (mapCols f t) = (match selectCols names t with | .ok r => .ok (mapCols f r) | .error e => .error e)
  | [] => rfl
  | n :: ns => by
    simp only [selectCols, lookup_mapCols, selectCols_mapCols f t ns]
    cases t.lookup n <;> cases selectCols ns t <;> simp [mapCols]

/-- **The column operations do not look at the rows**: remove_columns, rename_columns and reorder_columns commute
with every rearrangement of the rows (so in particular with every permutation). -/
theorem column_ops_commute_rows (f : Column → Column) (o : Op) (t : Table)
    (ho : match o with | .removeColumns .. => True | .renameColumns .. => True | .reorderColumns .. => True | _ => False) :
    opSpec o (mapCols f t) = (match opSpec o t with | .ok r => .ok (mapCols f r) | .error e => .error e) := by
  cases o with
  | removeColumns cs i =>
    simp only [opSpec, removeColumnsSpec, removeColumnsImpl, header_mapCols]
    split
    · rfl
    · simp [mapCols, List.filter_map, Function.comp_def]
  | renameColumns m i =>
    simp only [opSpec, renameColumnsSpec, renameColumnsImpl, header_mapCols]
    split
    · rfl
    · simp [mapCols, List.map_map, Function.comp_def]
  | reorderColumns o i k =>
    simp only [opSpec, reorderSpec, header_mapCols]
    split
    · rfl
    · exact selectCols_mapCols f t _
  | _ => exact absurd ho (by simp)

theorem setCol_mapCols (f : Column → Column) (t : Table) (n : Str) (c : Column) :
    setCol (mapCols f t) n (f c) = mapCols f (setCol t n c) := by
  unfold setCol
  rw [header_mapCols]
  split
  · simp only [mapCols, List.map_map]
    apply List.map_congr_left
    intro p _
    simp only [Function.comp]
    split <;> rfl
  · simp [mapCols]

/-- **factor_column with listed values is row-local**: it commutes with every rearrangement `f` of the rows that
is natural in the cells (`f (c.map g) = (f c).map g`: permutations, selections, repetitions of rows) -/
theorem factor_commutes_rows (f : Column → Column) (hf : ∀ (g : Cell → Cell) (c : Column), f (c.map g) = (f c).map g)
    (col : Str) (vals : List Str) (names : Option (List Str)) (t : Table) (hv : vals ≠ []) :
    factorSpec col (some vals) names (mapCols f t)
      = (match factorSpec col (some vals) names t with | .ok r => .ok (mapCols f r) | .error e => .error e) := by
  unfold factorSpec
  rw [lookup_mapCols]
  cases hl : t.lookup col with
  | none => rfl
  | some c0 =>
    have hfv : ∀ c : Column, factorValues ((some vals).getD []) c = vals := by
      intro c
      cases vals with
      | nil => exact absurd rfl hv
      | cons v vs => simp [factorValues]
    simp only [Option.map_some, hfv]
    split
    · rfl
    · simp only [Except.ok.injEq]
      generalize (vals.zip (factorNames col (names.getD []) vals)) = pairs
      clear hl
      induction pairs generalizing t with
      | nil => rfl
      | cons p ps ih =>
        simp only [List.foldl_cons]
        have hfc : factorCol (f c0) p.1 = f (factorCol c0 p.1) := by
          unfold factorCol; rw [hf]
        rw [hfc, setCol_mapCols]
        exact ih (setCol t p.2 (factorCol c0 p.1))

/-- **factor_column leaves every other column alone** (frame): a column that is not one of the factor names is
in the result exactly as it was in the input -/
theorem factor_frame (col : Str) (values names : Option (List Str)) (t t1 : Table)
    (h : factorSpec col values names t = .ok t1) (n : Str)
    (hn : ∀ c0, t.lookup col = some c0 → n ∉ factorNames col (names.getD []) (factorValues (values.getD []) c0)) :
    t1.lookup n = t.lookup n := by
  unfold factorSpec at h
  cases hl : t.lookup col with
  | none => rw [hl] at h; cases h
  | some c0 =>
    rw [hl] at h
    simp only at h
    split at h
    · cases h
    · simp only [Except.ok.injEq] at h
      subst h
      have hn' := hn c0 hl
      generalize factorValues (values.getD []) c0 = fv at hn' ⊢
      generalize factorNames col (names.getD []) fv = fn at hn' ⊢
      have : ∀ (pairs : List (Str × Str)) (t' : Table), (∀ p ∈ pairs, p.2 ≠ n) →
          (pairs.foldl (fun t'' vn => setCol t'' vn.2 (factorCol c0 vn.1)) t').lookup n = t'.lookup n := by
        intro pairs
        induction pairs with
        | nil => intro t' _; rfl
        | cons p ps ih =>
          intro t' hp
          rw [List.foldl_cons, ih _ (fun q hq => hp q (by simp [hq])), lookup_setCol_ne _ _ _ _ (hp p (by simp))]
      apply this
      intro p hp hpn
      apply hn'
      rw [← hpn]
      exact (List.of_mem_zip hp).2

/-! ### the unrepaired reorder_columns (DESIGN.md section 8 #12) — regression counter-examples -/

instance {ε α} [DecidableEq ε] [DecidableEq α] : DecidableEq (Except ε α)
  | .ok a, .ok b => if h : a = b then isTrue (by rw [h]) else isFalse (by intro h'; cases h'; exact h rfl)
  | .error a, .error b => if h : a = b then isTrue (by rw [h]) else isFalse (by intro h'; cases h'; exact h rfl)
  | .ok _, .error _ => isFalse (by intro h; cases h)
  | .error _, .ok _ => isFalse (by intro h; cases h)

def tabABC : Table := [(['a'], [.int 1]), (['b'], [.str ['x']]), (['c'], [.int 3])]
def tabAB : Table := [(['a'], [.int 1]), (['b'], [.str ['x']])]
def opBA : Op := .reorderColumns [['b'], ['a']] false true

/-- with `ordered = self.column_order; ordered += …` the parameters change … -/
theorem reorder_old_state_counterexample :
    (runWith opImplOld [opBA] tabABC).1 = [.reorderColumns [['b'], ['a'], ['c']] false true] := by decide

/-- … and the same table gives a different result after another table has been processed: `a,b` is reordered
when it comes first, and raises ValueError (column `c` "missing") when it comes after `a,b,c` -/
theorem reorder_old_order_counterexample :
    (runManyWith opImplOld [opBA] [tabAB, tabABC]).2[0]? = some (.ok [(['b'], [.str ['x']]), (['a'], [.int 1])])
    ∧ (runManyWith opImplOld [opBA] [tabABC, tabAB]).2[1]? = some (.error (.raised .ValueError)) := by decide

/-! ### converting once around the whole list is not the same (seeded change C17-c) -/

def tabNa : Table := [(['c'], [.str ['1'], .str ['2'], .str ['7'], .str ['1']])]
def opsNa : List Op :=
  [.remapColumns [['c']] [['k']] [[.str ['1'], .str ['g']], [.str ['2'], .str ['s']]] true none,
   .factorColumn ['k'] none none]
def resHeader : Except OpErr Table → Option (List Str) | .ok t => some (header t) | .error _ => none

/-- remap_columns writes the text 'n/a' for the unmapped key `7`; `run_operations` hands it to factor_column as
NaN (factor `k.nan`), a dispatcher that converts only once around the list hands it over as text (factor `k.n/a`) -/
theorem hoisted_prep_counterexample :
    resHeader (runSt opsNa tabNa).2 = some [['c'], ['k'], "k.g".toList, "k.s".toList, "k.nan".toList]
    ∧ resHeader (runHoisted opsNa tabNa) = some [['c'], ['k'], "k.g".toList, "k.s".toList, "k.n/a".toList]
    ∧ (runSt opsNa tabNa).2 = runOneByOne opsNa tabNa
    ∧ runHoisted opsNa tabNa ≠ runOneByOne opsNa tabNa := by decide

/-! ### non-vacuity -/

def rawFactor : JVal := .obj [("operation".toList, .str "factor_column".toList), ("description".toList, .str []),
  ("parameters".toList, .obj [("column_name".toList, .str ['a'])])]
def rawReorder : JVal := .obj [("operation".toList, .str "reorder_columns".toList), ("description".toList, .str []),
  ("parameters".toList, .obj [("column_order".toList, .arr [.str ['b'], .str ['a']]),
    ("ignore_missing".toList, .bool false), ("keep_others".toList, .bool true)])]
def rawBad : JVal := .obj [("operation".toList, .str "factor_column".toList), ("description".toList, .str []),
  ("parameters".toList, .obj [("column_name".toList, .str ['a']), ("factor_names".toList, .arr [.str ['f']])])]

-- a list without optional parameters validates, parses, has its columns, and (by the theorem) runs
example : validateParams [rawFactor, rawReorder] = [] := by decide
example : parseOps [rawFactor, rawReorder] = some [.factorColumn ['a'] none none, opBA] := by decide
example : hasColumns [.factorColumn ['a'] none none, opBA] tabABC = true := by decide
example : validateParams [rawBad] ≠ [] := by decide
example : validateParams [] ≠ [] := by decide
example : WfOp opBA ∧ WfOp (.factorColumn ['a'] none none) ∧ WfOp (.removeRows ['a'] [.int 1]) := by
  simp [WfOp, opBA]
-- the repaired code on the counter-example inputs
example : (runMany [opBA] [tabABC, tabAB]).2[1]? = some (.ok [(['b'], [.str ['x']]), (['a'], [.int 1])]) := by decide

-- the three operations of the growth round on a small events table (onset, duration, code)
def tabEv : Table := [(onsetName, [.int 0, .int 1, .int 3]), (durationName, [.int 1, .int 4, .int 1]),
  (['k'], [.int 2, .int 2, .int 5])]
def opMergeDur : Op := .mergeConsecutive ['k'] (.int 2) none true false
def opRemap : Op := .remapColumns [['k']] [['v']] [[.int 2, .str ['x']], [.int 5, .str ['y']]] false none
def opSplit : Op := .splitRows ['e'] [(['r'], { onsetSrc := [.flt 1], duration := [.int 0], copy := some [['k']] })] true

example : hasColumns [opMergeDur, opRemap] tabEv = true := by decide
example : hasColumns [opSplit] tabEv = true := by decide
-- rows 0 and 1 merge: the first lasts until max(0+1, 1+4) = 5; then k is mapped
example : (runSt [opMergeDur, opRemap] tabEv).2 = .ok [(onsetName, [.int 0, .int 3]),
    (durationName, [.flt 10, .flt 2]), (['k'], [.str ['2'], .str ['5']]), (['v'], [.str ['x'], .str ['y']])] := by decide
-- a response row half a unit after every row, the parents removed
example : (runSt [opSplit] tabEv).2 = .ok [(onsetName, [.flt 1, .flt 3, .flt 7]),
    (durationName, [.int 0, .int 0, .int 0]), (['k'], [.int 2, .int 2, .int 5]),
    (['e'], [.str ['r'], .str ['r'], .str ['r']])] := by decide

end HedVerif.C17
