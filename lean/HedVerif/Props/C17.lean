import HedVerif.Model.Remodel
namespace HedVerif.C17
end HedVerif.C17
