/-
Property C17 — remodeling operations are pure functions of their parameters and input table.
Theorems about `HedVerif.Remodel` (Model/Remodel.lean), for ALL tables, operation lists and processing
histories.  Helper lemmas first, the property theorems at the end.
-/
import HedVerif.Model.Remodel
namespace HedVerif.C17
open HedVerif HedVerif.Remodel

/-! ### tables -/

theorem header_mapCells (f : Cell → Cell) (t : Table) : header (mapCells f t) = header t := by
  simp [header, mapCells, List.map_map, Function.comp_def]

theorem header_prep (t : Table) : header (prep t) = header t := header_mapCells _ t

theorem lookup_none_iff (t : Table) (col : Str) : t.lookup col = none ↔ col ∉ header t := by
  induction t with
  | nil => simp [header]
  | cons p t ih =>
    obtain ⟨n, c⟩ := p
    by_cases h : col = n
    · subst h; simp [header, List.lookup]
    · have h' : (col == n) = false := by simpa using h
      simp only [List.lookup, h', header, List.map_cons, List.mem_cons, h, false_or]
      simpa [header] using ih

theorem lookup_some_of_mem (t : Table) (col : Str) (h : col ∈ header t) : ∃ c, t.lookup col = some c := by
  cases hl : t.lookup col with
  | none => exact absurd h ((lookup_none_iff t col).1 hl)
  | some c => exact ⟨c, rfl⟩

theorem applyMask_nil_right {α} (m : List Bool) : applyMask m ([] : List α) = [] := by
  cases m with
  | nil => rfl
  | cons b m => cases b <;> rfl

/-- masking by a mask computed on the already masked key column = masking once by the conjunction -/
theorem applyMask_comp {α β} (p : α → Bool) :
    ∀ (m : List Bool) (c : List α) (d : List β),
      applyMask ((applyMask m c).map p) (applyMask m d) = applyMask (List.zipWith (· && ·) m (c.map p)) d
  | [], c, d => by simp [applyMask]
  | b :: m, [], d => by simp [applyMask_nil_right, applyMask]
  | b :: m, x :: c, [] => by simp [applyMask_nil_right]
  | true :: m, x :: c, y :: d => by
    cases hp : p x <;> simp [applyMask, hp, applyMask_comp p m c d]
  | false :: m, x :: c, y :: d => by
    simp [applyMask, applyMask_comp p m c d]

theorem lookup_filterRows (m : List Bool) (t : Table) (col : Str) :
    (filterRows m t).lookup col = (t.lookup col).map (applyMask m) := by
  induction t with
  | nil => rfl
  | cons p t ih =>
    obtain ⟨n, c⟩ := p
    simp only [filterRows, List.map_cons, List.lookup] at ih ⊢
    split <;> simp_all

/-! ### state -/

theorem reorderImpl_fst (o : List Str) (i k : Bool) (t : Table) : (reorderImpl o i k t).1 = o := by
  unfold reorderImpl
  simp only
  split <;> rfl

theorem opImpl_fst (o : Op) (t : Table) : (opImpl o t).1 = o := by
  cases o <;> simp [opImpl, reorderImpl_fst]

theorem runWith_fst (step : Op → Table → Op × Except OpErr Table) (hs : ∀ o t, (step o t).1 = o) :
    ∀ (ops : List Op) (t : Table), (runWith step ops t).1 = ops
  | [], t => rfl
  | o :: os, t => by
    unfold runWith
    split
    · rfl
    · have h1 := hs o (prep t)
      split
      · next o' e heq => simp [heq] at h1; simp [h1]
      · next o' t1 heq =>
        simp [heq] at h1
        simp [h1, runWith_fst step hs os (post t1)]

theorem runManyWith_eq (step : Op → Table → Op × Except OpErr Table) (hs : ∀ o t, (step o t).1 = o) :
    ∀ (ops : List Op) (ts : List Table),
      runManyWith step ops ts = (ops, ts.map fun t => (runWith step ops t).2)
  | ops, [] => rfl
  | ops, t :: ts => by
    simp [runManyWith, runWith_fst step hs ops t, runManyWith_eq step hs ops ts]

/-! ### remove_rows -/

theorem removeRows_fold (col : Str) (t : Table) (c : Column) (hc : t.lookup col = some c) :
    ∀ (vs : List Val) (q : Cell → Bool),
      vs.foldl (removeRowsStep col) (filterRows (c.map q) t)
        = filterRows (c.map fun x => q x && vs.all fun v => !cellEq x v) t
  | [], q => by simp
  | v :: vs, q => by
    have hl : (filterRows (c.map q) t).lookup col = some (applyMask (c.map q) c) := by
      simp [lookup_filterRows, hc]
    have hstep : removeRowsStep col (filterRows (c.map q) t) v
        = filterRows (c.map fun x => q x && !cellEq x v) t := by
      simp only [removeRowsStep, hl]
      simp only [filterRows, List.map_map, Function.comp_def]
      apply List.map_congr_left
      intro p _
      simp only [applyMask_comp, List.zipWith_map_left, List.zipWith_map_right, List.zipWith_self]
    rw [List.foldl_cons, hstep, removeRows_fold col t c hc vs]
    congr 1
    apply List.map_congr_left
    intro x _
    simp [Bool.and_assoc]

theorem removeRows_refines (col : Str) (vals : List Val) (t : Table) (hv : vals ≠ []) :
    removeRowsImpl col vals t = removeRowsSpec col vals t := by
  unfold removeRowsImpl removeRowsSpec
  cases hl : t.lookup col with
  | none =>
    have := (lookup_none_iff t col).1 hl
    simp [this]
  | some c =>
    have hm : col ∈ header t := by
      apply Decidable.byContradiction
      intro h; rw [(lookup_none_iff t col).2 h] at hl; cases hl
    cases vals with
    | nil => exact absurd rfl hv
    | cons v vs =>
      simp only [hm, if_true, List.foldl_cons]
      have h1 : removeRowsStep col t v = filterRows (c.map fun x => !cellEq x v) t := by
        simp [removeRowsStep, hl]
      rw [h1, removeRows_fold col t c hl vs]
      simp [List.all_cons]

/-! ### reorder_columns -/

theorem any_eq_not_isEmpty_filter {α} (p : α → Bool) (l : List α) : l.any p = !(l.filter p).isEmpty := by
  induction l with
  | nil => rfl
  | cons x l ih => cases h : p x <;> simp [h, ih]

theorem reorder_refines (o : List Str) (i k : Bool) (t : Table) :
    reorderImpl o i k t = (o, reorderSpec o i k t) := by
  unfold reorderImpl reorderSpec
  simp only [any_eq_not_isEmpty_filter]
  generalize hM : (o.filter fun e => !(header t).contains e) = missing
  have hmem : ∀ e, e ∈ missing ↔ (e ∈ o ∧ (header t).contains e = false) := by
    intro e; rw [← hM, List.mem_filter]; simp
  cases missing with
  | nil =>
    have hall : ∀ e ∈ o, (header t).contains e = true := by
      intro e he
      cases hc : (header t).contains e with
      | true => rfl
      | false => exact absurd ((hmem e).2 ⟨he, hc⟩) (by simp)
    have hlisted : (o.filter fun e => (header t).contains e) = o := List.filter_eq_self.2 hall
    simp only [hlisted, List.isEmpty_nil, Bool.not_true, Bool.false_and, Bool.and_false,
      Bool.false_eq_true, if_false]
    cases k <;> simp
  | cons x xs =>
    cases i
    · simp only [List.isEmpty_cons, Bool.not_false, Bool.and_self, if_true]
    · have hord : (o.filter fun e => !(x :: xs).contains e) = o.filter fun e => (header t).contains e := by
        apply List.filter_congr
        intro e he
        cases hc : (header t).contains e with
        | true =>
          have : e ∉ x :: xs := fun hm => by have := ((hmem e).1 hm).2; rw [hc] at this; cases this
          simp [this]
        | false =>
          have : e ∈ x :: xs := (hmem e).2 ⟨he, hc⟩
          simp [this]
      simp only [List.isEmpty_cons, Bool.not_false, Bool.not_true, Bool.and_false, Bool.false_and,
        Bool.false_eq_true, if_false, if_true, hord]
      cases k
      · simp
      · simp only [if_true]
        have hoth : ((header t).filter fun e => !(o.filter fun e => (header t).contains e).contains e)
            = (header t).filter fun e => !o.contains e := by
          apply List.filter_congr
          intro e he
          cases hc : o.contains e with
          | true =>
            have h1 : e ∈ o := by simpa using hc
            simp [h1, he]
          | false =>
            have h1 : e ∉ o := by simpa using hc
            simp [h1]
        rw [hoth]

/-! ### factor_column -/

theorem header_setCol (t : Table) (n : Str) (c : Column) :
    header (setCol t n c) = if n ∈ header t then header t else header t ++ [n] := by
  unfold setCol
  split
  · simp only [header, List.map_map]
    apply List.map_congr_left
    intro p _
    simp only [Function.comp_def]
    split <;> rfl
  · simp [header]

theorem mem_header_setCol (t : Table) (n : Str) (c : Column) (x : Str) (h : x ∈ header t) :
    x ∈ header (setCol t n c) := by
  rw [header_setCol]; split <;> simp [h]

theorem lookup_map_replace (t : Table) (n col : Str) (c : Column) (h : n ≠ col) :
    (t.map (fun p => if p.1 = n then (p.1, c) else p)).lookup col = t.lookup col := by
  induction t with
  | nil => rfl
  | cons p t ih =>
    obtain ⟨m, d⟩ := p
    by_cases hm : m = n
    · subst hm
      have : (col == m) = false := by simpa using (Ne.symm h)
      simp only [List.map_cons, if_true, List.lookup, this]
      exact ih
    · simp only [List.map_cons, hm, if_false, List.lookup]
      split
      · rfl
      · exact ih

theorem lookup_setCol_ne (t : Table) (n col : Str) (c : Column) (h : n ≠ col) :
    (setCol t n c).lookup col = t.lookup col := by
  unfold setCol
  split
  · exact lookup_map_replace t n col c h
  · cases hl : t.lookup col with
    | none =>
      have : (col == n) = false := by simpa using (Ne.symm h)
      simp [List.lookup_append, hl, List.lookup, this]
    | some d => simp [List.lookup_append, hl]

theorem factorLoop_eq (col : Str) (c0 : Column) :
    ∀ (fv fn : List Str) (t : Table), t.lookup col = some c0 → col ∉ fn →
      factorLoop col fv fn t =
        if fn.length < fv.length then .error (.raised .IndexError)
        else .ok ((fv.zip fn).foldl (fun t' vn => setCol t' vn.2 (factorCol c0 vn.1)) t)
  | [], fn, t, _, _ => by simp [factorLoop]
  | v :: vs, [], t, hl, _ => by simp [factorLoop, hl]
  | v :: vs, n :: ns, t, hl, hn => by
    have hne : n ≠ col := by intro h; apply hn; simp [h]
    have hns : col ∉ ns := by intro h; apply hn; simp [h]
    have hl' : (setCol t n (factorCol c0 v)).lookup col = some c0 := by
      rw [lookup_setCol_ne _ _ _ _ hne]; exact hl
    simp only [factorLoop, hl]
    rw [factorLoop_eq col c0 vs ns _ hl' hns]
    simp [List.zip_cons_cons, List.foldl_cons]

theorem derived_name_ne (col v : Str) : col ≠ col ++ '.' :: v := by
  intro h
  have := congrArg List.length h
  simp at this

theorem factor_refines (col : Str) (values names : Option (List Str)) (t : Table)
    (hn : col ∉ names.getD []) : factorImpl col values names t = factorSpec col values names t := by
  unfold factorImpl factorSpec
  cases hl : t.lookup col with
  | none => rfl
  | some c0 =>
    simp only
    apply factorLoop_eq col c0 _ _ t hl
    unfold factorNames
    split
    · intro hmem
      rw [List.mem_map] at hmem
      obtain ⟨v, _, hv⟩ := hmem
      exact derived_name_ne col v hv.symm
    · exact hn

/-! ### merge_consecutive -/

/-- what the declarative mask knows about the predecessor of the next row -/
def absPrev (st : GSt) : Option (Bool × Row) := st.prev.map fun r => (st.inGroup, r)

def keepBit (st : GSt) (mr : Bool × Row) : Bool :=
  !(mr.1 && (match absPrev st with | some p => p.1 && p.2 = mr.2 | none => false))

theorem groupStep_spec (st : GSt) (mr : Bool × Row) (hinv : st.inGroup = true → 1 ≤ st.count) :
    (∃ g, (groupStep st mr).out = g :: st.out ∧ (g == 0) = keepBit st mr)
    ∧ absPrev (groupStep st mr) = some mr
    ∧ ((groupStep st mr).inGroup = true → 1 ≤ (groupStep st mr).count) := by
  obtain ⟨m, r⟩ := mr
  obtain ⟨ig, cnt, prev, out⟩ := st
  simp only at hinv
  cases m
  · refine ⟨⟨0, ?_, ?_⟩, ?_, ?_⟩ <;> simp [groupStep, keepBit, absPrev]
  · cases ig
    · refine ⟨⟨0, ?_, ?_⟩, ?_, ?_⟩ <;> simp [groupStep, keepBit, absPrev]
      cases prev <;> simp
    · have hc : 1 ≤ cnt := hinv rfl
      by_cases hp : prev = some r
      · subst hp
        refine ⟨⟨cnt, ?_, ?_⟩, ?_, ?_⟩ <;> simp [groupStep, keepBit, absPrev]
        · omega
        · exact hc
      · refine ⟨⟨0, ?_, ?_⟩, ?_, ?_⟩ <;> simp [groupStep, keepBit, absPrev, hp]
        cases prev with
        | none => simp
        | some pr =>
          have : pr ≠ r := fun h => hp (by rw [h])
          simp [this]

theorem removeGroups_fold :
    ∀ (mrs : List (Bool × Row)) (st : GSt), (st.inGroup = true → 1 ≤ st.count) →
      ((mrs.foldl groupStep st).out.reverse.map (· == 0))
        = st.out.reverse.map (· == 0) ++ mergeKeep (absPrev st) mrs
  | [], st, _ => by simp [mergeKeep]
  | mr :: mrs, st, hinv => by
    obtain ⟨⟨g, hout, hg⟩, habs, hinv'⟩ := groupStep_spec st mr hinv
    rw [List.foldl_cons, removeGroups_fold mrs _ hinv', habs, hout]
    simp only [List.reverse_cons, List.map_append, List.map_cons, List.map_nil, List.append_assoc,
      List.cons_append, List.nil_append, mergeKeep, hg]
    rfl

theorem removeGroups_eq_mergeKeep (mrs : List (Bool × Row)) :
    (removeGroups mrs).map (· == 0) = mergeKeep none mrs := by
  have := removeGroups_fold mrs {} (by simp)
  simpa [removeGroups, absPrev] using this

theorem merge_refines (col : Str) (code : Val) (m : Option (List Str)) (i : Bool) (t : Table) :
    mergeImpl col code m i t = mergeSpec col code m i t := by
  unfold mergeImpl mergeSpec
  congr 1
  funext mrs
  exact removeGroups_eq_mergeKeep mrs

/-! ### running validated lists -/

theorem selectCols_ok : ∀ (names : List Str) (t : Table), (∀ n ∈ names, n ∈ header t) →
    ∃ t', selectCols names t = .ok t'
  | [], t, _ => ⟨[], rfl⟩
  | n :: ns, t, h => by
    obtain ⟨c, hc⟩ := lookup_some_of_mem t n (h n (by simp))
    obtain ⟨r, hr⟩ := selectCols_ok ns t (fun m hm => h m (by simp [hm]))
    exact ⟨(n, c) :: r, by simp [selectCols, hc, hr]⟩

theorem factorLoop_ok (col : Str) :
    ∀ (fv fn : List Str) (t : Table), col ∈ header t → fv.length ≤ fn.length →
      ∃ t', factorLoop col fv fn t = .ok t'
  | [], fn, t, _, _ => ⟨t, by simp [factorLoop]⟩
  | v :: vs, [], t, _, hlen => by simp at hlen
  | v :: vs, n :: ns, t, hm, hlen => by
    obtain ⟨c, hc⟩ := lookup_some_of_mem t col hm
    have hlen' : vs.length ≤ ns.length := by simpa using hlen
    obtain ⟨t', ht'⟩ := factorLoop_ok col vs ns (setCol t n (factorCol c v))
      (mem_header_setCol t n _ col hm) hlen'
    exact ⟨t', by simp [factorLoop, hc, ht']⟩

/-- what validation guarantees about a modelled operation (`validate_input_data`) -/
def inputOk (o : Op) : Prop := inputDataErrs (.modelled o) = []

theorem factor_lengths (col : Str) (values names : Option (List Str)) (c0 : Column)
    (h : factorInputErrs values names = []) :
    (factorValues (values.getD []) c0).length
      ≤ (factorNames col (names.getD []) (factorValues (values.getD []) c0)).length := by
  unfold factorNames
  split
  · simp
  · next hne =>
    unfold factorInputErrs at h
    simp only at h
    have hne' : (names.getD []).isEmpty = false := by simpa using hne
    cases hv : (values.getD []).isEmpty with
    | true => simp [hne', hv] at h
    | false =>
      simp only [hne', hv, Bool.not_false, Bool.and_false, Bool.false_eq_true, if_false,
        Bool.true_and, Bool.and_true] at h
      have hl : (names.getD []).length = (values.getD []).length := by
        apply Decidable.byContradiction
        intro hcon
        have : ((names.getD []).length != (values.getD []).length) = true := by simpa using hcon
        simp [this] at h
      simp [factorValues, hv, hl]

theorem op_runs (o : Op) (t : Table) (hv : inputOk o)
    (hc : ∀ n ∈ namedCols o, n ∈ header t) : ∃ t', opImpl o t = (o, .ok t') := by
  cases o with
  | removeRows c vs =>
    simp only [opImpl, removeRowsImpl]
    split <;> exact ⟨_, rfl⟩
  | removeColumns cs i =>
    have : (cs.any fun n => !(header t).contains n) = false := by
      simp only [List.any_eq_false]
      intro n hn
      simpa using hc n (by simpa [namedCols] using hn)
    simp only [opImpl, removeColumnsImpl, this, Bool.and_false, Bool.false_eq_true, if_false]
    exact ⟨_, rfl⟩
  | renameColumns m i =>
    have : (m.any fun kv => !(header t).contains kv.1) = false := by
      simp only [List.any_eq_false]
      intro kv hkv
      have : kv.1 ∈ header t := hc kv.1 (by simp only [namedCols, List.mem_map]; exact ⟨kv, hkv, rfl⟩)
      simpa using this
    simp only [opImpl, renameColumnsImpl, this, Bool.and_false, Bool.false_eq_true, if_false]
    exact ⟨_, rfl⟩
  | reorderColumns o i k =>
    have hmiss : (o.filter fun e => !(header t).contains e) = [] := by
      rw [List.filter_eq_nil_iff]
      intro e he
      simpa using hc e (by simpa [namedCols] using he)
    have hsel : ∃ t', selectCols (if k = true then o ++ (header t).filter (fun e => !o.contains e) else o) t
        = .ok t' := by
      apply selectCols_ok
      intro n hn
      cases k
      · exact hc n (by simpa [namedCols] using hn)
      · simp only [if_true, List.mem_append, List.mem_filter] at hn
        rcases hn with hn | hn
        · exact hc n (by simpa [namedCols] using hn)
        · exact hn.1
    obtain ⟨t', ht'⟩ := hsel
    refine ⟨t', ?_⟩
    simp only [opImpl, reorderImpl, hmiss, List.isEmpty_nil, Bool.not_true, Bool.false_and,
      Bool.false_eq_true, if_false, ht']
  | factorColumn c vs ns =>
    have hm : c ∈ header t := hc c (by simp [namedCols])
    obtain ⟨c0, hc0⟩ := lookup_some_of_mem t c hm
    have hlen := factor_lengths c vs ns c0 (by simpa [inputOk, inputDataErrs] using hv)
    obtain ⟨t', ht'⟩ := factorLoop_ok c _ _ t hm hlen
    exact ⟨t', by simp only [opImpl, factorImpl, hc0, ht']⟩
  | mergeConsecutive c code m i =>
    have hm : c ∈ header t := hc c (by simp [namedCols])
    obtain ⟨c0, hc0⟩ := lookup_some_of_mem t c hm
    have hcon : (header t).contains c = true := by simpa using hm
    have hmiss : ((m.getD []).filter fun e => !(header t).contains e) = [] := by
      rw [List.filter_eq_nil_iff]
      intro e he
      simpa using hc e (by simp [namedCols, he])
    simp only [opImpl, mergeImpl, mergeCore, hcon, hmiss, hc0, Bool.not_true, Bool.and_false,
      Bool.false_eq_true, if_false, List.isEmpty_nil]
    split <;> exact ⟨_, rfl⟩

theorem runs_ok : ∀ (ops : List Op) (t : Table), (∀ o ∈ ops, inputOk o) → hasColumns ops t = true →
    ∃ t', runSt ops t = (ops, .ok t')
  | [], t, _, _ => ⟨t, rfl⟩
  | o :: os, t, hv, hh => by
    simp only [hasColumns, Bool.and_eq_true, decide_eq_true_eq, List.all_eq_true] at hh
    obtain ⟨⟨hnd, hnamed⟩, hrest⟩ := hh
    have hnamed' : ∀ n ∈ namedCols o, n ∈ header (prep t) := by
      intro n hn; rw [header_prep]; simpa using hnamed n hn
    obtain ⟨t1, ht1⟩ := op_runs o (prep t) (hv o (by simp)) hnamed'
    rw [ht1] at hrest
    obtain ⟨t', ht'⟩ := runs_ok os (post t1) (fun o' ho' => hv o' (by simp [ho'])) hrest
    refine ⟨t', ?_⟩
    unfold runSt at ht' ⊢
    unfold runWith
    simp only [hnd, not_true_eq_false, if_false, ht1, ht']

theorem errsFrom_nil {α} (f : α → List ErrKind) :
    ∀ (i : Nat) (xs : List α), errsFrom f i xs = [] → ∀ x ∈ xs, f x = []
  | _, [], _, x, hx => by cases hx
  | i, y :: ys, h, x, hx => by
    simp only [errsFrom, List.append_eq_nil_iff, List.map_eq_nil_iff] at h
    rcases List.mem_cons.1 hx with rfl | hx'
    · exact h.1
    · exact errsFrom_nil f (i + 1) ys h.2 x hx'

theorem toOps_eq : ∀ (pops : List POp) (ops : List Op), toOps pops = some ops → pops = ops.map POp.modelled
  | [], ops, h => by simp [toOps] at h; subst h; rfl
  | .modelled o :: ps, ops, h => by
    simp only [toOps, Option.map_eq_some_iff] at h
    obtain ⟨os, hos, rfl⟩ := h
    simp [toOps_eq ps os hos]
  | .other _ _ :: _, ops, h => by simp [toOps] at h

/-! ## The property -/

/-- **No operation changes its parameters**, whatever the table, whatever the list, also when an exception
escapes: the operations a dispatcher holds after `run_operations` are the ones it was built with. -/
theorem state_constant (ops : List Op) (t : Table) : (runSt ops t).1 = ops :=
  runWith_fst opImpl opImpl_fst ops t

/-- conditions under which the code's way of computing an operation is its documented meaning:
`remove_values` is not empty (PARAMS: minItems 1); explicit factor names do not reuse the factored column -/
def WfOp : Op → Prop
  | .removeRows _ vs => vs ≠ []
  | .factorColumn c _ ns => c ∉ ns.getD []
  | _ => True

/-- **Every modelled `do_op` computes the documented table** (and leaves its parameters alone):
remove_rows keeps exactly the rows differing from every listed value; remove/rename are the pandas calls;
reorder is "listed-and-present, then the others iff keep_others"; factor columns are computed from the original
column; merge drops a row iff it and its predecessor carry the code and agree on the match columns. -/
theorem impl_refines_spec (o : Op) (t : Table) (h : WfOp o) : opImpl o t = (o, opSpec o t) := by
  cases o with
  | removeRows c vs => simp [opImpl, opSpec, removeRows_refines c vs t h]
  | removeColumns cs i => rfl
  | renameColumns m i => rfl
  | reorderColumns o i k => simp [opImpl, opSpec, reorder_refines]
  | factorColumn c vs ns => simp [opImpl, opSpec, factor_refines c vs ns t h]
  | mergeConsecutive c code m i => simp [opImpl, opSpec, merge_refines]

/-- **Processing order is irrelevant**: pushing any sequence of tables through one dispatcher leaves the
operations as they were and gives, for each table, the result a fresh dispatcher would give. -/
theorem order_independent (ops : List Op) (ts : List Table) :
    runMany ops ts = (ops, ts.map fun t => (runSt ops t).2) :=
  runManyWith_eq opImpl opImpl_fst ops ts

/-- first, last, in the middle or again: the result for `t` is the same at every position of every history -/
theorem order_independent_position (ops : List Op) (before after : List Table) (t : Table) :
    (runMany ops (before ++ t :: after)).2[before.length]? = some (runSt ops t).2 := by
  rw [order_independent]
  simp

/-- **A validated list runs to completion** on every table that has, at each step, the columns the step names
(with unique labels): no exception, and the parameters are unchanged. -/
theorem validated_runs (raws : List JVal) (ops : List Op) (t : Table)
    (hvalid : validateParams raws = []) (hparse : parseOps raws = some ops)
    (hcols : hasColumns ops t = true) : ∃ t', run ops t = .ok (t', ops) := by
  have hin : ∀ o ∈ ops, inputOk o := by
    unfold validateParams at hvalid
    simp only at hvalid
    unfold parseOps at hparse
    split at hvalid
    · next he => rw [hvalid] at he; simp at he
    · cases hm : raws.mapM parseOp with
      | none => rw [hm] at hvalid; simp at hvalid
      | some pops =>
        rw [hm] at hvalid hparse
        simp only [Option.bind_some] at hparse hvalid
        have hp := toOps_eq pops ops hparse
        intro o ho
        exact errsFrom_nil inputDataErrs 0 pops hvalid (.modelled o) (by rw [hp]; exact List.mem_map_of_mem ho)
  obtain ⟨t', ht'⟩ := runs_ok ops t hin hcols
  exact ⟨t', by simp [run, ht']⟩

/-- **An invalid list is reported and nothing is executed**: the entry point answers with the messages, for any
tables (no result, no operation object exists). -/
theorem invalid_not_run (raws : List JVal) (ts : List Table) (h : validateParams raws ≠ []) :
    remodel raws ts = .rejected (validateParams raws) := by
  unfold remodel
  have : (validateParams raws).isEmpty = false := by
    cases hv : validateParams raws with
    | nil => exact absurd hv h
    | cons _ _ => rfl
  simp [this]

/-- **n/a cells stay n/a**: the dispatcher's conversion round trip is the identity on tables as they are read
(no NaN cell), so an empty list returns the table and every untouched cell of a step's result is unchanged. -/
theorem na_round_trip (t : Table) (h : ∀ p ∈ t, ∀ c ∈ p.2, c ≠ Cell.nan) : post (prep t) = t := by
  unfold post prep mapCells
  rw [List.map_map]
  have : ∀ p ∈ t, ((fun p : Str × Column => (p.1, p.2.map postCell)) ∘
      (fun p : Str × Column => (p.1, p.2.map prepCell))) p = p := by
    intro p hp
    obtain ⟨n, c⟩ := p
    simp only [Function.comp, List.map_map, Prod.mk.injEq, true_and]
    have : ∀ x ∈ c, (postCell ∘ prepCell) x = x := by
      intro x hx
      cases x with
      | str s => by_cases hs : s = naStr <;> simp [prepCell, postCell, hs]
      | int n => rfl
      | flt r => rfl
      | nan => exact absurd rfl (h (n, c) hp .nan hx)
    calc c.map (postCell ∘ prepCell) = c.map id := List.map_congr_left this
      _ = c := List.map_id c
  calc t.map _ = t.map id := List.map_congr_left this
    _ = t := List.map_id t

/-! ### the unrepaired reorder_columns (DESIGN.md section 8 #12) — regression counter-examples -/

instance {ε α} [DecidableEq ε] [DecidableEq α] : DecidableEq (Except ε α)
  | .ok a, .ok b => if h : a = b then isTrue (by rw [h]) else isFalse (by intro h'; cases h'; exact h rfl)
  | .error a, .error b => if h : a = b then isTrue (by rw [h]) else isFalse (by intro h'; cases h'; exact h rfl)
  | .ok _, .error _ => isFalse (by intro h; cases h)
  | .error _, .ok _ => isFalse (by intro h; cases h)

def tabABC : Table := [(['a'], [.int 1]), (['b'], [.str ['x']]), (['c'], [.int 3])]
def tabAB : Table := [(['a'], [.int 1]), (['b'], [.str ['x']])]
def opBA : Op := .reorderColumns [['b'], ['a']] false true

/-- with `ordered = self.column_order; ordered += …` the parameters change … -/
theorem reorder_old_state_counterexample :
    (runWith opImplOld [opBA] tabABC).1 = [.reorderColumns [['b'], ['a'], ['c']] false true] := by decide

/-- … and the same table gives a different result after another table has been processed: `a,b` is reordered
when it comes first, and raises ValueError (column `c` "missing") when it comes after `a,b,c` -/
theorem reorder_old_order_counterexample :
    (runManyWith opImplOld [opBA] [tabAB, tabABC]).2[0]? = some (.ok [(['b'], [.str ['x']]), (['a'], [.int 1])])
    ∧ (runManyWith opImplOld [opBA] [tabABC, tabAB]).2[1]? = some (.error (.raised .ValueError)) := by decide

/-! ### non-vacuity -/

def rawFactor : JVal := .obj [("operation".toList, .str "factor_column".toList), ("description".toList, .str []),
  ("parameters".toList, .obj [("column_name".toList, .str ['a'])])]
def rawReorder : JVal := .obj [("operation".toList, .str "reorder_columns".toList), ("description".toList, .str []),
  ("parameters".toList, .obj [("column_order".toList, .arr [.str ['b'], .str ['a']]),
    ("ignore_missing".toList, .bool false), ("keep_others".toList, .bool true)])]
def rawBad : JVal := .obj [("operation".toList, .str "factor_column".toList), ("description".toList, .str []),
  ("parameters".toList, .obj [("column_name".toList, .str ['a']), ("factor_names".toList, .arr [.str ['f']])])]

-- a list without optional parameters validates, parses, has its columns, and (by the theorem) runs
example : validateParams [rawFactor, rawReorder] = [] := by decide
example : parseOps [rawFactor, rawReorder] = some [.factorColumn ['a'] none none, opBA] := by decide
example : hasColumns [.factorColumn ['a'] none none, opBA] tabABC = true := by decide
example : validateParams [rawBad] ≠ [] := by decide
example : validateParams [] ≠ [] := by decide
example : WfOp opBA ∧ WfOp (.factorColumn ['a'] none none) ∧ WfOp (.removeRows ['a'] [.int 1]) := by
  simp [WfOp, opBA]
-- the repaired code on the counter-example inputs
example : (runMany [opBA] [tabABC, tabAB]).2[1]? = some (.ok [(['b'], [.str ['x']]), (['a'], [.int 1])]) := by decide

end HedVerif.C17
