/-
C02 — Parsing is total and the parse tree mirrors the source text.
Property theorems about `Tok.split` / `Tree.build` (models of `HedString.split_hed_string`,
`split_into_groups`, `__init__`).  Helper lemmas are in this file's first section; the property
theorems are in `namespace HedVerif.C02` at the end.
-/
import HedVerif.Model.Tok

namespace HedVerif
open Tok

/-! ### token-level facts -/

/-- reversed token list `l` tiles `[a, b)` contiguously with non-empty tokens -/
def TilesR : List Token → Nat → Nat → Prop
  | [], a, b => a = b
  | t :: ts, a, b => t.stop = b ∧ t.start < t.stop ∧ TilesR ts a t.start

/-- forward token list tiles `[a, b)` -/
def Tiles : List Token → Nat → Nat → Prop
  | [], a, b => a = b
  | t :: ts, a, b => t.start = a ∧ t.start < t.stop ∧ Tiles ts t.stop b

theorem tiles_append_single (l : List Token) (t : Token) (a b : Nat) :
    Tiles (l ++ [t]) a b ↔ (Tiles l a t.start ∧ t.start < t.stop ∧ t.stop = b) := by
  induction l generalizing a with
  | nil => simp [Tiles]; grind
  | cons x xs ih => simp [Tiles, ih]; grind

theorem tilesR_reverse (l : List Token) (a b : Nat) : TilesR l a b → Tiles l.reverse a b := by
  induction l generalizing b with
  | nil => simp [Tiles, TilesR]
  | cons t ts ih =>
    intro h
    simp only [TilesR] at h
    rw [List.reverse_cons, tiles_append_single]
    exact ⟨ih _ h.2.2, h.2.1, h.1⟩

/-- What is true of the text of one token. -/
def TokOK (s : Str) (t : Token) : Prop :=
  t.start < t.stop ∧ t.stop ≤ s.length ∧
  if t.isTag then
    (∀ k c, t.start ≤ k → k < t.stop → s[k]? = some c → isDelim c = false) ∧
    (∀ c, s[t.start]? = some c → c ≠ ' ') ∧
    (∀ c, s[t.stop - 1]? = some c → c ≠ ' ')
  else
    (∀ k c, t.start ≤ k → k < t.stop → s[k]? = some c → c = ' ' ∨ isDelim c = true) ∧
    (∀ k1 k2 c1 c2, t.start ≤ k1 → k1 < t.stop → t.start ≤ k2 → k2 < t.stop →
       s[k1]? = some c1 → s[k2]? = some c2 → c1 ≠ ' ' → c2 ≠ ' ' → k1 = k2)

/-- the stretch `[a, i)` contains only blanks and delimiters, at most one non-blank -/
def DelimRun (s : Str) (a i : Nat) : Prop :=
  (∀ k c, a ≤ k → k < i → s[k]? = some c → c = ' ' ∨ isDelim c = true) ∧
  (∀ k1 k2 c1 c2, a ≤ k1 → k1 < i → a ≤ k2 → k2 < i →
       s[k1]? = some c1 → s[k2]? = some c2 → c1 ≠ ' ' → c2 ≠ ' ' → k1 = k2)

/-- the stretch `[ts, i)` is an open tag with `sp` trailing blanks -/
def TagRun (s : Str) (ts i sp : Nat) : Prop :=
  ts + sp < i ∧
  (∀ k c, ts ≤ k → k < i → s[k]? = some c → isDelim c = false) ∧
  (∀ c, s[ts]? = some c → c ≠ ' ') ∧
  (∀ k c, i - sp ≤ k → k < i → s[k]? = some c → c = ' ') ∧
  (∀ c, s[i - sp - 1]? = some c → c ≠ ' ')

/-- Loop invariant of `split_hed_string` after the first `i` characters. -/
def Inv (s : Str) (i : Nat) (st : St) : Prop :=
  st.bad = false ∧ i ≤ s.length ∧ (∀ t ∈ st.out, TokOK s t) ∧
  ((st.found = true ∧ st.tagStart = none ∧
      ∃ le, st.lastEnd = some le ∧ le ≤ i ∧ TilesR st.out 0 le ∧ DelimRun s le i) ∨
   (st.found = false ∧ st.lastEnd = none ∧
      ∃ ts, st.tagStart = some ts ∧ TilesR st.out 0 ts ∧ TagRun s ts i st.spacing))

theorem inv_init (s : Str) : Inv s 0 {} := by
  refine ⟨rfl, Nat.zero_le _, by simp, Or.inl ⟨rfl, rfl, 0, rfl, Nat.le_refl _, rfl, ?_, ?_⟩⟩ <;>
    (intros; omega)

theorem isDelim_ne_space {c : Char} (h : isDelim c = true) : c ≠ ' ' := by
  intro hc; subst hc; simp [isDelim] at h

theorem inv_step (s : Str) (i : Nat) (st : St) (c : Char)
    (hc : s[i]? = some c) (h : Inv s i st) : Inv s (i + 1) (step st i c) := by
  have hi : i < s.length := by
    rcases Nat.lt_or_ge i s.length with h' | h'
    · exact h'
    · simp [List.getElem?_eq_none h'] at hc
  obtain ⟨hbad, _, htok, hmode⟩ := h
  unfold step
  by_cases hsp : c = ' '
  · -- blank
    subst hsp
    simp only [beq_self_eq_true, ↓reduceIte]
    refine ⟨hbad, hi, htok, ?_⟩
    rcases hmode with ⟨hf, hts, le, hle, hlei, htl, hrun⟩ | ⟨hf, hle, ts, hts, htl, hrun⟩
    · refine Or.inl ⟨hf, hts, le, hle, by omega, htl, ?_⟩
      obtain ⟨h1, h2⟩ := hrun
      constructor
      · intro k c' hk1 hk2 hk
        by_cases hki : k = i
        · subst hki; rw [hc] at hk; left; exact (Option.some.inj hk).symm
        · exact h1 k c' hk1 (by omega) hk
      · intro k1 k2 c1 c2 a1 a2 a3 a4 a5 a6 a7 a8
        by_cases hk1 : k1 = i
        · subst hk1; rw [hc] at a5; exact absurd (Option.some.inj a5).symm a7
        · by_cases hk2 : k2 = i
          · subst hk2; rw [hc] at a6; exact absurd (Option.some.inj a6).symm a8
          · exact h2 k1 k2 c1 c2 a1 (by omega) a3 (by omega) a5 a6 a7 a8
    · refine Or.inr ⟨hf, hle, ts, hts, htl, ?_⟩
      obtain ⟨h0, h1, h2, h3, h4⟩ := hrun
      refine ⟨by simp; omega, ?_, h2, ?_, ?_⟩
      · intro k c' hk1 hk2 hk
        by_cases hki : k = i
        · subst hki; rw [hc] at hk; cases hk; rfl
        · exact h1 k c' hk1 (by omega) hk
      · intro k c' hk1 hk2 hk
        by_cases hki : k = i
        · subst hki; rw [hc] at hk; exact (Option.some.inj hk).symm
        · exact h3 k c' (by simp at hk1; omega) (by omega) hk
      · intro c' hk
        have : i + 1 - (st.spacing + 1) - 1 = i - st.spacing - 1 := by omega
        simp only [this] at hk
        exact h4 c' hk
  · have hsp' : (c == ' ') = false := by simpa using hsp
    simp only [hsp', Bool.false_eq_true, ↓reduceIte]
    by_cases hd : isDelim c = true
    · -- delimiter
      simp only [hd, ↓reduceIte]
      rcases hmode with ⟨hf, hts, le, hle, hlei, htl, hrun⟩ | ⟨hf, hle, ts, hts, htl, hrun⟩
      · simp only [hf, ↓reduceIte, hle]
        have hnew : DelimRun s i (i + 1) := by
          constructor
          · intro k c' hk1 hk2 hk
            have : k = i := by omega
            subst this; rw [hc] at hk; cases hk; right; exact hd
          · intros; omega
        by_cases hne : le = i
        · subst hne
          simp only [bne_self_eq_false, Bool.false_eq_true, ↓reduceIte]
          exact ⟨hbad, hi, htok, Or.inl ⟨rfl, hts, le, rfl, by omega, htl, hnew⟩⟩
        · have : (le != i) = true := by simpa using hne
          simp only [this, ↓reduceIte]
          refine ⟨hbad, hi, ?_, Or.inl ⟨rfl, hts, i, rfl, by omega, ?_, hnew⟩⟩
          · intro t ht
            simp only [List.mem_cons] at ht
            rcases ht with rfl | ht
            · exact ⟨by simp; omega, by simp; omega, by simpa [TokOK, DelimRun] using hrun⟩
            · exact htok t ht
          · exact ⟨rfl, by simp; omega, htl⟩
      · have hf' : st.found = false := hf
        simp only [hf', Bool.false_eq_true, ↓reduceIte, hts]
        obtain ⟨h0, h1, h2, h3, h4⟩ := hrun
        refine ⟨hbad, hi, ?_, Or.inl ⟨rfl, rfl, i - st.spacing, rfl, by omega, ?_, ?_⟩⟩
        · intro t ht
          simp only [List.mem_cons] at ht
          rcases ht with rfl | ht
          · refine ⟨by simp; omega, by simp; omega, ?_⟩
            simp only [↓reduceIte]
            exact ⟨fun k c' a b d => h1 k c' a (by omega) d, h2, h4⟩
          · exact htok t ht
        · exact ⟨rfl, by simp; omega, htl⟩
        · constructor
          · intro k c' hk1 hk2 hk
            by_cases hki : k = i
            · subst hki; rw [hc] at hk; cases hk; right; exact hd
            · left; exact h3 k c' hk1 (by omega) hk
          · intro k1 k2 c1 c2 a1 a2 a3 a4 a5 a6 a7 a8
            by_cases hk1 : k1 = i
            · by_cases hk2 : k2 = i
              · omega
              · exact absurd (h3 k2 c2 a3 (by omega) a6) a8
            · exact absurd (h3 k1 c1 a1 (by omega) a5) a7
    · -- tag character
      have hd' : isDelim c = false := by simpa using hd
      simp only [hd', Bool.false_eq_true, ↓reduceIte]
      have hnew : TagRun s i (i + 1) 0 := by
        refine ⟨by omega, ?_, ?_, ?_, ?_⟩
        · intro k c' a b d
          have : k = i := by omega
          subst this; rw [hc] at d; cases d; exact hd'
        · intro c' d; rw [hc] at d; cases d; exact hsp
        · intros; omega
        · intro c' d; simp at d; rw [hc] at d; cases d; exact hsp
      rcases hmode with ⟨hf, hts, le, hle, hlei, htl, hrun⟩ | ⟨hf, hle, ts, hts, htl, hrun⟩
      · simp only [hf, ↓reduceIte, hle]
        by_cases hne : le = i
        · subst hne
          simp only [bne_self_eq_false, Bool.false_eq_true, ↓reduceIte, hts]
          exact ⟨hbad, hi, htok, Or.inr ⟨rfl, rfl, le, rfl, htl, hnew⟩⟩
        · have : (le != i) = true := by simpa using hne
          simp only [this, ↓reduceIte, hts]
          refine ⟨hbad, hi, ?_, Or.inr ⟨rfl, rfl, i, rfl, ?_, hnew⟩⟩
          · intro t ht
            simp only [List.mem_cons] at ht
            rcases ht with rfl | ht
            · exact ⟨by simp; omega, by simp; omega, by simpa [TokOK, DelimRun] using hrun⟩
            · exact htok t ht
          · exact ⟨rfl, by simp; omega, htl⟩
      · have hf' : st.found = false := hf
        simp only [hf', Bool.false_eq_true, ↓reduceIte, hts]
        obtain ⟨h0, h1, h2, h3, h4⟩ := hrun
        refine ⟨hbad, hi, htok, Or.inr ⟨rfl, hle, ts, rfl, htl, ?_⟩⟩
        show TagRun s ts (i + 1) 0
        refine ⟨by omega, ?_, h2, by intros; omega, ?_⟩
        · intro k c' a b d
          by_cases hki : k = i
          · subst hki; rw [hc] at d; cases d; exact hd'
          · exact h1 k c' a (by omega) d
        · intro c' d; simp at d; rw [hc] at d; cases d; exact hsp

theorem inv_run (s : Str) (cs : Str) (i : Nat) (st : St)
    (hcs : s.drop i = cs) (h : Inv s i st) : Inv s s.length (run st i cs) := by
  induction cs generalizing i st with
  | nil =>
    simp only [run]
    have : s.length ≤ i := by simpa using hcs
    have h2 := h.2.1
    have : i = s.length := by omega
    subst this; exact h
  | cons c cs ih =>
    simp only [run]
    have hc : s[i]? = some c := by
      have := congrArg List.head? hcs
      simpa [List.head?_drop] using this
    apply ih (i + 1)
    · have := congrArg List.tail hcs
      simpa [List.tail_drop] using this
    · exact inv_step s i st c hc h

theorem inv_final (s : Str) : Inv s s.length (finalSt s) :=
  inv_run s s 0 {} (by simp) (inv_init s)

namespace C02

/-- The tokenizer never takes a branch in which Python would have used `None` as a position. -/
theorem no_bad (s : Str) : (finalSt s).bad = false := (inv_final s).1

/-- **Tiling.** The tokens of `split_hed_string` are non-empty, contiguous, start at 0 and end at
`len(s)`; every token satisfies `TokOK`: a tag token contains no delimiter and begins and ends with a
non-blank; a non-tag token contains only blanks and delimiters and at most one delimiter. -/
theorem tiling (s : Str) : Tiles (split s) 0 s.length ∧ ∀ t ∈ split s, TokOK s t := by
  obtain ⟨_, _, htok, hmode⟩ := inv_final s
  unfold split finish
  rcases hmode with ⟨hf, hts, le, hle, hlei, htl, hrun⟩ | ⟨hf, hle, ts, hts, htl, hrun⟩
  · simp only [hle, hts]
    by_cases hn : s.length = le
    · have : (s.length != le) = false := by simpa using hn
      simp only [this, Bool.false_eq_true, ↓reduceIte]
      exact ⟨hn ▸ tilesR_reverse _ _ _ htl, by simpa using htok⟩
    · have : (s.length != le) = true := by simpa using hn
      simp only [this, ↓reduceIte]
      constructor
      · apply tilesR_reverse
        exact ⟨rfl, by simp; omega, htl⟩
      · intro t ht
        simp only [List.mem_reverse, List.mem_cons] at ht
        rcases ht with rfl | ht
        · exact ⟨by simp; omega, by simp, by simpa [TokOK, DelimRun] using hrun⟩
        · exact htok t ht
  · obtain ⟨h0, h1, h2, h3, h4⟩ := hrun
    simp only [hle, hts]
    have htag : TokOK s ⟨true, ts, s.length - (finalSt s).spacing⟩ := by
      refine ⟨by simp; omega, by simp, ?_⟩
      simp only [↓reduceIte]
      exact ⟨fun k c a b d => h1 k c a (by omega) d, h2, h4⟩
    by_cases hs0 : (finalSt s).spacing = 0
    · have : ((finalSt s).spacing != 0) = false := by simpa using hs0
      simp only [this, Bool.false_eq_true, ↓reduceIte]
      constructor
      · apply tilesR_reverse
        exact ⟨by simp; omega, by simp; omega, htl⟩
      · intro t ht
        simp only [List.mem_reverse, List.mem_cons] at ht
        rcases ht with rfl | ht
        · exact htag
        · exact htok t ht
    · have : ((finalSt s).spacing != 0) = true := by simpa using hs0
      simp only [this, ↓reduceIte]
      constructor
      · apply tilesR_reverse
        exact ⟨rfl, by simp; omega, rfl, by simp; omega, htl⟩
      · intro t ht
        simp only [List.mem_reverse, List.mem_cons] at ht
        rcases ht with rfl | rfl | ht
        · refine ⟨by simp; omega, by simp, ?_⟩
          simp only [Bool.false_eq_true, ↓reduceIte]
          constructor
          · intro k c a b d; left; exact h3 k c a b d
          · intro k1 k2 c1 c2 a1 a2 a3 a4 a5 a6 a7 a8
            exact absurd (h3 k1 c1 a1 a2 a5) a7
        · exact htag
        · exact htok t ht

end C02
end HedVerif

/-! ### from tokens back to characters: the group builder sees every parenthesis exactly once -/
namespace HedVerif
open Tok Tree

/-- parenthesis sequence of a text: `true` = '(' , `false` = ')' -/
def parenOf (c : Char) : Option Bool :=
  if c == '(' then some true else if c == ')' then some false else none

def parens (s : Str) : List Bool := s.filterMap parenOf

/-- the parenthesis (if any) the group builder acts on for one token -/
def tokParen (s : Str) (t : Token) : Option Bool :=
  if t.isTag then none else
    let portion := (s.drop t.start).take (t.stop - t.start)
    match portion[delimIndex portion]? with
    | none => none
    | some ch => parenOf ch

/-- running depth over a parenthesis sequence; `none` once it would go negative -/
def scan : Nat → List Bool → Option Nat
  | d, [] => some d
  | d, true :: ps => scan (d + 1) ps
  | 0, false :: _ => none
  | d + 1, false :: ps => scan d ps

theorem parens_append (a b : Str) : parens (a ++ b) = parens a ++ parens b := by
  simp [parens]

theorem slice_split (s : Str) (a m b : Nat) (h1 : a ≤ m) (h2 : m ≤ b) :
    slice s a b = slice s a m ++ slice s m b := by
  unfold slice
  have : b - a = (m - a) + (b - m) := by omega
  rw [this, List.take_add, List.drop_drop]
  congr 3
  omega

theorem slice_getElem? (s : Str) (a b j : Nat) (hj : j < b - a) :
    (slice s a b)[j]? = s[a + j]? := by
  unfold slice
  rw [List.getElem?_take_of_lt hj, List.getElem?_drop]

theorem slice_length (s : Str) (a b : Nat) (hb : b ≤ s.length) : (slice s a b).length = b - a := by
  unfold slice; simp; omega

/-- a list all of whose characters are blanks has no parenthesis -/
theorem parens_blank (l : Str) (h : ∀ c ∈ l, c = ' ') : parens l = [] := by
  induction l with
  | nil => rfl
  | cons c cs ih =>
    have hc : c = ' ' := h c (by simp)
    subst hc
    simp only [parens, List.filterMap_cons] at *
    have : parenOf ' ' = none := by decide
    rw [this]
    exact ih (fun c hc => h c (by simp [hc]))

theorem parens_nodelim (l : Str) (h : ∀ c ∈ l, isDelim c = false) : parens l = [] := by
  induction l with
  | nil => rfl
  | cons c cs ih =>
    have hc : isDelim c = false := h c (by simp)
    have : parenOf c = none := by
      unfold parenOf
      simp [isDelim] at hc
      simp [hc]
    simp only [parens, List.filterMap_cons, this] at *
    exact ih (fun c hc => h c (by simp [hc]))

/-- For a delimiter stretch (blanks and at most one delimiter) the parenthesis sequence is what the
group builder reads at `delimiter_index`. -/
theorem parens_delimrun (l : Str)
    (h1 : ∀ c ∈ l, c = ' ' ∨ isDelim c = true)
    (h2 : ∀ (j1 j2 : Nat) (c1 c2 : Char), l[j1]? = some c1 → l[j2]? = some c2 → c1 ≠ ' ' → c2 ≠ ' ' → j1 = j2) :
    parens l = (match l[delimIndex l]? with | none => none | some ch => parenOf ch).toList := by
  induction l with
  | nil => simp [parens, delimIndex]
  | cons c cs ih =>
    by_cases hc : c = ' '
    · subst hc
      have ih' := ih (fun c hc => h1 c (by simp [hc]))
        (fun j1 j2 c1 c2 a b d e => by
          have := h2 (j1 + 1) (j2 + 1) c1 c2 (by simpa using a) (by simpa using b) d e
          omega)
      have hp : parens (' ' :: cs) = parens cs := by
        simp only [parens, List.filterMap_cons]
        have : parenOf ' ' = none := by decide
        rw [this]
      rw [hp, ih']
      unfold delimIndex
      have hsp : pyIsSpace ' ' = true := by decide
      simp only [List.findIdx?_cons, hsp, Bool.not_true, Bool.false_eq_true, ↓reduceIte]
      cases hfi : List.findIdx? (fun c => !pyIsSpace c) cs with
      | none =>
        simp only [Option.map_none, Option.getD_none, List.getElem?_cons_zero]
        have : parenOf ' ' = none := by decide
        rw [this]
        cases hcs : cs[0]? with
        | none => rfl
        | some ch =>
          -- every element of cs is a blank since none is non-space and delimiters are non-space
          have hall : ∀ x ∈ cs, pyIsSpace x = true := by
            have := List.findIdx?_eq_none_iff.mp hfi
            intro x hx; simpa using this x hx
          have hch : ch ∈ cs := List.mem_of_getElem? hcs
          have := hall ch hch
          rcases h1 ch (by simp [hch]) with rfl | hd
          · decide
          · exfalso
            simp [isDelim] at hd
            rcases hd with (rfl | rfl) | rfl <;> simp [pyIsSpace] at this
      | some j =>
        simp [List.getElem?_cons_succ]
    · -- first character is the delimiter; everything after it is blank
      have hd : isDelim c = true := by
        rcases h1 c (by simp) with h | h
        · exact absurd h hc
        · exact h
      have hns : pyIsSpace c = false := by
        simp [isDelim] at hd
        rcases hd with (rfl | rfl) | rfl <;> decide
      have hrest : ∀ x ∈ cs, x = ' ' := by
        intro x hx
        obtain ⟨j, hj⟩ := List.getElem?_of_mem hx
        by_cases hne : x = ' '
        · exact hne
        · exfalso
          have := h2 0 (j + 1) c x (by simp) (by simpa using hj) hc hne
          omega
      unfold delimIndex
      simp only [List.findIdx?_cons, hns, Bool.not_false, ↓reduceIte, Option.getD_some,
        List.getElem?_cons_zero]
      simp only [parens, List.filterMap_cons]
      have := parens_blank cs hrest
      simp only [parens] at this
      rw [this]
      cases parenOf c <;> rfl

/-- Per token: the parentheses inside a token's text are exactly what the builder acts on. -/
theorem parens_token (s : Str) (t : Token) (h : TokOK s t) :
    parens (slice s t.start t.stop) = (tokParen s t).toList := by
  obtain ⟨hlt, hle, hrest⟩ := h
  unfold tokParen
  by_cases htag : t.isTag = true
  · simp only [htag, ↓reduceIte] at hrest ⊢
    apply parens_nodelim
    intro c hc
    obtain ⟨j, hj⟩ := List.getElem?_of_mem hc
    have hjl : j < (slice s t.start t.stop).length := by
      rcases Nat.lt_or_ge j (slice s t.start t.stop).length with h | h
      · exact h
      · simp [List.getElem?_eq_none h] at hj
    rw [slice_length s _ _ hle] at hjl
    rw [slice_getElem? s _ _ _ hjl] at hj
    exact hrest.1 (t.start + j) c (by omega) (by omega) hj
  · have htag' : t.isTag = false := by simpa using htag
    simp only [htag', Bool.false_eq_true, ↓reduceIte] at hrest ⊢
    have hlen := slice_length s t.start t.stop hle
    have key := parens_delimrun (slice s t.start t.stop)
      (by
        intro c hc
        obtain ⟨j, hj⟩ := List.getElem?_of_mem hc
        have hjl : j < (slice s t.start t.stop).length := by
          rcases Nat.lt_or_ge j (slice s t.start t.stop).length with h | h
          · exact h
          · simp [List.getElem?_eq_none h] at hj
        rw [hlen] at hjl
        rw [slice_getElem? s _ _ _ hjl] at hj
        exact hrest.1 (t.start + j) c (by omega) (by omega) hj)
      (by
        intro j1 j2 c1 c2 a b d e
        have hj1 : j1 < t.stop - t.start := by
          rcases Nat.lt_or_ge j1 (slice s t.start t.stop).length with h | h
          · omega
          · simp [List.getElem?_eq_none h] at a
        have hj2 : j2 < t.stop - t.start := by
          rcases Nat.lt_or_ge j2 (slice s t.start t.stop).length with h | h
          · omega
          · simp [List.getElem?_eq_none h] at b
        rw [slice_getElem? s _ _ _ hj1] at a
        rw [slice_getElem? s _ _ _ hj2] at b
        have := hrest.2 (t.start + j1) (t.start + j2) c1 c2 (by omega) (by omega) (by omega) (by omega)
          a b d e
        omega)
    simpa [slice] using key

/-- The parenthesis sequence of a tiled stretch is the concatenation over its tokens. -/
theorem parens_tiles (s : Str) (toks : List Token) (a b : Nat)
    (ht : Tiles toks a b) (hok : ∀ t ∈ toks, TokOK s t) :
    parens (slice s a b) = toks.filterMap (tokParen s) := by
  induction toks generalizing a with
  | nil =>
    simp only [Tiles] at ht
    subst ht
    simp [slice, parens]
  | cons t ts ih =>
    obtain ⟨h1, h2, h3⟩ := ht
    subst h1
    have hle : t.stop ≤ b := by
      clear ih hok
      induction ts generalizing t with
      | nil => simp only [Tiles] at h3; omega
      | cons u us ihu =>
        obtain ⟨g1, g2, g3⟩ := h3
        have := ihu u g2 g3
        omega
    rw [slice_split s t.start t.stop b (by omega) hle, parens_append,
      parens_token s t (hok t (by simp)), ih t.stop h3 (fun u hu => hok u (by simp [hu]))]
    cases h : tokParen s t <;> simp [List.filterMap_cons, h]

theorem parens_split (s : Str) : (split s).filterMap (tokParen s) = parens s := by
  obtain ⟨ht, hok⟩ := C02.tiling s
  have := parens_tiles s (split s) 0 s.length ht hok
  rw [← this]
  simp [slice]

/-- `buildToks` succeeds exactly when the parenthesis sequence it reads is balanced from the
current stack depth; it never fails with `index` on well-formed tokens. -/
theorem buildToks_scan (s : Str) (toks : List Token) (hok : ∀ t ∈ toks, TokOK s t)
    (top : List Node) (stack : List Frame) :
    (∃ r, buildToks s top stack toks = .ok r) ↔
      scan stack.length (toks.filterMap (tokParen s)) = some 0 := by
  induction toks generalizing top stack with
  | nil =>
    cases stack with
    | nil => simp [buildToks, scan]
    | cons f fs => simp [buildToks, scan]
  | cons t ts ih =>
    have ih' := ih (fun u hu => hok u (by simp [hu]))
    have htok := hok t (by simp)
    by_cases htag : t.isTag = true
    · have hp : tokParen s t = none := by simp [tokParen, htag]
      cases stack with
      | nil =>
        simp only [buildToks, stepTok, htag, ↓reduceIte, List.filterMap_cons, hp]
        exact ih' _ _
      | cons f fs =>
        simp only [buildToks, stepTok, htag, ↓reduceIte, List.filterMap_cons, hp]
        exact ih' _ _
    · have htag' : t.isTag = false := by simpa using htag
      -- the portion is non-empty, so the index is in range
      have hlen : ((s.drop t.start).take (t.stop - t.start)).length = t.stop - t.start := by
        have := slice_length s t.start t.stop htok.2.1
        simpa [slice] using this
      have hdi : delimIndex ((s.drop t.start).take (t.stop - t.start)) <
          ((s.drop t.start).take (t.stop - t.start)).length := by
        unfold delimIndex
        cases hfi : List.findIdx? (fun c => !pyIsSpace c) ((s.drop t.start).take (t.stop - t.start)) with
        | none => simp only [Option.getD_none]; have := htok.1; omega
        | some j =>
          simp only [Option.getD_some]
          exact (List.findIdx?_eq_some_iff_getElem.mp hfi).1
      obtain ⟨ch, hch⟩ : ∃ ch, ((s.drop t.start).take (t.stop - t.start))[delimIndex
          ((s.drop t.start).take (t.stop - t.start))]? = some ch :=
        ⟨_, List.getElem?_eq_getElem hdi⟩
      have hp : tokParen s t = parenOf ch := by simp [tokParen, htag', hch]
      by_cases ho : ch = '('
      · subst ho
        have : parenOf '(' = some true := by decide
        cases stack with
        | nil =>
          simp only [buildToks, stepTok, htag', Bool.false_eq_true, ↓reduceIte, hch,
            beq_self_eq_true, List.filterMap_cons, hp, this, scan]
          exact ih' _ _
        | cons f fs =>
          simp only [buildToks, stepTok, htag', Bool.false_eq_true, ↓reduceIte, hch,
            beq_self_eq_true, List.filterMap_cons, hp, this, scan]
          exact ih' _ _
      · by_cases hcl : ch = ')'
        · subst hcl
          have h1 : parenOf ')' = some false := by decide
          have h2 : (')' == '(') = false := by decide
          cases stack with
          | nil =>
            simp [buildToks, stepTok, htag', hch, h2, hp, h1, scan]
          | cons f fs =>
            cases fs with
            | nil =>
              simp only [buildToks, stepTok, htag', Bool.false_eq_true, ↓reduceIte, hch, h2,
                beq_self_eq_true, List.filterMap_cons, hp, h1, scan, List.length_cons,
                List.length_nil, Nat.zero_add]
              exact ih' _ _
            | cons f2 fs2 =>
              simp only [buildToks, stepTok, htag', Bool.false_eq_true, ↓reduceIte, hch, h2,
                beq_self_eq_true, List.filterMap_cons, hp, h1, scan, List.length_cons]
              exact ih' _ _
        · have h1 : parenOf ch = none := by simp [parenOf, ho, hcl]
          have h2 : (ch == '(') = false := by simpa using ho
          have h3 : (ch == ')') = false := by simpa using hcl
          cases stack with
          | nil =>
            simp only [buildToks, stepTok, htag', Bool.false_eq_true, ↓reduceIte, hch, h2, h3,
              List.filterMap_cons, hp, h1]
            exact ih' _ _
          | cons f fs =>
            simp only [buildToks, stepTok, htag', Bool.false_eq_true, ↓reduceIte, hch, h2, h3,
              List.filterMap_cons, hp, h1]
            exact ih' _ _

/-- character-level balance -/
def balanced (s : Str) : Prop := scan 0 (parens s) = some 0

instance (s : Str) : Decidable (balanced s) := by unfold balanced; infer_instance

namespace C02

/-- **Total + nesting, existence part.** `split_into_groups` succeeds exactly on the texts whose
parentheses are balanced (running depth never negative, zero at the end); otherwise the constructor
yields an empty tree. -/
theorem build_ok_iff_balanced (s : Str) : (∃ r, build s = .ok r) ↔ balanced s := by
  unfold build balanced
  rw [← parens_split]
  exact buildToks_scan s (split s) (tiling s).2 [] []

theorem unbalanced_empty (s : Str) (h : ¬ balanced s) : construct s = [] := by
  unfold construct
  cases hb : build s with
  | ok r => exact absurd ((build_ok_iff_balanced s).mp ⟨r, hb⟩) h
  | error e => rfl

end C02

/-! ### the validator's parenthesis rule -/

theorem closingFirst_scan (d : Nat) (s : Str) :
    Paren.closingFirst d s = true ↔ scan d (parens s) = none := by
  induction s generalizing d with
  | nil => simp [Paren.closingFirst, parens, scan]
  | cons c cs ih =>
    unfold Paren.closingFirst
    by_cases ho : c = '('
    · subst ho
      have : parenOf '(' = some true := by decide
      simp only [beq_self_eq_true, ↓reduceIte, parens, List.filterMap_cons, this, scan]
      exact ih (d + 1)
    · have h2 : (c == '(') = false := by simpa using ho
      by_cases hcl : c = ')'
      · subst hcl
        have : parenOf ')' = some false := by decide
        simp only [h2, Bool.false_eq_true, ↓reduceIte, beq_self_eq_true, parens,
          List.filterMap_cons, this]
        cases d with
        | zero => simp [scan]
        | succ d' => simp only [scan]; exact ih d'
      · have h3 : (c == ')') = false := by simpa using hcl
        have : parenOf c = none := by simp [parenOf, ho, hcl]
        simp only [h2, h3, Bool.false_eq_true, ↓reduceIte, parens, List.filterMap_cons, this]
        exact ih d

theorem scan_counts (d d' : Nat) (s : Str) (h : scan d (parens s) = some d') :
    d + s.count '(' = d' + s.count ')' := by
  induction s generalizing d with
  | nil => simp [parens, scan] at h; simp [h]
  | cons c cs ih =>
    by_cases ho : c = '('
    · subst ho
      have : parenOf '(' = some true := by decide
      simp only [parens, List.filterMap_cons, this, scan] at h
      have := ih (d + 1) h
      simp [List.count_cons] at this ⊢
      omega
    · by_cases hcl : c = ')'
      · subst hcl
        have : parenOf ')' = some false := by decide
        simp only [parens, List.filterMap_cons, this] at h
        cases d with
        | zero => simp [scan] at h
        | succ d0 =>
          simp only [scan] at h
          have := ih d0 h
          simp [List.count_cons] at this ⊢
          omega
      · have : parenOf c = none := by simp [parenOf, ho, hcl]
        simp only [parens, List.filterMap_cons, this] at h
        have := ih d h
        have e1 : (c == '(') = false := by simpa using ho
        have e2 : (c == ')') = false := by simpa using hcl
        simp [List.count_cons, e1, e2] at this ⊢
        omega

namespace C02

/-- **Mismatch is reported.** The validator's parenthesis rule fires exactly on the texts that the
constructor rejects (holds for the code after fix 75b0c29; before it, `")("` was a counter-example). -/
theorem mismatch_reported (s : Str) : Paren.mismatch s = true ↔ ¬ balanced s := by
  unfold Paren.mismatch balanced
  constructor
  · intro h hb
    have hc := scan_counts 0 0 s hb
    simp only [Bool.or_eq_true, bne_iff_ne, ne_eq] at h
    rcases h with h | h
    · omega
    · rw [closingFirst_scan] at h; rw [h] at hb; cases hb
  · intro hb
    simp only [Bool.or_eq_true, bne_iff_ne, ne_eq]
    cases hs : scan 0 (parens s) with
    | none => right; exact (closingFirst_scan 0 s).mpr hs
    | some d' =>
      left
      have hc := scan_counts 0 d' s hs
      intro heq
      have : d' = 0 := by omega
      subst this
      exact hb hs

/-- The count-only rule of the original code misses `")("` (kept as a regression witness). -/
theorem count_only_counterexample :
    let s : Str := [')', '(']
    (s.count '(' = s.count ')') ∧ construct s = [] ∧ Paren.mismatch s = true := by decide

/-- non-vacuity: a balanced text with nesting, blanks and an empty tag; an unbalanced one -/
example : balanced "a, ( b ,(c), ),d".toList := by decide
example : ¬ balanced "(a))(".toList := by decide

end C02
end HedVerif

/-! ## Growth: nesting depth, tag spans = maximal trimmed runs, round trip -/

namespace HedVerif
open Tok Tree

/-! ### nesting -/

theorem scan_append (d : Nat) (x y : List Bool) :
    scan d (x ++ y) = (scan d x).bind (fun d' => scan d' y) := by
  induction x generalizing d with
  | nil => simp [scan]
  | cons b bs ih =>
    cases b with
    | true => simp only [List.cons_append, scan]; exact ih _
    | false =>
      cases d with
      | zero => simp [scan]
      | succ d0 => simp only [List.cons_append, scan]; exact ih _

theorem scan_shift (d d' e : Nat) (x : List Bool) (h : scan d x = some d') :
    scan (d + e) x = some (d' + e) := by
  induction x generalizing d with
  | nil => simp [scan] at h ⊢; omega
  | cons b bs ih =>
    cases b with
    | true =>
      simp only [scan] at h ⊢
      have := ih (d + 1) h
      rwa [show d + 1 + e = d + e + 1 by omega] at this
    | false =>
      cases d with
      | zero => simp [scan] at h
      | succ d0 =>
        simp only [scan] at h
        have := ih d0 h
        rw [show d0 + 1 + e = (d0 + e) + 1 by omega]
        simpa only [scan] using this

/-- parenthesis depth after the first `i` characters (`none` if it went negative before) -/
def depthAt (s : Str) (i : Nat) : Option Nat := scan 0 (parens (s.take i))

theorem take_eq_slice (s : Str) (k : Nat) : s.take k = slice s 0 k := by simp [slice]

theorem depthAt_split (s : Str) (a b : Nat) (h : a ≤ b) :
    depthAt s b = (depthAt s a).bind (fun d => scan d (parens (slice s a b))) := by
  unfold depthAt
  rw [take_eq_slice, take_eq_slice, slice_split s 0 a b (Nat.zero_le _) h, parens_append, scan_append]

/-- the depth is the number of '(' minus the number of ')' of the prefix -/
theorem depthAt_count (s : Str) (i d : Nat) (h : depthAt s i = some d) :
    (s.take i).count '(' = d + (s.take i).count ')' := by
  have := scan_counts 0 d (s.take i) h
  omega

theorem delim_not_space {c : Char} (h : isDelim c = true) : pyIsSpace c = false := by
  simp [isDelim] at h
  rcases h with (rfl | rfl) | rfl <;> decide

theorem getElem?_lt_of_some {α} {l : List α} {j : Nat} {c : α} (h : l[j]? = some c) : j < l.length := by
  rcases Nat.lt_or_ge j l.length with h' | h'
  · exact h'
  · simp [List.getElem?_eq_none h'] at h

/-- A non-tag token is blanks around exactly one character, the one at `delimiter_index`. -/
theorem token_shape (s : Str) (t : Token) (h : TokOK s t) (htag : t.isTag = false) :
    ∃ ch, ((s.drop t.start).take (t.stop - t.start))[delimIndex ((s.drop t.start).take (t.stop - t.start))]? = some ch ∧
      s[t.start + delimIndex ((s.drop t.start).take (t.stop - t.start))]? = some ch ∧
      t.start + delimIndex ((s.drop t.start).take (t.stop - t.start)) < t.stop ∧
      (∀ k c, t.start ≤ k → k < t.stop →
        k ≠ t.start + delimIndex ((s.drop t.start).take (t.stop - t.start)) → s[k]? = some c → c = ' ') := by
  obtain ⟨hlt, hle, hrest⟩ := h
  simp only [htag, Bool.false_eq_true, ↓reduceIte] at hrest
  obtain ⟨h1, h2⟩ := hrest
  have hlen : (slice s t.start t.stop).length = t.stop - t.start := slice_length s _ _ hle
  have hget : ∀ j, j < t.stop - t.start → (slice s t.start t.stop)[j]? = s[t.start + j]? :=
    fun j hj => slice_getElem? s _ _ _ hj
  show ∃ ch, (slice s t.start t.stop)[delimIndex (slice s t.start t.stop)]? = some ch ∧
      s[t.start + delimIndex (slice s t.start t.stop)]? = some ch ∧
      t.start + delimIndex (slice s t.start t.stop) < t.stop ∧
      (∀ k c, t.start ≤ k → k < t.stop →
        k ≠ t.start + delimIndex (slice s t.start t.stop) → s[k]? = some c → c = ' ')
  generalize hp : slice s t.start t.stop = p at *
  unfold delimIndex
  cases hfi : List.findIdx? (fun c => !pyIsSpace c) p with
  | none =>
    simp only [Option.getD_none, Nat.add_zero]
    have hall : ∀ x ∈ p, pyIsSpace x = true := by
      have := List.findIdx?_eq_none_iff.mp hfi
      intro x hx; simpa using this x hx
    have h0 : 0 < p.length := by omega
    refine ⟨p[0], List.getElem?_eq_getElem h0, ?_, by omega, ?_⟩
    · have := hget 0 (by omega)
      simp only [Nat.add_zero] at this
      rw [← this]; exact List.getElem?_eq_getElem h0
    · intro k c a b _ d
      rcases h1 k c a b d with r | r
      · exact r
      · exfalso
        have hk : p[k - t.start]? = some c := by
          rw [hget (k - t.start) (by omega)]; rw [show t.start + (k - t.start) = k by omega]; exact d
        have := hall c (List.mem_of_getElem? hk)
        rw [delim_not_space r] at this; cases this
  | some j =>
    simp only [Option.getD_some]
    obtain ⟨hj, hjp, _⟩ := List.findIdx?_eq_some_iff_getElem.mp hfi
    have hjs : s[t.start + j]? = some p[j] := by
      rw [← hget j (by omega)]; exact List.getElem?_eq_getElem hj
    have hnb : p[j] ≠ ' ' := by
      intro e; rw [e] at hjp; revert hjp; decide
    refine ⟨p[j], List.getElem?_eq_getElem hj, hjs, by omega, ?_⟩
    intro k c a b ne d
    by_cases hc : c = ' '
    · exact hc
    · exfalso
      have := h2 k (t.start + j) c p[j] a b (by omega) (by omega) d hjs hc hnb
      exact ne this

theorem parens_slice_blank (s : Str) (a b : Nat)
    (h : ∀ k c, a ≤ k → k < b → s[k]? = some c → c = ' ') : parens (slice s a b) = [] := by
  apply parens_blank
  intro c hc
  obtain ⟨j, hj⟩ := List.getElem?_of_mem hc
  have hjl := getElem?_lt_of_some hj
  have hjb : j < b - a := by
    have : (slice s a b).length ≤ b - a := by unfold slice; simp; omega
    omega
  rw [slice_getElem? s a b j hjb] at hj
  exact h (a + j) c (by omega) (by omega) hj

def Node.start : Node → Nat
  | .tag a _ => a
  | .group a _ _ => a

def Node.stop : Node → Nat
  | .tag _ b => b
  | .group _ b _ => b

mutual
/-- `NodeNest s d n`: node `n` of the tree of `s` sits at parenthesis depth `d`; a group runs from a
'(' to its matching ')' (the text strictly between them is balanced), its children are inside it, one
level deeper. -/
def NodeNest (s : Str) : Nat → Node → Prop
  | d, .tag a b => depthAt s a = some d ∧ depthAt s b = some d ∧ a < b ∧ b ≤ s.length
  | d, .group a b kids =>
      s[a]? = some '(' ∧ s[b - 1]? = some ')' ∧ a + 1 < b ∧ depthAt s a = some d ∧
      balanced (slice s (a + 1) (b - 1)) ∧
      (∀ k ∈ kids, a < k.start ∧ k.stop < b) ∧ ListNest s (d + 1) kids
def ListNest (s : Str) : Nat → List Node → Prop
  | _, [] => True
  | d, n :: ns => NodeNest s d n ∧ ListNest s d ns
end

theorem listNest_iff (s : Str) (d : Nat) (l : List Node) :
    ListNest s d l ↔ ∀ n ∈ l, NodeNest s d n := by
  induction l with
  | nil => simp [ListNest]
  | cons n ns ih => simp [ListNest, ih]

/-- invariant of the group stack at token boundary `p`; `idx` = number of frames above -/
def FramesOK (s : Str) (p : Nat) : Nat → List Frame → Prop
  | _, [] => True
  | idx, f :: fs =>
      s[f.start]? = some '(' ∧ f.start < p ∧ depthAt s f.start = some fs.length ∧
      scan 0 (parens (slice s (f.start + 1) p)) = some idx ∧
      (∀ n ∈ f.kids, NodeNest s (fs.length + 1) n ∧ f.start < n.start ∧ n.stop ≤ p) ∧
      (∀ f2 ∈ fs, f2.start < f.start) ∧
      FramesOK s p (idx + 1) fs

theorem frames_lt (s : Str) (p idx : Nat) (fs : List Frame) (h : FramesOK s p idx fs) :
    ∀ f ∈ fs, f.start < p := by
  induction fs generalizing idx with
  | nil => simp
  | cons f fs ih =>
    intro g hg
    simp only [List.mem_cons] at hg
    rcases hg with rfl | hg
    · exact h.2.1
    · exact ih _ h.2.2.2.2.2.2 g hg

theorem frames_advance (s : Str) (p p' : Nat) (hp : p ≤ p') (fs : List Frame) (idx idx' : Nat)
    (h : FramesOK s p idx fs)
    (hs : ∀ k, scan (idx + k) (parens (slice s p p')) = some (idx' + k)) :
    FramesOK s p' idx' fs := by
  induction fs generalizing idx idx' with
  | nil => trivial
  | cons f fs ih =>
    obtain ⟨h1, h2, h3, h4, h5, h6, h7⟩ := h
    refine ⟨h1, by omega, h3, ?_, ?_, h6, ?_⟩
    · rw [slice_split s (f.start + 1) p p' (by omega) hp, parens_append, scan_append, h4]
      simpa using hs 0
    · intro n hn
      obtain ⟨a, b, c⟩ := h5 n hn
      exact ⟨a, b, by omega⟩
    · apply ih (idx + 1) (idx' + 1) h7
      intro k
      have := hs (k + 1)
      rwa [show idx + (k + 1) = idx + 1 + k by omega, show idx' + (k + 1) = idx' + 1 + k by omega] at this

theorem frames_addkid (s : Str) (p idx : Nat) (f : Frame) (fs : List Frame) (n : Node)
    (h : FramesOK s p idx (f :: fs)) (hn : NodeNest s (fs.length + 1) n)
    (h1 : f.start < n.start) (h2 : n.stop ≤ p) :
    FramesOK s p idx ({ f with kids := n :: f.kids } :: fs) := by
  obtain ⟨a1, a2, a3, a4, a5, a6, a7⟩ := h
  refine ⟨a1, a2, a3, a4, ?_, a6, a7⟩
  intro m hm
  simp only [List.mem_cons] at hm
  rcases hm with rfl | hm
  · exact ⟨hn, h1, h2⟩
  · exact a5 m hm

theorem tiles_le (toks : List Token) (a b : Nat) (h : Tiles toks a b) : a ≤ b := by
  induction toks generalizing a with
  | nil => simp only [Tiles] at h; omega
  | cons u us ih =>
    obtain ⟨g1, g2, g3⟩ := h
    have := ih _ g3
    omega

theorem buildToks_nest (s : Str) (toks : List Token) :
    ∀ (p : Nat) (top : List Node) (stack : List Frame),
    Tiles toks p s.length → (∀ t ∈ toks, TokOK s t) →
    depthAt s p = some stack.length → FramesOK s p 0 stack →
    (∀ n ∈ top, NodeNest s 0 n) →
    ∀ r, buildToks s top stack toks = .ok r → ∀ n ∈ r, NodeNest s 0 n := by
  induction toks with
  | nil =>
    intro p top stack hT _ _ _ htop r hr
    cases stack with
    | nil => simp [buildToks] at hr; subst hr; simpa using htop
    | cons f fs => simp [buildToks] at hr
  | cons t ts ih =>
    intro p top stack hT hok hd hfr htop r hr
    obtain ⟨hs, hlt, hT'⟩ := hT
    subst hs
    have htok := hok t (by simp)
    have hok' : ∀ u ∈ ts, TokOK s u := fun u hu => hok u (by simp [hu])
    have hpar := parens_token s t htok
    have hdstop : ∀ B, parens (slice s t.start t.stop) = B →
        depthAt s t.stop = scan stack.length B := by
      intro B hB; rw [depthAt_split s t.start t.stop (by omega), hd, hB]; rfl
    by_cases htag : t.isTag = true
    · have hp0 : parens (slice s t.start t.stop) = [] := by rw [hpar]; simp [tokParen, htag]
      have hd' : depthAt s t.stop = some stack.length := by rw [hdstop [] hp0]; rfl
      have hfr' : FramesOK s t.stop 0 stack :=
        frames_advance s t.start t.stop (by omega) stack 0 0 hfr (by intro k; rw [hp0]; rfl)
      have hnode : NodeNest s stack.length (Node.tag t.start t.stop) := by
        simp only [NodeNest]; exact ⟨hd, hd', hlt, htok.2.1⟩
      cases stack with
      | nil =>
        simp only [buildToks, stepTok, htag, ↓reduceIte] at hr
        refine ih t.stop _ _ hT' hok' hd' hfr' ?_ r hr
        intro n hn
        simp only [List.mem_cons] at hn
        rcases hn with rfl | hn
        · exact hnode
        · exact htop n hn
      | cons f fs =>
        simp only [buildToks, stepTok, htag, ↓reduceIte] at hr
        refine ih t.stop _ _ hT' hok' (by simpa using hd') ?_ htop r hr
        exact frames_addkid s t.stop 0 f fs _ hfr' (by simpa using hnode)
          (by simpa [Node.start] using hfr.2.1) (by simp [Node.stop])
    · have htag' : t.isTag = false := by simpa using htag
      obtain ⟨ch, hch, hsq, hq, hblank⟩ := token_shape s t htok htag'
      have hB : parens (slice s t.start t.stop) = (parenOf ch).toList := by
        rw [hpar]; simp [tokParen, htag', hch]
      generalize hqdef : t.start + delimIndex ((s.drop t.start).take (t.stop - t.start)) = q at *
      have hpq : t.start ≤ q := by omega
      have hpre : parens (slice s t.start q) = [] :=
        parens_slice_blank s _ _ (fun k c a b d => hblank k c a (by omega) (by omega) d)
      have hpost : parens (slice s (q + 1) t.stop) = [] :=
        parens_slice_blank s _ _ (fun k c a b d => hblank k c (by omega) b (by omega) d)
      have hdq : depthAt s q = some stack.length := by
        rw [depthAt_split s t.start q hpq, hd, hpre]; rfl
      by_cases ho : ch = '('
      · subst ho
        have hd' : depthAt s t.stop = some (stack.length + 1) := by
          rw [hdstop _ hB]; rfl
        simp only [buildToks, stepTok, htag', Bool.false_eq_true, ↓reduceIte, hch,
          beq_self_eq_true, hqdef] at hr
        refine ih t.stop _ _ hT' hok' (by simpa using hd') ?_ htop r hr
        refine ⟨hsq, hq, hdq, by rw [hpost]; rfl, by simp, ?_, ?_⟩
        · intro f2 hf2
          have := frames_lt s _ _ _ hfr f2 hf2
          show f2.start < q
          omega
        · apply frames_advance s t.start t.stop (by omega) stack 0 1 hfr
          intro k; rw [hB]
          simp [parenOf, scan]; omega
      · by_cases hcl : ch = ')'
        · subst hcl
          have h2 : (')' == '(') = false := by decide
          have hBf : parens (slice s t.start t.stop) = [false] := by rw [hB]; rfl
          cases stack with
          | nil =>
            simp [buildToks, stepTok, htag', hch, h2] at hr
          | cons f fs =>
            obtain ⟨a1, a2, a3, a4, a5, a6, a7⟩ := hfr
            have hd' : depthAt s t.stop = some fs.length := by
              rw [hdstop _ hBf]; rfl
            have hg : NodeNest s fs.length (Node.group f.start (q + 1) f.kids.reverse) := by
              simp only [NodeNest]
              refine ⟨a1, by simpa using hsq, by omega, a3, ?_, ?_, ?_⟩
              · unfold balanced
                rw [show q + 1 - 1 = q by omega,
                  slice_split s (f.start + 1) t.start q (by omega) hpq, parens_append, hpre,
                  List.append_nil]
                exact a4
              · intro k hk
                have := a5 k (by simpa using hk)
                omega
              · exact (listNest_iff _ _ _).mpr (fun n hn => (a5 n (by simpa using hn)).1)
            cases fs with
            | nil =>
              simp only [buildToks, stepTok, htag', Bool.false_eq_true, ↓reduceIte, hch, h2,
                beq_self_eq_true, hqdef] at hr
              refine ih t.stop _ _ hT' hok' hd' trivial ?_ r hr
              intro n hn
              simp only [List.mem_cons] at hn
              rcases hn with rfl | hn
              · exact hg
              · exact htop n hn
            | cons f2 fs2 =>
              simp only [buildToks, stepTok, htag', Bool.false_eq_true, ↓reduceIte, hch, h2,
                beq_self_eq_true, hqdef] at hr
              refine ih t.stop _ _ hT' hok' (by simpa using hd') ?_ htop r hr
              have hadv : FramesOK s t.stop 0 (f2 :: fs2) := by
                apply frames_advance s t.start t.stop (by omega) _ 1 0 a7
                intro k; rw [hBf, show 1 + k = k + 1 by omega]
                simp [scan]
              exact frames_addkid s t.stop 0 f2 fs2 _ hadv (by simpa using hg)
                (by simpa [Node.start] using a6 f2 (by simp)) (by simp [Node.stop]; omega)
        · have h1 : parenOf ch = none := by simp [parenOf, ho, hcl]
          have h2 : (ch == '(') = false := by simpa using ho
          have h3 : (ch == ')') = false := by simpa using hcl
          have hp0 : parens (slice s t.start t.stop) = [] := by rw [hB, h1]; rfl
          have hd' : depthAt s t.stop = some stack.length := by rw [hdstop [] hp0]; rfl
          have hfr' : FramesOK s t.stop 0 stack :=
            frames_advance s t.start t.stop (by omega) stack 0 0 hfr (by intro k; rw [hp0]; rfl)
          simp only [buildToks, stepTok, htag', Bool.false_eq_true, ↓reduceIte, hch, h2, h3] at hr
          exact ih t.stop _ _ hT' hok' hd' hfr' htop r hr

theorem depthAt_zero (s : Str) : depthAt s 0 = some 0 := by simp [depthAt, parens, scan]

/-- a group's own text is balanced and the depth is back at the entry depth right after it -/
theorem group_balanced (s : Str) (d a b : Nat) (kids : List Node)
    (h : NodeNest s d (.group a b kids)) :
    balanced (slice s a b) ∧ depthAt s b = some d := by
  simp only [NodeNest] at h
  obtain ⟨h1, h2, h3, h4, h5, _, _⟩ := h
  have e1 : parens (slice s a (a + 1)) = [true] := by
    have : slice s a (a + 1) = ['('] := by
      unfold slice
      rw [show a + 1 - a = 1 by omega, List.take_one, List.head?_drop, h1]; rfl
    rw [this]; rfl
  have e2 : parens (slice s (b - 1) b) = [false] := by
    have : slice s (b - 1) b = [')'] := by
      unfold slice
      rw [show b - (b - 1) = 1 by omega, List.take_one, List.head?_drop, h2]; rfl
    rw [this]; rfl
  have e : parens (slice s a b) = true :: (parens (slice s (a + 1) (b - 1)) ++ [false]) := by
    rw [slice_split s a (a + 1) b (by omega) (by omega),
      slice_split s (a + 1) (b - 1) b (by omega) (by omega), parens_append, parens_append, e1, e2]
    rfl
  have hin : scan 1 (parens (slice s (a + 1) (b - 1)) ++ [false]) = some 0 := by
    rw [scan_append, show (1 : Nat) = 0 + 1 from rfl, scan_shift 0 0 1 _ h5]
    rfl
  constructor
  · unfold balanced; rw [e]; exact hin
  · rw [depthAt_split s a b (by omega), h4, e]
    show scan (d + 1) _ = some d
    have := scan_shift 1 0 d _ hin
    rwa [show 1 + d = d + 1 by omega, Nat.zero_add] at this

namespace C02

/-- **Nesting.** For a balanced text the tree exists and every node sits at its parenthesis depth:
a tag at tree depth `d` starts (and ends) at parenthesis depth `d`; a group runs from a '(' at depth
`d` to its matching ')' (the text strictly between is balanced) and contains its children, which are
one level deeper. -/
theorem nesting_depth (s : Str) (h : balanced s) :
    ∃ r, build s = .ok r ∧ construct s = r ∧ ListNest s 0 r := by
  obtain ⟨r, hr⟩ := (build_ok_iff_balanced s).mpr h
  refine ⟨r, hr, by simp [construct, hr], (listNest_iff _ _ _).mpr ?_⟩
  exact buildToks_nest s (split s) 0 [] [] (tiling s).1 (tiling s).2 (depthAt_zero s) trivial
    (by simp) r hr

/-- reading of `depthAt`: the depth of a tag is (#'(' − #')') of the text before it -/
theorem nesting_depth_count (s : Str) (d a b : Nat) (h : NodeNest s d (.tag a b)) :
    (s.take a).count '(' = d + (s.take a).count ')' := by
  simp only [NodeNest] at h
  exact depthAt_count s a d h.1

/-- a group span is itself a balanced text and closes exactly at its last character -/
theorem nesting_group_span (s : Str) (d a b : Nat) (kids : List Node)
    (h : NodeNest s d (.group a b kids)) :
    s[a]? = some '(' ∧ s[b - 1]? = some ')' ∧ balanced (slice s a b) ∧
      balanced (slice s (a + 1) (b - 1)) ∧ depthAt s a = some d ∧ depthAt s b = some d := by
  have hb := group_balanced s d a b kids h
  simp only [NodeNest] at h
  exact ⟨h.1, h.2.1, hb.1, h.2.2.2.2.1, h.2.2.2.1, hb.2⟩

example : ListNest "a, ( b ,(c), ),d".toList 0 (construct "a, ( b ,(c), ),d".toList) := by
  obtain ⟨r, _, h2, h3⟩ := nesting_depth "a, ( b ,(c), ),d".toList (by decide)
  rw [h2]; exact h3

end C02

end HedVerif

namespace HedVerif
open Tok Tree

/-! ### tags = maximal trimmed runs -/

/-- split at the delimiters `,()` (like `re.split('[,()]', s)`): first piece and the other pieces -/
def splitDelim : Str → Str × List Str
  | [] => ([], [])
  | c :: cs =>
    if isDelim c then ([], (splitDelim cs).1 :: (splitDelim cs).2)
    else (c :: (splitDelim cs).1, (splitDelim cs).2)

/-- the span of piece `p` starting at offset `o`, with the U+0020 at both ends removed;
`none` when the piece is empty or all blank -/
def trimSpan (o : Nat) (p : Str) : Option (Nat × Nat) :=
  let lead := (p.takeWhile (· == ' ')).length
  let trail := (p.reverse.takeWhile (· == ' ')).length
  if lead = p.length then none else some (o + lead, o + p.length - trail)

def tagSpecFrom : Nat → List Str → List (Nat × Nat)
  | _, [] => []
  | o, p :: ps => (trimSpan o p).toList ++ tagSpecFrom (o + p.length + 1) ps

/-- the declarative description of the tag spans -/
def tagSpec (s : Str) : List (Nat × Nat) :=
  tagSpecFrom 0 ((splitDelim s).1 :: (splitDelim s).2)

/-- one-pass form of `tagSpec`: `cur` = (first non-blank, one past the last non-blank) of the
current piece -/
def tagScan : Option (Nat × Nat) → Nat → Str → List (Nat × Nat)
  | cur, _, [] => cur.toList
  | cur, i, c :: cs =>
    if isDelim c then cur.toList ++ tagScan none (i + 1) cs
    else if c == ' ' then tagScan cur (i + 1) cs
    else tagScan (some ((cur.map (·.1)).getD i, i + 1)) (i + 1) cs

theorem trimSpan_nil (o : Nat) : trimSpan o [] = none := by simp [trimSpan]

theorem lead_le (p : Str) : (p.takeWhile (· == ' ')).length ≤ p.length :=
  (List.takeWhile_sublist _).length_le

theorem trimSpan_snoc_blank (o : Nat) (p : Str) : trimSpan o (p ++ [' ']) = trimSpan o p := by
  unfold trimSpan
  have h1 := lead_le p
  have h2 := lead_le p.reverse
  simp only [List.takeWhile_append, List.reverse_append, List.reverse_cons, List.reverse_nil,
    List.nil_append, List.cons_append, List.takeWhile_cons, beq_self_eq_true, ↓reduceIte,
    List.length_append, List.length_cons, List.length_nil, List.takeWhile_nil, List.length_reverse] at *
  split <;> split <;> simp_all <;> omega

theorem trimSpan_snoc_nonblank (o : Nat) (p : Str) (c : Char) (hc : c ≠ ' ') :
    trimSpan o (p ++ [c]) =
      some (((trimSpan o p).map (·.1)).getD (o + p.length), o + p.length + 1) := by
  unfold trimSpan
  have h1 := lead_le p
  have hc' : (c == ' ') = false := by simpa using hc
  simp only [List.takeWhile_append, List.reverse_append, List.reverse_cons, List.reverse_nil,
    List.nil_append, List.cons_append, List.takeWhile_cons, hc', Bool.false_eq_true, ↓reduceIte,
    List.length_append, List.length_cons, List.length_nil] at *
  split <;> split <;> simp_all <;> omega

theorem tagScan_eq_spec (cs : Str) : ∀ (pre : Str) (o : Nat),
    tagScan (trimSpan o pre) (o + pre.length) cs =
      tagSpecFrom o ((pre ++ (splitDelim cs).1) :: (splitDelim cs).2) := by
  induction cs with
  | nil => intro pre o; simp [tagScan, splitDelim, tagSpecFrom]
  | cons c cs ih =>
    intro pre o
    by_cases hd : isDelim c = true
    · have := ih [] (o + pre.length + 1)
      simp only [trimSpan_nil, List.length_nil, Nat.add_zero, List.nil_append] at this
      simp [tagScan, splitDelim, hd, tagSpecFrom, this]
    · have hd' : isDelim c = false := by simpa using hd
      by_cases hb : c = ' '
      · subst hb
        have := ih (pre ++ [' ']) o
        rw [trimSpan_snoc_blank] at this
        simp only [List.length_append, List.length_cons, List.length_nil, Nat.zero_add,
          List.append_assoc, List.cons_append, List.nil_append] at this
        simp only [tagScan, splitDelim, hd', Bool.false_eq_true, ↓reduceIte, beq_self_eq_true]
        rw [← this]; rfl
      · have hb' : (c == ' ') = false := by simpa using hb
        have := ih (pre ++ [c]) o
        rw [trimSpan_snoc_nonblank o pre c hb] at this
        simp only [List.length_append, List.length_cons, List.length_nil, Nat.zero_add,
          List.append_assoc, List.cons_append, List.nil_append] at this
        simp only [tagScan, splitDelim, hd', hb', Bool.false_eq_true, ↓reduceIte]
        rw [← this]; rfl

/-- spans of the tag tokens -/
def tagsOf (l : List Token) : List (Nat × Nat) :=
  (l.filter (·.isTag)).map (fun t => (t.start, t.stop))

theorem tagsOf_append (a b : List Token) : tagsOf (a ++ b) = tagsOf a ++ tagsOf b := by
  simp [tagsOf]

theorem finish_tags (st : St) (n : Nat) :
    tagsOf (finish st n) = tagsOf st.out.reverse ++
      (match st.tagStart with | some ts => [(ts, n - st.spacing)] | none => []) := by
  unfold finish
  cases st.lastEnd <;> cases st.tagStart <;> simp only [] <;> (repeat' split) <;>
    simp [tagsOf]

/-- abstraction relation between the tokenizer state and the `tagScan` state -/
def TagRel (st : St) (i : Nat) (cur : Option (Nat × Nat)) : Prop :=
  (st.found = true ∧ st.tagStart = none ∧ cur = none) ∨
  (st.found = false ∧ ∃ ts, st.tagStart = some ts ∧ cur = some (ts, i - st.spacing))

theorem step_tags (st : St) (i : Nat) (c : Char) (cur : Option (Nat × Nat))
    (h : TagRel st i cur) :
    TagRel (step st i c) (i + 1)
        (if isDelim c then none else if c == ' ' then cur
         else some ((cur.map (·.1)).getD i, i + 1)) ∧
      tagsOf (step st i c).out.reverse =
        tagsOf st.out.reverse ++ (if isDelim c then cur.toList else []) := by
  by_cases hb : c = ' '
  · subst hb
    have : isDelim ' ' = false := by decide
    simp only [step, beq_self_eq_true, ↓reduceIte, this, Bool.false_eq_true, List.append_nil,
      and_true]
    rcases h with ⟨h1, h2, h3⟩ | ⟨h1, ts, h2, h3⟩
    · exact Or.inl ⟨h1, h2, h3⟩
    · refine Or.inr ⟨h1, ts, h2, ?_⟩
      rw [h3]; simp
  · have hb' : (c == ' ') = false := by simpa using hb
    by_cases hd : isDelim c = true
    · simp only [step, hb', Bool.false_eq_true, ↓reduceIte, hd]
      rcases h with ⟨h1, h2, h3⟩ | ⟨h1, ts, h2, h3⟩
      · subst h3
        simp only [h1, ↓reduceIte]
        cases st.lastEnd with
        | none => exact ⟨Or.inl ⟨rfl, h2, rfl⟩, by simp⟩
        | some le =>
          simp only []
          split
          · exact ⟨Or.inl ⟨rfl, h2, rfl⟩, by simp [tagsOf]⟩
          · exact ⟨Or.inl ⟨rfl, h2, rfl⟩, by simp⟩
      · subst h3
        simp only [h1, Bool.false_eq_true, ↓reduceIte, h2]
        exact ⟨Or.inl ⟨rfl, rfl, rfl⟩, by simp [tagsOf]⟩
    · have hd' : isDelim c = false := by simpa using hd
      simp only [step, hb', Bool.false_eq_true, ↓reduceIte, hd', List.append_nil]
      rcases h with ⟨h1, h2, h3⟩ | ⟨h1, ts, h2, h3⟩
      · subst h3
        simp only [h1, ↓reduceIte]
        cases st.lastEnd with
        | none => exact ⟨Or.inr ⟨rfl, i, by simp [h2], by simp⟩, rfl⟩
        | some le =>
          simp only []
          split
          · exact ⟨Or.inr ⟨rfl, i, by simp [h2], by simp⟩, by simp [tagsOf]⟩
          · exact ⟨Or.inr ⟨rfl, i, by simp [h2], by simp⟩, rfl⟩
      · subst h3
        simp only [h1, Bool.false_eq_true, ↓reduceIte, h2]
        exact ⟨Or.inr ⟨rfl, ts, rfl, by simp⟩, trivial⟩

theorem run_tags (cs : Str) : ∀ (st : St) (i : Nat) (cur : Option (Nat × Nat)),
    TagRel st i cur →
    tagsOf (finish (run st i cs) (i + cs.length)) = tagsOf st.out.reverse ++ tagScan cur i cs := by
  induction cs with
  | nil =>
    intro st i cur h
    simp only [run, List.length_nil, Nat.add_zero, finish_tags, tagScan]
    rcases h with ⟨_, h2, h3⟩ | ⟨_, ts, h2, h3⟩ <;> simp [h2, h3]
  | cons c cs ih =>
    intro st i cur h
    obtain ⟨hr, ht⟩ := step_tags st i c cur h
    have := ih (step st i c) (i + 1) _ hr
    simp only [run, List.length_cons, tagScan]
    rw [show i + (cs.length + 1) = i + 1 + cs.length by omega, this, ht]
    by_cases hd : isDelim c = true
    · simp [hd]
    · have hd' : isDelim c = false := by simpa using hd
      by_cases hb : (c == ' ') = true
      · simp [hd', hb]
      · simp [hd', hb]

namespace C02

/-- **Tags.** The tag tokens of `split_hed_string` are exactly, in order, the maximal runs of
non-delimiter characters that contain a non-blank, with the U+0020 at both ends removed. -/
theorem tags_are_maximal_trimmed_runs (s : Str) :
    ((split s).filter (·.isTag)).map (fun t => (t.start, t.stop)) = tagSpec s := by
  have h := run_tags s {} 0 none (Or.inl ⟨rfl, rfl, rfl⟩)
  have g := tagScan_eq_spec s [] 0
  simp only [trimSpan_nil, List.length_nil, Nat.add_zero, List.nil_append] at g
  simp only [Nat.zero_add] at h
  unfold tagSpec
  rw [← g]
  simpa [tagsOf, split, finalSt] using h

example : tagSpec " a b , (c,  ) ,,d ".toList = [(1, 4), (8, 9), (16, 17)] := by decide
example : (split " a b , (c,  ) ,,d ".toList).length = 11 := by decide

end C02

end HedVerif

namespace HedVerif
open Tok Tree

/-! ### round trip: parsing a printed forest gives the forest back -/

/-- abstract forest: a tag carries its text, a group its children -/
inductive ATree where
  | tag (text : Str)
  | group (kids : List ATree)
deriving Repr, Inhabited

mutual
/-- print like `HedGroup.__str__`: children joined by ",", groups wrapped in "(" ")" -/
def renderNode : ATree → Str
  | .tag w => w
  | .group kids => '(' :: (renderList kids ++ [')'])
def renderList : List ATree → Str
  | [] => []
  | [n] => renderNode n
  | n :: m :: ns => renderNode n ++ (',' :: renderList (m :: ns))
end

/-- a printable tag text: non-empty, no delimiter, no blank at either end -/
def ValidText (w : Str) : Prop :=
  w ≠ [] ∧ (∀ c ∈ w, isDelim c = false) ∧ w.head? ≠ some ' ' ∧ w.getLast? ≠ some ' '

mutual
def ValidNode : ATree → Prop
  | .tag w => ValidText w
  | .group kids => ValidList kids
def ValidList : List ATree → Prop
  | [] => True
  | n :: ns => ValidNode n ∧ ValidList ns
end

mutual
/-- the expected tokens of a printed node starting at offset `i` -/
def toksNode : Nat → ATree → List Token
  | i, .tag w => [⟨true, i, i + w.length⟩]
  | i, .group kids =>
      ⟨false, i, i + 1⟩ :: (toksList (i + 1) kids ++
        [⟨false, i + 1 + (renderList kids).length, i + 1 + (renderList kids).length + 1⟩])
def toksList : Nat → List ATree → List Token
  | _, [] => []
  | i, [n] => toksNode i n
  | i, n :: m :: ns =>
      toksNode i n ++ (⟨false, i + (renderNode n).length, i + (renderNode n).length + 1⟩ ::
        toksList (i + (renderNode n).length + 1) (m :: ns))
end

mutual
/-- the expected parse tree of a printed node starting at offset `i` -/
def nodeOf : Nat → ATree → Node
  | i, .tag w => .tag i (i + w.length)
  | i, .group kids => .group i (i + 1 + (renderList kids).length + 1) (nodesOf (i + 1) kids)
def nodesOf : Nat → List ATree → List Node
  | _, [] => []
  | i, n :: ns => nodeOf i n :: nodesOf (i + (renderNode n).length + 1) ns
end

theorem run_append (a b : Str) : ∀ (st : St) (i : Nat),
    run st i (a ++ b) = run (run st i a) (i + a.length) b := by
  induction a with
  | nil => intro st i; simp [run]
  | cons c cs ih =>
    intro st i
    simp only [List.cons_append, run, List.length_cons, ih]
    rw [show i + 1 + cs.length = i + (cs.length + 1) by omega]

/-- state between items: after a delimiter (or at the very start) -/
def DSt (st : St) (i : Nat) : Prop :=
  st.found = true ∧ st.tagStart = none ∧ ∃ le, st.lastEnd = some le ∧ (le = i ∨ le + 1 = i)

/-- state right after a tag text (no trailing blank) -/
def TSt (st : St) : Prop :=
  st.found = false ∧ st.lastEnd = none ∧ st.spacing = 0 ∧ ∃ ts, st.tagStart = some ts

theorem step_delim (st : St) (i : Nat) (c : Char) (hd : isDelim c = true)
    (h : DSt st i ∨ TSt st) :
    DSt (step st i c) (i + 1) ∧ finish (step st i c) (i + 1) = finish st i ++ [⟨false, i, i + 1⟩] := by
  have hb : (c == ' ') = false := by simpa using isDelim_ne_space hd
  simp only [step, hb, Bool.false_eq_true, ↓reduceIte, hd]
  rcases h with ⟨h1, h2, le, h3, h4⟩ | ⟨h1, h2, h3, ts, h4⟩
  · simp only [h1, ↓reduceIte, h3]
    by_cases hle : le = i
    · subst hle
      simp [DSt, finish, h2, h3]
    · have : (le != i) = true := by simpa using hle
      have hle' : ¬ i = le := fun e => hle e.symm
      simp [this, DSt, finish, h2, h3, hle']
  · simp [h1, h4, DSt, finish, h2, h3]

/-- trailing-blank counter of the tokenizer over a delimiter-free stretch -/
def trailSp : Nat → Str → Nat
  | sp, [] => sp
  | sp, c :: cs => if c == ' ' then trailSp (sp + 1) cs else trailSp 0 cs

theorem trailSp_zero (u : Str) : ∀ (sp : Nat) (c : Char), u.getLast? = some c → c ≠ ' ' →
    trailSp sp u = 0 := by
  induction u with
  | nil => intro sp c h; simp at h
  | cons a r ih =>
    intro sp c h hc
    cases r with
    | nil =>
      simp at h; subst h
      have : (a == ' ') = false := by simpa using hc
      simp [trailSp, this]
    | cons b r' =>
      have h' : (b :: r').getLast? = some c := by simpa [List.getLast?_cons_cons] using h
      simp only [trailSp]
      split
      · exact ih _ c h' hc
      · exact ih _ c h' hc

/-- inside a tag, non-delimiter characters only move the trailing-blank counter -/
theorem run_tagchars (u : Str) : ∀ (st : St) (i : Nat), st.found = false →
    (∃ ts, st.tagStart = some ts) → (∀ c ∈ u, isDelim c = false) →
    run st i u = { st with spacing := trailSp st.spacing u } := by
  induction u with
  | nil => intro st i _ _ _; simp [run, trailSp]
  | cons c cs ih =>
    intro st i hf hts hu
    obtain ⟨ts, hts⟩ := hts
    have hd : isDelim c = false := hu c (by simp)
    have hu' : ∀ x ∈ cs, isDelim x = false := fun x hx => hu x (by simp [hx])
    simp only [run, trailSp]
    by_cases hb : (c == ' ') = true
    · have : step st i c = { st with spacing := st.spacing + 1 } := by simp [step, hb]
      rw [this, ih { st with spacing := st.spacing + 1 } (i + 1) hf ⟨ts, hts⟩ hu']
      simp [hb]
    · have hb' : (c == ' ') = false := by simpa using hb
      have : step st i c = { st with spacing := 0 } := by
        cases st
        simp_all [step]
      rw [this, ih { st with spacing := 0 } (i + 1) hf ⟨ts, hts⟩ hu']
      simp [hb']

theorem run_text (w : Str) (hw : ValidText w) (st : St) (i : Nat) (h : DSt st i) :
    TSt (run st i w) ∧
      finish (run st i w) (i + w.length) = finish st i ++ [⟨true, i, i + w.length⟩] := by
  obtain ⟨hne, hnd, hhd, hlast⟩ := hw
  obtain ⟨h1, h2, le, h3, h4⟩ := h
  cases w with
  | nil => exact absurd rfl hne
  | cons c u =>
    have hd : isDelim c = false := hnd c (by simp)
    have hb : (c == ' ') = false := by simpa using hhd
    have hu : ∀ x ∈ u, isDelim x = false := fun x hx => hnd x (by simp [hx])
    have hsp : trailSp 0 u = 0 := by
      cases u with
      | nil => rfl
      | cons b r =>
        cases hl : (b :: r).getLast? with
        | none => simp at hl
        | some x =>
          apply trailSp_zero _ 0 x hl
          intro e; subst e
          apply hlast
          simpa [List.getLast?_cons_cons] using hl
    simp only [run]
    by_cases hle : le = i
    · subst hle
      have hs : step st le c = { st with found := false, spacing := 0, lastEnd := none, tagStart := some le } := by
        simp [step, hb, hd, h1, h3, h2]
      rw [hs, run_tagchars u _ _ rfl ⟨le, rfl⟩ hu]
      simp [TSt, finish, hsp, h2, h3]
    · have hle' : ¬ i = le := fun e => hle e.symm
      have : (le != i) = true := by simpa using hle
      have hs : step st i c =
          { st with found := false, spacing := 0, lastEnd := none, tagStart := some i, out := ⟨false, le, i⟩ :: st.out } := by
        simp [step, hb, hd, h1, h3, h2, this]
      rw [hs, run_tagchars u _ _ rfl ⟨i, rfl⟩ hu]
      simp [TSt, finish, hsp, h2, h3, hle']

theorem run_group_eq (R : Str) (st : St) (i : Nat) :
    run st i ('(' :: (R ++ [')'])) =
      step (run (step st i '(') (i + 1) R) (i + 1 + R.length) ')' := by
  simp only [run, run_append]

mutual
theorem run_node : ∀ (n : ATree), ValidNode n → ∀ (st : St) (i : Nat), DSt st i →
    (DSt (run st i (renderNode n)) (i + (renderNode n).length) ∨ TSt (run st i (renderNode n))) ∧
    finish (run st i (renderNode n)) (i + (renderNode n).length) = finish st i ++ toksNode i n
  | .tag w, hv, st, i, h => by
    simp only [renderNode, toksNode]
    have := run_text w (by simpa [ValidNode] using hv) st i h
    exact ⟨Or.inr this.1, this.2⟩
  | .group kids, hv, st, i, h => by
    have ih := run_list kids (by simpa [ValidNode] using hv)
    have e : i + (renderNode (.group kids)).length = i + 1 + (renderList kids).length + 1 := by
      simp [renderNode]; omega
    rw [e]
    simp only [renderNode, toksNode, run_group_eq]
    obtain ⟨a1, a2⟩ := step_delim st i '(' (by decide) (Or.inl h)
    obtain ⟨b1, b2⟩ := ih _ (i + 1) a1
    obtain ⟨c1, c2⟩ := step_delim _ (i + 1 + (renderList kids).length) ')' (by decide) b1
    refine ⟨Or.inl c1, ?_⟩
    rw [c2, b2, a2]
    simp
theorem run_list : ∀ (l : List ATree), ValidList l → ∀ (st : St) (i : Nat), DSt st i →
    (DSt (run st i (renderList l)) (i + (renderList l).length) ∨ TSt (run st i (renderList l))) ∧
    finish (run st i (renderList l)) (i + (renderList l).length) = finish st i ++ toksList i l
  | [], _, st, i, h => by
    simp only [renderList, toksList, run, List.length_nil, Nat.add_zero, List.append_nil, and_true]
    exact Or.inl h
  | [n], hv, st, i, h => by
    simp only [renderList, toksList]
    exact run_node n (by simp only [ValidList] at hv; exact hv.1) st i h
  | n :: m :: ns, hv, st, i, h => by
    have hv' : ValidNode n ∧ ValidList (m :: ns) := by simpa only [ValidList] using hv
    obtain ⟨a1, a2⟩ := run_node n hv'.1 st i h
    obtain ⟨b1, b2⟩ := step_delim _ (i + (renderNode n).length) ',' (by decide) a1
    obtain ⟨c1, c2⟩ := run_list (m :: ns) hv'.2 _ (i + (renderNode n).length + 1) b1
    have e : i + (renderList (n :: m :: ns)).length =
        i + (renderNode n).length + 1 + (renderList (m :: ns)).length := by
      simp [renderList]; omega
    have er : run st i (renderList (n :: m :: ns)) =
        run (step (run st i (renderNode n)) (i + (renderNode n).length) ',')
          (i + (renderNode n).length + 1) (renderList (m :: ns)) := by
      simp only [renderList, run_append, run]
    rw [e, er]
    refine ⟨c1, ?_⟩
    rw [c2, b2, a2]
    simp [toksList]
end

theorem split_render (l : List ATree) (hv : ValidList l) : split (renderList l) = toksList 0 l := by
  have := (run_list l hv {} 0 ⟨rfl, rfl, 0, rfl, Or.inl rfl⟩).2
  simp only [Nat.zero_add] at this
  unfold split finalSt
  rw [this]
  simp [finish]

/-- text `u` occurs in `s` at offset `i` -/
def At (s : Str) (i : Nat) (u : Str) : Prop := ∀ j c, u[j]? = some c → s[i + j]? = some c

theorem at_cons (s : Str) (i : Nat) (c : Char) (u : Str) :
    At s i (c :: u) ↔ s[i]? = some c ∧ At s (i + 1) u := by
  constructor
  · intro h
    refine ⟨by simpa using h 0 c (by simp), ?_⟩
    intro j x hx
    have := h (j + 1) x (by simpa using hx)
    rwa [show i + (j + 1) = i + 1 + j by omega] at this
  · intro ⟨h1, h2⟩ j x hx
    cases j with
    | zero => simp at hx; subst hx; simpa using h1
    | succ j =>
      have := h2 j x (by simpa using hx)
      rwa [show i + 1 + j = i + (j + 1) by omega] at this

theorem at_append (s : Str) (i : Nat) (u v : Str) :
    At s i (u ++ v) ↔ At s i u ∧ At s (i + u.length) v := by
  induction u generalizing i with
  | nil => simp [At]
  | cons c cs ih =>
    simp only [List.cons_append, at_cons, ih, List.length_cons]
    rw [show i + 1 + cs.length = i + (cs.length + 1) by omega]
    exact and_assoc.symm

theorem at_self (s : Str) : At s 0 s := by intro j c h; simpa using h

def addNode (ts : List Node × List Frame) (n : Node) : List Node × List Frame :=
  match ts.2 with
  | [] => (n :: ts.1, [])
  | f :: fs => (ts.1, { f with kids := n :: f.kids } :: fs)

theorem foldl_addNode_nil (nodes : List Node) : ∀ (top : List Node),
    List.foldl addNode (top, []) nodes = (nodes.reverse ++ top, []) := by
  induction nodes with
  | nil => intro top; rfl
  | cons n ns ih => intro top; simp [List.foldl_cons, addNode, ih]

theorem foldl_addNode_cons (nodes : List Node) : ∀ (top : List Node) (f : Frame) (fs : List Frame),
    List.foldl addNode (top, f :: fs) nodes =
      (top, { f with kids := nodes.reverse ++ f.kids } :: fs) := by
  induction nodes with
  | nil => intro top f fs; rfl
  | cons n ns ih => intro top f fs; simp [List.foldl_cons, addNode, ih]

theorem portion_single (s : Str) (i : Nat) (c : Char) (h : s[i]? = some c) :
    List.take 1 (List.drop i s) = [c] := by
  rw [List.take_one, List.head?_drop, h]; rfl

theorem stepTok_tag (s : Str) (top : List Node) (stack : List Frame) (a b : Nat) :
    stepTok s top stack ⟨true, a, b⟩ = .ok (addNode (top, stack) (.tag a b)) := by
  cases stack <;> simp [stepTok, addNode]

theorem stepTok_open (s : Str) (top : List Node) (stack : List Frame) (i : Nat)
    (h : s[i]? = some '(') :
    stepTok s top stack ⟨false, i, i + 1⟩ = .ok (top, ⟨i, []⟩ :: stack) := by
  have hd : delimIndex ['('] = 0 := by decide
  simp [stepTok, portion_single s i '(' h, hd]

theorem stepTok_comma (s : Str) (top : List Node) (stack : List Frame) (i : Nat)
    (h : s[i]? = some ',') :
    stepTok s top stack ⟨false, i, i + 1⟩ = .ok (top, stack) := by
  have hd : delimIndex [','] = 0 := by decide
  simp [stepTok, portion_single s i ',' h, hd]

theorem stepTok_close (s : Str) (top : List Node) (f : Frame) (fs : List Frame) (i : Nat)
    (h : s[i]? = some ')') :
    stepTok s top (f :: fs) ⟨false, i, i + 1⟩ =
      .ok (addNode (top, fs) (.group f.start (i + 1) f.kids.reverse)) := by
  have hd : delimIndex [')'] = 0 := by decide
  cases fs <;> simp [stepTok, portion_single s i ')' h, hd, addNode]

theorem buildToks_cons_ok (s : Str) (top top' : List Node) (stack stack' : List Frame) (t : Token)
    (ts : List Token) (h : stepTok s top stack t = .ok (top', stack')) :
    buildToks s top stack (t :: ts) = buildToks s top' stack' ts := by
  simp [buildToks, h]

mutual
theorem build_node : ∀ (n : ATree) (s : Str) (i : Nat), At s i (renderNode n) →
    ∀ (top : List Node) (stack : List Frame) (rest : List Token),
    buildToks s top stack (toksNode i n ++ rest) =
      buildToks s (addNode (top, stack) (nodeOf i n)).1 (addNode (top, stack) (nodeOf i n)).2 rest
  | .tag w, s, i, _, top, stack, rest => by
    simp only [toksNode, nodeOf, List.cons_append, List.nil_append]
    exact buildToks_cons_ok s _ _ _ _ _ _ (stepTok_tag s top stack _ _)
  | .group kids, s, i, hat, top, stack, rest => by
    simp only [renderNode, at_cons, at_append] at hat
    obtain ⟨h1, h2, h3, _⟩ := hat
    simp only [toksNode, nodeOf, List.cons_append, List.append_assoc, List.nil_append]
    rw [buildToks_cons_ok s _ _ _ _ _ _ (stepTok_open s top stack i h1),
      build_list kids s (i + 1) h2, foldl_addNode_cons,
      buildToks_cons_ok s _ _ _ _ _ _ (stepTok_close s top _ stack _ h3)]
    simp [addNode]
theorem build_list : ∀ (l : List ATree) (s : Str) (i : Nat), At s i (renderList l) →
    ∀ (top : List Node) (stack : List Frame) (rest : List Token),
    buildToks s top stack (toksList i l ++ rest) =
      buildToks s (List.foldl addNode (top, stack) (nodesOf i l)).1
        (List.foldl addNode (top, stack) (nodesOf i l)).2 rest
  | [], s, i, _, top, stack, rest => by simp [toksList, nodesOf]
  | [n], s, i, hat, top, stack, rest => by
    simp only [renderList] at hat
    simp only [toksList, nodesOf, List.foldl_cons, List.foldl_nil]
    exact build_node n s i hat top stack rest
  | n :: m :: ns, s, i, hat, top, stack, rest => by
    simp only [renderList, at_cons, at_append] at hat
    obtain ⟨h1, h2, h3⟩ := hat
    simp only [toksList, List.append_assoc, List.cons_append]
    rw [build_node n s i h1,
      buildToks_cons_ok s _ _ _ _ _ _ (stepTok_comma s _ _ _ h2),
      build_list (m :: ns) s _ h3]
    simp [nodesOf]
end

theorem build_render (l : List ATree) (hv : ValidList l) :
    build (renderList l) = .ok (nodesOf 0 l) := by
  unfold build
  rw [split_render l hv]
  have := build_list l (renderList l) 0 (at_self _) [] [] []
  rw [List.append_nil] at this
  rw [this, foldl_addNode_nil]
  simp [buildToks]

mutual
/-- forget the spans: a tag becomes its text in the given form -/
def formNode (form : Nat → Nat → Str) : Node → ATree
  | .tag a b => .tag (form a b)
  | .group _ _ kids => .group (formList form kids)
def formList (form : Nat → Nat → Str) : List Node → List ATree
  | [] => []
  | n :: ns => formNode form n :: formList form ns
end

/-- forget the spans: a tag becomes its source slice (`org_tag`) -/
abbrev absNode (s : Str) : Node → ATree := formNode (slice s)
abbrev absList (s : Str) : List Node → List ATree := formList (slice s)

mutual
theorem print_form_node (form : Nat → Nat → Str) :
    ∀ (n : Node), printNode form n = renderNode (formNode form n)
  | .tag a b => by simp [printNode, formNode, renderNode]
  | .group _ _ kids => by simp [printNode, formNode, renderNode, print_form_list form kids]
theorem print_form_list (form : Nat → Nat → Str) :
    ∀ (l : List Node), printList form l = renderList (formList form l)
  | [] => by simp [printList, formList, renderList]
  | [n] => by simp [printList, formList, renderList, print_form_node form n]
  | n :: m :: ns => by
    have := print_form_list form (m :: ns)
    simp only [formList] at this
    simp [printList, formList, renderList, print_form_node form n, this]
end

theorem at_slice (s : Str) (w : Str) : ∀ (i : Nat), At s i w → slice s i (i + w.length) = w := by
  induction w with
  | nil => intro i _; simp [slice]
  | cons c u ih =>
    intro i h
    rw [at_cons] at h
    rw [slice_split s i (i + 1) (i + (c :: u).length) (by omega) (by simp),
      show i + (c :: u).length = i + 1 + u.length by simp; omega, ih (i + 1) h.2]
    have : slice s i (i + 1) = [c] := by
      unfold slice
      rw [show i + 1 - i = 1 by omega]
      exact portion_single s i c h.1
    rw [this]; rfl

mutual
theorem abs_node (s : Str) : ∀ (n : ATree) (i : Nat), At s i (renderNode n) →
    absNode s (nodeOf i n) = n
  | .tag w, i, h => by
    simp only [renderNode] at h
    simp [nodeOf, formNode, at_slice s w i h]
  | .group kids, i, h => by
    simp only [renderNode, at_cons, at_append] at h
    simp [nodeOf, formNode, abs_list s kids (i + 1) h.2.1]
theorem abs_list (s : Str) : ∀ (l : List ATree) (i : Nat), At s i (renderList l) →
    absList s (nodesOf i l) = l
  | [], _, _ => by simp [nodesOf, formList]
  | [n], i, h => by
    simp only [renderList] at h
    simp [nodesOf, formList, abs_node s n i h]
  | n :: m :: ns, i, h => by
    simp only [renderList, at_cons, at_append] at h
    have := abs_list s (m :: ns) _ h.2.2
    simp only [nodesOf, formList] at this ⊢
    simp [abs_node s n i h.1, this]
end


theorem validList_iff (form : Nat → Nat → Str) (l : List Node) :
    ValidList (formList form l) ↔ ∀ n ∈ l, ValidNode (formNode form n) := by
  induction l with
  | nil => simp [formList, ValidList]
  | cons n ns ih => simp [formList, ValidList, ih]

/-- the text of a tag token is a printable tag text -/
theorem tagtoken_valid (s : Str) (t : Token) (h : TokOK s t) (htag : t.isTag = true) :
    ValidText (slice s t.start t.stop) := by
  obtain ⟨hlt, hle, hrest⟩ := h
  simp only [htag, ↓reduceIte] at hrest
  obtain ⟨h1, h2, h3⟩ := hrest
  have hlen := slice_length s t.start t.stop hle
  refine ⟨?_, ?_, ?_, ?_⟩
  · intro e; rw [e] at hlen; simp at hlen; omega
  · intro c hc
    obtain ⟨j, hj⟩ := List.getElem?_of_mem hc
    have hjl : j < t.stop - t.start := by
      have := getElem?_lt_of_some hj; omega
    rw [slice_getElem? s _ _ _ hjl] at hj
    exact h1 (t.start + j) c (by omega) (by omega) hj
  · intro e
    rw [List.head?_eq_getElem?, slice_getElem? s _ _ 0 (by omega)] at e
    exact h2 ' ' (by simpa using e) rfl
  · intro e
    rw [List.getLast?_eq_getElem?, hlen, slice_getElem? s _ _ _ (by omega),
      show t.start + (t.stop - t.start - 1) = t.stop - 1 by omega] at e
    exact h3 ' ' e rfl

theorem stepTok_valid (s : Str) (t : Token) (top top' : List Node) (stack stack' : List Frame)
    (ht : t.isTag = true → ValidText (slice s t.start t.stop))
    (htop : ∀ n ∈ top, ValidNode (absNode s n))
    (hst : ∀ f ∈ stack, ∀ n ∈ f.kids, ValidNode (absNode s n))
    (h : stepTok s top stack t = .ok (top', stack')) :
    (∀ n ∈ top', ValidNode (absNode s n)) ∧ (∀ f ∈ stack', ∀ n ∈ f.kids, ValidNode (absNode s n)) := by
  have hg : ∀ (f : Frame) a b, (∀ n ∈ f.kids, ValidNode (absNode s n)) →
      ValidNode (absNode s (.group a b f.kids.reverse)) := by
    intro f a b hk
    simp only [formNode, ValidNode]
    exact (validList_iff _ _).mpr (fun n hn => hk n (by simpa using hn))
  unfold stepTok at h
  split at h
  · rename_i htag
    have hv : ValidNode (absNode s (.tag t.start t.stop)) := by
      simp only [formNode, ValidNode]; exact ht htag
    cases stack with
    | nil =>
      simp only [Except.ok.injEq, Prod.mk.injEq] at h
      obtain ⟨rfl, rfl⟩ := h
      exact ⟨by intro n hn; simp only [List.mem_cons] at hn; rcases hn with rfl | hn; exact hv; exact htop n hn,
        by simp⟩
    | cons f fs =>
      simp only [Except.ok.injEq, Prod.mk.injEq] at h
      obtain ⟨rfl, rfl⟩ := h
      refine ⟨htop, ?_⟩
      intro g hg'
      simp only [List.mem_cons] at hg'
      rcases hg' with rfl | hg'
      · intro n hn
        simp only [List.mem_cons] at hn
        rcases hn with rfl | hn
        · exact hv
        · exact hst f (by simp) n hn
      · exact hst g (by simp [hg'])
  · simp only [] at h
    split at h
    · cases h
    · split at h
      · simp only [Except.ok.injEq, Prod.mk.injEq] at h
        obtain ⟨rfl, rfl⟩ := h
        refine ⟨htop, ?_⟩
        intro g hg'
        simp only [List.mem_cons] at hg'
        rcases hg' with rfl | hg'
        · simp
        · exact hst g hg'
      · split at h
        · cases stack with
          | nil => cases h
          | cons f fs =>
            have hgv := hg f f.start (t.start + delimIndex ((s.drop t.start).take (t.stop - t.start)) + 1)
              (hst f (by simp))
            cases fs with
            | nil =>
              simp only [Except.ok.injEq, Prod.mk.injEq] at h
              obtain ⟨rfl, rfl⟩ := h
              exact ⟨by intro n hn; simp only [List.mem_cons] at hn; rcases hn with rfl | hn; exact hgv; exact htop n hn,
                by simp⟩
            | cons f2 fs2 =>
              simp only [Except.ok.injEq, Prod.mk.injEq] at h
              obtain ⟨rfl, rfl⟩ := h
              refine ⟨htop, ?_⟩
              intro g hg'
              simp only [List.mem_cons] at hg'
              rcases hg' with rfl | hg'
              · intro n hn
                simp only [List.mem_cons] at hn
                rcases hn with rfl | hn
                · exact hgv
                · exact hst f2 (by simp) n hn
              · exact hst g (by simp [hg'])
        · simp only [Except.ok.injEq, Prod.mk.injEq] at h
          obtain ⟨rfl, rfl⟩ := h
          exact ⟨htop, hst⟩

theorem buildToks_valid (s : Str) (toks : List Token) : ∀ (top : List Node) (stack : List Frame),
    (∀ t ∈ toks, TokOK s t) → (∀ n ∈ top, ValidNode (absNode s n)) →
    (∀ f ∈ stack, ∀ n ∈ f.kids, ValidNode (absNode s n)) →
    ∀ r, buildToks s top stack toks = .ok r → ∀ n ∈ r, ValidNode (absNode s n) := by
  induction toks with
  | nil =>
    intro top stack _ htop _ r hr
    cases stack with
    | nil => simp [buildToks] at hr; subst hr; simpa using htop
    | cons f fs => simp [buildToks] at hr
  | cons t ts ih =>
    intro top stack hok htop hst r hr
    simp only [buildToks] at hr
    cases hs : stepTok s top stack t with
    | error e => simp [hs] at hr
    | ok p =>
      obtain ⟨top', stack'⟩ := p
      simp only [hs] at hr
      obtain ⟨a, b⟩ := stepTok_valid s t top top' stack stack'
        (fun htag => tagtoken_valid s t (hok t (by simp)) htag) htop hst hs
      exact ih top' stack' (fun u hu => hok u (by simp [hu])) a b r hr

/-- every tag of the constructed tree has a printable text -/
theorem construct_valid (s : Str) : ValidList (absList s (construct s)) := by
  rw [validList_iff]
  unfold construct
  cases hb : build s with
  | error e => simp
  | ok r =>
    exact buildToks_valid s (split s) [] [] (C02.tiling s).2 (by simp) (by simp) r hb

namespace C02

/-- **Round trip (original form).** For every forest `T` of tags and groups whose tag texts are
non-empty, delimiter-free and not blank at either end, parsing the printed forest
(children joined by ",", groups in "(" ")") gives exactly the tree of `T` with the spans of the
printed text (`nodesOf`), whose tags' source slices are the texts (`absList … = T`); printing that tree
in original form gives the text back, and parsing again is a fixpoint. -/
theorem roundtrip_original (T : List ATree) (hv : ValidList T) :
    construct (renderList T) = nodesOf 0 T ∧
    absList (renderList T) (construct (renderList T)) = T ∧
    printOrg (renderList T) (construct (renderList T)) = renderList T ∧
    construct (printOrg (renderList T) (construct (renderList T))) = construct (renderList T) := by
  have h1 : construct (renderList T) = nodesOf 0 T := by simp [construct, build_render T hv]
  have h2 : absList (renderList T) (construct (renderList T)) = T := by
    rw [h1]; exact abs_list _ T 0 (at_self _)
  have h3 : printOrg (renderList T) (construct (renderList T)) = renderList T := by
    unfold printOrg; rw [print_form_list]; exact congrArg renderList h2
  exact ⟨h1, h2, h3, by rw [h3]⟩


/-- **Round trip (any form).** Printing a tree with any tag form whose texts are printable (short,
long, original…) and parsing the result gives the tree of the printed forest; its tags' source slices
are the printed forms. -/
theorem roundtrip_form (form : Nat → Nat → Str) (ns : List Node)
    (hv : ValidList (formList form ns)) :
    construct (printList form ns) = nodesOf 0 (formList form ns) ∧
    absList (printList form ns) (construct (printList form ns)) = formList form ns ∧
    printOrg (printList form ns) (construct (printList form ns)) = printList form ns := by
  rw [print_form_list]
  obtain ⟨h1, h2, h3, _⟩ := roundtrip_original _ hv
  exact ⟨h1, h2, h3⟩

/-- **Re-parse (original form), every text.** Let `p = str(HedString(s))` in original form. Parsing `p`
gives a tree with the same shape and the same tag texts as the tree of `s`, and printing it gives `p`
again. (For unbalanced `s` both trees are empty.) -/
theorem reparse_original (s : Str) :
    absList (printOrg s (construct s)) (construct (printOrg s (construct s))) =
      absList s (construct s) ∧
    printOrg (printOrg s (construct s)) (construct (printOrg s (construct s))) =
      printOrg s (construct s) := by
  obtain ⟨_, h2, h3⟩ := roundtrip_form (slice s) (construct s) (construct_valid s)
  exact ⟨h2, h3⟩

/-- printing in original form is `render` of the abstracted tree, for every tree -/
theorem print_is_render (s : Str) (ns : List Node) :
    printOrg s ns = renderList (absList s ns) := print_form_list _ ns

def exT : List ATree :=
  [.tag ['a', ' ', 'b'], .group [.tag ['c'], .group [], .group [.tag ['d'], .tag ['e']]], .tag ['f']]

example : ValidList exT := by
  simp [exT, ValidList, ValidNode, ValidText, isDelim]
example : renderList exT = "a b,(c,(),(d,e)),f".toList := by decide
example : construct (renderList exT) = nodesOf 0 exT :=
  (roundtrip_original exT (by simp [exT, ValidList, ValidNode, ValidText, isDelim])).1
example : (nodesOf 0 exT).length = 3 := by decide

end C02

end HedVerif
