/-
C02 — Parsing is total and the parse tree mirrors the source text.
Property theorems about `Tok.split` / `Tree.build` (models of `HedString.split_hed_string`,
`split_into_groups`, `__init__`).  Helper lemmas are in this file's first section; the property
theorems are in `namespace HedVerif.C02` at the end.
-/
import HedVerif.Model.Tok

namespace HedVerif
open Tok

/-! ### token-level facts -/

/-- reversed token list `l` tiles `[a, b)` contiguously with non-empty tokens -/
def TilesR : List Token → Nat → Nat → Prop
  | [], a, b => a = b
  | t :: ts, a, b => t.stop = b ∧ t.start < t.stop ∧ TilesR ts a t.start

/-- forward token list tiles `[a, b)` -/
def Tiles : List Token → Nat → Nat → Prop
  | [], a, b => a = b
  | t :: ts, a, b => t.start = a ∧ t.start < t.stop ∧ Tiles ts t.stop b

theorem tiles_append_single (l : List Token) (t : Token) (a b : Nat) :
    Tiles (l ++ [t]) a b ↔ (Tiles l a t.start ∧ t.start < t.stop ∧ t.stop = b) := by
  induction l generalizing a with
  | nil => simp [Tiles]; grind
  | cons x xs ih => simp [Tiles, ih]; grind

theorem tilesR_reverse (l : List Token) (a b : Nat) : TilesR l a b → Tiles l.reverse a b := by
  induction l generalizing b with
  | nil => simp [Tiles, TilesR]
  | cons t ts ih =>
    intro h
    simp only [TilesR] at h
    rw [List.reverse_cons, tiles_append_single]
    exact ⟨ih _ h.2.2, h.2.1, h.1⟩

/-- What is true of the text of one token. -/
def TokOK (s : Str) (t : Token) : Prop :=
  t.start < t.stop ∧ t.stop ≤ s.length ∧
  if t.isTag then
    (∀ k c, t.start ≤ k → k < t.stop → s[k]? = some c → isDelim c = false) ∧
    (∀ c, s[t.start]? = some c → c ≠ ' ') ∧
    (∀ c, s[t.stop - 1]? = some c → c ≠ ' ')
  else
    (∀ k c, t.start ≤ k → k < t.stop → s[k]? = some c → c = ' ' ∨ isDelim c = true) ∧
    (∀ k1 k2 c1 c2, t.start ≤ k1 → k1 < t.stop → t.start ≤ k2 → k2 < t.stop →
       s[k1]? = some c1 → s[k2]? = some c2 → c1 ≠ ' ' → c2 ≠ ' ' → k1 = k2)

/-- the stretch `[a, i)` contains only blanks and delimiters, at most one non-blank -/
def DelimRun (s : Str) (a i : Nat) : Prop :=
  (∀ k c, a ≤ k → k < i → s[k]? = some c → c = ' ' ∨ isDelim c = true) ∧
  (∀ k1 k2 c1 c2, a ≤ k1 → k1 < i → a ≤ k2 → k2 < i →
       s[k1]? = some c1 → s[k2]? = some c2 → c1 ≠ ' ' → c2 ≠ ' ' → k1 = k2)

/-- the stretch `[ts, i)` is an open tag with `sp` trailing blanks -/
def TagRun (s : Str) (ts i sp : Nat) : Prop :=
  ts + sp < i ∧
  (∀ k c, ts ≤ k → k < i → s[k]? = some c → isDelim c = false) ∧
  (∀ c, s[ts]? = some c → c ≠ ' ') ∧
  (∀ k c, i - sp ≤ k → k < i → s[k]? = some c → c = ' ') ∧
  (∀ c, s[i - sp - 1]? = some c → c ≠ ' ')

/-- Loop invariant of `split_hed_string` after the first `i` characters. -/
def Inv (s : Str) (i : Nat) (st : St) : Prop :=
  st.bad = false ∧ i ≤ s.length ∧ (∀ t ∈ st.out, TokOK s t) ∧
  ((st.found = true ∧ st.tagStart = none ∧
      ∃ le, st.lastEnd = some le ∧ le ≤ i ∧ TilesR st.out 0 le ∧ DelimRun s le i) ∨
   (st.found = false ∧ st.lastEnd = none ∧
      ∃ ts, st.tagStart = some ts ∧ TilesR st.out 0 ts ∧ TagRun s ts i st.spacing))

theorem inv_init (s : Str) : Inv s 0 {} := by
  refine ⟨rfl, Nat.zero_le _, by simp, Or.inl ⟨rfl, rfl, 0, rfl, Nat.le_refl _, rfl, ?_, ?_⟩⟩ <;>
    (intros; omega)

theorem isDelim_ne_space {c : Char} (h : isDelim c = true) : c ≠ ' ' := by
  intro hc; subst hc; simp [isDelim] at h

theorem inv_step (s : Str) (i : Nat) (st : St) (c : Char)
    (hc : s[i]? = some c) (h : Inv s i st) : Inv s (i + 1) (step st i c) := by
  have hi : i < s.length := by
    rcases Nat.lt_or_ge i s.length with h' | h'
    · exact h'
    · simp [List.getElem?_eq_none h'] at hc
  obtain ⟨hbad, _, htok, hmode⟩ := h
  unfold step
  by_cases hsp : c = ' '
  · -- blank
    subst hsp
    simp only [beq_self_eq_true, ↓reduceIte]
    refine ⟨hbad, hi, htok, ?_⟩
    rcases hmode with ⟨hf, hts, le, hle, hlei, htl, hrun⟩ | ⟨hf, hle, ts, hts, htl, hrun⟩
    · refine Or.inl ⟨hf, hts, le, hle, by omega, htl, ?_⟩
      obtain ⟨h1, h2⟩ := hrun
      constructor
      · intro k c' hk1 hk2 hk
        by_cases hki : k = i
        · subst hki; rw [hc] at hk; left; exact (Option.some.inj hk).symm
        · exact h1 k c' hk1 (by omega) hk
      · intro k1 k2 c1 c2 a1 a2 a3 a4 a5 a6 a7 a8
        by_cases hk1 : k1 = i
        · subst hk1; rw [hc] at a5; exact absurd (Option.some.inj a5).symm a7
        · by_cases hk2 : k2 = i
          · subst hk2; rw [hc] at a6; exact absurd (Option.some.inj a6).symm a8
          · exact h2 k1 k2 c1 c2 a1 (by omega) a3 (by omega) a5 a6 a7 a8
    · refine Or.inr ⟨hf, hle, ts, hts, htl, ?_⟩
      obtain ⟨h0, h1, h2, h3, h4⟩ := hrun
      refine ⟨by simp; omega, ?_, h2, ?_, ?_⟩
      · intro k c' hk1 hk2 hk
        by_cases hki : k = i
        · subst hki; rw [hc] at hk; cases hk; rfl
        · exact h1 k c' hk1 (by omega) hk
      · intro k c' hk1 hk2 hk
        by_cases hki : k = i
        · subst hki; rw [hc] at hk; exact (Option.some.inj hk).symm
        · exact h3 k c' (by simp at hk1; omega) (by omega) hk
      · intro c' hk
        have : i + 1 - (st.spacing + 1) - 1 = i - st.spacing - 1 := by omega
        simp only [this] at hk
        exact h4 c' hk
  · have hsp' : (c == ' ') = false := by simpa using hsp
    simp only [hsp', Bool.false_eq_true, ↓reduceIte]
    by_cases hd : isDelim c = true
    · -- delimiter
      simp only [hd, ↓reduceIte]
      rcases hmode with ⟨hf, hts, le, hle, hlei, htl, hrun⟩ | ⟨hf, hle, ts, hts, htl, hrun⟩
      · simp only [hf, ↓reduceIte, hle]
        have hnew : DelimRun s i (i + 1) := by
          constructor
          · intro k c' hk1 hk2 hk
            have : k = i := by omega
            subst this; rw [hc] at hk; cases hk; right; exact hd
          · intros; omega
        by_cases hne : le = i
        · subst hne
          simp only [bne_self_eq_false, Bool.false_eq_true, ↓reduceIte]
          exact ⟨hbad, hi, htok, Or.inl ⟨rfl, hts, le, rfl, by omega, htl, hnew⟩⟩
        · have : (le != i) = true := by simpa using hne
          simp only [this, ↓reduceIte]
          refine ⟨hbad, hi, ?_, Or.inl ⟨rfl, hts, i, rfl, by omega, ?_, hnew⟩⟩
          · intro t ht
            simp only [List.mem_cons] at ht
            rcases ht with rfl | ht
            · exact ⟨by simp; omega, by simp; omega, by simpa [TokOK, DelimRun] using hrun⟩
            · exact htok t ht
          · exact ⟨rfl, by simp; omega, htl⟩
      · have hf' : st.found = false := hf
        simp only [hf', Bool.false_eq_true, ↓reduceIte, hts]
        obtain ⟨h0, h1, h2, h3, h4⟩ := hrun
        refine ⟨hbad, hi, ?_, Or.inl ⟨rfl, rfl, i - st.spacing, rfl, by omega, ?_, ?_⟩⟩
        · intro t ht
          simp only [List.mem_cons] at ht
          rcases ht with rfl | ht
          · refine ⟨by simp; omega, by simp; omega, ?_⟩
            simp only [↓reduceIte]
            exact ⟨fun k c' a b d => h1 k c' a (by omega) d, h2, h4⟩
          · exact htok t ht
        · exact ⟨rfl, by simp; omega, htl⟩
        · constructor
          · intro k c' hk1 hk2 hk
            by_cases hki : k = i
            · subst hki; rw [hc] at hk; cases hk; right; exact hd
            · left; exact h3 k c' hk1 (by omega) hk
          · intro k1 k2 c1 c2 a1 a2 a3 a4 a5 a6 a7 a8
            by_cases hk1 : k1 = i
            · by_cases hk2 : k2 = i
              · omega
              · exact absurd (h3 k2 c2 a3 (by omega) a6) a8
            · exact absurd (h3 k1 c1 a1 (by omega) a5) a7
    · -- tag character
      have hd' : isDelim c = false := by simpa using hd
      simp only [hd', Bool.false_eq_true, ↓reduceIte]
      have hnew : TagRun s i (i + 1) 0 := by
        refine ⟨by omega, ?_, ?_, ?_, ?_⟩
        · intro k c' a b d
          have : k = i := by omega
          subst this; rw [hc] at d; cases d; exact hd'
        · intro c' d; rw [hc] at d; cases d; exact hsp
        · intros; omega
        · intro c' d; simp at d; rw [hc] at d; cases d; exact hsp
      rcases hmode with ⟨hf, hts, le, hle, hlei, htl, hrun⟩ | ⟨hf, hle, ts, hts, htl, hrun⟩
      · simp only [hf, ↓reduceIte, hle]
        by_cases hne : le = i
        · subst hne
          simp only [bne_self_eq_false, Bool.false_eq_true, ↓reduceIte, hts]
          exact ⟨hbad, hi, htok, Or.inr ⟨rfl, rfl, le, rfl, htl, hnew⟩⟩
        · have : (le != i) = true := by simpa using hne
          simp only [this, ↓reduceIte, hts]
          refine ⟨hbad, hi, ?_, Or.inr ⟨rfl, rfl, i, rfl, ?_, hnew⟩⟩
          · intro t ht
            simp only [List.mem_cons] at ht
            rcases ht with rfl | ht
            · exact ⟨by simp; omega, by simp; omega, by simpa [TokOK, DelimRun] using hrun⟩
            · exact htok t ht
          · exact ⟨rfl, by simp; omega, htl⟩
      · have hf' : st.found = false := hf
        simp only [hf', Bool.false_eq_true, ↓reduceIte, hts]
        obtain ⟨h0, h1, h2, h3, h4⟩ := hrun
        refine ⟨hbad, hi, htok, Or.inr ⟨rfl, hle, ts, rfl, htl, ?_⟩⟩
        show TagRun s ts (i + 1) 0
        refine ⟨by omega, ?_, h2, by intros; omega, ?_⟩
        · intro k c' a b d
          by_cases hki : k = i
          · subst hki; rw [hc] at d; cases d; exact hd'
          · exact h1 k c' a (by omega) d
        · intro c' d; simp at d; rw [hc] at d; cases d; exact hsp

theorem inv_run (s : Str) (cs : Str) (i : Nat) (st : St)
    (hcs : s.drop i = cs) (h : Inv s i st) : Inv s s.length (run st i cs) := by
  induction cs generalizing i st with
  | nil =>
    simp only [run]
    have : s.length ≤ i := by simpa using hcs
    have h2 := h.2.1
    have : i = s.length := by omega
    subst this; exact h
  | cons c cs ih =>
    simp only [run]
    have hc : s[i]? = some c := by
      have := congrArg List.head? hcs
      simpa [List.head?_drop] using this
    apply ih (i + 1)
    · have := congrArg List.tail hcs
      simpa [List.tail_drop] using this
    · exact inv_step s i st c hc h

theorem inv_final (s : Str) : Inv s s.length (finalSt s) :=
  inv_run s s 0 {} (by simp) (inv_init s)

namespace C02

/-- The tokenizer never takes a branch in which Python would have used `None` as a position. -/
theorem no_bad (s : Str) : (finalSt s).bad = false := (inv_final s).1

/-- **Tiling.** The tokens of `split_hed_string` are non-empty, contiguous, start at 0 and end at
`len(s)`; every token satisfies `TokOK`: a tag token contains no delimiter and begins and ends with a
non-blank; a non-tag token contains only blanks and delimiters and at most one delimiter. -/
theorem tiling (s : Str) : Tiles (split s) 0 s.length ∧ ∀ t ∈ split s, TokOK s t := by
  obtain ⟨_, _, htok, hmode⟩ := inv_final s
  unfold split finish
  rcases hmode with ⟨hf, hts, le, hle, hlei, htl, hrun⟩ | ⟨hf, hle, ts, hts, htl, hrun⟩
  · simp only [hle, hts]
    by_cases hn : s.length = le
    · have : (s.length != le) = false := by simpa using hn
      simp only [this, Bool.false_eq_true, ↓reduceIte]
      exact ⟨hn ▸ tilesR_reverse _ _ _ htl, by simpa using htok⟩
    · have : (s.length != le) = true := by simpa using hn
      simp only [this, ↓reduceIte]
      constructor
      · apply tilesR_reverse
        exact ⟨rfl, by simp; omega, htl⟩
      · intro t ht
        simp only [List.mem_reverse, List.mem_cons] at ht
        rcases ht with rfl | ht
        · exact ⟨by simp; omega, by simp, by simpa [TokOK, DelimRun] using hrun⟩
        · exact htok t ht
  · obtain ⟨h0, h1, h2, h3, h4⟩ := hrun
    simp only [hle, hts]
    have htag : TokOK s ⟨true, ts, s.length - (finalSt s).spacing⟩ := by
      refine ⟨by simp; omega, by simp, ?_⟩
      simp only [↓reduceIte]
      exact ⟨fun k c a b d => h1 k c a (by omega) d, h2, h4⟩
    by_cases hs0 : (finalSt s).spacing = 0
    · have : ((finalSt s).spacing != 0) = false := by simpa using hs0
      simp only [this, Bool.false_eq_true, ↓reduceIte]
      constructor
      · apply tilesR_reverse
        exact ⟨by simp; omega, by simp; omega, htl⟩
      · intro t ht
        simp only [List.mem_reverse, List.mem_cons] at ht
        rcases ht with rfl | ht
        · exact htag
        · exact htok t ht
    · have : ((finalSt s).spacing != 0) = true := by simpa using hs0
      simp only [this, ↓reduceIte]
      constructor
      · apply tilesR_reverse
        exact ⟨rfl, by simp; omega, rfl, by simp; omega, htl⟩
      · intro t ht
        simp only [List.mem_reverse, List.mem_cons] at ht
        rcases ht with rfl | rfl | ht
        · refine ⟨by simp; omega, by simp, ?_⟩
          simp only [Bool.false_eq_true, ↓reduceIte]
          constructor
          · intro k c a b d; left; exact h3 k c a b d
          · intro k1 k2 c1 c2 a1 a2 a3 a4 a5 a6 a7 a8
            exact absurd (h3 k1 c1 a1 a2 a5) a7
        · exact htag
        · exact htok t ht

end C02
end HedVerif

/-! ### from tokens back to characters: the group builder sees every parenthesis exactly once -/
namespace HedVerif
open Tok Tree

/-- parenthesis sequence of a text: `true` = '(' , `false` = ')' -/
def parenOf (c : Char) : Option Bool :=
  if c == '(' then some true else if c == ')' then some false else none

def parens (s : Str) : List Bool := s.filterMap parenOf

/-- the parenthesis (if any) the group builder acts on for one token -/
def tokParen (s : Str) (t : Token) : Option Bool :=
  if t.isTag then none else
    let portion := (s.drop t.start).take (t.stop - t.start)
    match portion[delimIndex portion]? with
    | none => none
    | some ch => parenOf ch

/-- running depth over a parenthesis sequence; `none` once it would go negative -/
def scan : Nat → List Bool → Option Nat
  | d, [] => some d
  | d, true :: ps => scan (d + 1) ps
  | 0, false :: _ => none
  | d + 1, false :: ps => scan d ps

theorem parens_append (a b : Str) : parens (a ++ b) = parens a ++ parens b := by
  simp [parens]

theorem slice_split (s : Str) (a m b : Nat) (h1 : a ≤ m) (h2 : m ≤ b) :
    slice s a b = slice s a m ++ slice s m b := by
  unfold slice
  have : b - a = (m - a) + (b - m) := by omega
  rw [this, List.take_add, List.drop_drop]
  congr 3
  omega

theorem slice_getElem? (s : Str) (a b j : Nat) (hj : j < b - a) :
    (slice s a b)[j]? = s[a + j]? := by
  unfold slice
  rw [List.getElem?_take_of_lt hj, List.getElem?_drop]

theorem slice_length (s : Str) (a b : Nat) (hb : b ≤ s.length) : (slice s a b).length = b - a := by
  unfold slice; simp; omega

/-- a list all of whose characters are blanks has no parenthesis -/
theorem parens_blank (l : Str) (h : ∀ c ∈ l, c = ' ') : parens l = [] := by
  induction l with
  | nil => rfl
  | cons c cs ih =>
    have hc : c = ' ' := h c (by simp)
    subst hc
    simp only [parens, List.filterMap_cons] at *
    have : parenOf ' ' = none := by decide
    rw [this]
    exact ih (fun c hc => h c (by simp [hc]))

theorem parens_nodelim (l : Str) (h : ∀ c ∈ l, isDelim c = false) : parens l = [] := by
  induction l with
  | nil => rfl
  | cons c cs ih =>
    have hc : isDelim c = false := h c (by simp)
    have : parenOf c = none := by
      unfold parenOf
      simp [isDelim] at hc
      simp [hc]
    simp only [parens, List.filterMap_cons, this] at *
    exact ih (fun c hc => h c (by simp [hc]))

/-- For a delimiter stretch (blanks and at most one delimiter) the parenthesis sequence is what the
group builder reads at `delimiter_index`. -/
theorem parens_delimrun (l : Str)
    (h1 : ∀ c ∈ l, c = ' ' ∨ isDelim c = true)
    (h2 : ∀ (j1 j2 : Nat) (c1 c2 : Char), l[j1]? = some c1 → l[j2]? = some c2 → c1 ≠ ' ' → c2 ≠ ' ' → j1 = j2) :
    parens l = (match l[delimIndex l]? with | none => none | some ch => parenOf ch).toList := by
  induction l with
  | nil => simp [parens, delimIndex]
  | cons c cs ih =>
    by_cases hc : c = ' '
    · subst hc
      have ih' := ih (fun c hc => h1 c (by simp [hc]))
        (fun j1 j2 c1 c2 a b d e => by
          have := h2 (j1 + 1) (j2 + 1) c1 c2 (by simpa using a) (by simpa using b) d e
          omega)
      have hp : parens (' ' :: cs) = parens cs := by
        simp only [parens, List.filterMap_cons]
        have : parenOf ' ' = none := by decide
        rw [this]
      rw [hp, ih']
      unfold delimIndex
      have hsp : pyIsSpace ' ' = true := by decide
      simp only [List.findIdx?_cons, hsp, Bool.not_true, Bool.false_eq_true, ↓reduceIte]
      cases hfi : List.findIdx? (fun c => !pyIsSpace c) cs with
      | none =>
        simp only [Option.map_none, Option.getD_none, List.getElem?_cons_zero]
        have : parenOf ' ' = none := by decide
        rw [this]
        cases hcs : cs[0]? with
        | none => rfl
        | some ch =>
          -- every element of cs is a blank since none is non-space and delimiters are non-space
          have hall : ∀ x ∈ cs, pyIsSpace x = true := by
            have := List.findIdx?_eq_none_iff.mp hfi
            intro x hx; simpa using this x hx
          have hch : ch ∈ cs := List.mem_of_getElem? hcs
          have := hall ch hch
          rcases h1 ch (by simp [hch]) with rfl | hd
          · decide
          · exfalso
            simp [isDelim] at hd
            rcases hd with (rfl | rfl) | rfl <;> simp [pyIsSpace] at this
      | some j =>
        simp [List.getElem?_cons_succ]
    · -- first character is the delimiter; everything after it is blank
      have hd : isDelim c = true := by
        rcases h1 c (by simp) with h | h
        · exact absurd h hc
        · exact h
      have hns : pyIsSpace c = false := by
        simp [isDelim] at hd
        rcases hd with (rfl | rfl) | rfl <;> decide
      have hrest : ∀ x ∈ cs, x = ' ' := by
        intro x hx
        obtain ⟨j, hj⟩ := List.getElem?_of_mem hx
        by_cases hne : x = ' '
        · exact hne
        · exfalso
          have := h2 0 (j + 1) c x (by simp) (by simpa using hj) hc hne
          omega
      unfold delimIndex
      simp only [List.findIdx?_cons, hns, Bool.not_false, ↓reduceIte, Option.getD_some,
        List.getElem?_cons_zero]
      simp only [parens, List.filterMap_cons]
      have := parens_blank cs hrest
      simp only [parens] at this
      rw [this]
      cases parenOf c <;> rfl

/-- Per token: the parentheses inside a token's text are exactly what the builder acts on. -/
theorem parens_token (s : Str) (t : Token) (h : TokOK s t) :
    parens (slice s t.start t.stop) = (tokParen s t).toList := by
  obtain ⟨hlt, hle, hrest⟩ := h
  unfold tokParen
  by_cases htag : t.isTag = true
  · simp only [htag, ↓reduceIte] at hrest ⊢
    apply parens_nodelim
    intro c hc
    obtain ⟨j, hj⟩ := List.getElem?_of_mem hc
    have hjl : j < (slice s t.start t.stop).length := by
      rcases Nat.lt_or_ge j (slice s t.start t.stop).length with h | h
      · exact h
      · simp [List.getElem?_eq_none h] at hj
    rw [slice_length s _ _ hle] at hjl
    rw [slice_getElem? s _ _ _ hjl] at hj
    exact hrest.1 (t.start + j) c (by omega) (by omega) hj
  · have htag' : t.isTag = false := by simpa using htag
    simp only [htag', Bool.false_eq_true, ↓reduceIte] at hrest ⊢
    have hlen := slice_length s t.start t.stop hle
    have key := parens_delimrun (slice s t.start t.stop)
      (by
        intro c hc
        obtain ⟨j, hj⟩ := List.getElem?_of_mem hc
        have hjl : j < (slice s t.start t.stop).length := by
          rcases Nat.lt_or_ge j (slice s t.start t.stop).length with h | h
          · exact h
          · simp [List.getElem?_eq_none h] at hj
        rw [hlen] at hjl
        rw [slice_getElem? s _ _ _ hjl] at hj
        exact hrest.1 (t.start + j) c (by omega) (by omega) hj)
      (by
        intro j1 j2 c1 c2 a b d e
        have hj1 : j1 < t.stop - t.start := by
          rcases Nat.lt_or_ge j1 (slice s t.start t.stop).length with h | h
          · omega
          · simp [List.getElem?_eq_none h] at a
        have hj2 : j2 < t.stop - t.start := by
          rcases Nat.lt_or_ge j2 (slice s t.start t.stop).length with h | h
          · omega
          · simp [List.getElem?_eq_none h] at b
        rw [slice_getElem? s _ _ _ hj1] at a
        rw [slice_getElem? s _ _ _ hj2] at b
        have := hrest.2 (t.start + j1) (t.start + j2) c1 c2 (by omega) (by omega) (by omega) (by omega)
          a b d e
        omega)
    simpa [slice] using key

/-- The parenthesis sequence of a tiled stretch is the concatenation over its tokens. -/
theorem parens_tiles (s : Str) (toks : List Token) (a b : Nat)
    (ht : Tiles toks a b) (hok : ∀ t ∈ toks, TokOK s t) :
    parens (slice s a b) = toks.filterMap (tokParen s) := by
  induction toks generalizing a with
  | nil =>
    simp only [Tiles] at ht
    subst ht
    simp [slice, parens]
  | cons t ts ih =>
    obtain ⟨h1, h2, h3⟩ := ht
    subst h1
    have hle : t.stop ≤ b := by
      clear ih hok
      induction ts generalizing t with
      | nil => simp only [Tiles] at h3; omega
      | cons u us ihu =>
        obtain ⟨g1, g2, g3⟩ := h3
        have := ihu u g2 g3
        omega
    rw [slice_split s t.start t.stop b (by omega) hle, parens_append,
      parens_token s t (hok t (by simp)), ih t.stop h3 (fun u hu => hok u (by simp [hu]))]
    cases h : tokParen s t <;> simp [List.filterMap_cons, h]

theorem parens_split (s : Str) : (split s).filterMap (tokParen s) = parens s := by
  obtain ⟨ht, hok⟩ := C02.tiling s
  have := parens_tiles s (split s) 0 s.length ht hok
  rw [← this]
  simp [slice]

/-- `buildToks` succeeds exactly when the parenthesis sequence it reads is balanced from the
current stack depth; it never fails with `index` on well-formed tokens. -/
theorem buildToks_scan (s : Str) (toks : List Token) (hok : ∀ t ∈ toks, TokOK s t)
    (top : List Node) (stack : List Frame) :
    (∃ r, buildToks s top stack toks = .ok r) ↔
      scan stack.length (toks.filterMap (tokParen s)) = some 0 := by
  induction toks generalizing top stack with
  | nil =>
    cases stack with
    | nil => simp [buildToks, scan]
    | cons f fs => simp [buildToks, scan]
  | cons t ts ih =>
    have ih' := ih (fun u hu => hok u (by simp [hu]))
    have htok := hok t (by simp)
    by_cases htag : t.isTag = true
    · have hp : tokParen s t = none := by simp [tokParen, htag]
      cases stack with
      | nil =>
        simp only [buildToks, stepTok, htag, ↓reduceIte, List.filterMap_cons, hp]
        exact ih' _ _
      | cons f fs =>
        simp only [buildToks, stepTok, htag, ↓reduceIte, List.filterMap_cons, hp]
        exact ih' _ _
    · have htag' : t.isTag = false := by simpa using htag
      -- the portion is non-empty, so the index is in range
      have hlen : ((s.drop t.start).take (t.stop - t.start)).length = t.stop - t.start := by
        have := slice_length s t.start t.stop htok.2.1
        simpa [slice] using this
      have hdi : delimIndex ((s.drop t.start).take (t.stop - t.start)) <
          ((s.drop t.start).take (t.stop - t.start)).length := by
        unfold delimIndex
        cases hfi : List.findIdx? (fun c => !pyIsSpace c) ((s.drop t.start).take (t.stop - t.start)) with
        | none => simp only [Option.getD_none]; have := htok.1; omega
        | some j =>
          simp only [Option.getD_some]
          exact (List.findIdx?_eq_some_iff_getElem.mp hfi).1
      obtain ⟨ch, hch⟩ : ∃ ch, ((s.drop t.start).take (t.stop - t.start))[delimIndex
          ((s.drop t.start).take (t.stop - t.start))]? = some ch :=
        ⟨_, List.getElem?_eq_getElem hdi⟩
      have hp : tokParen s t = parenOf ch := by simp [tokParen, htag', hch]
      by_cases ho : ch = '('
      · subst ho
        have : parenOf '(' = some true := by decide
        cases stack with
        | nil =>
          simp only [buildToks, stepTok, htag', Bool.false_eq_true, ↓reduceIte, hch,
            beq_self_eq_true, List.filterMap_cons, hp, this, scan]
          exact ih' _ _
        | cons f fs =>
          simp only [buildToks, stepTok, htag', Bool.false_eq_true, ↓reduceIte, hch,
            beq_self_eq_true, List.filterMap_cons, hp, this, scan]
          exact ih' _ _
      · by_cases hcl : ch = ')'
        · subst hcl
          have h1 : parenOf ')' = some false := by decide
          have h2 : (')' == '(') = false := by decide
          cases stack with
          | nil =>
            simp [buildToks, stepTok, htag', hch, h2, hp, h1, scan]
          | cons f fs =>
            cases fs with
            | nil =>
              simp only [buildToks, stepTok, htag', Bool.false_eq_true, ↓reduceIte, hch, h2,
                beq_self_eq_true, List.filterMap_cons, hp, h1, scan, List.length_cons,
                List.length_nil, Nat.zero_add]
              exact ih' _ _
            | cons f2 fs2 =>
              simp only [buildToks, stepTok, htag', Bool.false_eq_true, ↓reduceIte, hch, h2,
                beq_self_eq_true, List.filterMap_cons, hp, h1, scan, List.length_cons]
              exact ih' _ _
        · have h1 : parenOf ch = none := by simp [parenOf, ho, hcl]
          have h2 : (ch == '(') = false := by simpa using ho
          have h3 : (ch == ')') = false := by simpa using hcl
          cases stack with
          | nil =>
            simp only [buildToks, stepTok, htag', Bool.false_eq_true, ↓reduceIte, hch, h2, h3,
              List.filterMap_cons, hp, h1]
            exact ih' _ _
          | cons f fs =>
            simp only [buildToks, stepTok, htag', Bool.false_eq_true, ↓reduceIte, hch, h2, h3,
              List.filterMap_cons, hp, h1]
            exact ih' _ _

/-- character-level balance -/
def balanced (s : Str) : Prop := scan 0 (parens s) = some 0

instance (s : Str) : Decidable (balanced s) := by unfold balanced; infer_instance

namespace C02

/-- **Total + nesting, existence part.** `split_into_groups` succeeds exactly on the texts whose
parentheses are balanced (running depth never negative, zero at the end); otherwise the constructor
yields an empty tree. -/
theorem build_ok_iff_balanced (s : Str) : (∃ r, build s = .ok r) ↔ balanced s := by
  unfold build balanced
  rw [← parens_split]
  exact buildToks_scan s (split s) (tiling s).2 [] []

theorem unbalanced_empty (s : Str) (h : ¬ balanced s) : construct s = [] := by
  unfold construct
  cases hb : build s with
  | ok r => exact absurd ((build_ok_iff_balanced s).mp ⟨r, hb⟩) h
  | error e => rfl

end C02

/-! ### the validator's parenthesis rule -/

theorem closingFirst_scan (d : Nat) (s : Str) :
    Paren.closingFirst d s = true ↔ scan d (parens s) = none := by
  induction s generalizing d with
  | nil => simp [Paren.closingFirst, parens, scan]
  | cons c cs ih =>
    unfold Paren.closingFirst
    by_cases ho : c = '('
    · subst ho
      have : parenOf '(' = some true := by decide
      simp only [beq_self_eq_true, ↓reduceIte, parens, List.filterMap_cons, this, scan]
      exact ih (d + 1)
    · have h2 : (c == '(') = false := by simpa using ho
      by_cases hcl : c = ')'
      · subst hcl
        have : parenOf ')' = some false := by decide
        simp only [h2, Bool.false_eq_true, ↓reduceIte, beq_self_eq_true, parens,
          List.filterMap_cons, this]
        cases d with
        | zero => simp [scan]
        | succ d' => simp only [scan]; exact ih d'
      · have h3 : (c == ')') = false := by simpa using hcl
        have : parenOf c = none := by simp [parenOf, ho, hcl]
        simp only [h2, h3, Bool.false_eq_true, ↓reduceIte, parens, List.filterMap_cons, this]
        exact ih d

theorem scan_counts (d d' : Nat) (s : Str) (h : scan d (parens s) = some d') :
    d + s.count '(' = d' + s.count ')' := by
  induction s generalizing d with
  | nil => simp [parens, scan] at h; simp [h]
  | cons c cs ih =>
    by_cases ho : c = '('
    · subst ho
      have : parenOf '(' = some true := by decide
      simp only [parens, List.filterMap_cons, this, scan] at h
      have := ih (d + 1) h
      simp [List.count_cons] at this ⊢
      omega
    · by_cases hcl : c = ')'
      · subst hcl
        have : parenOf ')' = some false := by decide
        simp only [parens, List.filterMap_cons, this] at h
        cases d with
        | zero => simp [scan] at h
        | succ d0 =>
          simp only [scan] at h
          have := ih d0 h
          simp [List.count_cons] at this ⊢
          omega
      · have : parenOf c = none := by simp [parenOf, ho, hcl]
        simp only [parens, List.filterMap_cons, this] at h
        have := ih d h
        have e1 : (c == '(') = false := by simpa using ho
        have e2 : (c == ')') = false := by simpa using hcl
        simp [List.count_cons, e1, e2] at this ⊢
        omega

namespace C02

/-- **Mismatch is reported.** The validator's parenthesis rule fires exactly on the texts that the
constructor rejects (holds for the code after fix 75b0c29; before it, `")("` was a counter-example). -/
theorem mismatch_reported (s : Str) : Paren.mismatch s = true ↔ ¬ balanced s := by
  unfold Paren.mismatch balanced
  constructor
  · intro h hb
    have hc := scan_counts 0 0 s hb
    simp only [Bool.or_eq_true, bne_iff_ne, ne_eq] at h
    rcases h with h | h
    · omega
    · rw [closingFirst_scan] at h; rw [h] at hb; cases hb
  · intro hb
    simp only [Bool.or_eq_true, bne_iff_ne, ne_eq]
    cases hs : scan 0 (parens s) with
    | none => right; exact (closingFirst_scan 0 s).mpr hs
    | some d' =>
      left
      have hc := scan_counts 0 d' s hs
      intro heq
      have : d' = 0 := by omega
      subst this
      exact hb hs

/-- The count-only rule of the original code misses `")("` (kept as a regression witness). -/
theorem count_only_counterexample :
    let s : Str := [')', '(']
    (s.count '(' = s.count ')') ∧ construct s = [] ∧ Paren.mismatch s = true := by decide

/-- non-vacuity: a balanced text with nesting, blanks and an empty tag; an unbalanced one -/
example : balanced "a, ( b ,(c), ),d".toList := by decide
example : ¬ balanced "(a))(".toList := by decide

end C02
end HedVerif
