/-
C13 — Library schemas and namespaces compose without changing meaning.
Theorems about `Group.find` (dispatch on the namespace), the attribute unions used by the
required/unique checks, `parseVersionList`, and `merge` of a library into a copy of its partner.
-/
import HedVerif.Model.Group
import HedVerif.Props.C03
import HedVerif.Model.GroupValidate

namespace HedVerif.Group
open HedVerif.Schema

/-! ### lookup in the group -/

theorem lookup_cons (e : Str × Member) (g : Group) (p : Str) :
    lookup (e :: g) p = if e.1 == p then some e.2 else lookup g p := by
  unfold lookup
  simp only [List.find?_cons]
  split <;> simp_all

theorem lookup_none (g : Group) (p : Str) (h : p ∉ prefixes g) : lookup g p = none := by
  induction g with
  | nil => rfl
  | cons e rest ih =>
    rw [lookup_cons]
    simp only [prefixes, List.map_cons, List.mem_cons, not_or] at h
    have : (e.1 == p) = false := by simpa using fun x => h.1 x.symm
    simp only [this, Bool.false_eq_true, ↓reduceIte]
    exact ih h.2

theorem lookup_of_mem (g : Group) (p : Str) (m : Member) (hnd : (prefixes g).Nodup)
    (hm : (p, m) ∈ g) : lookup g p = some m := by
  induction g with
  | nil => cases hm
  | cons e rest ih =>
    rw [lookup_cons]
    simp only [prefixes, List.map_cons, List.nodup_cons] at hnd
    rcases List.mem_cons.mp hm with h | h
    · subst h; simp
    · have hp : p ∈ rest.map (·.1) := List.mem_map.mpr ⟨(p, m), h, rfl⟩
      have : (e.1 == p) = false := by
        have : e.1 ≠ p := fun x => hnd.1 (x ▸ hp)
        simpa using this
      simp only [this, Bool.false_eq_true, ↓reduceIte]
      exact ih hnd.2 h

/-! ### de-duplication -/

theorem mem_dedup {α} [BEq α] [LawfulBEq α] (l : List α) (x : α) : x ∈ dedup l ↔ x ∈ l := by
  induction l with
  | nil => simp [dedup]
  | cons y ys ih =>
    simp only [dedup, List.mem_cons, List.mem_filter, ih, bne_iff_ne, ne_eq]
    by_cases h : x = y <;> simp [h]

theorem nodup_dedup {α} [BEq α] [LawfulBEq α] (l : List α) : (dedup l).Nodup := by
  induction l with
  | nil => simp [dedup]
  | cons y ys ih =>
    simp only [dedup, List.nodup_cons, List.mem_filter, bne_self_eq_false, Bool.false_eq_true,
      and_false, not_false_eq_true, true_and]
    exact List.Pairwise.filter _ ih

theorem dedup_map_append (p : Str) (l : List Str) :
    dedup (l.map (p ++ ·)) = (dedup l).map (p ++ ·) := by
  induction l with
  | nil => rfl
  | cons y ys ih =>
    simp only [List.map_cons, dedup, ih, List.filter_map, List.cons.injEq, true_and]
    congr 1
    apply List.filter_congr
    intro x _
    have : (p ++ x == p ++ y) = (x == y) := by
      rw [Bool.eq_iff_iff]; simp
    simp [bne, this]

/-! ### prefixes of texts -/

theorem isPrefixOf_append_left (a x y : Str) : (a ++ x).isPrefixOf (a ++ y) = x.isPrefixOf y := by
  induction a with
  | nil => rfl
  | cons c cs ih => simp [ih]

theorem foldS_append (fc : Char → Char) (a b : Str) : foldS fc (a ++ b) = foldS fc a ++ foldS fc b := by
  simp [foldS]

/-- two texts "x:…" and "y:…" whose bodies have no colon: one is a prefix of the other only if x = y -/
theorem colon_prefix_eq (x y u l : Str) (hx : ':' ∉ x) (hy : ':' ∉ y)
    (h : (x ++ ':' :: u).isPrefixOf (y ++ ':' :: l) = true) : x = y := by
  induction x generalizing y with
  | nil =>
    cases y with
    | nil => rfl
    | cons c cs =>
      simp only [List.nil_append, List.cons_append, List.isPrefixOf, Bool.and_eq_true, beq_iff_eq] at h
      exact absurd (by simp [← h.1]) hy
  | cons d ds ih =>
    cases y with
    | nil =>
      simp only [List.nil_append, List.cons_append, List.isPrefixOf, Bool.and_eq_true, beq_iff_eq] at h
      exact absurd (by simp [h.1]) hx
    | cons c cs =>
      simp only [List.cons_append, List.isPrefixOf, Bool.and_eq_true, beq_iff_eq] at h
      rw [h.1, ih cs (fun m => hx (List.mem_cons_of_mem _ m)) (fun m => hy (List.mem_cons_of_mem _ m)) h.2]

/-! ### attribute unions -/

theorem flatMap_nil_of_empty (sel : Member → List Str) (g : Group) (h : ∀ e ∈ g, sel e.2 = []) :
    g.flatMap (memberNames sel) = [] := by
  induction g with
  | nil => rfl
  | cons e rest ih =>
    simp only [List.flatMap_cons, memberNames, h e List.mem_cons_self, List.map_nil, List.nil_append]
    exact ih (fun e' he' => h e' (List.mem_cons_of_mem _ he'))

theorem flatMap_only (sel : Member → List Str) (g : Group) (p : Str) (m : Member)
    (hnd : (prefixes g).Nodup) (hm : (p, m) ∈ g) (hoth : ∀ e ∈ g, e.1 ≠ p → sel e.2 = []) :
    g.flatMap (memberNames sel) = memberNames sel (p, m) := by
  induction g with
  | nil => cases hm
  | cons e rest ih =>
    simp only [prefixes, List.map_cons, List.nodup_cons] at hnd
    simp only [List.flatMap_cons]
    rcases List.mem_cons.mp hm with h | h
    · subst h
      rw [flatMap_nil_of_empty sel rest]
      · simp
      · intro e' he'
        apply hoth e' (List.mem_cons_of_mem _ he')
        intro heq
        exact hnd.1 (List.mem_map.mpr ⟨e', he', heq⟩)
    · have hp : p ∈ rest.map (·.1) := List.mem_map.mpr ⟨(p, m), h, rfl⟩
      have hne : e.1 ≠ p := fun x => hnd.1 (x ▸ hp)
      have : memberNames sel e = [] := by simp [memberNames, hoth e List.mem_cons_self hne]
      rw [this, List.nil_append]
      exact ih hnd.2 h (fun e' he' => hoth e' (List.mem_cons_of_mem _ he'))

theorem missing_map (fc : Char → Char) (p : Str) (names ls : List Str) :
    missing fc (names.map (p ++ ·)) (ls.map (p ++ ·)) = (missing fc names ls).map (p ++ ·) := by
  unfold missing
  rw [List.filter_map]
  congr 1
  apply List.filter_congr
  intro r _
  simp only [Function.comp_def, List.any_map, foldS_append, isPrefixOf_append_left]

theorem countFor_map (fc : Char → Char) (p u : Str) (ls : List Str) :
    countFor fc (p ++ u) (ls.map (p ++ ·)) = countFor fc u ls := by
  unfold countFor
  rw [List.filter_map, List.length_map]
  congr 1
  apply List.filter_congr
  intro r _
  simp only [Function.comp_def, foldS_append, isPrefixOf_append_left]

theorem repeated_map (fc : Char → Char) (p : Str) (names ls : List Str) :
    repeated fc (names.map (p ++ ·)) (ls.map (p ++ ·)) = (repeated fc names ls).map (p ++ ·) := by
  unfold repeated
  rw [List.filter_map]
  congr 1
  apply List.filter_congr
  intro r _
  simp only [Function.comp_def, countFor_map]

/-! ### registration of a list that extends another -/

theorem register_append (fold : Str → Str) (a b : List Name) (i0 : Nat) (tbl : Table) (dups : List Nat) :
    register fold (a ++ b) i0 tbl dups =
      register fold b (i0 + a.length) (register fold a i0 tbl dups).1 (register fold a i0 tbl dups).2.reverse := by
  induction a generalizing i0 tbl dups with
  | nil => simp [register]
  | cons n rest ih =>
    simp only [List.cons_append, register, List.length_cons]
    have e : i0 + (rest.length + 1) = i0 + 1 + rest.length := by omega
    split
    · rw [ih, e]
    · rw [ih, e]

theorem mem_get_isSome (t : Table) (k : Name) (i : Nat) (h : (k, i) ∈ t) : (t.get k).isSome = true := by
  induction t with
  | nil => cases h
  | cons e rest ih =>
    rw [get_cons]
    by_cases he : e.1 = k
    · simp [he]
    · have : (e.1 == k) = false := by simpa using he
      simp only [this, Bool.false_eq_true, ↓reduceIte]
      rcases List.mem_cons.mp h with h2 | h2
      · exact absurd (by rw [← h2]) he
      · exact ih h2

theorem get_isSome_mono (t t' : Table) (k : Name) (hsub : ∀ e ∈ t, e ∈ t') (h : (t.get k).isSome = true) :
    (t'.get k).isSome = true := by
  cases hg : t.get k with
  | none => simp [hg] at h
  | some i => exact mem_get_isSome t' k i (hsub _ (get_some_mem t k i hg))

/-- a tag whose folded last component is already a key when it is reached is recorded as duplicate -/
theorem register_flags (fold : Str → Str) (rest : List Name) (i0 : Nat) (tbl : Table) (dups : List Nat)
    (p : Nat) (b : Name) (hp : rest[p]? = some b) (hk : (tbl.get [fold (nameKey b)]).isSome = true) :
    (i0 + p) ∈ (register fold rest i0 tbl dups).2 := by
  induction rest generalizing i0 tbl dups p with
  | nil => simp at hp
  | cons n rest ih =>
    simp only [register]
    cases p with
    | zero =>
      simp only [List.getElem?_cons_zero, Option.some.injEq] at hp
      subst hp
      simp only [hk, ↓reduceIte, Nat.add_zero]
      exact (register_mono fold rest (i0 + 1) tbl (i0 :: dups)).2 i0 List.mem_cons_self
    | succ p' =>
      simp only [List.getElem?_cons_succ] at hp
      have e1 : i0 + (p' + 1) = (i0 + 1) + p' := by omega
      rw [e1]
      split
      · exact ih (i0 + 1) tbl (i0 :: dups) p' hp hk
      · apply ih (i0 + 1) _ dups p' hp
        exact get_isSome_mono tbl _ _ (fun e he => List.mem_append_right _ he) hk

/-- two tags with the same folded last component (not the bare `#`): the list has a duplicate -/
theorem register_clash (fold : Str → Str) (rest : List Name) (i0 : Nat) (tbl : Table) (dups : List Nat)
    (i j : Nat) (a b : Name) (hij : i < j) (ha : rest[i]? = some a) (hb : rest[j]? = some b)
    (hform : [nameKey a] ∈ forms a) (hsame : fold (nameKey a) = fold (nameKey b)) :
    (register fold rest i0 tbl dups).2 ≠ [] := by
  induction rest generalizing i0 tbl dups i j with
  | nil => simp at ha
  | cons n rest ih =>
    cases j with
    | zero => omega
    | succ j' =>
      simp only [List.getElem?_cons_succ] at hb
      cases i with
      | zero =>
        simp only [List.getElem?_cons_zero, Option.some.injEq] at ha
        subst ha
        simp only [register]
        split
        · intro hnil
          have := (register_mono fold rest (i0 + 1) tbl (i0 :: dups)).2 i0 List.mem_cons_self
          rw [hnil] at this; cases this
        · intro hnil
          have hk : (Table.get (((forms n).map fun f => (foldName fold f, i0)).reverse ++ tbl)
              [fold (nameKey b)]).isSome = true := by
            apply mem_get_isSome _ _ i0
            apply List.mem_append_left
            simp only [List.mem_reverse, List.mem_map]
            exact ⟨[nameKey n], hform, by simp [foldName, hsame]⟩
          have := register_flags fold rest (i0 + 1) _ dups j' b hb hk
          rw [hnil] at this; cases this
      | succ i' =>
        simp only [List.getElem?_cons_succ] at ha
        simp only [register]
        split
        · exact ih (i0 + 1) tbl (i0 :: dups) i' j' (by omega) ha hb
        · exact ih (i0 + 1) _ dups i' j' (by omega) ha hb

theorem placeAll_length (base : Vocab) (fc : Char → Char) (nStd : Nat) (cur : Name) (lib : List LibEntry)
    (placed : List Name) (h : placeAll base fc nStd cur lib = .ok placed) : placed.length = lib.length := by
  induction lib generalizing cur placed with
  | nil => simp [placeAll] at h; subst h; rfl
  | cons e rest ih =>
    obtain ⟨n, r⟩ := e
    cases r with
    | none =>
      simp only [placeAll] at h
      split at h
      · cases hr : placeAll base fc nStd [] rest with
        | error x => simp [hr, Except.map] at h
        | ok l => simp only [hr, Except.map, Except.ok.injEq] at h; subst h; simp [ih [] l hr]
      · cases hr : placeAll base fc nStd cur rest with
        | error x => simp [hr, Except.map] at h
        | ok l => simp only [hr, Except.map, Except.ok.injEq] at h; subst h; simp [ih cur l hr]
    | some r =>
      simp only [placeAll] at h
      split at h
      · cases h
      · split at h
        · cases h
        · split at h
          · rename_i i _ _
            cases hr : placeAll base fc nStd (base.name i) rest with
            | error x => simp [hr, Except.map] at h
            | ok l => simp only [hr, Except.map, Except.ok.injEq] at h; subst h; simp [ih _ l hr]
          · cases h

end HedVerif.Group

namespace HedVerif.C13
open HedVerif.Schema HedVerif.Group

/-! ## dispatch -/

/-- **Prefixed tags resolve in the prefix's schema alone.** In a group with pairwise distinct prefixes,
a text whose namespace is `p` resolves exactly as in the single schema loaded under `p`: the same node,
the same remainder, the same error. -/
theorem dispatch_prefixed (g : Group) (fc : Char → Char) (p : Str) (m : Member) (text : Str)
    (hnd : (prefixes g).Nodup) (hm : (p, m) ∈ g) (hns : namespaceOf text = p) :
    Group.find g fc text = findAlone p m fc text ∧
    Group.find g fc text = .res (Schema.find m.vocab (foldS fc) (text.drop p.length)) := by
  unfold Group.find findAlone
  simp [hns, lookup_of_mem g p m hnd hm]

/-- The same on a spelled-out text: `a:t` in the group is `t` looked up in `a:`'s vocabulary, which is
what the unprefixed text `t` gives in that schema loaded alone without a prefix (when `t` itself does
not start with a namespace). -/
theorem dispatch_prefixed_text (g : Group) (fc : Char → Char) (a t : Str) (m : Member)
    (hnd : (prefixes g).Nodup) (hm : (a ++ [':'], m) ∈ g) (ha : ':' ∉ a) (ha2 : '/' ∉ a)
    (ht : namespaceOf t = []) :
    Group.find g fc (a ++ ':' :: t) = findAlone [] m fc t ∧
    Group.find g fc (a ++ ':' :: t) = .res (Schema.find m.vocab (foldS fc) t) := by
  have hns := C03.namespace_ascii a t ha ha2
  have h := (dispatch_prefixed g fc (a ++ [':']) m (a ++ ':' :: t) hnd hm hns).2
  have hd : (a ++ ':' :: t).drop (a ++ [':']).length = t := by
    have : a ++ ':' :: t = (a ++ [':']) ++ t := by simp
    rw [this, List.drop_left]
  rw [hd] at h
  refine ⟨?_, h⟩
  rw [h]
  unfold findAlone
  simp [ht]

/-- **Unprefixed tags resolve in the unprefixed schema alone.** -/
theorem dispatch_unprefixed (g : Group) (fc : Char → Char) (m : Member) (text : Str)
    (hnd : (prefixes g).Nodup) (hm : ([], m) ∈ g) (hns : namespaceOf text = []) :
    Group.find g fc text = findAlone [] m fc text ∧
    Group.find g fc text = .res (Schema.find m.vocab (foldS fc) text) := by
  have := dispatch_prefixed g fc [] m text hnd hm hns
  simpa using this

/-- **A namespace that is not a member prefix is the namespace error** (whatever the rest of the text). -/
theorem bad_prefix (g : Group) (fc : Char → Char) (text : Str) (h : namespaceOf text ∉ prefixes g) :
    Group.find g fc text = .unmatched (namespaceOf text) ∧
    codeOf (Group.find g fc text) = some .tagNamespacePrefixInvalid := by
  unfold Group.find
  simp [lookup_none g _ h, codeOf]

/-- a non-empty namespace whose body is not alphabetic is flagged by the character check -/
theorem bad_prefix_nonalpha (alpha : Char → Bool) (ns : Str) (hne : ns ≠ []) (h : alphaPrefix alpha ns = false) :
    prefixIssue alpha ns = true := by
  unfold prefixIssue
  cases ns with
  | nil => exact absurd rfl hne
  | cons c cs => simp [h]

/-- … and can never be a member prefix: `set_schema_prefix` only installs alphabetic ones -/
theorem member_prefix_alpha (alpha : Char → Bool) (q p : Str) (h : setPrefix alpha q = .ok p) (hne : p ≠ []) :
    alphaPrefix alpha p = true := by
  simp only [setPrefix] at h
  generalize (if (!q.isEmpty && q.getLast? != some ':') = true then q ++ [':'] else q) = q' at h
  split at h
  · cases h
  · rename_i hc
    injection h with h
    subst h
    cases q' with
    | nil => exact absurd rfl hne
    | cons c cs => simpa using hc

/-- **A prefix that loads is never flagged on a tag**: load side and tag side apply the same alphabetic test
(whatever `str.isalpha` says about each character — ASCII, Latin-1, Cyrillic, …). -/
theorem loaded_prefix_no_issue (alpha : Char → Bool) (q p : Str) (h : setPrefix alpha q = .ok p) :
    prefixIssue alpha p = false := by
  cases p with
  | nil => rfl
  | cons c cs =>
    have := member_prefix_alpha alpha q (c :: cs) h (by simp)
    simp [prefixIssue, this]

theorem set_prefix_refuses (alpha : Char → Bool) (q : Str) (hne : q ≠ []) (hc : q.getLast? = some ':')
    (h : alphaPrefix alpha q = false) :
    setPrefix alpha q = .error .invalidLibraryPrefix := by
  unfold setPrefix
  cases q with
  | nil => exact absurd rfl hne
  | cons c cs => simp [hc, h]

/-! ## required / unique -/

/-- **Required tags, partial version.** The group's required-tag check equals the check against `p`'s
schema alone *provided no other member has `required` tags* (the group takes the union over all
members, `required_union_counterexample`). -/
theorem prefixed_partial (g : Group) (fc : Char → Char) (p : Str) (m : Member) (longs : List Str)
    (hnd : (prefixes g).Nodup) (hm : (p, m) ∈ g) (hoth : ∀ e ∈ g, e.1 ≠ p → e.2.required = []) :
    requiredIssues g fc longs = requiredIssues [(p, m)] fc longs := by
  unfold requiredIssues tagsWithAttribute
  rw [flatMap_only (·.required) g p m hnd hm hoth]
  simp

/-- the full statement (no hypothesis on the other members) fails: the union makes another member's
required tag missing from an annotation that only speaks `b:` -/
theorem required_union_counterexample :
    ∃ (g : Group) (p : Str) (m : Member) (longs : List Str),
      (prefixes g).Nodup ∧ (p, m) ∈ g ∧ (∀ l ∈ longs, p.isPrefixOf l = true) ∧
      requiredIssues g id longs ≠ requiredIssues [(p, m)] id longs :=
  ⟨[([], ⟨Vocab.build id [], [['R']], []⟩), (['b', ':'], ⟨Vocab.build id [], [], []⟩)],
   ['b', ':'], ⟨Vocab.build id [], [], []⟩, [['b', ':', 'X']],
   by decide, by simp, by decide, by decide⟩

/-- **Prefix stripping.** A schema loaded alone under prefix `p` judges the prefixed annotation as the
same schema loaded without prefix judges the unprefixed one (issues carry the prefix). -/
theorem strip_required (fc : Char → Char) (p : Str) (m : Member) (ls : List Str) :
    requiredIssues [(p, m)] fc (ls.map (p ++ ·)) = (requiredIssues [([], m)] fc ls).map (p ++ ·) := by
  unfold requiredIssues tagsWithAttribute
  simp only [List.flatMap_cons, List.flatMap_nil, List.append_nil, memberNames, List.nil_append,
    List.map_id']
  rw [dedup_map_append, missing_map]

theorem strip_unique (fc : Char → Char) (p : Str) (m : Member) (ls : List Str) :
    uniqueIssues [(p, m)] fc (ls.map (p ++ ·)) = (uniqueIssues [([], m)] fc ls).map (p ++ ·) := by
  unfold uniqueIssues tagsWithAttribute
  simp only [List.flatMap_cons, List.flatMap_nil, List.append_nil, memberNames, List.nil_append,
    List.map_id']
  rw [dedup_map_append, repeated_map]

/-- the names of member `q` never count tags of prefix `p` -/
def Separated (fc : Char → Char) (p q : Str) (names ls : List Str) : Prop :=
  ∀ u ∈ names, ∀ l ∈ ls, (foldS fc (q ++ u)).isPrefixOf (foldS fc (p ++ l)) = false

/-- **Unique counts never mix across prefixes.** Names carry their schema's prefix, so for an annotation
speaking `p:` the group reports exactly the unique-tag issues of `p`'s schema alone, each once, whenever
the other members' prefixed names are not text-prefixes of `p:`-tags (`separated_of_prefixes`: true for
two alphabetic prefixes that differ after case folding). -/
theorem unique_per_prefix (g : Group) (fc : Char → Char) (p : Str) (m : Member) (ls : List Str)
    (hnd : (prefixes g).Nodup) (hm : (p, m) ∈ g)
    (hsep : ∀ e ∈ g, e.1 ≠ p → Separated fc p e.1 e.2.unique ls) :
    (∀ x, x ∈ uniqueIssues g fc (ls.map (p ++ ·)) ↔ x ∈ uniqueIssues [(p, m)] fc (ls.map (p ++ ·))) ∧
    (uniqueIssues g fc (ls.map (p ++ ·))).Nodup ∧ (uniqueIssues [(p, m)] fc (ls.map (p ++ ·))).Nodup := by
  refine ⟨?_, List.Pairwise.filter _ (nodup_dedup _), List.Pairwise.filter _ (nodup_dedup _)⟩
  intro x
  unfold uniqueIssues tagsWithAttribute repeated
  simp only [List.mem_filter, mem_dedup, List.mem_flatMap, decide_eq_true_eq, List.mem_cons,
    List.not_mem_nil, or_false, exists_eq_left]
  constructor
  · rintro ⟨⟨e, he, hx⟩, hc⟩
    refine ⟨?_, hc⟩
    by_cases hep : e.1 = p
    · have : e = (p, m) := by
        have h1 := lookup_of_mem g e.1 e.2 hnd he
        rw [hep, lookup_of_mem g p m hnd hm] at h1
        cases e; simp_all
      rw [← this]; exact hx
    · exfalso
      simp only [memberNames, List.mem_map] at hx
      obtain ⟨u, hu, rfl⟩ := hx
      have h0 : countFor fc (e.1 ++ u) (ls.map (p ++ ·)) = 0 := by
        unfold countFor
        rw [List.length_eq_zero_iff, List.filter_eq_nil_iff]
        intro l hl
        obtain ⟨l0, hl0, rfl⟩ := List.mem_map.mp hl
        simp [hsep e he hep u hu l0 hl0]
      omega
  · rintro ⟨hx, hc⟩
    exact ⟨⟨(p, m), hm, hx⟩, hc⟩

theorem separated_of_prefixes (fc : Char → Char) (a b : Str) (names ls : List Str)
    (hc : fc ':' = ':') (ha : ':' ∉ foldS fc a) (hb : ':' ∉ foldS fc b) (hab : foldS fc a ≠ foldS fc b) :
    Separated fc (a ++ [':']) (b ++ [':']) names ls := by
  intro u _ l _
  cases h : (foldS fc (b ++ [':'] ++ u)).isPrefixOf (foldS fc (a ++ [':'] ++ l)) with
  | false => rfl
  | true =>
    exfalso
    apply hab
    have e1 : foldS fc (b ++ [':'] ++ u) = foldS fc b ++ ':' :: foldS fc u := by simp [foldS, hc]
    have e2 : foldS fc (a ++ [':'] ++ l) = foldS fc a ++ ':' :: foldS fc l := by simp [foldS, hc]
    rw [e1, e2] at h
    exact (colon_prefix_eq _ _ _ _ hb ha h).symm

/-- With two prefixes that differ only in case (`a:` / `A:`, distinct dictionary keys, both accepted by
the group constructor) the counts DO mix: the group reports the repeated unique tag once per colliding
member, the schema alone once. -/
theorem unique_case_collision_counterexample :
    ∃ (g : Group) (p : Str) (m : Member) (ls : List Str),
      (prefixes g).Nodup ∧ (p, m) ∈ g ∧
      (uniqueIssues g Char.toLower (ls.map (p ++ ·))).length ≠
        (uniqueIssues [(p, m)] Char.toLower (ls.map (p ++ ·))).length :=
  ⟨[(['a', ':'], ⟨Vocab.build id [], [], [['u']]⟩), (['A', ':'], ⟨Vocab.build id [], [], [['u']]⟩)],
   ['a', ':'], ⟨Vocab.build id [], [], [['u']]⟩, [['u'], ['u']],
   by decide, by simp, by decide⟩

/-! ## version lists -/

theorem parseSeen_error_of_mem (vs : List Str) (seen : List (Str × Str)) (v : Str) (hv : v ∈ vs)
    (hs : partitionColon v ∈ seen) : ∃ e, parseSeen vs seen = .error e := by
  induction vs generalizing seen with
  | nil => cases hv
  | cons w ws ih =>
    simp only [parseSeen]
    split
    · exact ⟨_, rfl⟩
    · rcases List.mem_cons.mp hv with h | h
      · subst h; rename_i hn; exact absurd hs hn
      · exact ih (seen ++ [partitionColon w]) h (List.mem_append_left _ hs)

/-- **The same version twice under one prefix is refused** (wherever the two occurrences are). -/
theorem refuse_duplicate_version (pre mid post : List Str) (x y : Str)
    (h : partitionColon x = partitionColon y) :
    ∃ e, parseVersionList (pre ++ x :: mid ++ y :: post) = .error e := by
  suffices h' : ∀ seen, ∃ e, parseSeen (pre ++ x :: mid ++ y :: post) seen = .error e by
    obtain ⟨e, he⟩ := h' []
    exact ⟨e, by unfold parseVersionList; rw [he]; rfl⟩
  intro seen
  induction pre generalizing seen with
  | nil =>
    simp only [List.nil_append, List.cons_append, parseSeen]
    split
    · exact ⟨_, rfl⟩
    · apply parseSeen_error_of_mem _ _ y (by simp)
      rw [← h]; simp
  | cons w ws ih =>
    simp only [List.cons_append, parseSeen]
    split
    · exact ⟨_, rfl⟩
    · simpa using ih _

/-- versions without repetition are accepted, every one of them under its prefix -/
theorem parseSeen_ok (vs : List Str) (seen : List (Str × Str))
    (hn : (seen ++ vs.map partitionColon).Nodup) :
    parseSeen vs seen = .ok (seen ++ vs.map partitionColon) := by
  induction vs generalizing seen with
  | nil => simp [parseSeen]
  | cons w ws ih =>
    simp only [parseSeen, List.map_cons]
    have hnot : partitionColon w ∉ seen := by
      intro hm
      rw [List.map_cons, List.nodup_append] at hn
      exact hn.2.2 _ hm _ List.mem_cons_self rfl
    rw [if_neg hnot]
    have := ih (seen ++ [partitionColon w]) (by simpa using hn)
    simpa using this

theorem accept_distinct (vs : List Str) (h : (vs.map partitionColon).Nodup) :
    parseVersionList vs = .ok (grouping (vs.map partitionColon)) := by
  unfold parseVersionList
  rw [parseSeen_ok vs [] (by simpa using h)]
  simp [Except.map]

/-! ## merge -/

/-- the standard's tags stay at the head of the merged list -/
theorem mergeInto_shape (fc : Char → Char) (base : List Name) (nStd : Nat) (lib : List LibEntry) (m : List Name)
    (h : mergeInto fc base nStd lib = .ok m) :
    (∃ placed, m = base ++ placed ∧ placed.length = lib.length) ∧
    (Vocab.build (foldS fc) m).dups = [] := by
  unfold mergeInto at h
  split at h
  · cases h
  · rename_i all hp
    simp only at h
    split at h
    · rename_i hd
      injection h with h
      subst h
      refine ⟨?_, by simpa using hd⟩
      unfold place at hp
      cases hr : placeAll (Vocab.build (foldS fc) base) fc nStd [] lib with
      | error x => simp [hr, Except.map] at hp
      | ok l =>
        simp only [hr, Except.map, Except.ok.injEq] at hp
        exact ⟨l, hp.symm, placeAll_length _ _ _ _ _ _ hr⟩
    · cases h

theorem build_table_append (fold : Str → Str) (a b : List Name) :
    (∀ e ∈ (Vocab.build fold a).table, e ∈ (Vocab.build fold (a ++ b)).table) ∧
    (∀ d ∈ (Vocab.build fold a).dups, d ∈ (Vocab.build fold (a ++ b)).dups) := by
  simp only [Vocab.build]
  rw [register_append]
  have := register_mono fold b (0 + a.length) (register fold a 0 [] []).1 (register fold a 0 [] []).2.reverse
  exact ⟨this.1, fun d hd => this.2 d (by simpa using hd)⟩

/-- **Merging is conservative.** If the library merges into the standard then: every standard tag is in
the merged list at the same index with the identical long name, followed by exactly the library's tags;
neither list has duplicates; every key (folded form) the standard knows is bound to the same entry in the
merged dictionary; and every text that is a form of a standard tag resolves in the merged schema exactly
as in the standard alone (same node, same remainder). -/
theorem merge_conservative (fc : Char → Char) (std : List Name) (lib : List LibEntry) (m : List Name)
    (h : merge fc std lib = .ok m) (hwf : C03.WF (Vocab.build (foldS fc) m)) :
    (∃ placed, m = std ++ placed ∧ placed.length = lib.length) ∧
    (∀ (i : Nat) (n : Name), std[i]? = some n → m[i]? = some n) ∧
    (Vocab.build (foldS fc) std).dups = [] ∧ (Vocab.build (foldS fc) m).dups = [] ∧
    (∀ k i, (Vocab.build (foldS fc) std).table.get k = some i →
        (Vocab.build (foldS fc) m).table.get k = some i) ∧
    (∀ comps i, (Vocab.build (foldS fc) std).table.get (foldName (foldS fc) comps) = some i →
        findComps (Vocab.build (foldS fc) m) (foldS fc) comps =
        findComps (Vocab.build (foldS fc) std) (foldS fc) comps) := by
  obtain ⟨⟨placed, hm, hlen⟩, hd⟩ := mergeInto_shape fc std std.length lib m h
  subst hm
  have happ := build_table_append (foldS fc) std placed
  have hkeys : ∀ k i, (Vocab.build (foldS fc) std).table.get k = some i →
      (Vocab.build (foldS fc) (std ++ placed)).table.get k = some i := fun k i hk =>
    get_of_mem _ hwf k i (happ.1 _ (get_some_mem _ k i hk))
  refine ⟨⟨placed, rfl, hlen⟩, ?_, ?_, hd, hkeys, ?_⟩
  · intro i n hi
    have hlt : i < std.length := by
      rcases Nat.lt_or_ge i std.length with h1 | h1
      · exact h1
      · simp [List.getElem?_eq_none h1] at hi
    rw [List.getElem?_append_left hlt]; exact hi
  · cases hs : (Vocab.build (foldS fc) std).dups with
    | nil => rfl
    | cons d ds =>
      have := happ.2 d (by simp [hs])
      rw [hd] at this; cases this
  · intro comps i hk
    unfold findComps
    simp only [hk, hkeys _ _ hk]

/-- every standard form, in any case, resolves to the same standard node after the merge -/
theorem merge_keeps_forms (fc : Char → Char) (std : List Name) (lib : List LibEntry) (m : List Name)
    (h : merge fc std lib = .ok m) (hwf : C03.WF (Vocab.build (foldS fc) m))
    (hwfs : C03.WF (Vocab.build (foldS fc) std))
    (i : Nat) (n f f' : Name) (hi : std[i]? = some n) (hf : f ∈ forms n)
    (hcase : foldName (foldS fc) f' = foldName (foldS fc) f) :
    findComps (Vocab.build (foldS fc) m) (foldS fc) f' = findComps (Vocab.build (foldS fc) std) (foldS fc) f' ∧
    (Vocab.build (foldS fc) m).table.get (foldName (foldS fc) f') = some i := by
  have mc := merge_conservative fc std lib m h hwf
  have hnd : i ∉ (Vocab.build (foldS fc) std).dups := by rw [mc.2.2.1]; simp
  have hk := C03.direct_hit (foldS fc) std i n hi hnd hwfs f hf
  rw [← hcase] at hk
  exact ⟨mc.2.2.2.2.2 f' i hk, mc.2.2.2.2.1 _ _ hk⟩

/-- a rooted library tag is placed directly under the long name of its root (a partner tag) -/
theorem rooted_placed_under_root (base : Vocab) (fc : Char → Char) (nStd : Nat) (cur : Name) (c r : Str)
    (rest : List LibEntry) (placed : List Name) (i : Nat)
    (hr : base.table.get [foldS fc r] = some i) (hi : i < nStd)
    (h : placeAll base fc nStd cur (([c], some r) :: rest) = .ok placed) :
    placed.head? = some (base.name i ++ [c]) := by
  simp only [placeAll, List.length_cons, List.length_nil, Nat.zero_add, bne_self_eq_false,
    Bool.false_eq_true, ↓reduceIte, hr, hi] at h
  cases hp : placeAll base fc nStd (base.name i) rest with
  | error x => simp [hp, Except.map] at h
  | ok l => simp only [hp, Except.map, Except.ok.injEq] at h; subst h; rfl

/-- **Clashing names under one prefix are refused**: if the placed library has a tag whose folded
short name equals that of an earlier tag (of the partner, of a previously merged library or of itself),
`mergeInto` fails with the duplicate error. -/
theorem refuse_clash (fc : Char → Char) (base : List Name) (nStd : Nat) (lib : List LibEntry) (all : List Name)
    (hp : place fc base nStd lib = .ok all) (i j : Nat) (a b : Name) (hij : i < j)
    (ha : all[i]? = some a) (hb : all[j]? = some b) (hform : [nameKey a] ∈ forms a)
    (hsame : foldS fc (nameKey a) = foldS fc (nameKey b)) :
    ∃ d, mergeInto fc base nStd lib = .error (.duplicate d) := by
  unfold mergeInto
  simp only [hp]
  have := register_clash (foldS fc) all 0 [] [] i j a b hij ha hb hform hsame
  have hne : (Vocab.build (foldS fc) all).dups ≠ [] := by simpa [Vocab.build] using this
  cases hd : (Vocab.build (foldS fc) all).dups with
  | nil => exact absurd hd hne
  | cons x xs => exact ⟨x :: xs, by simp⟩

/-! ## several versions under one prefix -/

theorem nodup_of_map {α β} (f : α → β) (l : List α) (h : (l.map f).Nodup) : l.Nodup := by
  induction l with
  | nil => exact List.nodup_nil
  | cons x xs ih =>
    simp only [List.map_cons, List.nodup_cons] at h ⊢
    exact ⟨fun hx => h.1 (List.mem_map.mpr ⟨x, hx, rfl⟩), ih h.2⟩

/-- the group constructor's test implies the hypothesis of the dispatch theorems -/
theorem wellFormed_distinct (fc : Char → Char) (g : Group) (h : wellFormed fc g = true) :
    (prefixes g).Nodup := by
  simp only [wellFormed, Bool.and_eq_true, decide_eq_true_eq] at h
  exact nodup_of_map _ _ h.2

/-- … and two prefixes differing only in case are refused (`unique_case_collision_counterexample` is about
a group the constructor no longer builds) -/
example : wellFormed Char.toLower
    [(['a', ':'], ⟨Vocab.build id [], [], []⟩), (['A', ':'], ⟨Vocab.build id [], [], []⟩)] = false := by decide

theorem placeAll_unrooted (base : Vocab) (fc : Char → Char) (nStd : Nat) (ns : List Name) :
    placeAll base fc nStd [] (ns.map fun n => (n, none)) = .ok ns := by
  induction ns with
  | nil => rfl
  | cons n rest ih =>
    simp only [List.map_cons, placeAll]
    split <;> simp [ih, Except.map]

/-- **A schema that is not partnered, or names another partner, is never appended**: loading `a,b,…`
under one prefix is refused by the header guards unless `a` is a partnered library and `b` names the same
standard schema — in particular a standard schema after a library, a library after a standard schema and
two standard schemas are refused whatever their tags. -/
theorem refuse_unpartnered (fc : Char → Char) (a b : Source) (rest : List Source)
    (h : a.withStandard = [] ∨ b.withStandard ≠ a.withStandard) :
    loadVersions fc a (b :: rest) = .error .notPartnered ∨
    loadVersions fc a (b :: rest) = .error .withStandardDiffers := by
  unfold loadVersions
  rw [List.foldlM_cons]
  by_cases h1 : a.withStandard = []
  · left; simp [appendSource, h1, bind, Except.bind]
  · right
    have h2 : b.withStandard ≠ a.withStandard := by
      rcases h with h | h
      · exact absurd h h1
      · exact h
    have h1' : a.withStandard.isEmpty = false := by
      cases hw : a.withStandard with
      | nil => exact absurd hw h1
      | cons c cs => rfl
    have h2' : (b.withStandard != a.withStandard) = true := by simpa using h2
    simp [appendSource, h1', h2', bind, Except.bind]

/-- what a successful two-version load guarantees: same (non-empty) partner, the first file's tags
unchanged at the head, only library tags of the second appended, and no short name bound twice -/
theorem load_two_ok (fc : Char → Char) (a b : Source) (m : List Name)
    (h : loadVersions fc a [b] = .ok m) :
    a.withStandard ≠ [] ∧ b.withStandard = a.withStandard ∧
    m = a.names ++ b.libNames ∧ (Vocab.build (foldS fc) m).dups = [] := by
  unfold loadVersions at h
  simp only [List.foldlM_cons, List.foldlM_nil, bind_pure] at h
  unfold appendSource at h
  split at h
  · cases h
  · rename_i hw
    split at h
    · cases h
    · rename_i hb
      split at h
      · rename_i m' hm
        injection h with h
        subst h
        have sh := mergeInto_shape fc _ _ _ _ hm
        refine ⟨?_, by simpa using hb, ?_, sh.2⟩
        · intro hnil; simp [hnil] at hw
        · unfold mergeInto place at hm
          rw [placeAll_unrooted] at hm
          simp only [Except.map] at hm
          split at hm
          · injection hm with hm; exact hm.symm
          · cases hm
      · cases h

/-- **Clashing names under one prefix are refused (whole load).** If a tag of the first file and a library
tag of the second have the same folded short name, the load fails — by a header guard or by the duplicate
check. -/
theorem refuse_shared_name (fc : Char → Char) (a b : Source) (i k : Nat) (x y : Name)
    (hx : a.names[i]? = some x) (hy : b.libNames[k]? = some y) (hform : [nameKey x] ∈ forms x)
    (hsame : foldS fc (nameKey x) = foldS fc (nameKey y)) :
    ∃ e, loadVersions fc a [b] = .error e := by
  cases hl : loadVersions fc a [b] with
  | error e => exact ⟨e, rfl⟩
  | ok m =>
    exfalso
    obtain ⟨_, _, hm, hd⟩ := load_two_ok fc a b m hl
    have hi : i < a.names.length := by
      rcases Nat.lt_or_ge i a.names.length with h1 | h1
      · exact h1
      · simp [List.getElem?_eq_none h1] at hx
    have ha : m[i]? = some x := by rw [hm, List.getElem?_append_left hi]; exact hx
    have hb : m[a.names.length + k]? = some y := by
      rw [hm, List.getElem?_append_right (by omega)]
      simpa using hy
    have := register_clash (foldS fc) m 0 [] [] i (a.names.length + k) x y (by omega) ha hb hform hsame
    exact this (by simpa [Vocab.build] using hd)

/-- **Merge then prefix = prefix then merge.** In the model the prefix is a label of the member and no part of its
vocabulary, so finalising a merged vocabulary cannot depend on it: for the vocabulary `m` that `loadVersions`
produces from several libraries, the spelling `a:t` resolves in any group holding that member under `a:` exactly
as `t` resolves in the same merge loaded without a prefix — same node, same remainder, same error, prefix
apart.  (That the implementation, which sets the prefix BEFORE merging the second library and finalises again,
agrees is what the merged-prefix streams of the harness check.) -/
theorem merge_prefix_commute (fc : Char → Char) (first : Source) (rest : List Source) (m : List Name)
    (_h : loadVersions fc first rest = .ok m) (g : Group) (a t : Str) (M : Member)
    (hM : M.vocab = Vocab.build (foldS fc) m)
    (hnd : (prefixes g).Nodup) (hm : (a ++ [':'], M) ∈ g) (ha : ':' ∉ a) (ha2 : '/' ∉ a)
    (ht : namespaceOf t = []) :
    Group.find g fc (a ++ ':' :: t) = findAlone [] M fc t ∧
    Group.find g fc (a ++ ':' :: t) = .res (Schema.find (Vocab.build (foldS fc) m) (foldS fc) t) := by
  have := dispatch_prefixed_text g fc a t M hnd hm ha ha2 ht
  rw [hM] at this
  exact ⟨by rw [this.1], this.2⟩

/-! ## non-vacuity -/

/-- a two-member group; prefixed and unprefixed lookups; unknown prefix -/
example :
    let std : Member := ⟨Vocab.build id [[['E']], [['E'], ['S']]], [], []⟩
    let lib : Member := ⟨Vocab.build id [[['L']]], [], []⟩
    let g : Group := [([], std), (['s', ':'], lib)]
    Group.find g id ['s', ':', 'L'] = .res (.found 0 []) ∧
    Group.find g id ['S'] = .res (.found 1 []) ∧
    Group.find g id ['s', ':', 'S'] = .res (.noValidTag 1) ∧
    Group.find g id ['z', ':', 'S'] = .unmatched ['z', ':'] ∧
    prefixIssue Char.isAlpha ['s', '1', ':'] = true ∧ prefixIssue Char.isAlpha ['s', ':'] = false ∧
    prefixIssue Char.isAlpha [':'] = true := by
  decide

/-- merge: a rooted library tag goes under its root, an unrooted one to the top level; a clash is refused -/
example :
    (merge id [[['E']], [['E'], ['S']]] [([['L']], some ['S']), ([['L'], ['M']], none), ([['T']], none)]).toOption
      = some [[['E']], [['E'], ['S']], [['E'], ['S'], ['L']], [['E'], ['S'], ['L'], ['M']], [['T']]] ∧
    (merge id [[['E']], [['E'], ['S']]] [([['S']], none)]).toOption = none ∧
    (merge id [[['E']]] [([['L']], some ['X'])]).toOption = none := by
  decide

/-- loading under one prefix: same-partner libraries merge, anything else is refused -/
example :
    let std : Source := ⟨[], [([['E']], false)]⟩
    let l1 : Source := ⟨['8'], [([['E']], false), ([['E'], ['A']], true)]⟩
    let l2 : Source := ⟨['8'], [([['E']], false), ([['B']], true)]⟩
    let l3 : Source := ⟨['8'], [([['E']], false), ([['E'], ['a']], true)]⟩
    (loadVersions Char.toLower l1 [l2]).toOption = some [[['E']], [['E'], ['A']], [['B']]] ∧
    (match loadVersions Char.toLower l1 [std] with | .error .withStandardDiffers => true | _ => false) = true ∧
    (match loadVersions Char.toLower std [l1] with | .error .notPartnered => true | _ => false) = true ∧
    (loadVersions Char.toLower l1 [l3]).toOption = none := by
  decide

/-- version lists -/
example :
    (parseVersionList [['8'], ['s', ':', 'a'], ['b'], ['s', ':', 'c']]).toOption
      = some [([], ['8', ',', 'b']), (['s'], ['s', ':', 'a', ',', 'c'])] ∧
    (parseVersionList [['s', ':', 'a'], ['b'], ['s', ':', 'a']]).toOption = none := by
  decide

/-! ## the name-keyed sections -/

theorem addAll_prefix (key : SEntry → Str) (ph : Bool) (es acc : List SEntry) (d : List Str) :
    (∃ x, (addAll key ph es acc d).1 = acc ++ x) ∧ (∀ n ∈ d, n ∈ (addAll key ph es acc d).2) := by
  induction es generalizing acc d with
  | nil => exact ⟨⟨[], by simp [addAll]⟩, fun n hn => by simpa [addAll] using hn⟩
  | cons e es ih =>
    simp only [addAll]
    split
    · split
      · exact ih acc d
      · obtain ⟨h1, h2⟩ := ih acc (d ++ [e.name])
        exact ⟨h1, fun n hn => h2 n (List.mem_append_left _ hn)⟩
    · obtain ⟨⟨x, hx⟩, h2⟩ := ih (acc ++ [e]) d
      exact ⟨⟨[e] ++ x, by rw [hx]; simp⟩, h2⟩

theorem addAll_flags (key : SEntry → Str) (ph : Bool) (es acc : List SEntry) (d : List Str) (e : SEntry)
    (he : e ∈ es) (hk : acc.any (fun x => key x == key e) = true) (hnp : (ph && isPlaceholder e) = false) :
    (addAll key ph es acc d).2 ≠ [] := by
  induction es generalizing acc d with
  | nil => cases he
  | cons f es ih =>
    simp only [addAll]
    rcases List.mem_cons.mp he with h | h
    · subst h
      rw [if_pos hk]
      simp only [hnp, Bool.false_eq_true, ↓reduceIte]
      intro hnil
      have := (addAll_prefix key ph es acc (d ++ [e.name])).2 e.name (by simp)
      rw [hnil] at this; cases this
    · split
      · split
        · exact ih acc _ h hk
        · exact ih acc _ h hk
      · apply ih (acc ++ [f]) d h
        simp only [List.any_append, hk, Bool.true_or]

theorem addAll_kept (key : SEntry → Str) (ph : Bool) (es acc : List SEntry) (d : List Str)
    (h : (addAll key ph es acc d).2 = []) :
    ∀ e ∈ es, e ∈ (addAll key ph es acc d).1 ∨ (ph = true ∧ isPlaceholder e = true) := by
  induction es generalizing acc d with
  | nil => intro e he; cases he
  | cons f es ih =>
    simp only [addAll] at h ⊢
    split
    · rename_i hk
      rw [if_pos hk] at h
      split
      · rename_i hp
        rw [if_pos hp] at h
        intro e he
        rcases List.mem_cons.mp he with he | he
        · subst he; right; simpa using hp
        · exact ih _ _ h e he
      · rename_i hp
        rw [if_neg hp] at h
        have := (addAll_prefix key ph es acc (d ++ [f.name])).2 f.name (by simp)
        rw [h] at this; cases this
    · rename_i hk
      rw [if_neg hk] at h
      intro e he
      rcases List.mem_cons.mp he with he | he
      · subst he
        obtain ⟨x, hx⟩ := (addAll_prefix key ph es (acc ++ [e]) d).1
        left; rw [hx]; simp
      · exact ih _ _ h e he

/-- **Sections merge conservatively.** If a library's section merges into the partner's, the partner's
entries stay first and unchanged, every key the partner knows is looked up to the same entry (same
attributes), and every entry the library offers is present with its own attributes (a bare placeholder of an
existing unit class excepted: it only carries units). -/
theorem section_conservative (key : SEntry → Str) (ph : Bool) (base lib m : List SEntry) (am : Bool)
    (h : mergeSection key ph base lib am = .ok m) :
    (∃ added, m = base ++ added) ∧
    (∀ k e, sectionGet key base k = some e → sectionGet key m k = some e) ∧
    (∀ e ∈ offered lib am, e ∈ m ∨ (ph = true ∧ isPlaceholder e = true)) := by
  simp only [mergeSection] at h
  split at h
  · rename_i hd
    injection h with h
    subst h
    obtain ⟨x, hx⟩ := (addAll_prefix key ph (offered lib am) base []).1
    refine ⟨⟨x, hx⟩, ?_, addAll_kept key ph _ _ _ (by simpa using hd)⟩
    intro n e hn
    rw [hx]
    unfold sectionGet at hn ⊢
    rw [List.find?_append, hn]; rfl
  · cases h

/-- **A shared name in a section is refused**: a unit class, unit, unit modifier, value class, attribute or
property the library offers under a key the partner (or an earlier library) already has — unless it is the
bare placeholder by which a library adds units to a partner's unit class. -/
theorem section_refuse_shared (key : SEntry → Str) (ph : Bool) (base lib : List SEntry) (am : Bool) (b l : SEntry)
    (hb : b ∈ base) (hl : l ∈ offered lib am) (hsame : key b = key l) (hnp : (ph && isPlaceholder l) = false) :
    ∃ d, mergeSection key ph base lib am = .error d ∧ d ≠ [] := by
  have hk : base.any (fun x => key x == key l) = true := List.any_eq_true.mpr ⟨b, hb, by simp [hsame]⟩
  have := addAll_flags key ph (offered lib am) base [] l hl hk hnp
  simp only [mergeSection]
  split
  · rename_i hd; exact absurd (by simpa using hd) this
  · exact ⟨_, rfl, this⟩

/-! ## validation against a group (on the string-validator model of C01) -/

section GroupValidate
open HedVerif.Validate HedVerif.GroupValidate

theorem member_self_ns (g : VGroup) (p : Str) (m : VMember) (h : member g p = some m) : m.env.ns = p := by
  have := List.find?_some h
  simpa using this

/-- **Per-tag dispatch = the member's own lookup.** For a tag whose namespace is `m`'s prefix, or is not
loaded at all, looking the tag up through the group gives exactly what the single-schema lookup of the
string-validator model gives in `m`'s environment (same entry, same remainder, same issues). -/
theorem canonG_eq_view (g : VGroup) (m : VMember) (t : RTag)
    (hm : member g m.env.ns = some m) (ht : t.ns = m.env.ns ∨ member g t.ns = none) :
    canonG g t = canon (view g m) t := by
  have hview : canon (view g m) t = canon m.env t := rfl
  rw [hview]
  unfold canonG
  rcases ht with h | h
  · rw [h, hm]
  · have hne : t.ns ≠ m.env.ns := by
      intro e; rw [e, hm] at h; cases h
    have : (t.ns != m.env.ns) = true := by simpa using hne
    simp [h, canon, this]

/-- **A tag with a prefix that is not loaded gets exactly TAG_NAMESPACE_PREFIX_INVALID** (one issue, an
error, on that tag) from the lookup, whatever the members are. -/
theorem unloaded_prefix_invalid (g : VGroup) (t : RTag) (h : member g t.ns = none) :
    (canonG g t).2 = [tagIssue .libraryUnmatched t] ∧
    (tagIssue .libraryUnmatched t).code = Generated.CodeMap.code_TAG_NAMESPACE_PREFIX_INVALID ∧
    (tagIssue .libraryUnmatched t).isError = true ∧ (canonG g t).1.entry = none := by
  unfold canonG
  simp only [h]
  refine ⟨trivial, ?_, ?_, trivial⟩
  · show Kind.code .libraryUnmatched = _
    decide
  · show decide (Kind.sev .libraryUnmatched < Generated.CodeMap.sevWarning) = true
    decide

/-- the string validator's tag-side prefix check (C01's model) is `Group.prefixIssue` with `str.isalpha` as the
character data of the environment says -/
theorem tag_prefix_check (env : Env) (ph : Bool) (t : RTag) :
    ∃ rest, tagCharIssues env ph t =
      (if prefixIssue (Validate.isAlpha env.cd) t.ns then [tagIssue .nsPrefixInvalid t] else []) ++ rest :=
  ⟨_, rfl⟩

/-- … so a tag carrying a prefix that `set_schema_prefix` accepted gets no namespace-syntax issue -/
theorem loaded_prefix_tag_clean (env : Env) (ph : Bool) (t : RTag) (q : Str)
    (h : setPrefix (Validate.isAlpha env.cd) q = .ok t.ns) :
    ∀ i ∈ tagCharIssues env ph t, i.kind ≠ .nsPrefixInvalid ∨ i ∈
      invalidCharsFrom env.cd (if ph then Generated.CodeMap.tagAllowedChars ++ ['#'] else Generated.CodeMap.tagAllowedChars)
        t none 0 (orgBase t) := by
  intro i hi
  have hp := loaded_prefix_no_issue _ q t.ns h
  simp only [prefixIssue, alphaPrefix] at hp
  simp only [tagCharIssues, hp] at hi
  right
  simpa using hi

/-- mixed annotations at the lookup level: the lookup issues are the per-tag union -/
theorem lookup_issues_per_tag (g : VGroup) (ts us : List RTag) :
    (ts ++ us).flatMap (fun t => (canonG g t).2) =
      ts.flatMap (fun t => (canonG g t).2) ++ us.flatMap (fun t => (canonG g t).2) := by
  simp

theorem namesWith_prefix (env : Env) (sel : TagAttr → Bool) (n : Str) (h : n ∈ namesWith env sel) :
    ∃ r, n = env.ns ++ r := by
  simp only [namesWith, List.mem_filterMap] at h
  obtain ⟨i, _, hi⟩ := h
  split at hi
  · injection hi with hi; exact ⟨_, hi.symm⟩
  · cases hi

/-- **`group_validate_eq_single`.** An annotation speaking `m`'s prefix is judged by the group exactly as by
`m`'s schema alone — the complete issue list — provided (1) the group's character-rule flag is the member's
(`generation_counterexample`: a group mixing a ≥ 8.3.0 and an older member violates this), (2) no other member
has `required` tags (`required_union_counterexample`), (3) no other member's `unique` name counts two tags of
the annotation (`countPrefix_zero_of_separated`: impossible for alphabetic prefixes that differ after folding). -/
theorem group_validate_eq_single (g : VGroup) (m : VMember) (ph : Bool) (text : Str)
    (hmod : groupModern g = m.env.modern)
    (hreq : otherNames g m.env.ns (·.required) = [])
    (hsep : ∀ n ∈ otherNames g m.env.ns (·.unique),
      countPrefix m.env (tagsList ((parse m.env text).final m.env)) n ≤ 1) :
    validateFor g m ph text = Validate.validate m.env ph text := by
  have hv : view g m = m.env := by unfold view; rw [hmod]
  unfold validateFor Validate.validate validateP
  simp only [hv]
  split
  · rfl
  · have h1 : extraRequired g m.env (tagsList ((parse m.env text).final m.env)) = [] := by
      unfold extraRequired; rw [hreq]; rfl
    have h2 : extraUnique g m.env (tagsList ((parse m.env text).final m.env)) = [] := by
      unfold extraUnique
      rw [List.flatMap_eq_nil_iff]
      intro n hn
      have := hsep n hn
      have hgt : ¬ (countPrefix m.env (tagsList ((parse m.env text).final m.env)) n > 1) := by omega
      simp [hgt]
    rw [h1, h2]; simp

theorem fold_eq_foldS (s : Str) : Validate.fold s = Group.foldS Char.toLower s := rfl

/-- another member's name never counts a resolved tag of prefix `a:` -/
theorem countPrefix_zero_of_separated (env : Env) (tags : List RTag) (a b rest : Str)
    (ha : ':' ∉ Validate.fold a) (hb : ':' ∉ Validate.fold b) (hab : Validate.fold a ≠ Validate.fold b)
    (hres : ∀ t ∈ tags, t.entry.isSome = true ∧ t.ns = a ++ [':']) :
    countPrefix env tags (b ++ [':'] ++ rest) = 0 := by
  unfold countPrefix
  rw [List.length_eq_zero_iff, List.filter_eq_nil_iff]
  intro t ht
  obtain ⟨he, hns⟩ := hres t ht
  cases hent : t.entry with
  | none => simp [hent] at he
  | some e =>
    intro hpre
    apply hab
    have e1 : Validate.fold (b ++ [':'] ++ rest) = Validate.fold b ++ ':' :: Validate.fold rest := by
      simp [Validate.fold]
    have e2 : Validate.fold (Validate.longTag env t) =
        Validate.fold a ++ ':' :: Validate.fold (env.vocab.longName e ++ t.extVal) := by
      simp [Validate.fold, Validate.longTag, hent, hns]
    rw [e1, e2] at hpre
    exact (Group.colon_prefix_eq _ _ _ _ hb ha hpre).symm

/-- `group_validate_eq_single` with the separation discharged from the shape of the prefixes: `m` speaks
`a:`, every other member speaks some `b:` with `fold b ≠ fold a` (what the group constructor enforces since
1a730be), and the annotation's tags are all resolved under `a:` when the full-string checks are reached. -/
theorem group_validate_eq_single_alpha (g : VGroup) (m : VMember) (ph : Bool) (text : Str) (a : Str)
    (hmod : groupModern g = m.env.modern)
    (hreq : otherNames g m.env.ns (·.required) = [])
    (_hp : m.env.ns = a ++ [':']) (ha : ':' ∉ Validate.fold a)
    (hoth : ∀ o ∈ g, o.env.ns ≠ m.env.ns →
      ∃ b, o.env.ns = b ++ [':'] ∧ ':' ∉ Validate.fold b ∧ Validate.fold a ≠ Validate.fold b)
    (hres : ∀ t ∈ tagsList ((parse m.env text).final m.env), t.entry.isSome = true ∧ t.ns = a ++ [':']) :
    validateFor g m ph text = Validate.validate m.env ph text := by
  apply group_validate_eq_single g m ph text hmod hreq
  intro n hn
  simp only [otherNames, List.mem_flatMap, List.mem_filter, bne_iff_ne, ne_eq] at hn
  obtain ⟨o, ⟨hog, hne⟩, hno⟩ := hn
  obtain ⟨b, hb, hbc, hab⟩ := hoth o hog hne
  obtain ⟨r, hr⟩ := namesWith_prefix o.env _ n hno
  rw [hr, hb, countPrefix_zero_of_separated m.env _ a b r ha hbc hab hres]
  omega

/-- the character rules are one flag for the whole string: a group of an 8.3.0 standard schema and a library
partnered with 8.2.0 uses the 8.3.0 rules also for the library's tags — `é` is accepted in the group and
refused by the library alone (finding C13-mixed-generation-char-rules) -/
theorem generation_counterexample :
    ∃ (g : VGroup) (m : VMember), member g m.env.ns = some m ∧ aloneModern m = m.env.modern ∧
      groupModern g ≠ m.env.modern ∧
      charIssues (view g m) false ['s', ':', 'L', '/', 'é'] = [] ∧
      charIssues m.env false ['s', ':', 'L', '/', 'é'] ≠ [] :=
  ⟨[⟨{ vocab := Vocab.build id [], ns := [], attrs := #[], mods := [], unitClasses := #[], modern := true, cd := {} },
      none, some true, true⟩,
    ⟨{ vocab := Vocab.build id [], ns := ['s', ':'], attrs := #[], mods := [], unitClasses := #[], modern := false, cd := {} },
      some false, none, false⟩],
   ⟨{ vocab := Vocab.build id [], ns := ['s', ':'], attrs := #[], mods := [], unitClasses := #[], modern := false, cd := {} },
      some false, none, false⟩,
   rfl, by decide, by decide, by decide, by decide⟩

end GroupValidate

end HedVerif.C13
