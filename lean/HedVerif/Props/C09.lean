/-
C09 — Definitions expand to their declared content and shrink back losslessly.
Theorems about the model `HedVerif.Defs` (Model/Defs.lean), for all dictionaries, annotations, histories.
-/
import HedVerif.Model.Defs
namespace HedVerif.C09
open HedVerif.Defs

/-! ## Induction on trees and list views of the mutual functions -/

mutual
theorem node_ind (P : Node → Prop) (ht : ∀ t, P (.tag t)) (hg : ∀ ks, (∀ k ∈ ks, P k) → P (.grp ks)) :
    ∀ n, P n
  | .tag t => ht t
  | .grp ks => hg ks (list_ind P ht hg ks)
theorem list_ind (P : Node → Prop) (ht : ∀ t, P (.tag t)) (hg : ∀ ks, (∀ k ∈ ks, P k) → P (.grp ks)) :
    ∀ ks : List Node, ∀ k ∈ ks, P k
  | [] => by simp
  | k :: ks => by
    intro x hx
    rcases List.mem_cons.1 hx with h | h
    · rw [h]; exact node_ind P ht hg k
    · exact list_ind P ht hg ks x h
end

theorem map_eq_self {f : Node → Node} {l : List Node} : l.map f = l ↔ ∀ x ∈ l, f x = x := by
  induction l with
  | nil => simp
  | cons a l ih => simp [ih]

theorem any_congr' {f g : Node → Bool} {l : List Node} (h : ∀ x ∈ l, f x = g x) : l.any f = l.any g := by
  induction l with
  | nil => rfl
  | cons a l ih =>
    simp only [List.any_cons, h a (by simp), ih (fun x hx => h x (List.mem_cons_of_mem _ hx))]

theorem eraseL_map (ks : List Node) : eraseL ks = ks.map erase := by
  induction ks with
  | nil => simp [eraseL]
  | cons k ks ih => simp [eraseL, ih]

theorem sortL_map (ks : List Node) : sortL ks = ks.map sortN := by
  induction ks with
  | nil => simp [sortL]
  | cons k ks ih => simp [sortL, ih]

theorem allTagsL_flat (ks : List Node) : allTagsL ks = ks.flatMap allTags := by
  induction ks with
  | nil => simp [allTagsL]
  | cons k ks ih => simp [allTagsL, ih]

theorem mem_allTagsL {t : Tag} {ks : List Node} : t ∈ allTagsL ks ↔ ∃ k ∈ ks, t ∈ allTags k := by
  rw [allTagsL_flat]; simp [List.mem_flatMap]

theorem shrL_map (fix : Bool) (ks : List Node) : shrL fix ks = ks.map (shrN fix) := by
  induction ks with
  | nil => simp [shrL]
  | cons k ks ih => simp [shrL, ih]

theorem shrErrL_any (ks : List Node) : shrErrL ks = ks.any shrErrN := by
  induction ks with
  | nil => simp [shrErrL]
  | cons k ks ih => simp [shrErrL, ih]

theorem anyTagL_any (p : Bool → Tag → Bool) (g : Bool) (ks : List Node) :
    anyTagL p g ks = ks.any (anyTag p g) := by
  induction ks with
  | nil => simp [anyTagL]
  | cons k ks ih => simp [anyTagL, ih]

section
variable (fold : Str → Str)

theorem expL_map (fix : Bool) (dd : DefDict) (g : Bool) (ks : List Node) :
    expL fold fix dd g ks = ks.map (expN fold fix dd g) := by
  induction ks with
  | nil => simp [expL]
  | cons k ks ih => simp [expL, ih]

/-! ## Sorting only reorders siblings -/

theorem insertBy_perm (le : Node → Node → Bool) (x : Node) (l : List Node) :
    (insertBy le x l).Perm (x :: l) := by
  induction l with
  | nil => simp [insertBy]
  | cons y ys ih =>
    simp only [insertBy]
    split
    · exact List.Perm.refl _
    · exact (List.Perm.cons y ih).trans (List.Perm.swap x y ys)

theorem isort_perm (le : Node → Node → Bool) (l : List Node) : (isort le l).Perm l := by
  induction l with
  | nil => simp [isort]
  | cons x xs ih =>
    simp only [isort]
    exact (insertBy_perm le x _).trans (List.Perm.cons x ih)

theorem filter_tag_grp_perm (l : List Node) : (l.filter isTag ++ l.filter isGrp).Perm l := by
  induction l with
  | nil => simp
  | cons x xs ih =>
    cases x with
    | tag t =>
      have h : (Node.tag t :: (xs.filter isTag ++ xs.filter isGrp)).Perm (Node.tag t :: xs) := List.Perm.cons _ ih
      simpa [List.filter_cons, isTag, isGrp] using h
    | grp ks =>
      have h : (xs.filter isTag ++ Node.grp ks :: xs.filter isGrp).Perm (Node.grp ks :: xs) :=
        List.perm_middle.trans (List.Perm.cons _ ih)
      simpa [List.filter_cons, isTag, isGrp] using h

theorem arrange_perm (l : List Node) : (arrange l).Perm l := by
  unfold arrange
  exact (List.Perm.append (isort_perm _ _) (isort_perm _ _)).trans (filter_tag_grp_perm l)

/-- `sorted()` keeps, at every level, exactly the (recursively sorted) children: it only reorders siblings. -/
theorem sort_perm (ks : List Node) :
    (sortG ks).Perm (ks.map sortN) ∧ ∀ ls, sortN (.grp ls) = .grp (sortG ls) := by
  constructor
  · unfold sortG; rw [sortL_map]; exact arrange_perm _
  · intro ls; simp [sortN, sortG]

theorem mem_arrange {n : Node} {l : List Node} : n ∈ arrange l ↔ n ∈ l := (arrange_perm l).mem_iff

theorem mem_allTags_sortN (t : Tag) : ∀ n, t ∈ allTags (sortN n) ↔ t ∈ allTags n := by
  apply node_ind
  · intro u; simp [sortN]
  · intro ks ih
    simp only [sortN, allTags, mem_allTagsL, mem_arrange, sortL_map, List.mem_map]
    constructor
    · rintro ⟨k, ⟨m, hm, rfl⟩, hk⟩; exact ⟨m, hm, (ih m hm).1 hk⟩
    · rintro ⟨m, hm, hk⟩; exact ⟨sortN m, ⟨m, hm, rfl⟩, (ih m hm).2 hk⟩

theorem mem_allTagsL_sortG {t : Tag} {ks : List Node} : t ∈ allTagsL (sortG ks) ↔ t ∈ allTagsL ks := by
  have := mem_allTags_sortN t (.grp ks)
  simpa [sortN, allTags, sortG] using this

theorem mem_allTags_erase (t : Tag) : ∀ n, t ∈ allTags (erase n) ↔ ∃ u ∈ allTags n, t = u.erase := by
  apply node_ind
  · intro u; simp [erase, allTags]
  · intro ks ih
    simp only [erase, allTags, mem_allTagsL, eraseL_map, List.mem_map]
    constructor
    · rintro ⟨k, ⟨m, hm, rfl⟩, hk⟩
      obtain ⟨u, hu, rfl⟩ := (ih m hm).1 hk
      exact ⟨u, ⟨m, hm, hu⟩, rfl⟩
    · rintro ⟨u, ⟨m, hm, hu⟩, rfl⟩
      exact ⟨erase m, ⟨m, hm, rfl⟩, (ih m hm).2 ⟨u, hu, rfl⟩⟩

theorem mem_allTagsL_eraseL {t : Tag} {ks : List Node} :
    t ∈ allTagsL (eraseL ks) ↔ ∃ u ∈ allTagsL ks, t = u.erase := by
  have := mem_allTags_erase t (.grp ks)
  simpa [erase, allTags] using this

theorem erase_erase : ∀ n, erase (erase n) = erase n := by
  apply node_ind
  · intro t; simp [erase, Tag.erase]
  · intro ks ih
    simp only [erase, eraseL_map, List.map_map, Node.grp.injEq]
    exact List.map_congr_left (fun k hk => by simpa using ih k hk)

theorem eraseL_eraseL (ks : List Node) : eraseL (eraseL ks) = eraseL ks := by
  have := erase_erase (.grp ks)
  simpa [erase] using this


/-! ## Acceptance of a definition (`check_for_definitions`) -/

/-- placeholder tags of a content: tags whose printout has a `#` -/
def phTags (cs : List Node) : List Tag := (allTagsL cs).filter (fun t => decide (t.hashes ≥ 1))

/-- The listed conditions for the top-level group with children `ks` anchored by the Definition tag `dt`. -/
structure Acceptable (dt : Tag) (ks : List Node) : Prop where
  /-- at most one inner group -/
  groups : (groupsOf ks).length ≤ 1
  /-- no content group and a `#` in the name is rejected -/
  content : (groupsOf ks).length = 0 → ¬ '#' ∈ dt.extension
  /-- the Definition tag is the only tag of the group -/
  oneTag : (tagsOf ks).length = 1
  /-- the name (without a final `/#`) has no slash and no `#` -/
  nameSlash : ¬ '/' ∈ (stripValue dt.extension).1
  nameHash : ¬ '#' ∈ (stripValue dt.extension).1
  /-- nothing definition-related, unique or required inside, and no tag with two `#` -/
  inner : ∀ t ∈ allTagsL (contentOf ks), t.base = .other ∧ t.uniqReq = false ∧ t.hashes ≤ 1
  /-- exactly one placeholder tag iff the name ends in `/#` -/
  placeholders : (phTags (contentOf ks)).length = 1 ↔ (stripValue dt.extension).2 = true
  /-- and that tag takes a value -/
  takesValue : (stripValue dt.extension).2 = true → ∀ p, (phTags (contentOf ks)).head? = some p → p.takesValue = true

/-- the entry stored for an accepted definition: folded key, name, sorted fresh copy of the content -/
def newEntry (dt : Tag) (ks : List Node) : Entry :=
  ⟨fold (stripValue dt.extension).1, (stripValue dt.extension).1, eraseL (sortG (contentOf ks)),
   (stripValue dt.extension).2⟩

theorem findGroupIssues_nil (dt : Tag) (ks : List Node) :
    findGroupIssues dt ks = [] ↔
      (groupsOf ks).length ≤ 1 ∧ ((groupsOf ks).length = 0 → ¬ '#' ∈ dt.extension) ∧ (tagsOf ks).length = 1 := by
  unfold findGroupIssues
  by_cases h1 : (groupsOf ks).length > 1
  · simp [h1]; omega
  · by_cases h2 : (groupsOf ks).length = 0
    · by_cases h3 : '#' ∈ dt.extension <;> simp [h2, h3]
    · have : (groupsOf ks).length = 1 := by omega
      simp [this]

theorem contentIssues_nil (cs : List Node) :
    contentIssues cs = [] ↔ ∀ t ∈ allTagsL cs, t.base = .other ∧ t.uniqReq = false := by
  simp only [contentIssues, List.append_eq_nil_iff, List.map_eq_nil_iff, List.filter_eq_nil_iff, Tag.isDefish]
  constructor
  · rintro ⟨h1, h2⟩ t ht
    have a := h1 t ht; have b := h2 t ht
    simp at a b; exact ⟨a, b⟩
  · intro h
    constructor <;> intro t ht <;> simp [(h t ht).1, (h t ht).2]

theorem placeholderIssues_nil (cs : List Node) (takes : Bool) :
    placeholderIssues cs takes = [] ↔
      (∀ t ∈ allTagsL cs, t.hashes ≤ 1) ∧ ((phTags cs).length = 1 ↔ takes = true) ∧
      (takes = true → ∀ p, (phTags cs).head? = some p → p.takesValue = true) := by
  unfold placeholderIssues phTags
  have hbad : ((allTagsL cs).filter (fun t => decide (t.hashes > 1))).isEmpty = true ↔
      ∀ t ∈ allTagsL cs, t.hashes ≤ 1 := by
    simp [List.isEmpty_iff, List.filter_eq_nil_iff]
  generalize (allTagsL cs).filter (fun t => decide (t.hashes ≥ 1)) = ph
  by_cases hb : ((allTagsL cs).filter (fun t => decide (t.hashes > 1))).isEmpty = true
  · have hb' := hbad.1 hb
    simp only [hb, if_true, List.nil_append]
    cases takes <;> cases hl : (ph.length == 1)
    all_goals simp_all
    · cases ph with
      | nil => simp at hl
      | cons p r => cases hp : p.takesValue <;> simp_all
  · have : ¬ ∀ t ∈ allTagsL cs, t.hashes ≤ 1 := fun h => hb (hbad.2 h)
    simp [hb, this]

theorem acceptable_iff (dt : Tag) (ks : List Node) :
    Acceptable dt ks ↔
      (findGroupIssues dt ks ++
        (if (stripValue dt.extension).1.contains '/' || (stripValue dt.extension).1.contains '#'
         then [Issue.invalidDefExtension] else [])) = [] ∧
      (contentIssues (contentOf ks) ++ placeholderIssues (contentOf ks) (stripValue dt.extension).2) = [] := by
  simp only [List.append_eq_nil_iff, findGroupIssues_nil, contentIssues_nil, placeholderIssues_nil]
  constructor
  · intro h
    refine ⟨⟨⟨h.groups, h.content, h.oneTag⟩, ?_⟩, ⟨fun t ht => ⟨(h.inner t ht).1, (h.inner t ht).2.1⟩,
      fun t ht => (h.inner t ht).2.2, h.placeholders, h.takesValue⟩⟩
    simp [h.nameSlash, h.nameHash]
  · rintro ⟨⟨⟨a, b, c⟩, d⟩, e, f, g, i⟩
    have d' : ¬ '/' ∈ (stripValue dt.extension).1 ∧ ¬ '#' ∈ (stripValue dt.extension).1 := by
      by_cases h1 : '/' ∈ (stripValue dt.extension).1 <;> by_cases h2 : '#' ∈ (stripValue dt.extension).1 <;>
        simp_all
    exact ⟨a, b, c, d'.1, d'.2, fun t ht => ⟨(e t ht).1, (e t ht).2, f t ht⟩, g, i⟩

def issues1 (dt : Tag) (ks : List Node) : List Issue :=
  findGroupIssues dt ks ++
    (if (stripValue dt.extension).1.contains '/' || (stripValue dt.extension).1.contains '#'
     then [Issue.invalidDefExtension] else [])
def issues2 (dt : Tag) (ks : List Node) : List Issue :=
  contentIssues (contentOf ks) ++ placeholderIssues (contentOf ks) (stripValue dt.extension).2

theorem accept_def (dd : DefDict) (dt : Tag) (ks : List Node) :
    accept fold dd dt ks =
      if !(issues1 dt ks).isEmpty then (dd, issues1 dt ks)
      else if !(issues2 dt ks).isEmpty then (dd, issues2 dt ks)
      else if (lookup dd (fold (stripValue dt.extension).1)).isSome then (dd, [Issue.duplicateDefinition])
      else (dd ++ [newEntry fold dt ks], []) := rfl

/-- **accept_iff**: a definition is added (as a sorted fresh copy under its folded name, nothing reported)
exactly when all listed conditions hold and the name is new; otherwise the dictionary is unchanged and at least
one issue is reported. -/
theorem accept_iff (dd : DefDict) (dt : Tag) (ks : List Node) :
    (Acceptable dt ks ∧ lookup dd (fold (stripValue dt.extension).1) = none →
        accept fold dd dt ks = (dd ++ [newEntry fold dt ks], [])) ∧
    (¬ (Acceptable dt ks ∧ lookup dd (fold (stripValue dt.extension).1) = none) →
        (accept fold dd dt ks).1 = dd ∧ (accept fold dd dt ks).2 ≠ []) := by
  have hA : Acceptable dt ks ↔ issues1 dt ks = [] ∧ issues2 dt ks = [] := acceptable_iff dt ks
  rw [accept_def]
  constructor
  · rintro ⟨h, hl⟩
    obtain ⟨h1, h2⟩ := hA.1 h
    simp [h1, h2, hl]
  · intro hn
    by_cases h1 : issues1 dt ks = []
    · by_cases h2 : issues2 dt ks = []
      · cases hl : lookup dd (fold (stripValue dt.extension).1) with
        | none => exact absurd ⟨hA.2 ⟨h1, h2⟩, hl⟩ hn
        | some e => simp [h1, h2]
      · simp [h1, h2]
    · simp [h1]

/-- **accept_duplicate**: an otherwise acceptable definition whose folded name is already present yields exactly
one issue (duplicate definition) and leaves the dictionary — hence the first definition — unchanged. -/
theorem accept_duplicate (dd : DefDict) (dt : Tag) (ks : List Node) (e : Entry)
    (h : Acceptable dt ks) (hl : lookup dd (fold (stripValue dt.extension).1) = some e) :
    accept fold dd dt ks = (dd, [Issue.duplicateDefinition]) := by
  have hA : Acceptable dt ks ↔ issues1 dt ks = [] ∧ issues2 dt ks = [] := acceptable_iff dt ks
  obtain ⟨h1, h2⟩ := hA.1 h
  rw [accept_def]
  simp [h1, h2, hl]


/-! ## Dictionaries built by `accept` are good -/

/-- nothing definition-related below this node -/
def NoDef (n : Node) : Prop := ∀ t ∈ allTags n, t.base = .other

/-- stored content: no Def/Def-expand/Definition inside, tags fresh; a value-taking entry has a placeholder -/
def GoodEntry (e : Entry) : Prop :=
  (∀ k ∈ e.content, NoDef k) ∧ eraseL e.content = e.content ∧
  (e.takes = true → ∃ t ∈ allTagsL e.content, t.hashes ≥ 1)

def Good (dd : DefDict) : Prop := ∀ e ∈ dd, GoodEntry e

theorem good_nil : Good [] := by intro e he; simp at he

theorem hashes_erase (t : Tag) : t.erase.hashes = t.hashes := rfl

/-- **accept_good**: every dictionary reachable from the empty one through `accept` is good. -/
theorem accept_good (dd : DefDict) (dt : Tag) (ks : List Node) (hg : Good dd) :
    Good (accept fold dd dt ks).1 := by
  by_cases h : Acceptable dt ks ∧ lookup dd (fold (stripValue dt.extension).1) = none
  · rw [(accept_iff fold dd dt ks).1 h]
    intro e he
    rcases List.mem_append.1 he with he | he
    · exact hg e he
    · simp only [List.mem_singleton] at he
      subst he
      obtain ⟨ha, _⟩ := h
      refine ⟨?_, ?_, ?_⟩
      · intro k hk t ht
        have : t ∈ allTagsL (eraseL (sortG (contentOf ks))) := mem_allTagsL.2 ⟨k, hk, ht⟩
        obtain ⟨u, hu, rfl⟩ := mem_allTagsL_eraseL.1 this
        exact (ha.inner u (mem_allTagsL_sortG.1 hu)).1
      · exact eraseL_eraseL _
      · intro ht
        have h1 : (phTags (contentOf ks)).length = 1 := ha.placeholders.2 ht
        cases hp : phTags (contentOf ks) with
        | nil => simp [hp] at h1
        | cons p r =>
          have hm : p ∈ phTags (contentOf ks) := by simp [hp]
          simp only [phTags, List.mem_filter, decide_eq_true_eq] at hm
          exact ⟨p.erase, mem_allTagsL_eraseL.2 ⟨p, mem_allTagsL_sortG.2 hm.1, rfl⟩, by rw [hashes_erase]; exact hm.2⟩
  · rw [((accept_iff fold dd dt ks).2 h).1]; exact hg

theorem acceptString_good (dd : DefDict) (root : List Node) (hg : Good dd) :
    Good (acceptString fold dd root).1 := by
  unfold acceptString
  generalize groupsOf root = gs
  suffices h : ∀ acc : DefDict × List Issue, Good acc.1 →
      Good (gs.foldl (fun acc ks => match defTagOf ks with
        | some dt => ((accept fold acc.1 dt ks).1, acc.2 ++ (accept fold acc.1 dt ks).2)
        | none => acc) acc).1 from h (dd, []) hg
  induction gs with
  | nil => intro acc h; simpa using h
  | cons g gs ih =>
    intro acc h
    simp only [List.foldl_cons]
    apply ih
    cases defTagOf g with
    | none => exact h
    | some dt => exact accept_good fold acc.1 dt g h

/-! ### plugging the value -/

theorem plug_found (v : Str) : ∀ n, (plugN v n).2 = true ↔ ∃ t ∈ allTags n, t.hashes ≥ 1 := by
  apply node_ind
  · intro t
    by_cases h : t.hashes ≥ 1 <;> simp [plugN, allTags, h]
  · intro ks ih
    simp only [plugN, allTags]
    induction ks with
    | nil => simp [plugL, allTagsL]
    | cons k r ihr =>
      have hk := ih k (by simp)
      have hr := ihr (fun x hx => ih x (List.mem_cons_of_mem _ hx))
      simp only [plugL, allTagsL, List.mem_append]
      by_cases hf : (plugN v k).2 = true
      · simp only [hf, if_true, true_iff]
        obtain ⟨t, ht, h⟩ := hk.1 hf
        exact ⟨t, Or.inl ht, h⟩
      · simp only [hf, Bool.false_eq_true, if_false]
        rw [hr]
        constructor
        · rintro ⟨t, ht, h⟩; exact ⟨t, Or.inr ht, h⟩
        · rintro ⟨t, ht | ht, h⟩
          · exact absurd (hk.2 ⟨t, ht, h⟩) hf
          · exact ⟨t, ht, h⟩

theorem plugL_found (v : Str) (ks : List Node) :
    (plugL v ks).2 = true ↔ ∃ t ∈ allTagsL ks, t.hashes ≥ 1 := by
  have := plug_found v (.grp ks)
  simpa [plugN, allTags] using this

theorem plug_nodef (v : Str) : ∀ n, NoDef n → NoDef (plugN v n).1 := by
  apply node_ind
  · intro t h u hu
    have hb := h t (by simp [allTags])
    by_cases hh : t.hashes ≥ 1 <;> simp [plugN, hh, allTags] at hu <;> subst hu
    · simpa [plugTag] using hb
    · exact hb
  · intro ks ih h
    have hks : ∀ k ∈ ks, NoDef k := fun k hk t ht => h t (by simp only [allTags]; exact mem_allTagsL.2 ⟨k, hk, ht⟩)
    suffices hl : ∀ k ∈ (plugL v ks).1, NoDef k by
      intro t ht
      simp only [plugN, allTags] at ht
      obtain ⟨k, hk, hkt⟩ := mem_allTagsL.1 ht
      exact hl k hk t hkt
    clear h
    induction ks with
    | nil => simp [plugL]
    | cons k r ihr =>
      intro x hx
      simp only [plugL] at hx
      split at hx
      · rcases List.mem_cons.1 hx with rfl | hx
        · exact ih k (by simp) (hks k (by simp))
        · exact hks x (List.mem_cons_of_mem _ hx)
      · rcases List.mem_cons.1 hx with rfl | hx
        · exact hks _ (by simp)
        · exact ihr (fun y hy => ih y (List.mem_cons_of_mem _ hy)) (fun y hy => hks y (List.mem_cons_of_mem _ hy)) x hx

theorem plugL_nodef (v : Str) (ks : List Node) (h : ∀ k ∈ ks, NoDef k) : ∀ k ∈ (plugL v ks).1, NoDef k := by
  have hg : NoDef (.grp ks) := fun t ht => by
    simp only [allTags] at ht
    obtain ⟨k, hk, hkt⟩ := mem_allTagsL.1 ht
    exact h k hk t hkt
  have := plug_nodef v (.grp ks) hg
  intro k hk t ht
  exact this t (by simp only [plugN, allTags]; exact mem_allTagsL.2 ⟨k, hk, ht⟩)

theorem plug_erase (v : Str) : ∀ n, erase n = n → erase (plugN v n).1 = (plugN v n).1 := by
  apply node_ind
  · intro t h
    simp only [erase, Node.tag.injEq] at h
    by_cases hh : t.hashes ≥ 1 <;> simp only [plugN, hh, if_true, if_false, erase, Node.tag.injEq]
    · rw [← h]; rfl
    · exact h
  · intro ks ih h
    simp only [erase, Node.grp.injEq] at h
    simp only [plugN, erase, Node.grp.injEq]
    have hks : ∀ k ∈ ks, erase k = k := by
      intro k hk
      rw [eraseL_map] at h
      exact (map_eq_self.1 h) k hk  -- placeholder
    clear h
    induction ks with
    | nil => simp [plugL, eraseL]
    | cons k r ihr =>
      simp only [plugL]
      split
      · simp only [eraseL, List.cons.injEq]
        refine ⟨ih k (by simp) (hks k (by simp)), ?_⟩
        rw [eraseL_map]
        exact map_eq_self.2 (fun x hx => hks x (List.mem_cons_of_mem _ hx))
      · simp only [eraseL, List.cons.injEq]
        exact ⟨hks k (by simp), ihr (fun y hy => ih y (List.mem_cons_of_mem _ hy))
          (fun y hy => hks y (List.mem_cons_of_mem _ hy))⟩

theorem plugL_erase (v : Str) (ks : List Node) (h : eraseL ks = ks) : eraseL (plugL v ks).1 = (plugL v ks).1 := by
  have := plug_erase v (.grp ks) (by simp [erase, h])
  simpa [plugN, erase] using this

/-- what the rest of the development needs from a good dictionary -/
theorem good_expansion (dd : DefDict) (hg : Good dd) (t : Tag) :
    (expansion fold dd t ≠ .internal) ∧
    ∀ cs, expansion fold dd t = .ok cs → (∀ k ∈ cs, NoDef k) ∧ eraseL cs = cs := by
  unfold expansion
  cases hl : lookup dd (fold (labelOf t)) with
  | none => simp
  | some e =>
    have he : e ∈ dd := List.mem_of_find?_eq_some hl
    obtain ⟨h1, h2, h3⟩ := hg e he
    simp only
    split
    · simp
    · rename_i hm
      split
      · refine ⟨by simp, ?_⟩
        intro cs hcs; cases hcs; simp [eraseL]
      · split
        · refine ⟨by simp, ?_⟩
          intro cs hcs; cases hcs
          refine ⟨?_, by simp [eraseL, erase, h2]⟩
          intro k hk; simp only [List.mem_singleton] at hk; subst hk
          intro u hu; simp only [allTags] at hu
          obtain ⟨k, hk, hku⟩ := mem_allTagsL.1 hu
          exact h1 k hk u hku
        · rename_i hv
          have htk : e.takes = true := by
            cases ht : e.takes
            · simp [ht, hv] at hm
            · rfl
          have hf : (plugL (valueOf t) e.content).2 = true := (plugL_found _ _).2 (h3 htk)
          simp only [hf, if_true]
          refine ⟨by simp, ?_⟩
          intro cs hcs; cases hcs
          refine ⟨?_, by simp [eraseL, erase, plugL_erase _ _ h2]⟩
          intro k hk; simp only [List.mem_singleton] at hk; subst hk
          intro u hu; simp only [allTags] at hu
          obtain ⟨k, hk, hku⟩ := mem_allTagsL.1 hu
          exact plugL_nodef _ _ h1 k hk u hku


/-! ## The two rewrites the property speaks of, on plain trees -/

/-- `Def/n[/v]` with `n` defined and matching value presence becomes `(Def-expand/n[/v], content[# := v])` -/
def sETag (dd : DefDict) (t : Tag) : Node :=
  if t.base = .def_ then
    match expansion fold dd t with
    | .ok cs => .grp (.tag { t with base := .defExpand } :: cs)
    | _ => .tag t
  else .tag t

mutual
/-- expansion of every such tag, nothing else changed -/
def sEN (dd : DefDict) : Node → Node
  | .tag t => sETag fold dd t
  | .grp ks => .grp (sEL dd ks)
def sEL (dd : DefDict) : List Node → List Node
  | [] => []
  | k :: ks => sEN dd k :: sEL dd ks
end

mutual
/-- every outermost parenthesised group holding a Def-expand tag becomes that tag renamed `Def` -/
def sSN : Node → Node
  | .tag t => .tag t
  | .grp ks => match deTags ks with
    | [] => .grp (sSL ks)
    | t :: _ => .tag { t with base := .def_ }
def sSL : List Node → List Node
  | [] => []
  | k :: ks => sSN k :: sSL ks
end

theorem sEL_map (dd : DefDict) (ks : List Node) : sEL fold dd ks = ks.map (sEN fold dd) := by
  induction ks with
  | nil => simp [sEL]
  | cons k ks ih => simp [sEL, ih]

theorem sSL_map (ks : List Node) : sSL ks = ks.map sSN := by
  induction ks with
  | nil => simp [sSL]
  | cons k ks ih => simp [sSL, ih]

theorem nodef_kids {ks : List Node} (h : NoDef (.grp ks)) : ∀ k ∈ ks, NoDef k :=
  fun k hk t ht => h t (by simp only [allTags]; exact mem_allTagsL.2 ⟨k, hk, ht⟩)

theorem mem_tagsOf {t : Tag} {ks : List Node} : t ∈ tagsOf ks ↔ Node.tag t ∈ ks := by
  induction ks with
  | nil => simp [tagsOf]
  | cons k r ih => cases k <;> simp [tagsOf, ih]

theorem deTags_nodef {ks : List Node} (h : ∀ k ∈ ks, NoDef k) : deTags ks = [] := by
  simp only [deTags, List.filter_eq_nil_iff]
  intro t ht
  have := h _ (mem_tagsOf.1 ht) t (by simp [allTags])
  simp [this]

/-- content of a good dictionary is inert under both rewrites and never makes `shrink_defs` fail -/
theorem nodef_inert (dd : DefDict) : ∀ n, NoDef n → sEN fold dd n = n ∧ sSN n = n ∧ shrErrN n = false := by
  apply node_ind
  · intro t h
    have := h t (by simp [allTags])
    simp [sEN, sETag, sSN, shrErrN, this]
  · intro ks ih h
    have hk := nodef_kids h
    have hd := deTags_nodef hk
    refine ⟨?_, ?_, ?_⟩
    · simp only [sEN, sEL_map, Node.grp.injEq]; exact map_eq_self.2 (fun k hx => (ih k hx (hk k hx)).1)
    · simp only [sSN, hd, sSL_map, Node.grp.injEq]; exact map_eq_self.2 (fun k hx => (ih k hx (hk k hx)).2.1)
    · simp only [shrErrN, hd, shrErrL_any, List.length_nil]
      have : ks.any shrErrN = false := by
        simp only [List.any_eq_false]; intro k hx; simp [(ih k hx (hk k hx)).2.2]
      simp [this]

theorem nodefL_inert (dd : DefDict) (cs : List Node) (h : ∀ k ∈ cs, NoDef k) :
    sEL fold dd cs = cs ∧ sSL cs = cs ∧ shrErrL cs = false ∧ deTags cs = [] := by
  refine ⟨?_, ?_, ?_, deTags_nodef h⟩
  · rw [sEL_map]; exact map_eq_self.2 (fun k hk => (nodef_inert fold dd k (h k hk)).1)
  · rw [sSL_map]; exact map_eq_self.2 (fun k hk => (nodef_inert fold dd k (h k hk)).2.1)
  · rw [shrErrL_any]; simp only [List.any_eq_false]; intro k hk; simp [(nodef_inert fold dd k (h k hk)).2.2]

/-- direct Def-expand tags of a group are not touched by the expansion rewrite -/
theorem deTags_sEL (dd : DefDict) (ks : List Node) : deTags (sEL fold dd ks) = deTags ks := by
  induction ks with
  | nil => simp [sEL]
  | cons k r ih =>
    simp only [deTags] at ih ⊢
    cases k with
    | grp ls => simpa [sEL, sEN, tagsOf] using ih
    | tag t =>
      simp only [sEL, sEN, sETag]
      by_cases hb : t.base = .def_
      · simp only [hb, if_true]
        cases expansion fold dd t <;> simp [tagsOf, List.filter_cons, hb, ih]
      · simp only [hb, if_false, tagsOf, List.filter_cons, ih]

theorem deTags_sSL (ks : List Node) : deTags (sSL ks) = deTags ks := by
  induction ks with
  | nil => simp [sSL]
  | cons k r ih =>
    simp only [deTags] at ih ⊢
    cases k with
    | tag t => simp only [sSL, sSN, tagsOf, List.filter_cons, ih]
    | grp ls =>
      simp only [sSL, sSN]
      cases deTags ls <;> simp [tagsOf, List.filter_cons, ih]

variable {dd : DefDict} (hg : Good dd)
include hg

theorem sE_idem : ∀ n, sEN fold dd (sEN fold dd n) = sEN fold dd n := by
  apply node_ind
  · intro t
    simp only [sEN, sETag]
    by_cases hb : t.base = .def_
    · simp only [hb, if_true]
      cases he : expansion fold dd t with
      | ok cs =>
        have hc := ((good_expansion fold dd hg t).2 cs he).1
        simp [sEN, sEL, sETag, (nodefL_inert fold dd cs hc).1]
      | noEntry => simp [sEN, sETag, hb, he]
      | mismatch b => simp [sEN, sETag, hb, he]
      | internal => simp [sEN, sETag, hb, he]
    · simp [hb, sEN, sETag]
  · intro ks ih
    simp only [sEN, sEL_map, List.map_map, Node.grp.injEq]
    exact List.map_congr_left (fun k hk => by simpa using ih k hk)

theorem sS_sE : ∀ n, sSN (sEN fold dd n) = sSN n := by
  apply node_ind
  · intro t
    simp only [sEN, sETag]
    by_cases hb : t.base = .def_
    · simp only [hb, if_true]
      cases he : expansion fold dd t with
      | ok cs =>
        have hc := ((good_expansion fold dd hg t).2 cs he).1
        have hd := (nodefL_inert fold dd cs hc).2.2.2
        simp only [deTags] at hd
        simp only [sSN, deTags, tagsOf, List.filter_cons_of_pos, beq_self_eq_true, Node.tag.injEq]
        cases t; simp_all
      | noEntry => simp [sSN]
      | mismatch b => simp [sSN]
      | internal => simp [sSN]
    · simp [hb, sSN]
  · intro ks ih
    simp only [sEN, sSN, deTags_sEL]
    cases deTags ks with
    | nil =>
      simp only [sSL_map, sEL_map, List.map_map, Node.grp.injEq]
      exact List.map_congr_left (fun k hk => by simpa using ih k hk)
    | cons t r => rfl

omit hg in
theorem sS_idem : ∀ n, sSN (sSN n) = sSN n := by
  apply node_ind
  · intro t; simp [sSN]
  · intro ks ih
    cases hd : deTags ks with
    | nil =>
      simp only [sSN, hd, deTags_sSL]
      simp only [sSL_map, List.map_map, Node.grp.injEq]
      exact List.map_congr_left (fun k hk => by simpa using ih k hk)
    | cons t r => simp [sSN, hd]

theorem shrErr_sE : ∀ n, shrErrN (sEN fold dd n) = shrErrN n := by
  apply node_ind
  · intro t
    simp only [sEN, sETag]
    by_cases hb : t.base = .def_
    · simp only [hb, if_true]
      cases he : expansion fold dd t with
      | ok cs =>
        have hc := ((good_expansion fold dd hg t).2 cs he).1
        have hi := nodefL_inert fold dd cs hc
        have hd := hi.2.2.2
        simp only [deTags] at hd
        simp [shrErrN, shrErrL, deTags, tagsOf, hd, hi.2.2.1]
      | noEntry => rfl
      | mismatch b => rfl
      | internal => rfl
    · simp [hb]
  · intro ks ih
    simp only [sEN, shrErrN, deTags_sEL]
    rw [shrErrL_any, shrErrL_any, sEL_map, List.any_map]
    congr 1
    exact any_congr' (fun k hk => by simpa using ih k hk)

omit hg in
theorem shrErr_sS : ∀ n, shrErrN n = false → shrErrN (sSN n) = false := by
  apply node_ind
  · intro t _; simp [sSN, shrErrN]
  · intro ks ih h
    simp only [shrErrN, Bool.or_eq_false_iff, shrErrL_any, List.any_eq_false] at h
    cases hd : deTags ks with
    | cons t r => simp [sSN, hd, shrErrN]
    | nil =>
      simp only [sSN, hd, shrErrN, deTags_sSL, List.length_nil]
      rw [shrErrL_any, sSL_map, List.any_map]
      have : ks.any (shrErrN ∘ sSN) = false := by
        simp only [List.any_eq_false]
        intro k hk
        have := ih k hk (by simpa using h.2 k hk)
        simpa using this
      simp [this]

end

end HedVerif.C09
